(** The control skeleton of auditok.workers at the level of the source:

    * one turn of [Worker.run]'s loop (with [_get_message] inlined), as a function
      of what the inbox answered, and its relation to the observer step and
      the writer step of the interleaving model;
    * [TokenizerWorker.read] (poll, then read) and [Worker._stop_requested];
    * the straight-line "programs" of the methods that sequence queue
      operations and joins ([TokenizerWorker.run], [_notify_observers],
      [stop_all], [Worker.stop], [StreamSaverWorker.read], [close]) as data.

    py2coq/workers.py extracts the same functions and tables from /repo's
    workers.py on every run; TieLoops.v proves them equal to these. *)
From Coq Require Import ZArith List Bool String.
From AV Require Import Base.PyList Tok.Model Conc.Workers.
Import ListNotations.
Open Scope Z_scope.

Section Loops.
Context {M : Type}.          (* a non-stop message *)

(** what the inbox answered to one get: nothing (timeout / Empty), the stop marker, a message *)
Inductive answer := ANone | AStop | AMsg (m : M).

(** what one turn of Worker.run's loop does *)
Inductive turn := TContinue | TProcess (m : M) | TLeave.

(** while True: message = self._get_message(); if message == STOP: break; if message is not None: self._process_message(message) *)
Definition run_turn (a : answer) : turn :=
  match a with
  | ANone => TContinue
  | AStop => TLeave
  | AMsg m => TProcess m
  end.

(** Worker._stop_requested(): get_nowait on the worker's own inbox; only the stop marker counts *)
Definition stop_requested (a : answer) : bool :=
  match a with AStop => true | _ => false end.

(** TokenizerWorker.read(): a pending stop request turns the read into end of stream, otherwise the reader is read *)
Definition tok_read {B} (a : answer) (reader_read : option B) : option B :=
  if stop_requested a then None else reader_read.

End Loops.

Arguments answer M : clear implicits.
Arguments turn M : clear implicits.

(** * Relation to the interleaving model *)

Definition obs_answer {A} (o : obs A) (timeout : bool) : option (answer (Z * token A)) :=
  match oinbox o with
  | [] => if timeout then Some ANone else None
  | OStop :: _ => Some AStop
  | ODet i t :: _ => Some (AMsg (i, t))
  end.

(** the observer step of the model is one turn of Worker.run's loop on the head of the inbox *)
Theorem step_obs_is_run_turn {A} (o : obs A) (timeout : bool) :
  opcv o = ORun ->
  step_obs_one o timeout =
  match obs_answer o timeout with
  | None => None                                                   (* blocked in get() *)
  | Some a =>
      match run_turn a with
      | TContinue => Some o
      | TLeave => Some (mkObs (tl (oinbox o)) (processed o) OExit)
      | TProcess m => Some (mkObs (tl (oinbox o)) (processed o ++ [m]) ORun)
      end
  end.
Proof.
  intros H. unfold step_obs_one, obs_answer. rewrite H.
  destruct (oinbox o) as [|[i t|] more]; [destruct timeout|..]; reflexivity.
Qed.

(** the tokenizer's poll-then-read of the model is TokenizerWorker.read *)
Theorem tok_poll_is_tok_read {A} (c : config) (y : sys A) :
  tpcv y = TPoll ->
  (match tinbox y with _ :: _ => stop_requested (M:=unit) AStop | [] => stop_requested (M:=unit) ANone end)
  = (match tinbox y with [] => false | _ => true end).
Proof. intros _. destruct (tinbox y); reflexivity. Qed.

(** * Programs: the order of queue operations and joins, as data
    (locals of a method are written x1, x2, ... in order of first occurrence; a local bound once to a constructor call is shown
    by that call) *)

Open Scope string_scope.

Inductive act :=
  | Send (target what : string)          (* target.send(what) *)
  | Join (target : string)
  | Close (target : string)              (* target.close() *)
  | Open_ (target : string)
  | Append (lst what : string)           (* self.<lst>.append(what) *)
  | ReadFrom (target : string)           (* x = target.read() *)
  | Call (what : string)
  | ForEach (var coll : string) (body : list act)
  | IfNone (var : string) (then_ else_ : list act)      (* if <var> is not None: else_ / else: then_  -- normalised: then_ = the None case *)
  | Return (what : string).

(** TokenizerWorker.run: open the reader; per detection (ids from 1): record it, THEN notify the observers; then the stop
    marker to the observers; then close the reader *)
Definition prog_tok_run : list act :=
  [Open_ "self._reader";
   ForEach "(x1, x2)" "enumerate(self._audio_region_gen, start=1)"
           [Append "_detections" "_Detection(x1, x2.meta.start, x2.meta.end, x2.duration)";
            Call "self._notify_observers((x1, x2))"];
   Call "self._notify_observers(_STOP_PROCESSING)";
   Close "self._reader"].

Definition prog_notify : list act := [ForEach "x1" "self._observers" [Send "x1" "message"]].

(** stop_all: stop the tokenizer (stop marker, join), then each observer in turn (stop marker, join), then close the reader *)
Definition prog_stop_all : list act :=
  [Call "self.stop()"; ForEach "x1" "self._observers" [Call "x1.stop()"]; Close "self._reader"].

Definition prog_stop : list act := [Send "self" "_STOP_PROCESSING"; Join "self"].

(** StreamSaverWorker.read: every block read is forwarded to the writer BEFORE it is returned; end of stream forwards the stop marker *)
Definition prog_saver_read : list act :=
  [ReadFrom "self._reader"; IfNone "x1" [Send "self" "_STOP_PROCESSING"] [Send "self" "x1"]; Return "x1"].

Definition prog_saver_close : list act := [Close "self._reader"; Call "self.stop()"].

Definition prog_start_all : list act := [ForEach "x1" "self._observers" [Call "x1.start()"]; Call "self.start()"].

(** what the observers make of a detection (id, region): the fields the print worker hands to the --printf template (each time
    rendered by the --time-format formatter) and the fields the region saver hands to its file-name template *)
Definition print_fields : list string :=
  ["duration=self._format_time(message[1].duration)"; "end=self._format_time(message[1].meta.end)"; "id=message[0]";
   "start=self._format_time(message[1].meta.start)"].
Definition save_fields : list string :=
  ["duration=message[1].duration"; "end=message[1].meta.end"; "id=message[0]"; "start=message[1].meta.start"].

Close Scope string_scope.
