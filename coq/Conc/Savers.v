(** The file-writing workers at the level of their methods (definitions and
    the theorems that connect them to the interleaving model and to join):

      StreamSaverWorker._process_message / _write_cached_data / the drain loop
      of _post_process                       (writer state: cache, byte count, file)
      AudioEventsJoinerWorker._write_audio_event   (joiner state: first-event flag, file)

    A block is an element of an abstract type [A] with a size [bsz]; a file is
    the list of blocks written so far (its bytes are their concatenation). *)
From Coq Require Import ZArith List Bool Lia.
From AV Require Import Base.PyList Tok.Model Conc.Workers.
Import ListNotations.
Open Scope Z_scope.

Section Savers.
Context {A : Type}.
Variable bsz : A -> Z.
Variable cache_size : Z.

Record wstate := mkW { wcache : list A; wtotal : Z; wfile : list A; wclosed : bool }.

(** _write_cached_data *)
Definition w_flush (s : wstate) : wstate :=
  match wcache s with
  | [] => s
  | _ => mkW [] 0 (wfile s ++ wcache s) (wclosed s)
  end.

(** _process_message(data) *)
Definition w_process (s : wstate) (d : A) : wstate :=
  let s1 := mkW (wcache s ++ [d]) (wtotal s + bsz d) (wfile s) (wclosed s) in
  if cache_size <=? wtotal s1 then w_flush s1 else s1.

(** one turn of the drain loop of _post_process: [None] = queue empty (flush, close, leave the loop) *)
Definition w_drain (s : wstate) (m : option (option A)) : wstate * bool :=
  match m with
  | None => let s1 := w_flush s in (mkW (wcache s1) (wtotal s1) (wfile s1) true, false)
  | Some None => (s, true)                                  (* a stop marker: ignored *)
  | Some (Some d) => (mkW (wcache s ++ [d]) (wtotal s + bsz d) (wfile s) (wclosed s), true)
  end.

(** the writer state inside the interleaving model *)
Definition of_saver (v : saver A) : wstate := mkW (scache v) (stotal v) (written v) (closed_file v).

(** joiner: (first-event flag, pieces written so far) *)
Definition j_write (sil : A) (s : bool * list A) (d : A) : bool * list A :=
  if fst s then (false, snd s ++ [d]) else (false, snd s ++ [sil; d]).

End Savers.

Arguments wstate A : clear implicits.

(** * Theorems *)

Section SaversProofs.
Context {A : Type}.
Variable bsz : A -> Z.
Variable cache_size : Z.

(** the writer step of the interleaving model on a data message is _process_message *)
Theorem step_sav_data_is_w_process (v : saver A) b more :
  spcv v = SRun -> sinbox v = SData b :: more ->
  exists v', step_sav_one bsz cache_size v false = Some v' /\ sinbox v' = more /\ spcv v' = SRun
             /\ of_saver v' = let s := w_process bsz cache_size (of_saver v) b in mkW (wcache s) (wtotal s) (wfile s) false.
Proof.
  intros Hpc Hin. unfold step_sav_one. rewrite Hpc, Hin. cbn [scache stotal written].
  unfold w_process, w_flush, of_saver, sav_write. cbn [wcache wtotal wfile wclosed scache stotal written closed_file].
  destruct (cache_size <=? stotal v + bsz b).
  - eexists; split; [reflexivity|]. cbn [sinbox spcv scache stotal written closed_file].
    split; [reflexivity|]. split; [reflexivity|].
    destruct (scache v ++ [b]) eqn:E; [destruct (scache v); discriminate|]. reflexivity.
  - eexists; split; [reflexivity|]. cbn. repeat split; reflexivity.
Qed.

(** whatever the cache size, flushing loses nothing and keeps the order: file ++ cache is extended by exactly the block *)
Theorem w_process_content (s : wstate A) d :
  let s' := w_process bsz cache_size s d in
  wfile s' ++ wcache s' = wfile s ++ wcache s ++ [d].
Proof.
  unfold w_process, w_flush; cbn [wcache wtotal wfile wclosed].
  destruct (cache_size <=? wtotal s + bsz d); cbn [wcache wtotal wfile wclosed].
  - destruct (wcache s ++ [d]) eqn:E; cbn [wcache wtotal wfile wclosed]; rewrite ?app_nil_r, <- ?E; reflexivity.
  - reflexivity.
Qed.

Theorem w_flush_content (s : wstate A) : wfile (w_flush s) ++ wcache (w_flush s) = wfile s ++ wcache s.
Proof. unfold w_flush. destruct (wcache s) eqn:E; cbn [wcache wfile]; rewrite ?app_nil_r, ?E; rewrite ?app_nil_r; reflexivity. Qed.

(** after any sequence of blocks and a final flush the file holds exactly the blocks, in order *)
Theorem w_run_content (ds : list A) : forall s : wstate A,
  let s' := w_flush (fold_left (w_process bsz cache_size) ds s) in
  wfile s' = wfile s ++ wcache s ++ ds /\ wcache s' = [].
Proof.
  induction ds as [|d ds IH]; intros s; cbn [fold_left].
  - split.
    + pose proof (w_flush_content s) as H. unfold w_flush in *. destruct (wcache s); cbn [wfile wcache] in *; rewrite ?app_nil_r in *; auto.
    + unfold w_flush. destruct (wcache s) eqn:E; cbn [wcache]; auto.
  - destruct (IH (w_process bsz cache_size s d)) as [H1 H2]. split; [|exact H2].
    rewrite H1. rewrite app_assoc. rewrite (w_process_content s d). rewrite <- !app_assoc. reflexivity.
Qed.

(** the joiner: n events give the events separated by the silence - nothing before the first, nothing after the last *)
Lemma j_write_snoc (sil : A) (ds : list A) : forall acc : list A,
  fold_left (j_write sil) ds (false, acc) = (false, acc ++ flat_map (fun d => [sil; d]) ds).
Proof.
  induction ds as [|d ds IH]; intros acc; cbn [fold_left flat_map].
  - rewrite app_nil_r. reflexivity.
  - unfold j_write at 2. cbn [fst snd]. rewrite IH. rewrite <- app_assoc. reflexivity.
Qed.

Theorem j_writes (sil : A) (ds : list A) :
  fold_left (j_write sil) ds (true, []) =
  match ds with
  | [] => (true, [])
  | d :: rest => (false, d :: flat_map (fun x => [sil; x]) rest)
  end.
Proof.
  destruct ds as [|d rest]; [reflexivity|]. cbn [fold_left]. unfold j_write at 2. cbn [fst snd app].
  rewrite j_write_snoc. reflexivity.
Qed.

End SaversProofs.

(** on byte lists: the joiner's file is join(silence, events) *)
Lemma concat_sil {B} (sil : list B) (rest : list (list B)) (d : list B) :
  d ++ concat (flat_map (fun x => [sil; x]) rest) = intercalate sil (d :: rest).
Proof.
  revert d; induction rest as [|x rest IH]; intros d.
  - cbn [flat_map concat intercalate]. apply app_nil_r.
  - change (intercalate sil (d :: x :: rest)) with (d ++ sil ++ intercalate sil (x :: rest)).
    rewrite <- (IH x). cbn [flat_map app concat]. rewrite <- ?app_assoc. reflexivity.
Qed.

Theorem joiner_file_is_join {B} (sil : list B) (events : list (list B)) :
  concat (snd (fold_left (j_write sil) events (true, []))) = intercalate sil events.
Proof.
  rewrite j_writes. destruct events as [|d rest]; [reflexivity|].
  cbn [snd concat]. apply concat_sil.
Qed.

Print Assumptions step_sav_data_is_w_process.
Print Assumptions w_run_content.
Print Assumptions joiner_file_is_join.
