(** C12, C13, C14 (safety part): for EVERY schedule of the interleaving model
    [Conc.Workers] (any list of choices, arbitrary timeouts, [stop_all] issued by
    the main thread at any point) and every cache size, every observer gets
    every detection exactly once, in order, with ids 1,2,3,..., the saver's file
    holds exactly the blocks read, and at the end everything equals the
    tokenization of the blocks actually read. *)
From Coq Require Import ZArith List Bool Lia ZifyBool Arith.
From AV Require Import Base.PyList Tok.Model Tok.Online Conc.Workers.
Import ListNotations. Open Scope Z_scope.

(* ------------------------------------------------------------------ *)
(** * Generic list facts *)

Lemma firstn_snoc_skipn {T} (l : list T) n x more :
  skipn n l = x :: more ->
  firstn (S n) l = firstn n l ++ [x] /\ skipn (S n) l = more.
Proof.
  revert l; induction n as [|n IH]; intros l H.
  - simpl in H. subst l. split; reflexivity.
  - destruct l as [|a l]; [discriminate|]. simpl in H.
    destruct (IH l H) as [H1 H2]. split.
    + change (firstn (S (S n)) (a :: l)) with (a :: firstn (S n) l).
      rewrite H1. reflexivity.
    + exact H2.
Qed.

Lemma skipn_nil_length {T} (l : list T) n : skipn n l = [] -> (length l <= n)%nat.
Proof.
  intros H. pose proof (skipn_length n l) as L. rewrite H in L. simpl in L. lia.
Qed.

Lemma map_snd_combine {X Y} (a : list X) (b : list Y) :
  length a = length b -> map snd (combine a b) = b.
Proof.
  revert b; induction a as [|x a IH]; intros [|y b] H; try discriminate; [reflexivity|].
  simpl. f_equal. apply IH. simpl in H. lia.
Qed.

(** "Nothing with a payload is queued behind a stop marker", generically. *)
Section Clean.
Context {M X : Type}.
Variable f : M -> list X.
Variable stop : M.

Definition gclean (l : list M) : Prop :=
  forall pre post, l = pre ++ stop :: post -> flat_map f post = [].

Lemma gclean_nil : gclean [].
Proof. intros [|p pre] post H; discriminate. Qed.

Lemma gclean_tail m l : gclean (m :: l) -> gclean l.
Proof. intros H pre post E. apply (H (m :: pre) post). rewrite E. reflexivity. Qed.

Lemma gclean_head l : gclean (stop :: l) -> flat_map f l = [].
Proof. intros H. apply (H [] l). reflexivity. Qed.

Lemma gclean_snoc_stop l : f stop = [] -> gclean l -> gclean (l ++ [stop]).
Proof.
  intros f_stop H pre post E.
  destruct post as [|x post _] using rev_ind; [reflexivity|].
  rewrite app_comm_cons, app_assoc in E. apply app_inj_tail in E.
  destruct E as [E1 E2]. subst x.
  rewrite flat_map_app, (H _ _ E1). simpl. rewrite f_stop. reflexivity.
Qed.

Lemma gclean_snoc_other l m : ~ In stop l -> m <> stop -> gclean (l ++ [m]).
Proof.
  intros Hn Hm pre post E.
  destruct post as [|x post _] using rev_ind.
  - apply app_inj_tail in E. destruct E as [_ E]. contradiction.
  - rewrite app_comm_cons, app_assoc in E. apply app_inj_tail in E.
    destruct E as [E1 _]. exfalso. apply Hn. rewrite E1.
    apply in_or_app. right. left. reflexivity.
Qed.

End Clean.

(* ------------------------------------------------------------------ *)
(** * Definitions of the statements *)

Section Defs.
Context {A : Type}.

Definition odet1 (m : omsg A) : list (Z * token A) :=
  match m with ODet i t => [(i, t)] | OStop => [] end.
Definition sdat1 (m : smsg A) : list A :=
  match m with SData b => [b] | SStop => [] end.

(** The detections / blocks carried by a queue content. *)
Definition odets (l : list (omsg A)) : list (Z * token A) := flat_map odet1 l.
Definition sdata (l : list (smsg A)) : list A := flat_map sdat1 l.

(** ids 1,2,3,... *)
Definition numbered_from (k : nat) (toks : list (token A)) : list (Z * token A) :=
  combine (map Z.of_nat (seq k (length toks))) toks.
Definition numbered (toks : list (token A)) : list (Z * token A) :=
  combine (map Z.of_nat (seq 1 (length toks))) toks.

Definition blocks_read (fs : list (A * bool)) (y : sys A) : list (A * bool) :=
  firstn (Z.to_nat (nread y)) fs.

(** The detection Tok is currently handing out and observer [j] has not been
    sent yet. *)
Definition pend (pc : tpc A) (j : nat) : list (Z * token A) :=
  match pc with
  | TNotify k m _ => if Nat.leb k j then [m] else []
  | _ => []
  end.
Definition pending (y : sys A) (j : nat) : list (Z * token A) :=
  match tpcv y with
  | TNotify k m _ => if Nat.leb k j then [m] else []
  | _ => []
  end.

Definition reachable c bsz cs fs nobs ws s_old (y : sys A) : Prop :=
  exists sched, y = exec c bsz cs (init_sys fs nobs ws s_old) sched.

Lemma numbered_from_snoc k l t :
  numbered_from k (l ++ [t]) = numbered_from k l ++ [(Z.of_nat (k + length l), t)].
Proof.
  revert k; induction l as [|a l IH]; intros k; unfold numbered_from in *.
  - simpl. rewrite Nat.add_0_r. reflexivity.
  - simpl app. simpl length. simpl seq. simpl map. simpl combine.
    rewrite IH.
    replace (k + Datatypes.S (length l))%nat with (Datatypes.S k + length l)%nat by lia.
    reflexivity.
Qed.

Lemma numbered_snoc l t :
  numbered (l ++ [t]) = numbered l ++ [(zlen l + 1, t)].
Proof.
  change (numbered (l ++ [t])) with (numbered_from 1 (l ++ [t])).
  rewrite numbered_from_snoc.
  replace (Z.of_nat (1 + length l)) with (zlen l + 1) by (unfold zlen; lia).
  reflexivity.
Qed.

Lemma map_snd_numbered l : map snd (numbered l) = l.
Proof. unfold numbered. apply map_snd_combine. now rewrite map_length, seq_length. Qed.

Lemma odets_app l1 l2 : odets (l1 ++ l2) = odets l1 ++ odets l2.
Proof. apply flat_map_app. Qed.
Lemma sdata_app l1 l2 : sdata (l1 ++ l2) = sdata l1 ++ sdata l2.
Proof. apply flat_map_app. Qed.

Definition oclean : list (omsg A) -> Prop := gclean odet1 OStop.
Definition sclean : list (smsg A) -> Prop := gclean sdat1 SStop.

(** [upd_obs] with its index made explicit. *)
Definition upd_go (j : nat) (f : obs A -> obs A) : list (obs A) -> nat -> list (obs A) :=
  fix go l i :=
    match l with
    | [] => []
    | o :: r => (if Nat.eqb i j then f o else o) :: go r (Datatypes.S i)
    end.

Lemma upd_obs_go (l : list (obs A)) j f : upd_obs l j f = upd_go j f l O.
Proof. reflexivity. Qed.

Lemma upd_go_length j f l i : length (upd_go j f l i) = length l.
Proof. revert i; induction l as [|o r IH]; intros i; simpl; [reflexivity|now rewrite IH]. Qed.

Lemma upd_go_nth j f l : forall i n,
  nth_error (upd_go j f l i) n =
  match nth_error l n with
  | Some o => Some (if Nat.eqb (i + n) j then f o else o)
  | None => None
  end.
Proof.
  induction l as [|o r IH]; intros i n.
  - destruct n; reflexivity.
  - destruct n as [|n]; simpl.
    + rewrite Nat.add_0_r. reflexivity.
    + rewrite IH. replace (Datatypes.S i + n)%nat with (i + Datatypes.S n)%nat by lia. reflexivity.
Qed.

Lemma upd_obs_length (l : list (obs A)) j f : length (upd_obs l j f) = length l.
Proof. rewrite upd_obs_go. apply upd_go_length. Qed.

Lemma upd_obs_nth (l : list (obs A)) j f n o' :
  nth_error (upd_obs l j f) n = Some o' ->
  (n = j /\ exists o, nth_error l j = Some o /\ o' = f o)
  \/ (n <> j /\ nth_error l n = Some o').
Proof.
  rewrite upd_obs_go, upd_go_nth. simpl.
  destruct (nth_error l n) as [o|] eqn:E; [|discriminate].
  destruct (Nat.eqb n j) eqn:Ej; intros H; inversion H; subst o'.
  - apply Nat.eqb_eq in Ej. subst n. left. split; [reflexivity|]. exists o. auto.
  - apply Nat.eqb_neq in Ej. right. auto.
Qed.

End Defs.

Ltac split4 := split; [|split; [|split]].

(* ------------------------------------------------------------------ *)
(** * The invariant *)

Section Safety.
Context {A : Type}.
Variable c : config.
Variable bsz : A -> Z.
Variable cache_size : Z.
Variable fs : list (A * bool).
Variable nobs : nat.
Variable with_saver : bool.
Variable s_old : st A.

(** Tok has run the flush (it will never read again). *)
Definition postflush (pc : tpc A) : bool :=
  match pc with
  | TPoll | TRead => false
  | TNotify _ _ final => final
  | _ => true
  end.

(** Tok has already put (or will never put) its stop marker for observer [j],
    hence will never send it a detection again. *)
Definition stopped_for (j : nat) (pc : tpc A) : Prop :=
  match pc with
  | TStopNotify k => (j < k)%nat
  | TClose | TJoinSav | TExit => True
  | _ => False
  end.

Definition main_past (pc : mpc) : bool :=
  match pc with MIdle | MJoinTok => false | _ => true end.

Definition br (n : Z) : list (A * bool) := firstn (Z.to_nat n) fs.

Definition tok_ok (pc : tpc A) (s : st A) (n : Z) (ds : list (Z * token A)) : Prop :=
  if postflush pc
  then map snd ds = tokenize_from c s_old (br n)
  else s = fst (feed c (reinit s_old) (br n))
       /\ map snd ds = snd (feed c (reinit s_old) (br n)).

Definition obs_ok (pc : tpc A) (ds : list (Z * token A)) (j : nat) (o : obs A) : Prop :=
  processed o ++ odets (oinbox o) ++ pend pc j = ds
  /\ oclean (oinbox o)
  /\ ((In (@OStop A) (oinbox o) \/ opcv o = OExit) -> stopped_for j pc)
  /\ (opcv o = OExit -> odets (oinbox o) = []).

Definition sav_ok (pc : tpc A) (bl : list A) (v : saver A) : Prop :=
  written v ++ scache v ++ sdata (sinbox v) = bl
  /\ sclean (sinbox v)
  /\ ((In (@SStop A) (sinbox v) \/ spcv v <> SRun) -> postflush pc = true)
  /\ (spcv v = SExit -> scache v = [] /\ sdata (sinbox v) = [] /\ closed_file v = true).

Record inv (y : sys A) : Prop := mkInv {
  i_rest : rest y = skipn (Z.to_nat (nread y)) fs;
  i_nread : 0 <= nread y <= zlen fs;
  i_num : dets y = numbered (map snd (dets y));
  i_tok : tok_ok (tpcv y) (tst y) (nread y) (dets y);
  i_nobs : length (observers y) = nobs;
  i_obs : forall j o, nth_error (observers y) j = Some o -> obs_ok (tpcv y) (dets y) j o;
  i_sav : forall v, sav y = Some v -> sav_ok (tpcv y) (map fst (br (nread y))) v;
  i_main : main_past (mpcv y) = true -> tpcv y = TExit
}.

(* ------------------------------------------------------------------ *)
(** ** The tokenizer *)

Lemma iter_step_toks (s : st A) fr : (length (snd (fst (iter_step c s fr))) <= 1)%nat.
Proof.
  unfold iter_step. destruct fr as [[f v]|].
  - destruct (process c _ f v) as [s1 [t|]]; simpl; lia.
  - destruct (post_process c _) as [s1 [t|]]; simpl; lia.
Qed.

Lemma tokenize_from_flush l :
  tokenize_from c s_old l =
  snd (feed c (reinit s_old) l)
  ++ snd (fst (iter_step c (fst (feed c (reinit s_old) l)) None)).
Proof. unfold tokenize_from. rewrite run_as_feed. reflexivity. Qed.

Lemma feed_snoc (s : st A) l fv :
  feed c s (l ++ [fv]) =
  (fst (fst (iter_step c (fst (feed c s l)) (Some fv))),
   snd (feed c s l) ++ snd (fst (iter_step c (fst (feed c s l)) (Some fv)))).
Proof.
  rewrite feed_app. destruct (feed c s l) as [s1 o1]. cbn [feed fst snd].
  destruct (iter_step c s1 (Some fv)) as [[s2 o2] b]. cbn [fst snd].
  now rewrite app_nil_r.
Qed.

(* ------------------------------------------------------------------ *)
(** ** Observers *)

Lemma obs_ok_pc pc pc' ds j o :
  obs_ok pc ds j o -> pend pc' j = pend pc j ->
  (stopped_for j pc -> stopped_for j pc') -> obs_ok pc' ds j o.
Proof.
  intros (H1 & H2 & H3 & H4) Hp Hs. split4; auto.
  now rewrite Hp.
Qed.

Lemma obs_ok_newdet pc pc' ds m j o :
  obs_ok pc ds j o -> pend pc j = [] -> ~ stopped_for j pc -> pend pc' j = [m] ->
  obs_ok pc' (ds ++ [m]) j o.
Proof.
  intros (H1 & H2 & H3 & H4) Hp Hs Hp'. split4; auto.
  - rewrite Hp'. rewrite Hp, app_nil_r in H1. now rewrite app_assoc, H1.
  - intros H. exfalso. auto.
Qed.

Lemma obs_ok_put_det k m final ds o :
  obs_ok (TNotify k m final) ds k o ->
  obs_ok (TNotify (Datatypes.S k) m final) ds k
         (mkObs (oinbox o ++ [ODet (fst m) (snd m)]) (processed o) (opcv o)).
Proof.
  intros (H1 & H2 & H3 & H4). cbn [stopped_for] in H3.
  unfold obs_ok. cbn [oinbox processed opcv pend stopped_for] in *.
  rewrite Nat.leb_refl in H1.
  replace (Nat.leb (Datatypes.S k) k) with false by (symmetry; apply Nat.leb_gt; lia).
  split4.
  - rewrite odets_app, app_nil_r. cbn [odets flat_map odet1 app].
    rewrite <- surjective_pairing. exact H1.
  - apply gclean_snoc_other; [tauto|discriminate].
  - intros [H|H]; [|tauto]. apply in_app_or in H. destruct H as [H|[H|[]]]; [tauto|discriminate].
  - tauto.
Qed.

Lemma obs_ok_put_stop pc pc' ds j o :
  obs_ok pc ds j o -> pend pc' j = pend pc j -> stopped_for j pc' ->
  obs_ok pc' ds j (mkObs (oinbox o ++ [OStop]) (processed o) (opcv o)).
Proof.
  intros (H1 & H2 & H3 & H4) Hp Hs.
  unfold obs_ok. cbn [oinbox processed opcv].
  rewrite odets_app. cbn [odets flat_map odet1 app]. rewrite app_nil_r.
  split4; auto.
  - now rewrite Hp.
  - apply gclean_snoc_stop; auto.
Qed.

Lemma obs_ok_step pc ds j o t o' :
  obs_ok pc ds j o -> step_obs_one o t = Some o' -> obs_ok pc ds j o'.
Proof.
  intros (H1 & H2 & H3 & H4). unfold step_obs_one.
  destruct (opcv o) eqn:Eo; [|discriminate].
  destruct (oinbox o) as [|[i tk|] more] eqn:Ei.
  - destruct t; [|discriminate]. intros H; inversion H; subst o'.
    unfold obs_ok. rewrite Ei, Eo. split4; auto; try discriminate.
  - intros H; inversion H; subst o'. unfold obs_ok. cbn [oinbox processed opcv].
    split4.
    + rewrite <- H1. cbn [odets flat_map odet1 app]. now rewrite <- !app_assoc.
    + eapply gclean_tail; eauto.
    + intros [Hi|Hi]; [|discriminate]. apply H3. left. right. exact Hi.
    + discriminate.
  - intros H; inversion H; subst o'. unfold obs_ok. cbn [oinbox processed opcv].
    split4.
    + exact H1.
    + eapply gclean_tail; eauto.
    + intros _. apply H3. left. left. reflexivity.
    + intros _. apply (gclean_head odet1 OStop). exact H2.
Qed.

(* ------------------------------------------------------------------ *)
(** ** The saver *)

Lemma sav_ok_pc pc pc' bl v :
  sav_ok pc bl v -> (postflush pc = true -> postflush pc' = true) -> sav_ok pc' bl v.
Proof. intros (H1 & H2 & H3 & H4) Hp. split4; auto; apply H4; auto. Qed.

Lemma sav_ok_put_data pc pc' bl v b :
  sav_ok pc bl v -> postflush pc = false ->
  sav_ok pc' (bl ++ [b])
         (mkSav (sinbox v ++ [SData b]) (scache v) (stotal v) (written v) (closed_file v) (spcv v)).
Proof.
  intros (H1 & H2 & H3 & H4) Hp.
  assert (Hn : ~ (In (@SStop A) (sinbox v) \/ spcv v <> SRun)).
  { intros H. apply H3 in H. congruence. }
  unfold sav_ok. cbn [sinbox scache written spcv closed_file].
  split4.
  - rewrite sdata_app. cbn [sdata flat_map sdat1 app]. rewrite <- H1.
    now rewrite <- !app_assoc.
  - apply gclean_snoc_other; [tauto|discriminate].
  - intros [H|H]; [|tauto]. apply in_app_or in H. destruct H as [H|[H|[]]]; [tauto|discriminate].
  - intros H. exfalso. apply Hn. right. congruence.
Qed.

Lemma sav_ok_put_stop pc pc' bl v :
  sav_ok pc bl v -> postflush pc' = true ->
  sav_ok pc' bl
         (mkSav (sinbox v ++ [SStop]) (scache v) (stotal v) (written v) (closed_file v) (spcv v)).
Proof.
  intros (H1 & H2 & H3 & H4) Hp.
  unfold sav_ok. cbn [sinbox scache written spcv closed_file].
  rewrite sdata_app. cbn [sdata flat_map sdat1 app]. rewrite app_nil_r.
  split4; auto; try (apply H4; auto).
  apply gclean_snoc_stop; auto.
Qed.

Lemma sav_ok_step pc bl v t v' :
  sav_ok pc bl v -> step_sav_one bsz cache_size v t = Some v' -> sav_ok pc bl v'.
Proof.
  intros (H1 & H2 & H3 & H4). unfold step_sav_one.
  destruct (spcv v) eqn:Es; [| |discriminate].
  - (* SRun *)
    destruct (sinbox v) as [|[b|] more] eqn:Ei.
    + destruct t; [|discriminate]. intros H; inversion H; subst v'.
      unfold sav_ok. rewrite Ei, Es. split4; auto; discriminate.
    + cbn [stotal].
      assert (Hin : In (@SStop A) more \/ SRun <> SRun -> postflush pc = true).
      { intros [Hi|Hi]; [|congruence]. apply H3. left. right. exact Hi. }
      destruct (cache_size <=? stotal v + bsz b); intros H; inversion H; subst v';
        unfold sav_ok, sav_write; cbn [sinbox scache written spcv closed_file];
        (split4; [ | eapply gclean_tail; eauto | exact Hin | discriminate .. ]);
        rewrite <- H1; cbn [sdata flat_map sdat1 app]; now rewrite <- ?app_assoc.
    + intros H; inversion H; subst v'.
      unfold sav_ok; cbn [sinbox scache written spcv closed_file].
      split4; [exact H1 | eapply gclean_tail; eauto | | discriminate ..].
      intros _. apply H3. left. left. reflexivity.
  - (* SDrain *)
    assert (Hp : postflush pc = true) by (apply H3; right; discriminate).
    destruct (sinbox v) as [|[b|] more] eqn:Ei.
    + intros H; inversion H; subst v'.
      unfold sav_ok, sav_write; cbn [sinbox scache written spcv closed_file].
      split4; auto; try apply gclean_nil.
      rewrite <- H1. cbn [sdata flat_map app]. now rewrite !app_nil_r.
    + intros H; inversion H; subst v'.
      unfold sav_ok; cbn [sinbox scache written spcv closed_file].
      split4; [ | eapply gclean_tail; eauto | auto | discriminate ..].
      rewrite <- H1; cbn [sdata flat_map sdat1 app]; now rewrite <- ?app_assoc.
    + intros H; inversion H; subst v'.
      unfold sav_ok; cbn [sinbox scache written spcv closed_file].
      split4; [exact H1 | eapply gclean_tail; eauto | auto | discriminate ..].
Qed.

(* ------------------------------------------------------------------ *)
(** ** One step preserves the invariant *)

Lemma inv_same_tok y y' :
  inv y ->
  tpcv y' = tpcv y -> tst y' = tst y -> rest y' = rest y -> nread y' = nread y ->
  dets y' = dets y ->
  length (observers y') = length (observers y) ->
  (forall j o', nth_error (observers y') j = Some o' -> obs_ok (tpcv y) (dets y) j o') ->
  (forall v', sav y' = Some v' -> sav_ok (tpcv y) (map fst (br (nread y))) v') ->
  (main_past (mpcv y') = true -> tpcv y = TExit) ->
  inv y'.
Proof.
  intros [I1 I2 I3 I4 I5 I6 I7 I8] E1 E2 E3 E4 E5 Hl Ho Hs Hm.
  constructor; rewrite ?E1, ?E2, ?E3, ?E4, ?E5; auto. congruence.
Qed.

Lemma inv_set_pc y pc' tinbox' obs' sav' :
  inv y ->
  postflush pc' = postflush (tpcv y) ->
  length obs' = length (observers y) ->
  (forall j o', nth_error obs' j = Some o' -> obs_ok pc' (dets y) j o') ->
  (forall v', sav' = Some v' -> sav_ok pc' (map fst (br (nread y))) v') ->
  tpcv y <> TExit ->
  inv (set_t y pc' (tst y) (rest y) (nread y) tinbox' (dets y) obs' sav').
Proof.
  intros [I1 I2 I3 I4 I5 I6 I7 I8] Hpf Hl Ho Hs Hne.
  unfold set_t. constructor; cbn [tpcv tst rest nread tinbox dets observers sav mpcv]; auto.
  - unfold tok_ok in *. rewrite Hpf. exact I4.
  - congruence.
  - intros Hm. apply I8 in Hm. contradiction.
Qed.

Lemma after_tokens_inv y st' rest' nread' tinbox' sav' toks (final : bool) :
  inv y ->
  tpcv y = TPoll \/ tpcv y = TRead ->
  (length toks <= 1)%nat ->
  rest' = skipn (Z.to_nat nread') fs -> 0 <= nread' <= zlen fs ->
  (if final return Prop
   then map snd (dets y) ++ toks = tokenize_from c s_old (br nread')
   else st' = fst (feed c (reinit s_old) (br nread'))
        /\ map snd (dets y) ++ toks = snd (feed c (reinit s_old) (br nread'))) ->
  (forall pc v', postflush pc = final -> sav' = Some v' ->
                 sav_ok pc (map fst (br nread')) v') ->
  inv (after_tokens y st' rest' nread' tinbox' sav' toks final).
Proof.
  intros [I1 I2 I3 I4 I5 I6 I7 I8] Hpc Hlen Hrest Hn Htok Hsav.
  assert (Hns : forall j, ~ stopped_for j (tpcv y)).
  { intros j. destruct Hpc as [E|E]; rewrite E; intros []. }
  assert (Hpd : forall j, pend (tpcv y) j = []).
  { intros j. destruct Hpc as [E|E]; rewrite E; reflexivity. }
  assert (Hmn : main_past (mpcv y) = true -> False).
  { intros Hm. apply I8 in Hm. destruct Hpc; congruence. }
  unfold after_tokens.
  destruct toks as [|t [|t2 tl]]; [ | | simpl in Hlen; lia]; unfold set_t;
    constructor; cbn [tpcv tst rest nread tinbox dets observers sav mpcv]; auto.
  - unfold tok_ok. rewrite app_nil_r in Htok.
    destruct final; cbn [postflush]; exact Htok.
  - intros j o Hj. eapply obs_ok_pc; [apply I6; exact Hj | | ].
    + rewrite Hpd. destruct final; reflexivity.
    + intros Hs. exfalso. exact (Hns j Hs).
  - intros v' Hv. apply Hsav; auto. destruct final; reflexivity.
  - intros Hm. exfalso. auto.
  - rewrite map_app. cbn [map snd]. rewrite numbered_snoc, <- I3.
    now rewrite zlen_map.
  - unfold tok_ok. cbn [postflush]. rewrite map_app. cbn [map snd].
    destruct final; exact Htok.
  - intros j o Hj. eapply obs_ok_newdet; [apply I6; exact Hj | apply Hpd | apply Hns | ].
    reflexivity.
  - intros Hm. exfalso. auto.
Qed.

Lemma flush_inv y tinbox' sav' :
  inv y ->
  tpcv y = TPoll \/ tpcv y = TRead ->
  (forall pc v', postflush pc = true -> sav' = Some v' ->
                 sav_ok pc (map fst (br (nread y))) v') ->
  inv (flush c y tinbox' sav').
Proof.
  intros Hinv Hpc Hsav. unfold flush.
  pose proof (iter_step_toks (tst y) None) as Hlen.
  destruct (iter_step c (tst y) None) as [[st' toks] b] eqn:E. cbn [fst snd] in Hlen.
  apply after_tokens_inv; auto.
  - apply (i_rest _ Hinv).
  - apply (i_nread _ Hinv).
  - pose proof (i_tok _ Hinv) as Ht. unfold tok_ok in Ht.
    replace (postflush (tpcv y)) with false in Ht by (destruct Hpc as [E'|E']; rewrite E'; reflexivity).
    destruct Ht as [Ht1 Ht2].
    rewrite tokenize_from_flush, <- Ht1, <- Ht2, E. reflexivity.
Qed.

Lemma pend_succ_ne k (m : Z * token A) final j :
  j <> k -> pend (TNotify (Datatypes.S k) m final) j = pend (TNotify k m final) j.
Proof.
  intros Hne. cbn [pend].
  destruct (Nat.leb_spec (Datatypes.S k) j), (Nat.leb_spec k j); try reflexivity; lia.
Qed.

Lemma step_tok_inv y y' : inv y -> step_tok c y = Some y' -> inv y'.
Proof.
  intros Hinv. unfold step_tok.
  destruct (tpcv y) as [| |k m final|k| | |] eqn:Epc.
  - (* TPoll *)
    destruct (tinbox y) as [|u more]; intros H; inversion H; subst y'; clear H.
    + apply inv_set_pc; auto; try (rewrite Epc; auto; discriminate).
      * intros j o Hj. eapply obs_ok_pc; [apply (i_obs _ Hinv); exact Hj | | ];
          rewrite Epc; auto.
      * intros v Hv. eapply sav_ok_pc; [apply (i_sav _ Hinv); exact Hv|].
        rewrite Epc. auto.
    + apply flush_inv; auto.
      intros pc v Hp Hv. eapply sav_ok_pc; [apply (i_sav _ Hinv); exact Hv|]. auto.
  - (* TRead *)
    destruct (rest y) as [|[b v] more] eqn:Er.
    + intros H; inversion H; subst y'; clear H.
      apply flush_inv; auto.
      intros pc v' Hp Hv. unfold put_sav in Hv.
      destruct (sav y) as [v0|] eqn:Es; [|discriminate]. inversion Hv; subst v'.
      apply sav_ok_put_stop with (pc := tpcv y); auto. apply (i_sav _ Hinv). exact Es.
    + pose proof (iter_step_toks (tst y) (Some (b, v))) as Hlen.
      destruct (iter_step c (tst y) (Some (b, v))) as [[st' toks] bb] eqn:E.
      cbn [fst snd] in Hlen.
      intros H; inversion H; subst y'; clear H.
      pose proof (i_rest _ Hinv) as Hr. rewrite Er in Hr. symmetry in Hr.
      pose proof (i_nread _ Hinv) as Hn.
      destruct (firstn_snoc_skipn _ _ _ _ Hr) as [Hf Hs].
      assert (Hlt : (Z.to_nat (nread y) < length fs)%nat).
      { pose proof (skipn_length (Z.to_nat (nread y)) fs) as L. rewrite Hr in L.
        simpl in L. lia. }
      assert (En : Z.to_nat (nread y + 1) = Datatypes.S (Z.to_nat (nread y))) by lia.
      assert (Ebr : br (nread y + 1) = br (nread y) ++ [(b, v)]).
      { unfold br. rewrite En. exact Hf. }
      apply after_tokens_inv; auto.
      * rewrite En. auto.
      * unfold zlen. lia.
      * pose proof (i_tok _ Hinv) as Ht. unfold tok_ok in Ht. rewrite Epc in Ht.
        cbn [postflush] in Ht. destruct Ht as [Ht1 Ht2].
        rewrite Ebr, feed_snoc, <- Ht1, <- Ht2, E. cbn [fst snd]. auto.
      * intros pc v' Hp Hv. unfold put_sav in Hv.
        destruct (sav y) as [v0|] eqn:Es; [|discriminate]. inversion Hv; subst v'.
        rewrite Ebr, map_app. cbn [map fst].
        apply sav_ok_put_data with (pc := tpcv y); [|rewrite Epc; reflexivity].
        apply (i_sav _ Hinv). exact Es.
  - (* TNotify *)
    destruct (Nat.ltb k (length (observers y))) eqn:Ek;
      intros H; inversion H; subst y'; clear H.
    + apply inv_set_pc; auto; try (rewrite Epc; auto; discriminate).
      * unfold put_obs. apply upd_obs_length.
      * intros j o' Hj. unfold put_obs in Hj. apply upd_obs_nth in Hj.
        destruct Hj as [[Ej (o & Ho & Eo)]|[Ej Ho]].
        -- subst j o'. apply obs_ok_put_det. rewrite <- Epc. apply (i_obs _ Hinv). exact Ho.
        -- eapply obs_ok_pc; [apply (i_obs _ Hinv); exact Ho | | ]; rewrite Epc.
           ++ apply pend_succ_ne; auto.
           ++ intros [].
      * intros v Hv. eapply sav_ok_pc; [apply (i_sav _ Hinv); exact Hv|].
        rewrite Epc. auto.
    + apply Nat.ltb_ge in Ek.
      apply inv_set_pc; auto; try (rewrite Epc; discriminate).
      * rewrite Epc. destruct final; reflexivity.
      * intros j o Hj. eapply obs_ok_pc; [apply (i_obs _ Hinv); exact Hj | | ]; rewrite Epc.
        -- assert (Hjl : (j < length (observers y))%nat).
           { apply nth_error_Some. congruence. }
           cbn [pend]. replace (Nat.leb k j) with false by (symmetry; apply Nat.leb_gt; lia).
           destruct final; reflexivity.
        -- intros [].
      * intros v Hv. eapply sav_ok_pc; [apply (i_sav _ Hinv); exact Hv|].
        rewrite Epc. destruct final; auto.
  - (* TStopNotify *)
    destruct (Nat.ltb k (length (observers y))) eqn:Ek;
      intros H; inversion H; subst y'; clear H.
    + apply inv_set_pc; auto; try (rewrite Epc; auto; discriminate).
      * unfold put_obs. apply upd_obs_length.
      * intros j o' Hj. unfold put_obs in Hj. apply upd_obs_nth in Hj.
        destruct Hj as [[Ej (o & Ho & Eo)]|[Ej Ho]].
        -- subst j o'. apply obs_ok_put_stop with (pc := tpcv y).
           ++ apply (i_obs _ Hinv). exact Ho.
           ++ rewrite Epc. reflexivity.
           ++ cbn [stopped_for]. lia.
        -- eapply obs_ok_pc; [apply (i_obs _ Hinv); exact Ho | | ]; rewrite Epc.
           ++ reflexivity.
           ++ cbn [stopped_for]. lia.
      * intros v Hv. eapply sav_ok_pc; [apply (i_sav _ Hinv); exact Hv|].
        rewrite Epc. auto.
    + apply inv_set_pc; auto; try (rewrite Epc; auto; discriminate).
      * intros j o Hj. eapply obs_ok_pc; [apply (i_obs _ Hinv); exact Hj | | ]; rewrite Epc.
        -- reflexivity.
        -- intros _. exact I.
      * intros v Hv. eapply sav_ok_pc; [apply (i_sav _ Hinv); exact Hv|].
        rewrite Epc. auto.
  - (* TClose *)
    destruct (sav y) as [v0|] eqn:Es; intros H; inversion H; subst y'; clear H.
    + apply inv_set_pc; auto; try (rewrite Epc; auto; discriminate).
      * intros j o Hj. eapply obs_ok_pc; [apply (i_obs _ Hinv); exact Hj | | ]; rewrite Epc.
        -- reflexivity.
        -- intros _. exact I.
      * intros v' Hv. cbn [put_sav] in Hv. inversion Hv; subst v'.
        apply sav_ok_put_stop with (pc := tpcv y); auto. apply (i_sav _ Hinv). exact Es.
    + apply inv_set_pc; auto; try (rewrite Epc; auto; discriminate);
        try (intros ? ?; discriminate).
      intros j o Hj. eapply obs_ok_pc; [apply (i_obs _ Hinv); exact Hj | | ]; rewrite Epc.
      * reflexivity.
      * intros _. exact I.
  - (* TJoinSav *)
    destruct (sav y) as [v0|] eqn:Es; [|discriminate].
    destruct (spcv v0) eqn:Ev; try discriminate.
    intros H; inversion H; subst y'; clear H.
    apply inv_set_pc; auto; try (rewrite Epc; auto; discriminate).
    + intros j o Hj. eapply obs_ok_pc; [apply (i_obs _ Hinv); exact Hj | | ]; rewrite Epc.
      * reflexivity.
      * intros _. exact I.
    + intros v Hv. eapply sav_ok_pc; [apply (i_sav _ Hinv); congruence|].
      rewrite Epc. auto.
  - discriminate.
Qed.

Lemma step_obs_inv y j t y' : inv y -> step_obs y j t = Some y' -> inv y'.
Proof.
  intros Hinv. unfold step_obs.
  destruct (nth_error (observers y) j) as [o|] eqn:Ej; [|discriminate].
  destruct (step_obs_one o t) as [o1|] eqn:Eo; [|discriminate].
  intros H; inversion H; subst y'; clear H.
  apply (inv_same_tok y); auto; cbn [tpcv tst rest nread tinbox dets observers sav mpcv].
  - apply upd_obs_length.
  - intros j' o' Hj. apply upd_obs_nth in Hj.
    destruct Hj as [[Ej' (o0 & Ho & Eo')]|[Ej' Ho]].
    + subst j' o'. eapply obs_ok_step; [|exact Eo]. apply (i_obs _ Hinv). exact Ej.
    + apply (i_obs _ Hinv). exact Ho.
  - apply (i_sav _ Hinv).
  - apply (i_main _ Hinv).
Qed.

Lemma step_sav_inv y t y' : inv y -> step_sav bsz cache_size y t = Some y' -> inv y'.
Proof.
  intros Hinv. unfold step_sav.
  destruct (sav y) as [v|] eqn:Ev; [|discriminate].
  destruct (step_sav_one bsz cache_size v t) as [v1|] eqn:E1; [|discriminate].
  intros H; inversion H; subst y'; clear H.
  apply (inv_same_tok y); auto; cbn [tpcv tst rest nread tinbox dets observers sav mpcv].
  - apply (i_obs _ Hinv).
  - intros v' Hv. inversion Hv; subst v'. eapply sav_ok_step; [|exact E1].
    apply (i_sav _ Hinv). exact Ev.
  - apply (i_main _ Hinv).
Qed.

Lemma step_main_inv y stop y' : inv y -> step_main y stop = Some y' -> inv y'.
Proof.
  intros Hinv. unfold step_main.
  destruct (mpcv y) as [| |j|j| | |] eqn:Em.
  - destruct (stop || all_workers_exited y); [|discriminate].
    intros H; inversion H; subst y'; clear H.
    apply (inv_same_tok y); auto; cbn [tpcv tst rest nread tinbox dets observers sav mpcv main_past].
    + apply (i_obs _ Hinv).
    + apply (i_sav _ Hinv).
    + discriminate.
  - destruct (tpcv y) eqn:Epc; try discriminate.
    intros H; inversion H; subst y'; clear H.
    apply (inv_same_tok y); auto; unfold set_m; cbn [tpcv tst rest nread tinbox dets observers sav mpcv].
    + apply (i_obs _ Hinv).
    + apply (i_sav _ Hinv).
  - assert (Epc : tpcv y = TExit) by (apply (i_main _ Hinv); rewrite Em; reflexivity).
    destruct (Nat.ltb j (length (observers y))); intros H; inversion H; subst y'; clear H;
      apply (inv_same_tok y); auto; unfold set_m;
      cbn [tpcv tst rest nread tinbox dets observers sav mpcv];
      try apply (i_obs _ Hinv); try apply (i_sav _ Hinv).
    + unfold put_obs. apply upd_obs_length.
    + intros j' o' Hj. unfold put_obs in Hj. apply upd_obs_nth in Hj.
      destruct Hj as [[Ej' (o0 & Ho & Eo')]|[Ej' Ho]].
      * subst j' o'. apply obs_ok_put_stop with (pc := tpcv y); auto.
        -- apply (i_obs _ Hinv). exact Ho.
        -- rewrite Epc. exact I.
      * apply (i_obs _ Hinv). exact Ho.
  - assert (Epc : tpcv y = TExit) by (apply (i_main _ Hinv); rewrite Em; reflexivity).
    destruct (obs_exited y j); [|discriminate].
    intros H; inversion H; subst y'; clear H.
    apply (inv_same_tok y); auto; unfold set_m;
      cbn [tpcv tst rest nread tinbox dets observers sav mpcv];
      try apply (i_obs _ Hinv); try apply (i_sav _ Hinv).
  - assert (Epc : tpcv y = TExit) by (apply (i_main _ Hinv); rewrite Em; reflexivity).
    destruct (sav y) as [v0|] eqn:Es; intros H; inversion H; subst y'; clear H;
      apply (inv_same_tok y); auto; unfold set_m;
      cbn [tpcv tst rest nread tinbox dets observers sav mpcv];
      try apply (i_obs _ Hinv); try (rewrite Es; intros ? ?; discriminate).
    intros v' Hv. cbn [put_sav] in Hv. inversion Hv; subst v'.
    apply sav_ok_put_stop with (pc := tpcv y).
    + apply (i_sav _ Hinv). exact Es.
    + rewrite Epc. reflexivity.
  - assert (Epc : tpcv y = TExit) by (apply (i_main _ Hinv); rewrite Em; reflexivity).
    assert (Hd : inv (set_m y MDone)).
    { apply (inv_same_tok y); auto; unfold set_m;
        cbn [tpcv tst rest nread tinbox dets observers sav mpcv];
        try apply (i_obs _ Hinv); try apply (i_sav _ Hinv). }
    destruct (sav y) as [v0|] eqn:Es.
    + destruct (spcv v0); try discriminate. intros H; inversion H; subst y'. exact Hd.
    + intros H; inversion H; subst y'. exact Hd.
  - discriminate.
Qed.

Lemma step_inv y ch y' : inv y -> step c bsz cache_size y ch = Some y' -> inv y'.
Proof.
  intros Hinv. destruct ch as [|j t|t|s]; cbn [step].
  - apply step_tok_inv; auto.
  - apply step_obs_inv; auto.
  - apply step_sav_inv; auto.
  - apply step_main_inv; auto.
Qed.

Lemma exec_inv sched : forall y, inv y -> inv (exec c bsz cache_size y sched).
Proof.
  induction sched as [|ch more IH]; intros y Hinv; cbn [exec]; [exact Hinv|].
  apply IH. destruct (step c bsz cache_size y ch) as [y'|] eqn:E; [|exact Hinv].
  eapply step_inv; eauto.
Qed.

Lemma init_inv : inv (init_sys fs nobs with_saver s_old).
Proof.
  unfold init_sys.
  constructor; cbn [tpcv tst rest nread tinbox dets observers sav mpcv].
  - reflexivity.
  - pose proof (zlen_nonneg fs). lia.
  - reflexivity.
  - unfold tok_ok. cbn [postflush]. split; reflexivity.
  - apply repeat_length.
  - intros j o Hj. apply nth_error_In, repeat_spec in Hj. subst o.
    unfold obs_ok. cbn [oinbox processed opcv pend]. split4.
    + reflexivity.
    + apply gclean_nil.
    + intros [[]|H]; discriminate.
    + discriminate.
  - intros v Hv. destruct with_saver; inversion Hv; subst v.
    unfold sav_ok. cbn [sinbox scache written spcv closed_file]. split4.
    + reflexivity.
    + apply gclean_nil.
    + intros [[]|H]; congruence.
    + discriminate.
  - discriminate.
Qed.

Lemma reachable_inv y :
  reachable c bsz cache_size fs nobs with_saver s_old y -> inv y.
Proof. intros [sched ->]. apply exec_inv, init_inv. Qed.

(* ------------------------------------------------------------------ *)
(** * C12 / C13 / C14: the invariant in the terms of the statement *)

Notation Reach := (reachable c bsz cache_size fs nobs with_saver s_old).

Theorem C12_inv : forall y, Reach y ->
  (* (a) source bookkeeping *)
  rest y = skipn (Z.to_nat (nread y)) fs /\ 0 <= nread y <= zlen fs
  (* (b) detections so far *)
  /\ dets y = numbered (map snd (dets y))
  /\ (exists flushed,
        map snd (dets y) = snd (feed c (reinit s_old) (blocks_read fs y)) ++ flushed
        /\ (flushed = [] \/ map snd (dets y) = tokenize_from c s_old (blocks_read fs y)))
  (* (c) every observer: exactly once, in order *)
  /\ length (observers y) = nobs
  /\ (forall j o, nth_error (observers y) j = Some o ->
                  processed o ++ odets (oinbox o) ++ pending y j = dets y)
  (* (d) no detection is ever queued behind a stop marker *)
  /\ (forall j o, nth_error (observers y) j = Some o ->
                  forall pre post, oinbox o = pre ++ OStop :: post -> odets post = [])
  (* (e) saver *)
  /\ (forall v, sav y = Some v ->
         written v ++ scache v ++ sdata (sinbox v) = map fst (blocks_read fs y)
         /\ (forall pre post, sinbox v = pre ++ SStop :: post -> sdata post = [])
         /\ (spcv v = SExit -> scache v = [] /\ sdata (sinbox v) = [] /\ closed_file v = true)).
Proof.
  intros y Hr. apply reachable_inv in Hr. destruct Hr as [I1 I2 I3 I4 I5 I6 I7 I8].
  split; [exact I1|]. split; [exact I2|]. split; [exact I3|].
  split.
  { unfold tok_ok in I4. fold (br (nread y)) in *. unfold blocks_read. fold (br (nread y)).
    destruct (postflush (tpcv y)).
    - exists (snd (fst (iter_step c (fst (feed c (reinit s_old) (br (nread y)))) None))).
      split; [|right; exact I4]. rewrite I4. apply tokenize_from_flush.
    - exists []. destruct I4 as [_ I4]. split; [|left; reflexivity].
      now rewrite app_nil_r. }
  split; [exact I5|].
  split. { intros j o Hj. destruct (I6 j o Hj) as (H1 & _). exact H1. }
  split. { intros j o Hj. destruct (I6 j o Hj) as (_ & H2 & _). exact H2. }
  intros v Hv. destruct (I7 v Hv) as (H1 & H2 & _ & H4).
  split; [exact H1|]. split; [exact H2|exact H4].
Qed.

Lemma all_workers_exited_spec (y : sys A) :
  all_workers_exited y = true ->
  tpcv y = TExit
  /\ (forall j o, nth_error (observers y) j = Some o -> opcv o = OExit)
  /\ (forall v, sav y = Some v -> spcv v = SExit).
Proof.
  unfold all_workers_exited. intros H.
  apply andb_prop in H. destruct H as [H H3]. apply andb_prop in H. destruct H as [H1 H2].
  split; [destruct (tpcv y); try discriminate; reflexivity|]. split.
  - intros j o Hj. apply nth_error_In in Hj.
    rewrite forallb_forall in H2. apply H2 in Hj. destruct (opcv o); [discriminate|reflexivity].
  - intros v Hv. rewrite Hv in H3. destruct (spcv v); try discriminate; reflexivity.
Qed.

(** C12/C14 final state. *)
Theorem C12_final : forall y, Reach y -> all_workers_exited y = true ->
  dets y = numbered (tokenize_from c s_old (blocks_read fs y))
  /\ (forall j o, nth_error (observers y) j = Some o -> processed o = dets y)
  /\ (forall v, sav y = Some v ->
                written v = map fst (blocks_read fs y) /\ closed_file v = true).
Proof.
  intros y Hr Hex. apply reachable_inv in Hr. destruct Hr as [I1 I2 I3 I4 I5 I6 I7 I8].
  apply all_workers_exited_spec in Hex. destruct Hex as (Et & Eo & Es).
  unfold tok_ok in I4. rewrite Et in *. cbn [postflush] in I4.
  split; [|split].
  - rewrite I3 at 1. rewrite I4. reflexivity.
  - intros j o Hj. destruct (I6 j o Hj) as (H1 & _ & _ & H4).
    rewrite (H4 (Eo j o Hj)) in H1. cbn [pend app] in H1. now rewrite app_nil_r in H1.
  - intros v Hv. destruct (I7 v Hv) as (H1 & _ & _ & H4).
    destruct (H4 (Es v Hv)) as (Hc & Hd & Hf). rewrite Hc, Hd in H1.
    cbn [app] in H1. rewrite app_nil_r in H1. split; assumption.
Qed.

(* ------------------------------------------------------------------ *)
(** * Without an external stop the whole stream is read *)

Definition ns_inv (y : sys A) : Prop :=
  ((mpcv y = MIdle /\ tinbox y = []) \/ tpcv y = TExit)
  /\ (postflush (tpcv y) = true -> rest y = []).

Lemma ns_step_tok y y' : ns_inv y -> step_tok c y = Some y' -> ns_inv y'.
Proof.
  intros [H1 H2]. unfold step_tok.
  destruct (tpcv y) as [| |k m final|k| | |] eqn:Epc; try discriminate;
    (destruct H1 as [[Hm Ht]|H1]; [|discriminate]); cbn [postflush] in H2.
  - rewrite Ht. intros H; inversion H; subst y'; clear H.
    unfold ns_inv, set_t; cbn [tpcv tst rest nread tinbox dets observers sav mpcv postflush].
    split; [left; auto|discriminate].
  - destruct (rest y) as [|[b v] more] eqn:Er.
    + intros H; inversion H; subst y'; clear H. unfold flush.
      destruct (iter_step c (tst y) None) as [[st' toks] bb].
      unfold ns_inv, after_tokens, set_t. rewrite Er.
      destruct toks; cbn [tpcv tst rest nread tinbox dets observers sav mpcv postflush];
        (split; [left; auto|auto]).
    + destruct (iter_step c (tst y) (Some (b, v))) as [[st' toks] bb].
      intros H; inversion H; subst y'; clear H.
      unfold ns_inv, after_tokens, set_t.
      destruct toks; cbn [tpcv tst rest nread tinbox dets observers sav mpcv postflush];
        (split; [left; auto|discriminate]).
  - destruct (Nat.ltb k (length (observers y))); intros H; inversion H; subst y'; clear H;
      unfold ns_inv, set_t; cbn [tpcv tst rest nread tinbox dets observers sav mpcv postflush];
      (split; [left; auto|]); auto.
    destruct final; cbn [postflush]; auto; discriminate.
  - destruct (Nat.ltb k (length (observers y))); intros H; inversion H; subst y'; clear H;
      unfold ns_inv, set_t; cbn [tpcv tst rest nread tinbox dets observers sav mpcv postflush];
      (split; [left; auto|]); auto.
  - destruct (sav y); intros H; inversion H; subst y'; clear H;
      unfold ns_inv, set_t; cbn [tpcv tst rest nread tinbox dets observers sav mpcv postflush];
      (split; [left; auto|]); auto.
  - destruct (sav y) as [v0|]; [|discriminate]. destruct (spcv v0); try discriminate.
    intros H; inversion H; subst y'; clear H.
    unfold ns_inv, set_t; cbn [tpcv tst rest nread tinbox dets observers sav mpcv postflush].
    split; [right; reflexivity|]; auto.
Qed.

Lemma ns_step y ch y' :
  ns_inv y -> ch <> CMain true -> step c bsz cache_size y ch = Some y' -> ns_inv y'.
Proof.
  intros Hns Hch. destruct ch as [|j t|t|s]; cbn [step].
  - apply ns_step_tok; auto.
  - unfold step_obs. destruct (nth_error (observers y) j) as [o|]; [|discriminate].
    destruct (step_obs_one o t); [|discriminate].
    intros H; inversion H; subst y'. exact Hns.
  - unfold step_sav. destruct (sav y) as [v|]; [|discriminate].
    destruct (step_sav_one bsz cache_size v t); [|discriminate].
    intros H; inversion H; subst y'. exact Hns.
  - destruct s; [congruence|]. destruct Hns as [H1 H2]. unfold step_main.
    destruct (mpcv y) as [| |j|j| | |] eqn:Em.
    + cbn [orb]. destruct (all_workers_exited y) eqn:Ex; [|discriminate].
      apply all_workers_exited_spec in Ex. destruct Ex as [Et _].
      intros H; inversion H; subst y'.
      split; cbn [tpcv tst rest nread tinbox dets observers sav mpcv]; auto.
    + destruct H1 as [[H1 _]|H1]; [discriminate|].
      rewrite H1. intros H; inversion H; subst y'. unfold set_m.
      split; cbn [tpcv tst rest nread tinbox dets observers sav mpcv]; auto.
    + destruct H1 as [[H1 _]|H1]; [discriminate|].
      destruct (Nat.ltb j (length (observers y))); intros H; inversion H; subst y'; unfold set_m;
        split; cbn [tpcv tst rest nread tinbox dets observers sav mpcv]; auto.
    + destruct H1 as [[H1 _]|H1]; [discriminate|].
      destruct (obs_exited y j); [|discriminate]. intros H; inversion H; subst y'; unfold set_m;
        split; cbn [tpcv tst rest nread tinbox dets observers sav mpcv]; auto.
    + destruct H1 as [[H1 _]|H1]; [discriminate|].
      destruct (sav y); intros H; inversion H; subst y'; unfold set_m;
        split; cbn [tpcv tst rest nread tinbox dets observers sav mpcv]; auto.
    + destruct H1 as [[H1 _]|H1]; [discriminate|].
      destruct (sav y) as [v0|]; [destruct (spcv v0); try discriminate|];
        intros H; inversion H; subst y'; unfold set_m;
        split; cbn [tpcv tst rest nread tinbox dets observers sav mpcv]; auto.
    + discriminate.
Qed.

Lemma ns_exec sched : forall y,
  ns_inv y -> (forall ch, In ch sched -> ch <> CMain true) ->
  ns_inv (exec c bsz cache_size y sched).
Proof.
  induction sched as [|ch more IH]; intros y Hns Hs; cbn [exec]; [exact Hns|].
  apply IH; [|intros ch' Hin; apply Hs; right; exact Hin].
  destruct (step c bsz cache_size y ch) as [y'|] eqn:E; [|exact Hns].
  eapply ns_step; eauto. apply Hs. left. reflexivity.
Qed.

Lemma ns_init : ns_inv (init_sys fs nobs with_saver s_old).
Proof. split; cbn; [left; auto|discriminate]. Qed.

Theorem C12_no_stop_reads_all : forall sched,
  (forall ch, In ch sched -> ch <> CMain true) ->
  let y := exec c bsz cache_size (init_sys fs nobs with_saver s_old) sched in
  tpcv y = TExit -> nread y = zlen fs.
Proof.
  intros sched Hs y Et.
  assert (Hns : ns_inv y) by (apply ns_exec; [apply ns_init|exact Hs]).
  assert (Hinv : inv y) by (apply exec_inv, init_inv).
  destruct Hns as [_ H2]. rewrite Et in H2. specialize (H2 eq_refl).
  pose proof (i_rest _ Hinv) as Hr. rewrite H2 in Hr. symmetry in Hr.
  apply skipn_nil_length in Hr. pose proof (i_nread _ Hinv) as Hn.
  unfold zlen in *. lia.
Qed.

Corollary C12_final_no_stop : forall sched,
  (forall ch, In ch sched -> ch <> CMain true) ->
  let y := exec c bsz cache_size (init_sys fs nobs with_saver s_old) sched in
  all_workers_exited y = true ->
  forall j o, nth_error (observers y) j = Some o ->
              processed o = numbered (tokenize_from c s_old fs).
Proof.
  intros sched Hs y Hex j o Hj.
  assert (Hr : Reach y) by (exists sched; reflexivity).
  destruct (C12_final y Hr Hex) as (Hd & Ho & _).
  rewrite (Ho j o Hj), Hd. unfold blocks_read.
  assert (En : nread y = zlen fs).
  { apply (C12_no_stop_reads_all sched Hs). apply all_workers_exited_spec in Hex. tauto. }
  rewrite En. unfold zlen. rewrite Nat2Z.id, firstn_all. reflexivity.
Qed.

(** C14: a stop can arrive at any point; the final detections are those of the
    prefix read, as if the stream had ended there. *)
Corollary C14_prefix : forall y, Reach y -> all_workers_exited y = true ->
  exists k, 0 <= k <= zlen fs /\ nread y = k
  /\ map snd (dets y) = tokenize_from c s_old (firstn (Z.to_nat k) fs)
  /\ (forall v, sav y = Some v -> written v = map fst (firstn (Z.to_nat k) fs)).
Proof.
  intros y Hr Hex. exists (nread y).
  destruct (C12_final y Hr Hex) as (Hd & _ & Hv).
  pose proof (reachable_inv y Hr) as Hinv.
  split; [apply (i_nread _ Hinv)|]. split; [reflexivity|]. split.
  - rewrite Hd. apply map_snd_numbered.
  - intros v Ev. apply (Hv v Ev).
Qed.

End Safety.

(* ------------------------------------------------------------------ *)
(** * Non-vacuity: concrete runs (A := Z) *)

Module Examples.

Definition cfg := mkConfig 1 10 0 1 0 false false.
(** 6 blocks; 2 detections: [1] (yielded when block 2 is read) and [3;4;5;6]
    (yielded by the flush). *)
Definition blocks : list (Z * bool) :=
  [(1, true); (2, false); (3, true); (4, true); (5, true); (6, true)].
Definition bsz (b : Z) : Z := 2.
Definition y0 : sys Z := init_sys blocks 2 true (@init_st Z).

(** An interleaving with timeouts (observer 0 and the saver time out, observer 1
    sometimes blocks, main polls) repeated until everybody is done. *)
Definition round : list choice :=
  [CTok; CObs 0 true; CTok; CObs 1 false; CSav true; CMain false; CObs 1 true; CSav false].
Definition sched1 : list choice :=
  [CObs 0 true; CSav true; CMain false; CTok; CTok; CObs 1 true] ++ concat (repeat round 25).
Definition y1 : sys Z := exec cfg bsz 5 y0 sched1.

Example ex_tokenize :
  tokenize_from cfg init_st blocks = [([1], 0, 0); ([3; 4; 5; 6], 2, 5)]
  /\ tokenize_from cfg init_st (firstn 3 blocks) = [([1], 0, 0); ([3], 2, 2)].
Proof. vm_compute. split; reflexivity. Qed.

Example ex_full_run :
  reachable cfg bsz 5 blocks 2 true init_st y1
  /\ all_exited y1 = true /\ all_workers_exited y1 = true
  /\ nread y1 = 6
  /\ map (@processed Z) (observers y1) =
       [ [(1, ([1], 0, 0)); (2, ([3; 4; 5; 6], 2, 5))];
         [(1, ([1], 0, 0)); (2, ([3; 4; 5; 6], 2, 5))] ]
  /\ option_map (@written Z) (sav y1) = Some [1; 2; 3; 4; 5; 6]
  /\ option_map (@closed_file Z) (sav y1) = Some true.
Proof. split; [exists sched1; reflexivity|]. vm_compute. repeat split; reflexivity. Qed.

(** The hypotheses of [C12_no_stop_reads_all] / [C12_final_no_stop] hold for it. *)
Example ex_full_run_no_stop :
  (forall ch, In ch sched1 -> ch <> CMain true)
  /\ tpcv y1 = TExit /\ all_workers_exited y1 = true.
Proof.
  split; [|vm_compute; split; reflexivity].
  assert (H : forallb (fun ch => match ch with CMain true => false | _ => true end) sched1 = true)
    by (vm_compute; reflexivity).
  rewrite forallb_forall in H. intros ch Hin E. apply H in Hin. subst ch. discriminate.
Qed.

(** A state in the middle of a notification round: observer 0 has been sent
    detection 1, observer 1 not yet ([pending]). *)
Definition ymid : sys Z := exec cfg bsz 5 y0 (repeat CTok 5).
Example ex_mid :
  reachable cfg bsz 5 blocks 2 true init_st ymid
  /\ tpcv ymid = TNotify 1 (1, ([1], 0, 0)) false
  /\ map (@oinbox Z) (observers ymid) = [[ODet 1 ([1], 0, 0)]; []]
  /\ pending ymid 0 = [] /\ pending ymid 1 = [(1, ([1], 0, 0))]
  /\ option_map (@sinbox Z) (sav ymid) = Some [SData 1; SData 2].
Proof. split; [exists (repeat CTok 5); reflexivity|]. vm_compute. repeat split; reflexivity. Qed.

(** Main calls stop_all while Tok is about to read block 3: exactly 3 blocks are
    read, and everything equals the tokenization of these 3 blocks (the second
    detection is the flushed, shorter [3]). *)
Definition sched2 : list choice :=
  repeat CTok 8 ++ [CObs 0 true; CMain true] ++ concat (repeat round 25).
Definition y2 : sys Z := exec cfg bsz 5 y0 sched2.

Example ex_stopped_run :
  reachable cfg bsz 5 blocks 2 true init_st y2
  /\ all_exited y2 = true /\ all_workers_exited y2 = true
  /\ nread y2 = 3
  /\ map (@processed Z) (observers y2) =
       [ [(1, ([1], 0, 0)); (2, ([3], 2, 2))];
         [(1, ([1], 0, 0)); (2, ([3], 2, 2))] ]
  /\ option_map (@written Z) (sav y2) = Some [1; 2; 3]
  /\ option_map (@closed_file Z) (sav y2) = Some true.
Proof. split; [exists sched2; reflexivity|]. vm_compute. repeat split; reflexivity. Qed.

End Examples.

Print Assumptions C12_inv.
Print Assumptions C12_final.
Print Assumptions C12_no_stop_reads_all.
Print Assumptions C12_final_no_stop.
Print Assumptions C14_prefix.
