(** Trace monitor for the interleaving model Conc/Workers.v.

    The correspondence harness runs the REAL auditok worker threads in
    lock-step (one thread at a time, from one queue operation / source read /
    join to the next) and records what each thread did and what it got back.
    [monitor] replays such a trace on the model: every real step must be the
    step the model's thread takes in that state, with the same result.  Model
    steps that have no counterpart in the code (the bookkeeping steps "last
    observer notified", "no saver to close") are inserted automatically.

    [monitor_reachable] (MonitorProofs.v) shows that whatever the monitor
    accepts is an [exec] of some schedule, so the theorems C12-C14, stated for
    every reachable state, apply to the state the monitor ends in. *)
From Coq Require Import ZArith List Bool.
From AV Require Import Base.PyList Tok.Model Conc.Workers.
Import ListNotations.
Open Scope Z_scope.

Section Monitor.
Context {A : Type}.
Variable c : config.
Variable bsz : A -> Z.
Variable cache_size : Z.
Variable A_eqb : A -> A -> bool.

Notation sys := (sys A).
Notation step := (@step A c bsz cache_size).

(** What a real thread did (one lock-step turn). *)
Inductive event :=
  | ETokPoll (stop : bool)              (* _stop_requested(): get_nowait on its own inbox; stop marker found? *)
  | ETokRead (b : option A)             (* reader.read() returned block b / None (with a saver: and forwarded it) *)
  | ETokPutObs (j : nat) (id : Z)       (* observer j .send(...): detection id, or 0 = the stop marker *)
  | ETokPutSavStop                      (* saver.close(): the stop marker put in the writer's inbox *)
  | ETokJoinSav                         (* ... join of the writer returned *)
  | ETokExit                            (* run() returned *)
  | EObsGet (j : nat) (r : Z)           (* observer j _get_message(): -1 timeout, 0 stop marker, id>0 detection *)
  | EObsExit (j : nat)
  | ESavGet (r : Z)                     (* writer _get_message(): -1 timeout, 0 stop marker, 1 a block *)
  | ESavDrain (r : Z)                   (* writer _post_process get_nowait(): -1 Empty, 0 stop marker, 1 a block *)
  | ESavExit
  | EMainStop (requested : bool)        (* main loop left: Ctrl-C (true) or only the main thread alive (false); stop marker sent to Tok *)
  | EMainJoinTok
  | EMainPutObs (j : nat)
  | EMainJoinObs (j : nat)
  | EMainPutSavStop
  | EMainJoinSav
  | EMainDone.

(** bookkeeping steps of Tok that correspond to no queue operation *)
Definition tok_silent (y : sys) : bool :=
  match tpcv y with
  | TNotify j _ _ => negb (Nat.ltb j (length (observers y)))
  | TStopNotify j => negb (Nat.ltb j (length (observers y)))
  | TClose => match sav y with None => true | Some _ => false end
  | _ => false
  end.

Fixpoint skip_tok (fuel : nat) (y : sys) : sys * list choice :=
  match fuel with
  | O => (y, [])
  | S f => if tok_silent y then
             match step y CTok with
             | Some y' => let '(y2, l) := skip_tok f y' in (y2, CTok :: l)
             | None => (y, [])
             end
           else (y, [])
  end.

Definition main_silent (y : sys) : bool :=
  match mpcv y with
  | MStopObs j => negb (Nat.ltb j (length (observers y)))
  | MCloseReader => match sav y with None => true | Some _ => false end
  | MJoinSav => match sav y with None => true | Some _ => false end
  | _ => false
  end.

Fixpoint skip_main (fuel : nat) (y : sys) : sys * list choice :=
  match fuel with
  | O => (y, [])
  | S f => if main_silent y then
             match step y (CMain false) with
             | Some y' => let '(y2, l) := skip_main f y' in (y2, CMain false :: l)
             | None => (y, [])
             end
           else (y, [])
  end.

Definition opt_eqb (a b : option A) : bool :=
  match a, b with
  | Some x, Some y => A_eqb x y
  | None, None => true
  | _, _ => false
  end.

Definition do_step (y : sys) (pre : list choice) (ch : choice) : option (sys * list choice) :=
  match step y ch with
  | Some y' => Some (y', pre ++ [ch])
  | None => None
  end.

(** One event: the model state after it and the choices taken, or [None] when
    the model's thread would not do this here. *)
Definition mon_event (y0 : sys) (e : event) : option (sys * list choice) :=
  match e with
  | ETokPoll stop =>
      let '(y, pre) := skip_tok 3 y0 in
      match tpcv y with
      | TPoll => if Bool.eqb stop (match tinbox y with [] => false | _ => true end)
                 then do_step y pre CTok else None
      | _ => None
      end
  | ETokRead b =>
      let '(y, pre) := skip_tok 3 y0 in
      match tpcv y with
      | TRead => if opt_eqb b (match rest y with [] => None | (x, _) :: _ => Some x end)
                 then do_step y pre CTok else None
      | _ => None
      end
  | ETokPutObs j id =>
      let '(y, pre) := skip_tok 3 y0 in
      match tpcv y with
      | TNotify k m _ => if Nat.eqb j k && Nat.ltb k (length (observers y)) && (id =? fst m) && (0 <? id)
                         then do_step y pre CTok else None
      | TStopNotify k => if Nat.eqb j k && Nat.ltb k (length (observers y)) && (id =? 0)
                         then do_step y pre CTok else None
      | _ => None
      end
  | ETokPutSavStop =>
      let '(y, pre) := skip_tok 3 y0 in
      match tpcv y, sav y with
      | TClose, Some _ => do_step y pre CTok
      | _, _ => None
      end
  | ETokJoinSav =>
      match tpcv y0 with
      | TJoinSav => do_step y0 [] CTok
      | _ => None
      end
  | ETokExit =>
      let '(y, pre) := skip_tok 3 y0 in
      match tpcv y with TExit => Some (y, pre) | _ => None end
  | EObsGet j r =>
      match nth_error (observers y0) j with
      | Some o =>
          match opcv o, oinbox o with
          | ORun, [] => if r =? -1 then do_step y0 [] (CObs j true) else None
          | ORun, OStop :: _ => if r =? 0 then do_step y0 [] (CObs j false) else None
          | ORun, ODet i _ :: _ => if (r =? i) && (0 <? r) then do_step y0 [] (CObs j false) else None
          | OExit, _ => None
          end
      | None => None
      end
  | EObsExit j =>
      match nth_error (observers y0) j with
      | Some o => match opcv o with OExit => Some (y0, []) | ORun => None end
      | None => None
      end
  | ESavGet r =>
      match sav y0 with
      | Some v =>
          match spcv v, sinbox v with
          | SRun, [] => if r =? -1 then do_step y0 [] (CSav true) else None
          | SRun, SStop :: _ => if r =? 0 then do_step y0 [] (CSav false) else None
          | SRun, SData _ :: _ => if r =? 1 then do_step y0 [] (CSav false) else None
          | _, _ => None
          end
      | None => None
      end
  | ESavDrain r =>
      match sav y0 with
      | Some v =>
          match spcv v, sinbox v with
          | SDrain, [] => if r =? -1 then do_step y0 [] (CSav false) else None
          | SDrain, SStop :: _ => if r =? 0 then do_step y0 [] (CSav false) else None
          | SDrain, SData _ :: _ => if r =? 1 then do_step y0 [] (CSav false) else None
          | _, _ => None
          end
      | None => None
      end
  | ESavExit =>
      match sav y0 with
      | Some v => match spcv v with SExit => Some (y0, []) | _ => None end
      | None => None
      end
  | EMainStop requested =>
      match mpcv y0 with
      | MIdle => if requested || all_workers_exited y0 then do_step y0 [] (CMain requested) else None
      | _ => None
      end
  | EMainJoinTok =>
      match mpcv y0 with MJoinTok => do_step y0 [] (CMain false) | _ => None end
  | EMainPutObs j =>
      let '(y, pre) := skip_main 3 y0 in
      match mpcv y with
      | MStopObs k => if Nat.eqb j k && Nat.ltb k (length (observers y)) then do_step y pre (CMain false) else None
      | _ => None
      end
  | EMainJoinObs j =>
      match mpcv y0 with
      | MJoinObs k => if Nat.eqb j k then do_step y0 [] (CMain false) else None
      | _ => None
      end
  | EMainPutSavStop =>
      let '(y, pre) := skip_main 3 y0 in
      match mpcv y, sav y with
      | MCloseReader, Some _ => do_step y pre (CMain false)
      | _, _ => None
      end
  | EMainJoinSav =>
      match mpcv y0, sav y0 with
      | MJoinSav, Some _ => do_step y0 [] (CMain false)
      | _, _ => None
      end
  | EMainDone =>
      let '(y, pre) := skip_main 3 y0 in
      match mpcv y with MDone => Some (y, pre) | _ => None end
  end.

(** Replays the trace; returns the number of events accepted, the state
    reached and the schedule that leads to it. *)
Fixpoint monitor (y : sys) (evs : list event) : nat * sys * list choice :=
  match evs with
  | [] => (O, y, [])
  | e :: more =>
      match mon_event y e with
      | Some (y', chs) => let '(n, yf, l) := monitor y' more in (S n, yf, chs ++ l)
      | None => (O, y, [])
      end
  end.

(** The same replay, where every event also carries the length of the worker's
    own detections list observed right after the thread's turn: it must be the
    length of the model's [dets] at that point (the list is appended to before
    the observers are notified). *)
Fixpoint monitor_obs (y : sys) (evs : list (event * Z)) : nat * sys * list choice :=
  match evs with
  | [] => (O, y, [])
  | (e, nd) :: more =>
      match mon_event y e with
      | Some (y', chs) =>
          if zlen (dets y') =? nd
          then let '(n, yf, l) := monitor_obs y' more in (S n, yf, chs ++ l)
          else (O, y, [])
      | None => (O, y, [])
      end
  end.

End Monitor.
