(** Whatever the trace monitor accepts is an execution of the interleaving model:
    the state it ends in is [exec] of the schedule it reports, hence reachable,
    hence covered by the theorems of C12-C14. *)
From Coq Require Import ZArith List Bool Lia.
From AV Require Import Base.PyList Tok.Model Conc.Workers Conc.Monitor.
From AV Require Conc.WorkersSafety.
Import ListNotations.
Open Scope Z_scope.

Section MonitorProofs.
Context {A : Type}.
Variable c : config.
Variable bsz : A -> Z.
Variable cache_size : Z.
Variable A_eqb : A -> A -> bool.

Notation sys := (sys A).
Notation step := (@step A c bsz cache_size).
Notation exec := (@exec A c bsz cache_size).

Lemma exec_app (y : sys) l1 l2 : exec y (l1 ++ l2) = exec (exec y l1) l2.
Proof. revert y; induction l1 as [|ch l1 IH]; intros y; cbn [app exec]; [reflexivity|apply IH]. Qed.

Lemma skip_tok_exec fuel : forall (y y' : sys) l,
  skip_tok c bsz cache_size fuel y = (y', l) -> y' = exec y l.
Proof.
  induction fuel as [|f IH]; intros y y' l H; cbn [skip_tok] in H.
  - inversion H; reflexivity.
  - destruct (tok_silent y).
    + destruct (step y CTok) as [y1|] eqn:E.
      * destruct (skip_tok c bsz cache_size f y1) as [y2 l2] eqn:E2.
        inversion H; subst. cbn [exec]. rewrite E. apply IH; exact E2.
      * inversion H; reflexivity.
    + inversion H; reflexivity.
Qed.

Lemma skip_main_exec fuel : forall (y y' : sys) l,
  skip_main c bsz cache_size fuel y = (y', l) -> y' = exec y l.
Proof.
  induction fuel as [|f IH]; intros y y' l H; cbn [skip_main] in H.
  - inversion H; reflexivity.
  - destruct (main_silent y).
    + destruct (step y (CMain false)) as [y1|] eqn:E.
      * destruct (skip_main c bsz cache_size f y1) as [y2 l2] eqn:E2.
        inversion H; subst. cbn [exec]. rewrite E. apply IH; exact E2.
      * inversion H; reflexivity.
    + inversion H; reflexivity.
Qed.

Lemma do_step_exec (y0 y y' : sys) pre ch l :
  y = exec y0 pre -> do_step c bsz cache_size y pre ch = Some (y', l) -> y' = exec y0 l.
Proof.
  intros Hy H. unfold do_step in H. destruct (step y ch) as [y1|] eqn:E; [|discriminate].
  inversion H; subst. rewrite exec_app. cbn [exec]. rewrite E. reflexivity.
Qed.

Lemma do_step_exec0 (y y' : sys) ch l :
  do_step c bsz cache_size y [] ch = Some (y', l) -> y' = exec y l.
Proof. intros H. eapply do_step_exec; [|exact H]. reflexivity. Qed.

Ltac fin :=
  match goal with
  | H : None = Some _ |- _ => discriminate H
  | H : Some (?a, ?b) = Some (_, _) |- _ => inversion H; subst; clear H
  | H : do_step _ _ _ ?y [] _ = Some _ |- _ => exact (do_step_exec0 _ _ _ _ H)
  | H : do_step _ _ _ _ _ _ = Some _ |- _ => eapply do_step_exec; [|exact H]
  end.

Lemma mon_event_exec (y0 y' : sys) e l :
  mon_event c bsz cache_size A_eqb y0 e = Some (y', l) -> y' = exec y0 l.
Proof.
  intros H. destruct e; cbn [mon_event] in H.
  - destruct (skip_tok c bsz cache_size 3 y0) as [y pre] eqn:Es. apply skip_tok_exec in Es.
    destruct (tpcv y); try discriminate. destruct (Bool.eqb _ _); [|discriminate]. fin. exact Es.
  - destruct (skip_tok c bsz cache_size 3 y0) as [y pre] eqn:Es. apply skip_tok_exec in Es.
    destruct (tpcv y); try discriminate. destruct (opt_eqb _ _ _); [|discriminate]. fin. exact Es.
  - destruct (skip_tok c bsz cache_size 3 y0) as [y pre] eqn:Es. apply skip_tok_exec in Es.
    destruct (tpcv y); try discriminate.
    + match type of H with (if ?b then _ else _) = _ => destruct b end; [|discriminate]. fin. exact Es.
    + match type of H with (if ?b then _ else _) = _ => destruct b end; [|discriminate]. fin. exact Es.
  - destruct (skip_tok c bsz cache_size 3 y0) as [y pre] eqn:Es. apply skip_tok_exec in Es.
    destruct (tpcv y); try discriminate. destruct (sav y); [|discriminate]. fin. exact Es.
  - destruct (tpcv y0); try discriminate. fin.
  - destruct (skip_tok c bsz cache_size 3 y0) as [y pre] eqn:Es. apply skip_tok_exec in Es.
    destruct (tpcv y); try discriminate. inversion H; subst. reflexivity.
  - destruct (nth_error (observers y0) j) as [o|]; [|discriminate].
    destruct (opcv o); [|discriminate]. destruct (oinbox o) as [|m more].
    + destruct (r =? -1); [|discriminate]. fin.
    + destruct m.
      * match type of H with (if ?b then _ else _) = _ => destruct b end; [|discriminate]. fin.
      * destruct (r =? 0); [|discriminate]. fin.
  - destruct (nth_error (observers y0) j) as [o|]; [|discriminate].
    destruct (opcv o); [discriminate|]. inversion H; subst; reflexivity.
  - destruct (sav y0) as [v|]; [|discriminate].
    destruct (spcv v); try discriminate. destruct (sinbox v) as [|m more].
    + destruct (r =? -1); [|discriminate]. fin.
    + destruct m.
      * destruct (r =? 1); [|discriminate]. fin.
      * destruct (r =? 0); [|discriminate]. fin.
  - destruct (sav y0) as [v|]; [|discriminate].
    destruct (spcv v); try discriminate. destruct (sinbox v) as [|m more].
    + destruct (r =? -1); [|discriminate]. fin.
    + destruct m.
      * destruct (r =? 1); [|discriminate]. fin.
      * destruct (r =? 0); [|discriminate]. fin.
  - destruct (sav y0) as [v|]; [|discriminate].
    destruct (spcv v); try discriminate. inversion H; subst; reflexivity.
  - destruct (mpcv y0); try discriminate.
    match type of H with (if ?b then _ else _) = _ => destruct b end; [|discriminate]. fin.
  - destruct (mpcv y0); try discriminate. fin.
  - destruct (skip_main c bsz cache_size 3 y0) as [y pre] eqn:Es. apply skip_main_exec in Es.
    destruct (mpcv y); try discriminate.
    match type of H with (if ?b then _ else _) = _ => destruct b end; [|discriminate]. fin. exact Es.
  - destruct (mpcv y0); try discriminate.
    match type of H with (if ?b then _ else _) = _ => destruct b end; [|discriminate]. fin.
  - destruct (skip_main c bsz cache_size 3 y0) as [y pre] eqn:Es. apply skip_main_exec in Es.
    destruct (mpcv y); try discriminate. destruct (sav y); [|discriminate]. fin. exact Es.
  - destruct (mpcv y0); try discriminate. destruct (sav y0); [|discriminate]. fin.
  - destruct (skip_main c bsz cache_size 3 y0) as [y pre] eqn:Es. apply skip_main_exec in Es.
    destruct (mpcv y); try discriminate. inversion H; subst. reflexivity.
Qed.

Theorem monitor_exec evs : forall (y yf : sys) n l,
  monitor c bsz cache_size A_eqb y evs = (n, yf, l) -> yf = exec y l.
Proof.
  induction evs as [|e more IH]; intros y yf n l H; cbn [monitor] in H.
  - inversion H; reflexivity.
  - destruct (mon_event c bsz cache_size A_eqb y e) as [[y1 chs]|] eqn:E.
    + destruct (monitor c bsz cache_size A_eqb y1 more) as [[n1 y2] l2] eqn:E2.
      inversion H; subst. rewrite exec_app. apply mon_event_exec in E. subst y1.
      eapply IH; exact E2.
    + inversion H; reflexivity.
Qed.

Theorem monitor_obs_exec evs : forall (y yf : sys) n l,
  monitor_obs c bsz cache_size A_eqb y evs = (n, yf, l) -> yf = exec y l.
Proof.
  induction evs as [|[e nd] more IH]; intros y yf n l H; cbn [monitor_obs] in H.
  - inversion H; reflexivity.
  - destruct (mon_event c bsz cache_size A_eqb y e) as [[y1 chs]|] eqn:E.
    + destruct (zlen (dets y1) =? nd).
      * destruct (monitor_obs c bsz cache_size A_eqb y1 more) as [[n1 y2] l2] eqn:E2.
        inversion H; subst. rewrite exec_app. apply mon_event_exec in E. subst y1.
        eapply IH; exact E2.
      * inversion H; reflexivity.
    + inversion H; reflexivity.
Qed.

Theorem monitor_obs_reachable fs nobs ws s_old evs n yf l :
  monitor_obs c bsz cache_size A_eqb (init_sys fs nobs ws s_old) evs = (n, yf, l) ->
  WorkersSafety.reachable c bsz cache_size fs nobs ws s_old yf.
Proof. intros H. exists l. eapply monitor_obs_exec; exact H. Qed.

(** the state the monitor ends in is reachable: the invariants and final-state
    theorems of C12-C14 apply to it *)
Theorem monitor_reachable fs nobs ws s_old evs n yf l :
  monitor c bsz cache_size A_eqb (init_sys fs nobs ws s_old) evs = (n, yf, l) ->
  WorkersSafety.reachable c bsz cache_size fs nobs ws s_old yf.
Proof. intros H. exists l. eapply monitor_exec; exact H. Qed.

End MonitorProofs.
