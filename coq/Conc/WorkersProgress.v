(** PROGRESS part of properties C12 / C14 for the interleaving model of
    auditok.workers ([Conc/Workers.v]): no deadlock (in particular no join
    cycle), bounded work, termination of every thread with or without an
    external stop_all.

    Everything is proved for an arbitrary frame type [A], tokenizer
    configuration [c], block-size function [bsz] and cache size [cs]. *)
From Coq Require Import ZArith List Bool Lia Arith PeanoNat.
From AV Require Import Base.PyList Tok.Model Conc.Workers.
Import ListNotations.
Local Open Scope nat_scope.

(* ------------------------------------------------------------------ *)
(** * A first-order view of [upd_obs] *)

Section Upd.
Context {A : Type}.

Fixpoint upd (l : list (obs A)) (j : nat) (f : obs A -> obs A) : list (obs A) :=
  match l, j with
  | [], _ => []
  | o :: r, O => f o :: r
  | o :: r, S j' => o :: upd r j' f
  end.

Fixpoint go_upd (j : nat) (f : obs A -> obs A) (l : list (obs A)) (i : nat) : list (obs A) :=
  match l with
  | [] => []
  | o :: r => (if Nat.eqb i j then f o else o) :: go_upd j f r (S i)
  end.

Lemma go_upd_past j f l i : j < i -> go_upd j f l i = l.
Proof.
  revert i; induction l as [|o r IH]; intros i Hi; simpl; [reflexivity|].
  destruct (Nat.eqb_spec i j); [lia|]. rewrite IH by lia. reflexivity.
Qed.

Lemma go_upd_shift j f l i : i <= j -> go_upd j f l i = upd l (j - i) f.
Proof.
  revert i; induction l as [|o r IH]; intros i Hi; simpl.
  - destruct (j - i); reflexivity.
  - destruct (Nat.eqb_spec i j) as [E|E].
    + subst. rewrite Nat.sub_diag. rewrite go_upd_past by lia. reflexivity.
    + destruct (j - i) as [|k] eqn:Ek; [lia|].
      rewrite IH by lia. replace (j - S i) with k by lia. reflexivity.
Qed.

Lemma upd_obs_upd (l : list (obs A)) j f : upd_obs l j f = upd l j f.
Proof.
  transitivity (go_upd j f l 0).
  - unfold upd_obs. generalize 0.
    induction l as [|o r IH]; intros i; simpl; [reflexivity|].
    f_equal. apply IH.
  - rewrite go_upd_shift by lia. now rewrite Nat.sub_0_r.
Qed.

Lemma upd_length l j f : length (upd l j f) = length l.
Proof.
  revert j; induction l as [|o r IH]; intros [|j]; simpl; auto.
Qed.

(** What sits at position [k] after an update. *)
Lemma nth_error_upd_inv l j f k o' :
  nth_error (upd l j f) k = Some o' ->
  exists o, nth_error l k = Some o /\ (o' = o \/ (k = j /\ o' = f o)).
Proof.
  revert j k; induction l as [|o r IH]; intros j k H.
  - destruct j, k; discriminate.
  - destruct j as [|j], k as [|k]; simpl in *.
    + injection H as <-. exists o. split; [reflexivity|]. right; split; reflexivity.
    + exists o'. split; [assumption|]. left; reflexivity.
    + injection H as <-. exists o. split; [reflexivity|]. left; reflexivity.
    + apply IH in H. destruct H as (o0 & H0 & [H1 | [H1 H2]]).
      * exists o0. split; [assumption|]. left; assumption.
      * exists o0. split; [assumption|]. right; split; [congruence|assumption].
Qed.

Lemma nth_error_upd_same l j f o :
  nth_error l j = Some o -> nth_error (upd l j f) j = Some (f o).
Proof.
  revert j; induction l as [|o0 r IH]; intros [|j] H; simpl in *; try discriminate.
  - now injection H as ->.
  - auto.
Qed.

Lemma upd_id l j o : nth_error l j = Some o -> upd l j (fun _ => o) = l.
Proof.
  revert j; induction l as [|o0 r IH]; intros [|j] H; simpl in *; try discriminate.
  - now injection H as ->.
  - f_equal; auto.
Qed.

End Upd.

(* ------------------------------------------------------------------ *)
(** * The measure *)

Section Progress.
Context {A : Type}.
Variable c : config.
Variable bsz : A -> Z.
Variable cs : Z.

Notation sys := (sys A).
Notation step := (@step A c bsz cs).
Notation exec := (@exec A c bsz cs).

Definition reachable fs nobs ws s_old (y : sys) :=
  exists sched, y = exec (init_sys fs nobs ws s_old) sched.

(** A step that changes the state. *)
Definition moves (y : sys) ch := exists y', step y ch = Some y' /\ y' <> y.

(** Work a live observer still has to do: pop every message, then exit. *)
Definition omeas (o : obs A) : nat :=
  match opcv o with ORun => S (length (oinbox o)) | OExit => 0 end.

Definition osum (l : list (obs A)) : nat := list_sum (map omeas l).

Definition smeas (s : option (saver A)) : nat :=
  match s with
  | None => 0
  | Some v => match spcv v with
              | SRun => length (sinbox v) + 2
              | SDrain => length (sinbox v) + 1
              | SExit => 0
              end
  end.

(** Upper bound on the work left for the tokenizer thread with [n] observers
    and [r] blocks left; every future put is counted twice (once for the put,
    once for the pop by the consumer).  It does not look at [tinbox]: a stop
    marker only shortens Tok's future. *)
Definition tmeas (n r : nat) (pc : tpc A) : nat :=
  match pc with
  | TPoll => r * (2 * n + 4) + 4 * n + 8
  | TRead => r * (2 * n + 4) + 4 * n + 7
  | TNotify j _ false => 2 * (n - j) + r * (2 * n + 4) + 4 * n + 9
  | TNotify j _ true => 2 * (n - j) + 2 * n + 5
  | TStopNotify j => 2 * (n - j) + 4
  | TClose => 3
  | TJoinSav => 1
  | TExit => 0
  end.

Definition mmeas (n : nat) (pc : mpc) : nat :=
  match pc with
  | MIdle => 3 * n + 6
  | MJoinTok => 3 * n + 5
  | MStopObs j => 3 * (n - j) + 4
  | MJoinObs j => 3 * (n - S j) + 5
  | MCloseReader => 3
  | MJoinSav => 1
  | MDone => 0
  end.

Definition measure (y : sys) : nat :=
  let n := length (observers y) in
  tmeas n (length (rest y)) (tpcv y) + osum (observers y) + smeas (sav y) + mmeas n (mpcv y).

Lemma osum_upd_le l j f :
  (forall o, omeas (f o) <= omeas o + 1) -> osum (upd l j f) <= osum l + 1.
Proof.
  intros Hf. revert j; induction l as [|o r IH]; intros [|j]; unfold osum in *; simpl; try lia.
  - specialize (Hf o). lia.
  - specialize (IH j). lia.
Qed.

Lemma osum_upd_nth l j f o :
  nth_error l j = Some o -> osum (upd l j f) + omeas o = osum l + omeas (f o).
Proof.
  revert j; induction l as [|o0 r IH]; intros [|j] H; unfold osum in *; simpl in *; try discriminate.
  - injection H as ->. lia.
  - specialize (IH j H). lia.
Qed.

Lemma omeas_put (o : obs A) m :
  omeas (mkObs (oinbox o ++ [m]) (processed o) (opcv o)) <= omeas o + 1.
Proof.
  unfold omeas; cbn [opcv oinbox]. destruct (opcv o); [|lia].
  rewrite app_length; simpl; lia.
Qed.

Lemma osum_put l j m : osum (put_obs l j m) <= osum l + 1.
Proof.
  unfold put_obs. rewrite upd_obs_upd. apply osum_upd_le. intros o; apply omeas_put.
Qed.

Lemma put_obs_length (l : list (obs A)) j m : length (put_obs l j m) = length l.
Proof. unfold put_obs. rewrite upd_obs_upd. apply upd_length. Qed.

Lemma smeas_put s m : smeas (put_sav s m) <= smeas s + 1.
Proof.
  destruct s as [v|]; unfold smeas, put_sav; cbn [spcv sinbox]; [|lia].
  destruct (spcv v); rewrite ?app_length; simpl; lia.
Qed.

(** Every step of the tokenizer thread is a real move and pays for the
    messages it sends. *)
Lemma tok_measure (y : sys) y' : step_tok c y = Some y' -> measure y' < measure y.
Proof.
  destruct y as [pc st r nr ti d ob sv m].
  unfold step_tok; cbn [tpcv tinbox rest sav observers].
  intros H.
  pose proof (fun j m => osum_put ob j m) as Hput.
  pose proof (fun j m => put_obs_length ob j m) as Hlen.
  pose proof (fun m => smeas_put sv m) as Hsav.
  destruct pc as [| |j m0 final|j| | |].
  - (* TPoll *)
    destruct ti as [|u more].
    + injection H as <-. unfold measure, set_t; cbn [tpcv rest observers sav mpcv tmeas]. lia.
    + injection H as <-. unfold flush; cbn [tst rest nread].
      destruct (iter_step c st None) as [[st' toks] b].
      unfold after_tokens, measure, set_t; destruct toks;
        cbn [tpcv rest observers sav mpcv tmeas]; lia.
  - (* TRead *)
    destruct r as [|[b v] more].
    + injection H as <-. unfold flush; cbn [tst rest nread].
      destruct (iter_step c st None) as [[st' toks] b].
      specialize (Hsav SStop).
      unfold after_tokens, measure, set_t; destruct toks;
        cbn [tpcv rest observers sav mpcv tmeas length]; lia.
    + cbn [tst] in H. destruct (iter_step c st (Some (b, v))) as [[st' toks] b'].
      injection H as <-. specialize (Hsav (SData b)).
      unfold after_tokens, measure, set_t; destruct toks;
        cbn [tpcv rest observers sav mpcv tmeas length]; lia.
  - (* TNotify *)
    destruct (Nat.ltb_spec j (length ob)) as [Hj|Hj]; injection H as <-.
    + specialize (Hput j (ODet (fst m0) (snd m0))). specialize (Hlen j (ODet (fst m0) (snd m0))).
      unfold measure, set_t; cbn [tpcv rest observers sav mpcv tmeas]. rewrite Hlen.
      destruct final; lia.
    + unfold measure, set_t; cbn [tpcv rest observers sav mpcv tmeas].
      destruct final; cbn [tmeas]; lia.
  - (* TStopNotify *)
    destruct (Nat.ltb_spec j (length ob)) as [Hj|Hj]; injection H as <-.
    + specialize (Hput j OStop). specialize (Hlen j OStop).
      unfold measure, set_t; cbn [tpcv rest observers sav mpcv tmeas]. rewrite Hlen. lia.
    + unfold measure, set_t; cbn [tpcv rest observers sav mpcv tmeas]. lia.
  - (* TClose *)
    destruct sv as [v|]; injection H as <-.
    + specialize (Hsav SStop). unfold put_sav in Hsav.
      unfold measure, set_t; cbn [tpcv rest observers sav mpcv tmeas]. lia.
    + unfold measure, set_t; cbn [tpcv rest observers sav mpcv tmeas]. lia.
  - (* TJoinSav *)
    destruct sv as [v|]; [|discriminate]. destruct (spcv v) eqn:Ev; try discriminate.
    injection H as <-.
    unfold measure, set_t; cbn [tpcv rest observers sav mpcv tmeas]. lia.
  - discriminate.
Qed.

Lemma sys_eta (y : sys) :
  mkSys (tpcv y) (tst y) (rest y) (nread y) (tinbox y) (dets y) (observers y) (sav y) (mpcv y) = y.
Proof. destruct y; reflexivity. Qed.

(** Observers: without a timeout every enabled step pops a message. *)
Lemma obs_one_measure (o o' : obs A) : step_obs_one o false = Some o' -> omeas o' < omeas o.
Proof.
  unfold step_obs_one, omeas. destruct (opcv o) eqn:Ep; [|discriminate].
  destruct (oinbox o) as [|[i t|] more] eqn:Ei; [discriminate| |];
    intros H; injection H as <-; cbn [opcv oinbox length]; lia.
Qed.

Lemma obs_one_true (o o' : obs A) :
  step_obs_one o true = Some o' -> o' = o \/ step_obs_one o false = Some o'.
Proof.
  unfold step_obs_one. destruct (opcv o); [|discriminate].
  destruct (oinbox o) as [|[i t|] more]; intros H; [left; congruence | right; exact H ..].
Qed.

Lemma obs_measure_false (y : sys) j y' : step_obs y j false = Some y' -> measure y' < measure y.
Proof.
  unfold step_obs. destruct (nth_error (observers y) j) as [o|] eqn:En; [|discriminate].
  destruct (step_obs_one o false) as [o'|] eqn:Eo; [|discriminate].
  intros H; injection H as <-. apply obs_one_measure in Eo.
  unfold measure; cbn [tpcv rest observers sav mpcv].
  rewrite upd_obs_upd, upd_length.
  pose proof (osum_upd_nth _ _ (fun _ => o') _ En) as Hs. cbn beta in Hs. lia.
Qed.

Lemma obs_true_false (y : sys) j y' :
  step_obs y j true = Some y' -> y' = y \/ step_obs y j false = Some y'.
Proof.
  unfold step_obs. destruct (nth_error (observers y) j) as [o|] eqn:En; [|discriminate].
  destruct (step_obs_one o true) as [o'|] eqn:Eo; [|discriminate].
  intros H; injection H as <-. apply obs_one_true in Eo. destruct Eo as [-> | Eo].
  - left. rewrite upd_obs_upd, (upd_id _ _ _ En). apply sys_eta.
  - right. rewrite Eo. reflexivity.
Qed.

(** The writer thread. *)
Lemma sav_one_measure (v v' : saver A) :
  step_sav_one bsz cs v false = Some v' -> smeas (Some v') < smeas (Some v).
Proof.
  unfold step_sav_one, smeas. destruct (spcv v) eqn:Ep; [| |discriminate].
  - destruct (sinbox v) as [|[b|] more] eqn:Ei; [discriminate| |].
    + cbn zeta. destruct (Z.leb _ _); intros H; injection H as <-;
        unfold sav_write; cbn [spcv sinbox length]; lia.
    + intros H; injection H as <-; cbn [spcv sinbox length]; lia.
  - destruct (sinbox v) as [|[b|] more] eqn:Ei; intros H; injection H as <-;
      unfold sav_write; cbn [spcv sinbox length]; lia.
Qed.

Lemma sav_one_true (v v' : saver A) :
  step_sav_one bsz cs v true = Some v' -> v' = v \/ step_sav_one bsz cs v false = Some v'.
Proof.
  unfold step_sav_one. destruct (spcv v); [|right; assumption|discriminate].
  destruct (sinbox v) as [|[b|] more]; intros H; [left; congruence | right; exact H ..].
Qed.

Lemma sav_measure_false (y : sys) y' : step_sav bsz cs y false = Some y' -> measure y' < measure y.
Proof.
  unfold step_sav. destruct (sav y) as [v|] eqn:Es; [|discriminate].
  destruct (step_sav_one bsz cs v false) as [v'|] eqn:Ev; [|discriminate].
  intros H; injection H as <-. apply sav_one_measure in Ev.
  unfold measure; cbn [tpcv rest observers sav mpcv]. rewrite Es. lia.
Qed.

Lemma sav_true_false (y : sys) y' :
  step_sav bsz cs y true = Some y' -> y' = y \/ step_sav bsz cs y false = Some y'.
Proof.
  unfold step_sav. destruct (sav y) as [v|] eqn:Es; [|discriminate].
  destruct (step_sav_one bsz cs v true) as [v'|] eqn:Ev; [|discriminate].
  intros H; injection H as <-. apply sav_one_true in Ev. destruct Ev as [-> | Ev].
  - left. rewrite <- Es. apply sys_eta.
  - right. rewrite Ev. reflexivity.
Qed.

(** The main thread: every step is a real move. *)
Lemma main_measure (y : sys) s y' : step_main y s = Some y' -> measure y' < measure y.
Proof.
  destruct y as [pc st r nr ti d ob sv m].
  unfold step_main; cbn [mpcv tpcv sav observers].
  intros H.
  pose proof (fun j m => osum_put ob j m) as Hput.
  pose proof (fun j m => put_obs_length ob j m) as Hlen.
  pose proof (fun m => smeas_put sv m) as Hsav.
  destruct m as [| |j|j| | |].
  - destruct (s || _); [|discriminate]. injection H as <-.
    unfold measure; cbn [tpcv rest observers sav mpcv mmeas]. lia.
  - destruct pc; try discriminate. injection H as <-.
    unfold measure, set_m; cbn [tpcv rest observers sav mpcv mmeas]. lia.
  - destruct (Nat.ltb_spec j (length ob)) as [Hj|Hj]; injection H as <-.
    + specialize (Hput j OStop). specialize (Hlen j OStop).
      unfold measure; cbn [tpcv rest observers sav mpcv mmeas]. rewrite Hlen. lia.
    + unfold measure, set_m; cbn [tpcv rest observers sav mpcv mmeas]. lia.
  - destruct (obs_exited _ j); [|discriminate]. injection H as <-.
    unfold measure, set_m; cbn [tpcv rest observers sav mpcv mmeas]. lia.
  - destruct sv as [v|]; injection H as <-.
    + specialize (Hsav SStop). unfold put_sav in Hsav.
      unfold measure; cbn [tpcv rest observers sav mpcv mmeas]. lia.
    + unfold measure, set_m; cbn [tpcv rest observers sav mpcv mmeas]. lia.
  - destruct sv as [v|].
    + destruct (spcv v); try discriminate. injection H as <-.
      unfold measure, set_m; cbn [tpcv rest observers sav mpcv mmeas]. lia.
    + injection H as <-.
      unfold measure, set_m; cbn [tpcv rest observers sav mpcv mmeas]. lia.
  - discriminate.
Qed.

(** The core fact: a step either leaves the state unchanged (a timeout on an
    empty queue) or strictly decreases the measure.  No reachability
    assumption is needed. *)
Lemma step_measure (y : sys) ch y' : step y ch = Some y' -> y' = y \/ measure y' < measure y.
Proof.
  destruct ch as [|j [|]|[|]|s]; cbn [Workers.step]; intros H.
  - right. eapply tok_measure; eauto.
  - apply obs_true_false in H. destruct H as [H|H]; [now left|right].
    eapply obs_measure_false; eauto.
  - right. eapply obs_measure_false; eauto.
  - apply sav_true_false in H. destruct H as [H|H]; [now left|right].
    eapply sav_measure_false; eauto.
  - right. eapply sav_measure_false; eauto.
  - right. eapply main_measure; eauto.
Qed.

Lemma measure_decreases_any (y : sys) ch y' :
  step y ch = Some y' -> y' <> y -> measure y' < measure y.
Proof. intros H Hne. destruct (step_measure _ _ _ H); [contradiction|assumption]. Qed.

Lemma lt_moves (y : sys) ch y' : step y ch = Some y' -> measure y' < measure y -> moves y ch.
Proof. intros H Hlt. exists y'. split; [assumption|]. intros ->. lia. Qed.

(* ------------------------------------------------------------------ *)
(** * Reachable-state invariants needed for deadlock freedom *)

(** Tok has already put the stop marker into observer [j]'s inbox. *)
Definition stop_sent (pc : tpc A) (j : nat) : Prop :=
  match pc with
  | TStopNotify k => j < k
  | TClose | TJoinSav | TExit => True
  | _ => False
  end.

(** The writer has exited, is draining, or will see a stop marker. *)
Definition sav_stopping (v : saver A) : Prop :=
  spcv v = SExit \/ spcv v = SDrain \/ In SStop (sinbox v).

Record Inv (y : sys) : Prop := mkInv {
  inv_obs : forall j o, nth_error (observers y) j = Some o -> opcv o = ORun ->
                        stop_sent (tpcv y) j -> In OStop (oinbox o);
  inv_join : tpcv y = TJoinSav -> exists v, sav y = Some v /\ sav_stopping v;
  inv_exit : tpcv y = TExit -> match sav y with None => True | Some v => spcv v = SExit end
}.

Lemma Inv_init fs nobs ws s_old : Inv (init_sys fs nobs ws s_old).
Proof.
  split; cbn [init_sys tpcv stop_sent]; intros; try discriminate; contradiction.
Qed.

Definition early (pc : tpc A) : Prop :=
  match pc with
  | TPoll | TRead | TNotify _ _ _ | TStopNotify O => True
  | _ => False
  end.

Lemma Inv_early (y : sys) : early (tpcv y) -> Inv y.
Proof.
  intros He. split.
  - intros j o _ _ Hs. destruct (tpcv y) as [| | | [|k] | | |]; cbn in *; try contradiction; lia.
  - intros E; rewrite E in He; contradiction.
  - intros E; rewrite E in He; contradiction.
Qed.

Definition obs_ext (l l' : list (obs A)) : Prop :=
  forall k o', nth_error l' k = Some o' -> opcv o' = ORun ->
    exists o, nth_error l k = Some o /\ opcv o = ORun /\ (In OStop (oinbox o) -> In OStop (oinbox o')).

Definition sav_ok (s s' : option (saver A)) : Prop :=
  match s, s' with
  | None, None => True
  | Some v, Some v' => (sav_stopping v -> sav_stopping v') /\ (spcv v = SExit -> spcv v' = SExit)
  | _, _ => False
  end.

Lemma obs_ext_refl l : obs_ext l l.
Proof. intros k o' Hn Hr. exists o'. auto. Qed.

Lemma sav_ok_refl s : sav_ok s s.
Proof. destruct s; cbn; auto. Qed.

Lemma Inv_mono (y y' : sys) :
  tpcv y' = tpcv y -> obs_ext (observers y) (observers y') -> sav_ok (sav y) (sav y') ->
  Inv y -> Inv y'.
Proof.
  intros Hpc Hobs Hsav [Ho Hj He]. split.
  - intros j o' Hn Hr Hs. destruct (Hobs j o' Hn Hr) as (o & Hn0 & Hr0 & Hin).
    apply Hin. apply (Ho j o Hn0 Hr0). rewrite <- Hpc. exact Hs.
  - intros Hp. rewrite Hpc in Hp. destruct (Hj Hp) as (v & Hs & Hst).
    unfold sav_ok in Hsav. rewrite Hs in Hsav.
    destruct (sav y') as [v'|]; [|contradiction]. exists v'. split; [reflexivity|]. now apply Hsav.
  - intros Hp. rewrite Hpc in Hp. specialize (He Hp). unfold sav_ok in Hsav.
    destruct (sav y) as [v|], (sav y') as [v'|]; try contradiction; auto. now apply Hsav.
Qed.

Lemma put_obs_ext (l : list (obs A)) j m : obs_ext l (put_obs l j m).
Proof.
  intros k o' Hn Hr. unfold put_obs in Hn. rewrite upd_obs_upd in Hn.
  apply nth_error_upd_inv in Hn. destruct Hn as (o & Hn & [-> | [-> ->]]).
  - exists o. auto.
  - exists o. cbn [opcv oinbox] in *. repeat split; auto. intros Hin. apply in_or_app; now left.
Qed.

Lemma put_obs_stop_at (l : list (obs A)) j o' :
  nth_error (put_obs l j OStop) j = Some o' -> In OStop (oinbox o').
Proof.
  intros Hn. unfold put_obs in Hn. rewrite upd_obs_upd in Hn.
  destruct (nth_error_upd_inv _ _ _ _ _ Hn) as (o & Ho & _).
  rewrite (nth_error_upd_same _ _ _ _ Ho) in Hn. injection Hn as <-.
  cbn [oinbox]. apply in_or_app; right; now left.
Qed.

Lemma put_sav_ok (s : option (saver A)) : sav_ok s (put_sav s SStop).
Proof.
  destruct s as [v|]; cbn; auto. split; [|auto].
  unfold sav_stopping; cbn [spcv sinbox]. intros [H|[H|H]]; auto.
  right; right. apply in_or_app; now left.
Qed.

Lemma tok_Inv (y y' : sys) : step_tok c y = Some y' -> Inv y -> Inv y'.
Proof.
  destruct y as [pc st r nr ti d ob sv m].
  unfold step_tok; cbn [tpcv tinbox rest sav observers].
  intros H [Ho Hj He]; cbn [tpcv observers sav] in *.
  destruct pc as [| |j m0 final|k| | |].
  - (* TPoll *)
    destruct ti as [|u more]; injection H as <-.
    + apply Inv_early; exact I.
    + unfold flush; cbn [tst rest nread].
      destruct (iter_step c st None) as [[st' toks] b].
      apply Inv_early. unfold after_tokens, set_t; destruct toks; exact I.
  - (* TRead *)
    destruct r as [|[b v] more].
    + injection H as <-. unfold flush; cbn [tst rest nread].
      destruct (iter_step c st None) as [[st' toks] b].
      apply Inv_early. unfold after_tokens, set_t; destruct toks; exact I.
    + cbn [tst] in H. destruct (iter_step c st (Some (b, v))) as [[st' toks] b'].
      injection H as <-.
      apply Inv_early. unfold after_tokens, set_t; destruct toks; exact I.
  - (* TNotify *)
    destruct (Nat.ltb j (length ob)); injection H as <-; apply Inv_early;
      unfold set_t; cbn [tpcv]; destruct final; exact I.
  - (* TStopNotify *)
    destruct (Nat.ltb_spec k (length ob)) as [Hk|Hk]; injection H as <-; unfold set_t.
    + split; cbn [tpcv observers sav stop_sent]; try discriminate.
      intros j o' Hn Hr Hs.
      destruct (Nat.eq_dec j k) as [->|Hne].
      * eapply put_obs_stop_at; eauto.
      * destruct (put_obs_ext ob k OStop j o' Hn Hr) as (o & Hn0 & Hr0 & Hin).
        apply Hin. apply (Ho j o Hn0 Hr0). cbn. lia.
    + split; cbn [tpcv observers sav stop_sent]; try discriminate.
      intros j o Hn Hr _. apply (Ho j o Hn Hr). cbn.
      assert (j < length ob) by (apply nth_error_Some; congruence). lia.
  - (* TClose *)
    destruct sv as [v|]; injection H as <-; unfold set_t.
    + split; cbn [tpcv observers sav stop_sent]; try discriminate.
      * intros j o Hn Hr _. apply (Ho j o Hn Hr). exact I.
      * intros _. eexists; split; [reflexivity|]. right; right. cbn [sinbox].
        apply in_or_app; right; now left.
    + split; cbn [tpcv observers sav stop_sent]; try discriminate; auto.
      all: intros j o Hn Hr _; apply (Ho j o Hn Hr); exact I.
  - (* TJoinSav *)
    destruct sv as [v|]; [|discriminate]. destruct (spcv v) eqn:Ev; try discriminate.
    injection H as <-. unfold set_t.
    split; cbn [tpcv observers sav stop_sent]; try discriminate; auto.
    all: intros j o Hn Hr _; apply (Ho j o Hn Hr); exact I.
  - discriminate.
Qed.

Lemma obs_one_ext (o o' : obs A) t :
  step_obs_one o t = Some o' -> opcv o' = ORun ->
  opcv o = ORun /\ (In OStop (oinbox o) -> In OStop (oinbox o')).
Proof.
  unfold step_obs_one. destruct (opcv o) eqn:Ep; [|discriminate].
  destruct (oinbox o) as [|[i tk|] more] eqn:Ei.
  - destruct t; [|discriminate]. intros H _; injection H as <-. rewrite Ei. auto.
  - intros H _; injection H as <-. cbn [oinbox]. split; [reflexivity|].
    intros [Hd|Hin]; [discriminate|assumption].
  - intros H Hr; injection H as <-. discriminate.
Qed.

Lemma obs_Inv (y y' : sys) j t : step_obs y j t = Some y' -> Inv y -> Inv y'.
Proof.
  unfold step_obs. destruct (nth_error (observers y) j) as [o|] eqn:En; [|discriminate].
  destruct (step_obs_one o t) as [o'|] eqn:Eo; [|discriminate].
  intros H; injection H as <-. apply Inv_mono; cbn [tpcv observers sav].
  - reflexivity.
  - intros k o'' Hn Hr. rewrite upd_obs_upd in Hn.
    apply nth_error_upd_inv in Hn. destruct Hn as (o0 & Hn & [-> | [-> ->]]).
    + exists o0. auto.
    + exists o0. split; [assumption|]. rewrite En in Hn. injection Hn as <-.
      eapply obs_one_ext; eauto.
  - apply sav_ok_refl.
Qed.

Lemma sav_one_ok (v v' : saver A) t :
  step_sav_one bsz cs v t = Some v' -> sav_ok (Some v) (Some v').
Proof.
  unfold step_sav_one.
  destruct (spcv v) eqn:Ep; [| |discriminate].
  - destruct (sinbox v) as [|[b|] more] eqn:Ei.
    + destruct t; [|discriminate]. intros H; injection H as <-. apply sav_ok_refl.
    + cbn zeta. destruct (Z.leb _ _); intros H; injection H as <-;
        unfold sav_write, sav_ok, sav_stopping; cbn [spcv sinbox]; rewrite Ep, Ei;
        (split; [|discriminate]);
        intros [H|[H|[H|H]]]; try discriminate; auto.
    + intros H; injection H as <-; unfold sav_ok, sav_stopping; cbn [spcv sinbox].
      split; [auto|rewrite Ep; discriminate].
  - destruct (sinbox v) as [|[b|] more] eqn:Ei; intros H; injection H as <-;
      unfold sav_write, sav_ok, sav_stopping; cbn [spcv sinbox];
      (split; [auto|rewrite Ep; discriminate]).
Qed.

Lemma sav_Inv (y y' : sys) t : step_sav bsz cs y t = Some y' -> Inv y -> Inv y'.
Proof.
  unfold step_sav. destruct (sav y) as [v|] eqn:Es; [|discriminate].
  destruct (step_sav_one bsz cs v t) as [v'|] eqn:Ev; [|discriminate].
  intros H; injection H as <-. apply Inv_mono; cbn [tpcv observers sav].
  - reflexivity.
  - apply obs_ext_refl.
  - rewrite Es. eapply sav_one_ok; eauto.
Qed.

Lemma main_Inv (y y' : sys) s : step_main y s = Some y' -> Inv y -> Inv y'.
Proof.
  unfold step_main. intros H.
  assert (tpcv y' = tpcv y /\ obs_ext (observers y) (observers y') /\ sav_ok (sav y) (sav y'))
    as (H1 & H2 & H3); [|now apply Inv_mono].
  pose proof obs_ext_refl as R1. pose proof sav_ok_refl as R2.
  pose proof put_obs_ext as R3. pose proof put_sav_ok as R4.
  destruct (mpcv y) as [| |j|j| | |].
  - destruct (s || _); [|discriminate]. injection H as <-.
    cbn [tpcv observers sav]. auto.
  - destruct (tpcv y) eqn:Et; try discriminate. injection H as <-.
    unfold set_m; cbn [tpcv observers sav]. auto.
  - destruct (Nat.ltb j (length (observers y))); injection H as <-;
      unfold set_m; cbn [tpcv observers sav]; auto.
  - destruct (obs_exited y j); [|discriminate]. injection H as <-.
    unfold set_m; cbn [tpcv observers sav]. auto.
  - destruct (sav y) as [v|] eqn:Es; injection H as <-;
      unfold set_m; cbn [tpcv observers sav]; rewrite ?Es; auto.
    repeat split; auto. apply (R4 (Some v)).
  - destruct (sav y) as [v|] eqn:Es; [destruct (spcv v); try discriminate|];
      injection H as <-; unfold set_m; cbn [tpcv observers sav]; rewrite ?Es; auto.
  - discriminate.
Qed.

Lemma step_Inv (y y' : sys) ch : step y ch = Some y' -> Inv y -> Inv y'.
Proof.
  destruct ch as [|j t|t|s]; cbn [Workers.step].
  - apply tok_Inv. - apply obs_Inv. - apply sav_Inv. - apply main_Inv.
Qed.

(* ------------------------------------------------------------------ *)
(** * The number of observers never changes *)

Lemma tok_length (y y' : sys) : step_tok c y = Some y' -> length (observers y') = length (observers y).
Proof.
  destruct y as [pc st r nr ti d ob sv m].
  unfold step_tok; cbn [tpcv tinbox rest sav observers].
  intros H.
  pose proof (fun j m => put_obs_length ob j m) as Hlen.
  destruct pc as [| |j m0 final|k| | |].
  - destruct ti as [|u more]; injection H as <-; [reflexivity|].
    unfold flush; cbn [tst rest nread].
    destruct (iter_step c st None) as [[st' toks] b].
    unfold after_tokens, set_t; destruct toks; reflexivity.
  - destruct r as [|[b v] more].
    + injection H as <-. unfold flush; cbn [tst rest nread].
      destruct (iter_step c st None) as [[st' toks] b].
      unfold after_tokens, set_t; destruct toks; reflexivity.
    + cbn [tst] in H. destruct (iter_step c st (Some (b, v))) as [[st' toks] b'].
      injection H as <-. unfold after_tokens, set_t; destruct toks; reflexivity.
  - destruct (Nat.ltb j (length ob)); injection H as <-; unfold set_t; cbn [observers]; auto.
  - destruct (Nat.ltb k (length ob)); injection H as <-; unfold set_t; cbn [observers]; auto.
  - destruct sv as [v|]; injection H as <-; reflexivity.
  - destruct sv as [v|]; [|discriminate]. destruct (spcv v); try discriminate.
    injection H as <-; reflexivity.
  - discriminate.
Qed.

Lemma step_length (y y' : sys) ch :
  step y ch = Some y' -> length (observers y') = length (observers y).
Proof.
  destruct ch as [|j t|t|s]; cbn [Workers.step].
  - apply tok_length.
  - unfold step_obs. destruct (nth_error (observers y) j) as [o|]; [|discriminate].
    destruct (step_obs_one o t) as [o'|]; [|discriminate].
    intros H; injection H as <-. cbn [observers]. rewrite upd_obs_upd. apply upd_length.
  - unfold step_sav. destruct (sav y) as [v|]; [|discriminate].
    destruct (step_sav_one bsz cs v t) as [v'|]; [|discriminate].
    intros H; injection H as <-. reflexivity.
  - unfold step_main. destruct (mpcv y) as [| |j|j| | |].
    + destruct (s || _); [|discriminate]. intros H; injection H as <-. reflexivity.
    + destruct (tpcv y); try discriminate. intros H; injection H as <-. reflexivity.
    + destruct (Nat.ltb j (length (observers y))); intros H; injection H as <-;
        cbn [observers set_m]; [apply put_obs_length|reflexivity].
    + destruct (obs_exited y j); [|discriminate]. intros H; injection H as <-. reflexivity.
    + destruct (sav y) as [v|]; intros H; injection H as <-; reflexivity.
    + destruct (sav y) as [v|]; [destruct (spcv v); try discriminate|];
        intros H; injection H as <-; reflexivity.
    + discriminate.
Qed.

(* ------------------------------------------------------------------ *)
(** * Schedules *)

Lemma exec_app (y : sys) s1 s2 : exec y (s1 ++ s2) = exec (exec y s1) s2.
Proof. revert y; induction s1 as [|ch more IH]; intros y; simpl; auto. Qed.

Lemma exec_Inv (y : sys) sched : Inv y -> Inv (exec y sched).
Proof.
  revert y; induction sched as [|ch more IH]; intros y Hi; simpl; [assumption|].
  apply IH. destruct (step y ch) as [y'|] eqn:E; [eapply step_Inv; eauto|assumption].
Qed.

Lemma exec_length (y : sys) sched : length (observers (exec y sched)) = length (observers y).
Proof.
  revert y; induction sched as [|ch more IH]; intros y; simpl; [reflexivity|].
  rewrite IH. destruct (step y ch) as [y'|] eqn:E; [eapply step_length; eauto|reflexivity].
Qed.

Lemma exec_measure_le (y : sys) sched : measure (exec y sched) <= measure y.
Proof.
  revert y; induction sched as [|ch more IH]; intros y; simpl; [lia|].
  destruct (step y ch) as [y'|] eqn:E; [|apply IH].
  specialize (IH y'). destruct (step_measure _ _ _ E) as [->|Hlt]; lia.
Qed.

(** If some choice of the schedule is a real move in the start state, the
    schedule strictly decreases the measure (until that choice is reached the
    state either stays the same or the measure has already dropped). *)
Lemma exec_moves_lt (y : sys) sched :
  (exists ch, In ch sched /\ moves y ch) -> measure (exec y sched) < measure y.
Proof.
  induction sched as [|ch more IH]; intros (ch0 & Hin & Hmv); [destruct Hin|].
  simpl. destruct (step y ch) as [y'|] eqn:E.
  - destruct (step_measure _ _ _ E) as [->|Hlt].
    + apply IH. destruct Hin as [<-|Hin]; [|eauto].
      destruct Hmv as (y'' & Hs & Hne). congruence.
    + pose proof (exec_measure_le y' more). lia.
  - apply IH. destruct Hin as [<-|Hin]; [|eauto].
    destruct Hmv as (y'' & Hs & Hne). congruence.
Qed.

Lemma reachable_Inv fs nobs ws s_old y : reachable fs nobs ws s_old y -> Inv y.
Proof. intros [sched ->]. apply exec_Inv, Inv_init. Qed.

Lemma reachable_length fs nobs ws s_old y :
  reachable fs nobs ws s_old y -> length (observers y) = nobs.
Proof.
  intros [sched ->]. rewrite exec_length. cbn [init_sys observers]. apply repeat_length.
Qed.

Lemma reachable_exec fs nobs ws s_old y sched :
  reachable fs nobs ws s_old y -> reachable fs nobs ws s_old (exec y sched).
Proof. intros [s0 ->]. exists (s0 ++ sched). now rewrite exec_app. Qed.

(* ------------------------------------------------------------------ *)
(** * Deadlock freedom *)

Definition wround (nobs : nat) : list choice :=
  CTok :: map (fun j => CObs j false) (seq 0 nobs) ++ [CSav false].

Definition round (nobs : nat) : list choice :=
  CTok :: map (fun j => CObs j false) (seq 0 nobs) ++ [CSav false; CMain false].

Lemma in_wround_obs n j : j < n -> In (CObs j false) (wround n).
Proof.
  intros Hj. right. apply in_or_app; left. apply in_map_iff. exists j. split; [reflexivity|].
  apply in_seq. lia.
Qed.

Lemma in_wround_sav n : In (CSav false) (wround n).
Proof. right. apply in_or_app; right. now left. Qed.

Lemma wround_round n ch : In ch (wround n) -> In ch (round n).
Proof.
  intros [H|H]; [now left|right]. apply in_app_or in H. apply in_or_app.
  destruct H as [H|[H|[]]]; [now left|right; now left].
Qed.

Lemma in_round_main n : In (CMain false) (round n).
Proof. right. apply in_or_app; right. right; now left. Qed.

Lemma wround_no_main n ch : In ch (wround n) -> match ch with CMain _ => False | _ => True end.
Proof.
  intros [<-|H]; [exact I|]. apply in_app_or in H. destruct H as [H|[<-|[]]]; [|exact I].
  apply in_map_iff in H. destruct H as (j & <- & _). exact I.
Qed.

Lemma round_no_stop n ch : In ch (round n) -> ch <> CMain true.
Proof.
  intros [<-|H]; [discriminate|]. apply in_app_or in H. destruct H as [H|[<-|[<-|[]]]]; try discriminate.
  apply in_map_iff in H. destruct H as (j & <- & _). discriminate.
Qed.

Lemma forallb_false_nth {T} (f : T -> bool) l :
  forallb f l = false -> exists j x, nth_error l j = Some x /\ f x = false.
Proof.
  induction l as [|x r IH]; simpl; [discriminate|].
  destruct (f x) eqn:E; simpl.
  - intros H. destruct (IH H) as (j & x0 & Hn & Hf). exists (S j), x0. auto.
  - intros _. exists 0, x. auto.
Qed.

Lemma tok_enabled (y : sys) :
  match tpcv y with TJoinSav | TExit => False | _ => True end -> exists y', step_tok c y = Some y'.
Proof.
  unfold step_tok. destruct (tpcv y) as [| |j m0 final|k| | |]; intros Hp; try contradiction.
  - destruct (tinbox y); eauto.
  - destruct (rest y) as [|[b v] more]; [eauto|].
    destruct (iter_step c (tst y) (Some (b, v))) as [[st' toks] b']. eauto.
  - destruct (Nat.ltb j (length (observers y))); eauto.
  - destruct (Nat.ltb k (length (observers y))); eauto.
  - destruct (sav y); eauto.
Qed.

Lemma tok_moves (y : sys) :
  match tpcv y with TJoinSav | TExit => False | _ => True end -> moves y CTok.
Proof.
  intros Hp. destruct (tok_enabled y Hp) as [y' Hy].
  eapply lt_moves; [exact Hy|]. now apply tok_measure.
Qed.

Lemma sav_moves (y : sys) v :
  sav y = Some v -> spcv v = SDrain \/ (spcv v = SRun /\ sinbox v <> []) -> moves y (CSav false).
Proof.
  intros Hs Hv.
  assert (exists y', step_sav bsz cs y false = Some y') as [y' Hy].
  { unfold step_sav, step_sav_one. rewrite Hs. destruct Hv as [-> | [-> Hne]].
    - destruct (sinbox v) as [|[b|] more]; eauto.
    - destruct (sinbox v) as [|[b|] more]; [congruence| |eauto].
      cbn zeta. destruct (Z.leb _ _); eauto. }
  eapply lt_moves; [exact Hy|]. now apply sav_measure_false.
Qed.

Lemma obs_moves (y : sys) j o :
  nth_error (observers y) j = Some o -> opcv o = ORun -> oinbox o <> [] -> moves y (CObs j false).
Proof.
  intros Hn Hr Hne.
  assert (exists y', step_obs y j false = Some y') as [y' Hy].
  { unfold step_obs, step_obs_one. rewrite Hn, Hr.
    destruct (oinbox o) as [|[i t|] more]; [congruence|eauto|eauto]. }
  eapply lt_moves; [exact Hy|]. exact (obs_measure_false _ _ _ Hy).
Qed.

(** While some worker thread is alive, some WORKER thread can make a real move
    (the main thread is not needed). *)
Lemma worker_progress (y : sys) :
  Inv y -> all_workers_exited y = false ->
  exists ch, In ch (wround (length (observers y))) /\ moves y ch.
Proof.
  intros [Ho Hj He] Hw.
  destruct (tpcv y) as [| |j m0 final|k| | |] eqn:Et.
  1-5: exists CTok; split; [now left|]; apply tok_moves; rewrite Et; exact I.
  - (* Tok joins the writer *)
    destruct (Hj eq_refl) as (v & Hs & Hst).
    destruct (spcv v) eqn:Ev.
    + exists (CSav false). split; [apply in_wround_sav|].
      apply (sav_moves y v Hs). right. split; [assumption|].
      destruct Hst as [H|[H|H]]; try congruence. intros E; rewrite E in H; destruct H.
    + exists (CSav false). split; [apply in_wround_sav|].
      apply (sav_moves y v Hs). now left.
    + exists CTok. split; [now left|].
      assert (exists y', step_tok c y = Some y') as [y' Hy].
      { unfold step_tok. rewrite Et, Hs, Ev. eauto. }
      eapply lt_moves; [exact Hy|]. now apply tok_measure.
  - (* Tok has exited: the writer too; a live observer holds a stop marker *)
    specialize (He eq_refl).
    unfold all_workers_exited in Hw. rewrite Et in Hw. cbn [andb] in Hw.
    assert (forallb (fun o : obs A => match opcv o with OExit => true | ORun => false end)
                    (observers y) = false) as Hf.
    { destruct (forallb _ (observers y)); [|reflexivity].
      destruct (sav y) as [v|]; [rewrite He in Hw|]; discriminate. }
    apply forallb_false_nth in Hf. destruct Hf as (j & o & Hn & Hf).
    assert (opcv o = ORun) as Hr by (destruct (opcv o); [reflexivity|discriminate]).
    exists (CObs j false). split.
    + apply in_wround_obs. apply nth_error_Some. congruence.
    + apply (obs_moves y j o Hn Hr).
      specialize (Ho j o Hn Hr I). intros E; rewrite E in Ho; destruct Ho.
Qed.

(** Once all workers have exited the main thread runs to completion alone. *)
Lemma main_progress (y : sys) :
  all_workers_exited y = true -> mpcv y <> MDone -> moves y (CMain false).
Proof.
  intros Hw Hm.
  assert (exists y', step_main y false = Some y') as [y' Hy].
  { unfold step_main. destruct (mpcv y) as [| |j|j| | |] eqn:Em.
    - rewrite Hw. cbn [orb]. eauto.
    - unfold all_workers_exited in Hw. destruct (tpcv y); try discriminate. eauto.
    - destruct (Nat.ltb j (length (observers y))); eauto.
    - assert (obs_exited y j = true) as ->; [|eauto].
      unfold obs_exited. destruct (nth_error (observers y) j) as [o|] eqn:En; [|reflexivity].
      unfold all_workers_exited in Hw. apply andb_true_iff in Hw. destruct Hw as [Hw _].
      apply andb_true_iff in Hw. destruct Hw as [_ Hw].
      rewrite forallb_forall in Hw. apply (Hw o). eapply nth_error_In; eauto.
    - destruct (sav y); eauto.
    - unfold all_workers_exited in Hw. apply andb_true_iff in Hw. destruct Hw as [_ Hw].
      destruct (sav y) as [v|]; [|eauto]. destruct (spcv v); try discriminate. eauto.
    - congruence. }
  eapply lt_moves; [exact Hy|]. eapply main_measure; eauto.
Qed.

Lemma round_progress (y : sys) :
  Inv y -> all_exited y = false ->
  exists ch, In ch (round (length (observers y))) /\ moves y ch.
Proof.
  intros Hi He. destruct (all_workers_exited y) eqn:Hw.
  - exists (CMain false). split; [apply in_round_main|]. apply main_progress; [assumption|].
    unfold all_exited in He. rewrite Hw in He. cbn [andb] in He.
    intros E; rewrite E in He; discriminate.
  - destruct (worker_progress y Hi Hw) as (ch & Hin & Hmv).
    exists ch. split; [now apply wround_round|assumption].
Qed.

(** 1. Deadlock freedom WITHOUT an external stop. *)
Theorem progress_no_deadlock fs nobs ws s_old y :
  reachable fs nobs ws s_old y -> all_exited y = false ->
  exists ch, ch <> CMain true /\ moves y ch.
Proof.
  intros Hr He. destruct (round_progress y (reachable_Inv _ _ _ _ _ Hr) He) as (ch & Hin & Hmv).
  exists ch. split; [eapply round_no_stop; eauto|assumption].
Qed.

(** 2. Bounded work. *)
Theorem measure_decreases fs nobs ws s_old y ch y' :
  reachable fs nobs ws s_old y -> step y ch = Some y' -> y' <> y -> measure y' < measure y.
Proof. intros _. apply measure_decreases_any. Qed.

(** 4. [all_exited] is final: nothing is enabled any more. *)
Lemma all_exited_disabled (y : sys) : all_exited y = true -> forall ch, step y ch = None.
Proof.
  unfold all_exited, all_workers_exited. intros H ch.
  apply andb_true_iff in H. destruct H as [H Hm].
  apply andb_true_iff in H. destruct H as [H Hs].
  apply andb_true_iff in H. destruct H as [Ht Ho].
  destruct ch as [|j t|t|s]; cbn [Workers.step].
  - unfold step_tok. destruct (tpcv y); try discriminate. reflexivity.
  - unfold step_obs. destruct (nth_error (observers y) j) as [o|] eqn:En; [|reflexivity].
    rewrite forallb_forall in Ho. specialize (Ho o (nth_error_In _ _ En)).
    unfold step_obs_one. destruct (opcv o); [discriminate|reflexivity].
  - unfold step_sav. destruct (sav y) as [v|]; [|reflexivity].
    unfold step_sav_one. destruct (spcv v); try discriminate. reflexivity.
  - unfold step_main. destruct (mpcv y); try discriminate. reflexivity.
Qed.

Theorem all_exited_final (y : sys) :
  all_exited y = true -> forall ch, step y ch = None \/ step y ch = Some y.
Proof. intros H ch. left. now apply all_exited_disabled. Qed.

Lemma exec_final (y : sys) sched : all_exited y = true -> exec y sched = y.
Proof.
  intros H. induction sched as [|ch more IH]; simpl; [reflexivity|].
  now rewrite (all_exited_disabled y H ch).
Qed.

(* ------------------------------------------------------------------ *)
(** * Termination *)

(** Any repeated block of choices that contains one full round terminates
    within [measure] repetitions. *)
Lemma rounds_terminate (R : list choice) nobs :
  (forall ch, In ch (round nobs) -> In ch R) ->
  forall n (y : sys), Inv y -> length (observers y) = nobs -> measure y <= n ->
    all_exited (exec y (concat (repeat R n))) = true.
Proof.
  intros HR. induction n as [|n IH]; intros y Hi Hl Hm.
  - simpl. destruct (all_exited y) eqn:E; [reflexivity|].
    destruct (round_progress y Hi E) as (ch & _ & (y' & Hs & Hne)).
    pose proof (measure_decreases_any _ _ _ Hs Hne). lia.
  - cbn [repeat concat]. rewrite exec_app.
    destruct (all_exited y) eqn:E.
    + rewrite (exec_final y R E), (exec_final y _ E). exact E.
    + apply IH.
      * now apply exec_Inv.
      * now rewrite exec_length.
      * assert (measure (exec y R) < measure y); [|lia].
        apply exec_moves_lt. destruct (round_progress y Hi E) as (ch & Hin & Hmv).
        exists ch. split; [|assumption]. apply HR. now rewrite <- Hl.
Qed.

(** 3. A concrete fair schedule terminates, without any external stop. *)
Theorem round_robin_terminates fs nobs ws s_old :
  exists n, all_exited (exec (init_sys fs nobs ws s_old) (concat (repeat (round nobs) n))) = true.
Proof.
  exists (measure (init_sys fs nobs ws s_old)).
  apply (rounds_terminate (round nobs) nobs); auto.
  - apply Inv_init.
  - cbn [init_sys observers]. apply repeat_length.
Qed.

(** 6. stop_all at any reachable point still terminates. *)
Theorem stop_anytime_terminates fs nobs ws s_old y :
  reachable fs nobs ws s_old y ->
  exists n, all_exited (exec y (concat (repeat (CMain true :: round nobs) n))) = true.
Proof.
  intros Hr. exists (measure y).
  apply (rounds_terminate (CMain true :: round nobs) nobs); auto.
  - intros ch Hin. now right.
  - eapply reachable_Inv; eauto.
  - eapply reachable_length; eauto.
Qed.

(** 5. The workers terminate by themselves: no main step is needed. *)
Lemma workers_terminate_from n : forall (y : sys), Inv y -> measure y <= n ->
  exists sched, (forall ch, In ch sched -> match ch with CMain _ => False | _ => True end)
                /\ all_workers_exited (exec y sched) = true.
Proof.
  induction n as [|n IH]; intros y Hi Hm.
  - destruct (all_workers_exited y) eqn:E.
    + exists []. split; [intros ch []|assumption].
    + destruct (worker_progress y Hi E) as (ch & _ & (y' & Hs & Hne)).
      pose proof (measure_decreases_any _ _ _ Hs Hne). lia.
  - destruct (all_workers_exited y) eqn:E.
    + exists []. split; [intros ch []|assumption].
    + destruct (worker_progress y Hi E) as (ch & Hin & (y' & Hs & Hne)).
      pose proof (measure_decreases_any _ _ _ Hs Hne) as Hlt.
      destruct (IH y') as (sched & Hno & Hex); [eapply step_Inv; eauto|lia|].
      exists (ch :: sched). split.
      * intros ch0 [<-|Hin0]; [exact (wround_no_main _ _ Hin) | exact (Hno _ Hin0)].
      * simpl. rewrite Hs. assumption.
Qed.

Theorem workers_terminate_alone fs nobs ws s_old :
  exists sched, (forall ch, In ch sched -> match ch with CMain _ => False | _ => True end)
    /\ all_workers_exited (exec (init_sys fs nobs ws s_old) sched) = true.
Proof. eapply workers_terminate_from; [apply Inv_init|apply le_n]. Qed.

(* ------------------------------------------------------------------ *)
(** * Every schedule contains at most [measure] real moves *)

(** Number of real (state-changing) moves of a schedule; by [real_move_iff]
    a step is real exactly when it decreases the measure. *)
Fixpoint nmoves (y : sys) (sched : list choice) : nat :=
  match sched with
  | [] => 0
  | ch :: more =>
      match step y ch with
      | Some y' => (if measure y' <? measure y then 1 else 0) + nmoves y' more
      | None => nmoves y more
      end
  end.

Lemma real_move_iff (y : sys) ch y' :
  step y ch = Some y' -> (measure y' <? measure y = true <-> y' <> y).
Proof.
  intros H. rewrite Nat.ltb_lt. split.
  - intros Hlt ->. lia.
  - now apply (measure_decreases_any _ _ _ H).
Qed.

Theorem real_moves_bounded (y : sys) sched :
  nmoves y sched + measure (exec y sched) <= measure y.
Proof.
  revert y; induction sched as [|ch more IH]; intros y; simpl; [lia|].
  destruct (step y ch) as [y'|] eqn:E; [|apply IH].
  specialize (IH y'). destruct (Nat.ltb_spec (measure y') (measure y)) as [Hlt|Hge]; [lia|].
  destruct (step_measure _ _ _ E) as [->|Hlt]; lia.
Qed.

End Progress.

(* ------------------------------------------------------------------ *)
(** * Non-vacuity: a 4-block stream, 2 observers, with the stream saver *)

Module Examples.
Local Open Scope Z_scope.
Definition cfg := mkConfig 1 3 1 1 1 false false.
Definition blocks : list (Z * bool) := [(1, true); (2, true); (3, false); (4, true)].
Definition y0 : sys Z := init_sys blocks 2 true init_st.
Definition ex (y : sys Z) s := exec cfg (fun _ => 1) 2 y s.
Definition run (k : nat) := ex y0 (concat (repeat (round 2) k)).
(** [pre] fair rounds, then main decides stop_all and the rounds go on. *)
Definition stopped (pre k : nat) := ex (run pre) (concat (repeat (CMain true :: round 2) k)).
Definition walone (k : nat) := ex y0 (concat (repeat (wround 2) k)).

(** Executable version of "some choice of the round is a real move". *)
Definition can_move (y : sys Z) : bool :=
  existsb (fun ch => match step cfg (fun _ => 1) 2 y ch with
                     | Some y' => (measure y' <? measure y)%nat
                     | None => false end) (round 2).
Fixpoint prefixes_ok (y : sys Z) (s : list choice) : bool :=
  (all_exited y || can_move y) &&
  match s with [] => true | ch :: more => prefixes_ok (ex y [ch]) more end.

(** The hypotheses of [progress_no_deadlock] / [measure_decreases] are
    satisfiable: the initial state is reachable and not final. *)
Example ex_hyps : reachable cfg (fun _ => 1) 2 blocks 2 true init_st y0 /\ all_exited y0 = false.
Proof. split; [exists []; reflexivity | vm_compute; reflexivity]. Qed.

Example ex_measure_init : measure y0 = 64%nat.
Proof. vm_compute. reflexivity. Qed.

(** The fair schedule reaches [all_exited] after exactly 29 rounds (a deadlock
    would show as [false] for ever); both observers got both detections and the
    writer wrote the four blocks. *)
Example ex_round_robin :
  all_exited (run 28) = false /\ all_exited (run 29) = true /\
  map (@processed Z) (observers (run 29))
    = [[(1, ([1; 2; 3], 0, 2)); (2, ([4], 3, 3))]; [(1, ([1; 2; 3], 0, 2)); (2, ([4], 3, 3))]] /\
  option_map (@written Z) (sav (run 29)) = Some [1; 2; 3; 4].
Proof. vm_compute. repeat split; reflexivity. Qed.

(** In every state met along that run, some choice of the round really moves. *)
Example ex_no_deadlock_along_run : prefixes_ok y0 (concat (repeat (round 2) 29)) = true.
Proof. vm_compute. reflexivity. Qed.

(** 42 real moves along that run, below the bound 64. *)
Example ex_nmoves : nmoves cfg (fun _ => 1) 2 y0 (concat (repeat (round 2) 29)) = 42%nat.
Proof. vm_compute. reflexivity. Qed.

(** A timeout on an empty queue is a stutter: enabled, state unchanged (this is
    why [measure_decreases] needs [y' <> y]); without timeout it is disabled. *)
Example ex_stutter :
  step cfg (fun _ => 1) 2 y0 (CObs 0 true) = Some y0 /\ step cfg (fun _ => 1) 2 y0 (CObs 0 false) = None
  /\ step cfg (fun _ => 1) 2 y0 (CSav true) = Some y0 /\ step cfg (fun _ => 1) 2 y0 (CMain false) = None.
Proof. vm_compute. repeat split; reflexivity. Qed.

(** stop_all at once, after 5 rounds (one block unread, never read), after 12 rounds. *)
Example ex_stop_anytime :
  all_exited (stopped 0 10) = false /\ all_exited (stopped 0 11) = true /\
  all_exited (stopped 5 14) = false /\ all_exited (stopped 5 15) = true /\
  rest (stopped 5 15) = [(4, true)] /\
  all_exited (stopped 12 12) = false /\ all_exited (stopped 12 13) = true.
Proof. vm_compute. repeat split; reflexivity. Qed.

(** The workers finish alone in 21 main-free rounds; main is still idle. *)
Example ex_workers_alone :
  all_workers_exited (walone 20) = false /\ all_workers_exited (walone 21) = true /\
  mpcv (walone 21) = MIdle.
Proof. vm_compute. repeat split; reflexivity. Qed.

End Examples.

Check @progress_no_deadlock.
Check @measure_decreases.
Check @round_robin_terminates.
Check @all_exited_final.
Check @workers_terminate_alone.
Check @stop_anytime_terminates.
Check @real_moves_bounded.

Print Assumptions progress_no_deadlock.
Print Assumptions measure_decreases.
Print Assumptions round_robin_terminates.
Print Assumptions all_exited_final.
Print Assumptions workers_terminate_alone.
Print Assumptions stop_anytime_terminates.
Print Assumptions real_moves_bounded.
Print Assumptions measure_decreases_any.
