(** Interleaving model of auditok.workers (definitions only).

    Threads: the tokenizer worker [Tok], observers [Obs j], the optional
    stream-saving writer [Sav], and the main thread [Main] which may issue
    stop_all at any time.  One step = one atomic action of one thread: a queue
    put / get / get_nowait, one source read (together with the tokenizer's
    processing of that block, which touches no shared state), one file write,
    one join.  A [get(timeout)] on an empty queue may time out (a stutter step).
    [join] is enabled only when the target thread has exited.

    The producer runs the SAME tokenizer as C01-C04 ([Tok.Model.iter_step]).
    Blocks are abstract frames [A] with their validator verdict. *)
From Coq Require Import ZArith List Bool.
From AV Require Import Base.PyList Tok.Model.
Import ListNotations.
Open Scope Z_scope.

Section Workers.
Context {A : Type}.

Notation token := (token A).

(** Messages in an observer's inbox. *)
Inductive omsg := ODet (id : Z) (t : token) | OStop.
(** Messages in the writer's inbox. *)
Inductive smsg := SData (b : A) | SStop.

(** Program counter of the tokenizer worker thread. *)
Inductive tpc :=
  | TPoll                                   (* about to poll its own inbox (read() -> _stop_requested) *)
  | TRead                                   (* about to read a block from the reader *)
  | TNotify (j : nat) (m : Z * token) (final : bool)   (* putting detection m to observer j, j+1, ...; final: after the flush *)
  | TStopNotify (j : nat)                   (* putting the stop marker to observer j, j+1, ... *)
  | TClose                                  (* reader.close(): with a saver, send it the stop marker *)
  | TJoinSav                                (* ... and join the writer thread *)
  | TExit.

Inductive opc := ORun | OExit.
Inductive spc := SRun | SDrain | SExit.

(** Main thread. *)
Inductive mpc :=
  | MIdle                                   (* sleeping in the main loop; may decide to stop_all *)
  | MJoinTok                                (* stop_all: stop marker sent to Tok, joining it *)
  | MStopObs (j : nat)                      (* sending the stop marker to observer j *)
  | MJoinObs (j : nat)                      (* joining observer j *)
  | MCloseReader                            (* reader.close() once more *)
  | MJoinSav
  | MDone.

Record obs := mkObs { oinbox : list omsg; processed : list (Z * token); opcv : opc }.

Record saver := mkSav {
  sinbox : list smsg;
  scache : list A;            (* blocks cached, not yet written *)
  stotal : Z;                 (* _total_cached, in "size units" given by [bsz] *)
  written : list A;           (* blocks written to the file so far, in order *)
  closed_file : bool;         (* _wfp.close() done *)
  spcv : spc
}.

Record sys := mkSys {
  tpcv : tpc;
  tst : st A;                 (* tokenizer state *)
  rest : list (A * bool);     (* blocks the source has not handed out yet *)
  nread : Z;                  (* number of blocks read so far *)
  tinbox : list unit;         (* Tok's own inbox: stop markers only *)
  dets : list (Z * token);    (* the worker's detections list, with ids *)
  observers : list obs;
  sav : option saver;
  mpcv : mpc
}.

Variable c : config.
Variable bsz : A -> Z.        (* len(block) as counted by the writer's cache *)
Variable cache_size : Z.      (* writer flushes when stotal >= cache_size *)

Definition init_sys (fs : list (A * bool)) (nobs : nat) (with_saver : bool) (s_old : st A) : sys :=
  mkSys TPoll (reinit s_old) fs 0 [] []
        (repeat (mkObs [] [] ORun) nobs)
        (if with_saver then Some (mkSav [] [] 0 [] false SRun) else None)
        MIdle.

Inductive choice :=
  | CTok                      (* the tokenizer worker takes its next step *)
  | CObs (j : nat) (timeout : bool)   (* observer j: get; [timeout] only matters when its inbox is empty *)
  | CSav (timeout : bool)
  | CMain (stop : bool).      (* main thread; [stop]: decide to call stop_all now (only in MIdle) *)

Definition upd_obs (l : list obs) (j : nat) (f : obs -> obs) : list obs :=
  let fix go l i := match l with
                    | [] => []
                    | o :: r => (if Nat.eqb i j then f o else o) :: go r (Datatypes.S i)
                    end in go l O.

Definition put_obs (l : list obs) (j : nat) (m : omsg) : list obs :=
  upd_obs l j (fun o => mkObs (oinbox o ++ [m]) (processed o) (opcv o)).

Definition put_sav (s : option saver) (m : smsg) : option saver :=
  match s with
  | Some v => Some (mkSav (sinbox v ++ [m]) (scache v) (stotal v) (written v) (closed_file v) (spcv v))
  | None => None
  end.

Definition set_t (y : sys) pc st' rest' nread' tinbox' dets' obs' sav' :=
  mkSys pc st' rest' nread' tinbox' dets' obs' sav' (mpcv y).

(** After the tokenizer produced [toks] (0 or 1 token) while handling a block
    ([final = false]) or the flush ([final = true]). *)
Definition after_tokens (y : sys) (st' : st A) (rest' : list (A * bool)) (nread' : Z)
           (tinbox' : list unit) (sav' : option saver) (toks : list token) (final : bool) : sys :=
  match toks with
  | t :: _ =>
      let m := (zlen (dets y) + 1, t) in
      set_t y (TNotify 0 m final) st' rest' nread' tinbox' (dets y ++ [m]) (observers y) sav'
  | [] =>
      set_t y (if final then TStopNotify 0 else TPoll) st' rest' nread' tinbox' (dets y) (observers y) sav'
  end.

Definition flush (y : sys) (tinbox' : list unit) (sav' : option saver) : sys :=
  let '(st', toks, _) := iter_step c (tst y) None in
  after_tokens y st' (rest y) (nread y) tinbox' sav' toks true.

Definition step_tok (y : sys) : option sys :=
  match tpcv y with
  | TPoll =>
      match tinbox y with
      | _ :: more => Some (flush y more (sav y))          (* stop requested: read() returns None *)
      | [] => Some (set_t y TRead (tst y) (rest y) (nread y) [] (dets y) (observers y) (sav y))
      end
  | TRead =>
      match rest y with
      | [] => Some (flush y (tinbox y) (put_sav (sav y) SStop))    (* source exhausted *)
      | (b, v) :: more =>
          let '(st', toks, _) := iter_step c (tst y) (Some (b, v)) in
          Some (after_tokens y st' more (nread y + 1) (tinbox y) (put_sav (sav y) (SData b)) toks false)
      end
  | TNotify j m final =>
      if Nat.ltb j (length (observers y)) then
        Some (set_t y (TNotify (Datatypes.S j) m final) (tst y) (rest y) (nread y) (tinbox y) (dets y)
                    (put_obs (observers y) j (ODet (fst m) (snd m))) (sav y))
      else
        Some (set_t y (if final then TStopNotify 0 else TPoll) (tst y) (rest y) (nread y) (tinbox y)
                    (dets y) (observers y) (sav y))
  | TStopNotify j =>
      if Nat.ltb j (length (observers y)) then
        Some (set_t y (TStopNotify (Datatypes.S j)) (tst y) (rest y) (nread y) (tinbox y) (dets y)
                    (put_obs (observers y) j OStop) (sav y))
      else Some (set_t y TClose (tst y) (rest y) (nread y) (tinbox y) (dets y) (observers y) (sav y))
  | TClose =>
      match sav y with
      | Some _ => Some (set_t y TJoinSav (tst y) (rest y) (nread y) (tinbox y) (dets y) (observers y)
                              (put_sav (sav y) SStop))
      | None => Some (set_t y TExit (tst y) (rest y) (nread y) (tinbox y) (dets y) (observers y) None)
      end
  | TJoinSav =>
      match sav y with
      | Some v => match spcv v with
                  | SExit => Some (set_t y TExit (tst y) (rest y) (nread y) (tinbox y) (dets y) (observers y) (sav y))
                  | _ => None                                      (* blocked in join *)
                  end
      | None => None
      end
  | TExit => None
  end.

Definition step_obs_one (o : obs) (timeout : bool) : option obs :=
  match opcv o with
  | OExit => None
  | ORun =>
      match oinbox o with
      | [] => if timeout then Some o else None                     (* get() blocks; a timeout is a stutter *)
      | OStop :: more => Some (mkObs more (processed o) OExit)
      | ODet i t :: more => Some (mkObs more (processed o ++ [(i, t)]) ORun)
      end
  end.

Definition step_obs (y : sys) (j : nat) (timeout : bool) : option sys :=
  match nth_error (observers y) j with
  | None => None
  | Some o =>
      match step_obs_one o timeout with
      | None => None
      | Some o' => Some (mkSys (tpcv y) (tst y) (rest y) (nread y) (tinbox y) (dets y)
                               (upd_obs (observers y) j (fun _ => o')) (sav y) (mpcv y))
      end
  end.

Definition sav_write (v : saver) (pc : spc) (inbox' : list smsg) (closef : bool) : saver :=
  mkSav inbox' [] 0 (written v ++ scache v) closef pc.

Definition step_sav_one (v : saver) (timeout : bool) : option saver :=
  match spcv v with
  | SExit => None
  | SRun =>
      match sinbox v with
      | [] => if timeout then Some v else None
      | SStop :: more => Some (mkSav more (scache v) (stotal v) (written v) false SDrain)
      | SData b :: more =>
          let v1 := mkSav more (scache v ++ [b]) (stotal v + bsz b) (written v) false SRun in
          if cache_size <=? stotal v1 then Some (sav_write v1 SRun more false) else Some v1
      end
  | SDrain =>                                                       (* _post_process: get_nowait until Empty *)
      match sinbox v with
      | [] => Some (sav_write v SExit [] true)                      (* write the cache, close the file, thread ends *)
      | SStop :: more => Some (mkSav more (scache v) (stotal v) (written v) false SDrain)
      | SData b :: more => Some (mkSav more (scache v ++ [b]) (stotal v + bsz b) (written v) false SDrain)
      end
  end.

Definition step_sav (y : sys) (timeout : bool) : option sys :=
  match sav y with
  | None => None
  | Some v => match step_sav_one v timeout with
              | None => None
              | Some v' => Some (mkSys (tpcv y) (tst y) (rest y) (nread y) (tinbox y) (dets y)
                                       (observers y) (Some v') (mpcv y))
              end
  end.

Definition set_m (y : sys) (pc : mpc) : sys :=
  mkSys (tpcv y) (tst y) (rest y) (nread y) (tinbox y) (dets y) (observers y) (sav y) pc.

Definition obs_exited (y : sys) (j : nat) : bool :=
  match nth_error (observers y) j with
  | Some o => match opcv o with OExit => true | ORun => false end
  | None => true
  end.

Definition all_workers_exited (y : sys) : bool :=
  (match tpcv y with TExit => true | _ => false end)
  && forallb (fun o => match opcv o with OExit => true | ORun => false end) (observers y)
  && (match sav y with Some v => match spcv v with SExit => true | _ => false end | None => true end).

Definition step_main (y : sys) (stop : bool) : option sys :=
  match mpcv y with
  | MIdle =>
      (* the main loop leaves when only the main thread is alive, or on Ctrl-C *)
      if stop || all_workers_exited y then
        Some (mkSys (tpcv y) (tst y) (rest y) (nread y) (tinbox y ++ [tt]) (dets y) (observers y) (sav y) MJoinTok)
      else None
  | MJoinTok => match tpcv y with TExit => Some (set_m y (MStopObs 0)) | _ => None end
  | MStopObs j =>
      if Nat.ltb j (length (observers y)) then
        Some (mkSys (tpcv y) (tst y) (rest y) (nread y) (tinbox y) (dets y)
                    (put_obs (observers y) j OStop) (sav y) (MJoinObs j))
      else Some (set_m y MCloseReader)
  | MJoinObs j => if obs_exited y j then Some (set_m y (MStopObs (Datatypes.S j))) else None
  | MCloseReader =>
      match sav y with
      | Some _ => Some (mkSys (tpcv y) (tst y) (rest y) (nread y) (tinbox y) (dets y) (observers y)
                              (put_sav (sav y) SStop) MJoinSav)
      | None => Some (set_m y MDone)
      end
  | MJoinSav =>
      match sav y with
      | Some v => match spcv v with SExit => Some (set_m y MDone) | _ => None end
      | None => Some (set_m y MDone)
      end
  | MDone => None
  end.

(** [None] = the chosen thread cannot move (blocked or finished). *)
Definition step (y : sys) (ch : choice) : option sys :=
  match ch with
  | CTok => step_tok y
  | CObs j t => step_obs y j t
  | CSav t => step_sav y t
  | CMain s => step_main y s
  end.

(** Every list of choices is a schedule: disabled choices are skipped. *)
Fixpoint exec (y : sys) (sched : list choice) : sys :=
  match sched with
  | [] => y
  | ch :: more => exec (match step y ch with Some y' => y' | None => y end) more
  end.

Definition all_exited (y : sys) : bool :=
  all_workers_exited y && (match mpcv y with MDone => true | _ => false end).

End Workers.

Arguments sys A : clear implicits.
Arguments obs A : clear implicits.
Arguments saver A : clear implicits.
Arguments omsg A : clear implicits.
Arguments smsg A : clear implicits.
Arguments tpc A : clear implicits.
