(** Hand-written model of auditok.core.StreamTokenizer (definitions only, no
    proofs, so that the model still runs when a proof breaks).

    A frame carries the verdict the validator gave for it: the tokenizer calls
    the validator exactly once per frame, in stream order, so quantifying over
    the verdict sequence covers every validator (stateful ones included).

    Tie to /repo: harness/py2coq translates core.py's StreamTokenizer into
    TokGen.v on every run and TokTie.v proves TokGen.f = Model.f for every
    function below (all inputs). *)
From Coq Require Import ZArith List Bool.
From AV Require Import Base.PyList.
Import ListNotations.
Open Scope Z_scope.

Inductive astate := SILENCE | POSSIBLE_SILENCE | POSSIBLE_NOISE | NOISE.

Definition astate_eqb (a b : astate) : bool :=
  match a, b with
  | SILENCE, SILENCE | POSSIBLE_SILENCE, POSSIBLE_SILENCE
  | POSSIBLE_NOISE, POSSIBLE_NOISE | NOISE, NOISE => true
  | _, _ => false
  end.

Record config := mkConfig {
  min_length : Z;
  max_length : Z;
  max_sil : Z;          (* max_continuous_silence *)
  init_min : Z;
  init_max_sil : Z;     (* init_max_silent *)
  strict : bool;        (* _strict_min_length *)
  drop : bool           (* _drop_trailing_silence *)
}.

Inductive err := ValueError | TypeError | IndexError | AudioIOError
  | AudioParameterError | RuntimeError | AttributeError | TimeFormatError
  | TooSmallBlockDuration | OutOfFuel.

Inductive result (T : Type) := Ok (v : T) | Err (e : err).
Arguments Ok {T} v.
Arguments Err {T} e.

(** StreamTokenizer.__init__ + _set_mode: the first failing test decides. *)
Definition validate (mn mx ms imin ims mode : Z) : result config :=
  if mx <=? 0 then Err ValueError
  else if (mn <=? 0) || (mx <? mn) then Err ValueError
  else if mx <=? ms then Err ValueError
  else if mx <=? imin then Err ValueError
  else if negb ((mode =? 0) || (mode =? 2) || (mode =? 4) || (mode =? 6))
  then Err ValueError
  else Ok (mkConfig mn mx ms imin ims
                    (negb (Z.land mode 2 =? 0)) (negb (Z.land mode 4 =? 0))).

Section Tok.
Context {A : Type}.

Record st := mkSt {
  state : astate;
  data : list A;        (* _data *)
  contig : bool;        (* _contiguous_token *)
  init_count : Z;
  sil : Z;              (* _silence_length *)
  start : Z;            (* _start_frame *)
  cur : Z               (* _current_frame *)
}.

Definition token : Type := (list A * Z * Z).

Definition set_state s v := mkSt v (data s) (contig s) (init_count s) (sil s) (start s) (cur s).
Definition set_data s v := mkSt (state s) v (contig s) (init_count s) (sil s) (start s) (cur s).
Definition set_contig s v := mkSt (state s) (data s) v (init_count s) (sil s) (start s) (cur s).
Definition set_init_count s v := mkSt (state s) (data s) (contig s) v (sil s) (start s) (cur s).
Definition set_sil s v := mkSt (state s) (data s) (contig s) (init_count s) v (start s) (cur s).
Definition set_start s v := mkSt (state s) (data s) (contig s) (init_count s) (sil s) v (cur s).
Definition set_cur s v := mkSt (state s) (data s) (contig s) (init_count s) (sil s) (start s) v.

(** State left by __init__ (before any tokenize call). *)
Definition init_st : st := mkSt SILENCE [] false 0 0 0 0.

(** _reinitialize: note what it does NOT reset (init_count, sil, start). *)
Definition reinit (s : st) : st :=
  mkSt SILENCE [] false (init_count s) (sil s) (start s) (-1).

(** _process_end_of_detection(truncated) *)
Definition eod (c : config) (s : st) (truncated : bool) : st * option token :=
  let s1 :=
    if negb truncated && drop c && (0 <? sil s)
    then set_data s (py_slice (data s) (Some 0) (Some (- sil s)))
    else s in
  if (min_length c <=? zlen (data s1))
     || ((0 <? zlen (data s1)) && negb (strict c) && contig s1)
  then
    let tok := (data s1, start s1, start s1 + zlen (data s1) - 1) in
    let s2 := set_data s1 [] in
    if truncated
    then (set_contig (set_start s2 (cur s2 + 1)) true, Some tok)
    else (set_contig s2 false, Some tok)
  else (set_data (set_contig s1 false) [], None).

(** _process(frame) with the validator's verdict [v] for this frame. *)
Definition process (c : config) (s : st) (f : A) (v : bool) : st * option token :=
  match state s with
  | SILENCE =>
      if v then
        let s1 := set_data (set_start (set_sil (set_init_count s 1) 0) (cur s))
                           (data s ++ [f]) in
        if init_min c <=? 1 then
          let s2 := set_state s1 NOISE in
          if max_length c <=? zlen (data s2) then eod c s2 true else (s2, None)
        else (set_state s1 POSSIBLE_NOISE, None)
      else (s, None)
  | POSSIBLE_NOISE =>
      if v then
        let s1 := set_data (set_init_count (set_sil s 0) (init_count s + 1))
                           (data s ++ [f]) in
        if init_min c <=? init_count s1 then
          let s2 := set_state s1 NOISE in
          if max_length c <=? zlen (data s2) then eod c s2 true else (s2, None)
        else if max_length c <=? zlen (data s1)
        then (set_state (set_data s1 []) SILENCE, None)
        else (s1, None)
      else
        let s1 := set_sil s (sil s + 1) in
        if (init_max_sil c <? sil s1) || (max_length c <=? zlen (data s1) + 1)
        then (set_state (set_data s1 []) SILENCE, None)
        else (set_data s1 (data s1 ++ [f]), None)
  | NOISE =>
      if v then
        let s1 := set_data s (data s ++ [f]) in
        if max_length c <=? zlen (data s1) then eod c s1 true else (s1, None)
      else if max_sil c <=? 0 then eod c (set_state s SILENCE) false
      else
        let s1 := set_state (set_data (set_sil s 1) (data s ++ [f])) POSSIBLE_SILENCE in
        if zlen (data s1) =? max_length c then eod c s1 true else (s1, None)
  | POSSIBLE_SILENCE =>
      if v then
        let s1 := set_state (set_sil (set_data s (data s ++ [f])) 0) NOISE in
        if max_length c <=? zlen (data s1) then eod c s1 true else (s1, None)
      else if max_sil c <=? sil s then
        let s1 := set_state s SILENCE in
        if sil s1 <? zlen (data s1) then eod c s1 false
        else (set_contig (set_sil (set_data s1 []) 0) false, None)
      else
        let s1 := set_sil (set_data s (data s ++ [f])) (sil s + 1) in
        if max_length c <=? zlen (data s1) then eod c s1 true else (s1, None)
  end.

(** _post_process() at end of stream. *)
Definition post_process (c : config) (s : st) : st * option token :=
  match state s with
  | NOISE | POSSIBLE_SILENCE =>
      if (0 <? zlen (data s)) && (sil s <? zlen (data s)) then eod c s false
      else (s, None)
  | _ => (s, None)
  end.

Definition opt_list {T} (o : option T) : list T :=
  match o with Some t => [t] | None => [] end.

(** One turn of the `while True` loop of _iter_tokens: the source returned
    [fr] ([None] = end of stream). Result: new state, yielded tokens, and
    whether the loop goes on. *)
Definition iter_step (c : config) (s : st) (fr : option (A * bool))
  : st * list token * bool :=
  let s0 := set_cur s (cur s + 1) in
  match fr with
  | None => let '(s1, t) := post_process c s0 in (s1, opt_list t, false)
  | Some (f, v) => let '(s1, t) := process c s0 f v in (s1, opt_list t, true)
  end.

(** The frames of a finite stream, then the flush at end of stream. *)
Fixpoint run (c : config) (s : st) (fs : list (A * bool)) : st * list token :=
  match fs with
  | [] => let '(s1, out, _) := iter_step c s None in (s1, out)
  | fv :: rest =>
      let '(s1, out, _) := iter_step c s (Some fv) in
      let '(s2, outs) := run c s1 rest in
      (s2, out ++ outs)
  end.

(** The frames only (no flush): what has been yielded after reading [fs]. *)
Fixpoint feed (c : config) (s : st) (fs : list (A * bool)) : st * list token :=
  match fs with
  | [] => (s, [])
  | fv :: rest =>
      let '(s1, out, _) := iter_step c s (Some fv) in
      let '(s2, outs) := feed c s1 rest in
      (s2, out ++ outs)
  end.

(** tokenize on a tokenizer whose previous state is [s_old] (any earlier use). *)
Definition tokenize_from (c : config) (s_old : st) (fs : list (A * bool)) : list token :=
  snd (run c (reinit s_old) fs).

Definition tokenize (c : config) (fs : list (A * bool)) : list token :=
  tokenize_from c init_st fs.

Definition tok_data (t : token) : list A := fst (fst t).
Definition tok_start (t : token) : Z := snd (fst t).
Definition tok_end (t : token) : Z := snd t.
Definition tok_len (t : token) : Z := zlen (tok_data t).

End Tok.

Arguments st A : clear implicits.
Arguments token A : clear implicits.

(** The constructor's acceptance predicate, as a proposition. *)
Definition accepted (c : config) : Prop :=
  0 < max_length c /\ 0 < min_length c <= max_length c
  /\ max_sil c < max_length c /\ init_min c < max_length c.
