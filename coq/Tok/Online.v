(** C08: detection is online.  Tokens are handed over with bounded latency,
    what has been yielded after k reads depends on the first k frames only,
    and tokenizing a prefix gives the tokens of the whole stream yielded within
    the prefix plus possibly a flushed shorter version of the next one. *)
From Coq Require Import ZArith List Bool Lia ZifyBool.
From AV Require Import Base.PyList Tok.Model Tok.OnlineSpec.
Import ListNotations. Open Scope Z_scope.

(* [rewrite zlen_nil] may unify [zlen []] with a literal [0] up to conversion
   and fail; match it syntactically instead. *)
Ltac zl_nil :=
  repeat match goal with
  | |- context [zlen (@nil ?T)] => change (zlen (@nil T)) with 0
  | H : context [zlen (@nil ?T)] |- _ => change (zlen (@nil T)) with 0 in H
  end.
Ltac zl := rewrite ?zlen_app, ?zlen_cons in *; zl_nil.

(* ------------------------------------------------------------------ *)
(** * Structure of [run], [feed], [feed_idx] *)

Section Structure.
Context {A : Type}.
Variable c : config.

Lemma run_as_feed : forall (fs : list (A * bool)) (s : st A),
  run c s fs =
  (fst (fst (iter_step c (fst (feed c s fs)) None)),
   snd (feed c s fs) ++ snd (fst (iter_step c (fst (feed c s fs)) None))).
Proof.
  induction fs as [|fv rest IH]; intros s.
  - cbn [run feed fst snd app].
    destruct (iter_step c s None) as [[s1 out] b]; reflexivity.
  - cbn [run feed].
    destruct (iter_step c s (Some fv)) as [[s1 out] b].
    rewrite (IH s1).
    destruct (feed c s1 rest) as [s2 outs]; cbn [fst snd].
    now rewrite app_assoc.
Qed.

Lemma feed_idx_feed : forall (fs : list (A * bool)) (s : st A) k,
  fst (feed_idx c s k fs) = fst (feed c s fs)
  /\ map fst (snd (feed_idx c s k fs)) = snd (feed c s fs).
Proof.
  induction fs as [|fv rest IH]; intros s k.
  - split; reflexivity.
  - cbn [feed_idx feed].
    destruct (iter_step c s (Some fv)) as [[s1 out] b].
    destruct (IH s1 (k + 1)) as [IH1 IH2].
    destruct (feed_idx c s1 (k + 1) rest) as [s2 outs].
    destruct (feed c s1 rest) as [s2' outs'].
    cbn [fst snd] in *. split; [assumption|].
    rewrite map_app, map_map, IH2. cbn [fst].
    now rewrite map_id.
Qed.

End Structure.

Theorem run_idx_tokens : forall (A : Type) (c : config) (s : st A) fs,
  map fst (run_idx c s fs) = snd (run c s fs).
Proof.
  intros A c s fs. unfold run_idx.
  rewrite run_as_feed. cbn [snd].
  destruct (feed_idx_feed c fs s 0) as [H1 H2].
  destruct (feed_idx c s 0 fs) as [s1 outs]. cbn [fst snd] in *.
  rewrite <- H1, <- H2.
  destruct (iter_step c s1 None) as [[s2 fl] b]. cbn [fst snd].
  rewrite map_app, map_map. cbn [fst]. now rewrite map_id.
Qed.

Theorem feed_app : forall (A : Type) (c : config) (s : st A) p q,
  feed c s (p ++ q) = let '(s1, o1) := feed c s p in let '(s2, o2) := feed c s1 q in (s2, o1 ++ o2).
Proof.
  intros A c s p; revert s.
  induction p as [|fv rest IH]; intros s q.
  - cbn [app feed]. destruct (feed c s q); reflexivity.
  - cbn [app feed].
    destruct (iter_step c s (Some fv)) as [[s1 out] b].
    rewrite IH.
    destruct (feed c s1 rest) as [s2 o2].
    destruct (feed c s2 q) as [s3 o3].
    now rewrite app_assoc.
Qed.

Theorem run_feed : forall (A : Type) (c : config) (s : st A) p q,
  snd (run c s (p ++ q)) = snd (feed c s p) ++ snd (run c (fst (feed c s p)) q).
Proof.
  intros A c s p; revert s.
  induction p as [|fv rest IH]; intros s q.
  - reflexivity.
  - cbn [app feed run].
    destruct (iter_step c s (Some fv)) as [[s1 out] b].
    specialize (IH s1 q).
    destruct (run c s1 (rest ++ q)) as [s2 outs].
    destruct (feed c s1 rest) as [s3 o3].
    cbn [fst snd] in *. rewrite IH. now rewrite app_assoc.
Qed.

Theorem C08_causal : forall (A : Type) (c : config) (s : st A) p q q',
  snd (feed c s p) = firstn (length (snd (feed c s p))) (snd (run c s (p ++ q)))
  /\ firstn (length (snd (feed c s p))) (snd (run c s (p ++ q))) = firstn (length (snd (feed c s p))) (snd (run c s (p ++ q'))).
Proof.
  intros A c s p q q'.
  rewrite !run_feed, !firstn_app_length. split; reflexivity.
Qed.

Theorem C08_once : forall (A : Type) (c : config) (s : st A) fr,
  snd (iter_step c s fr) = match fr with Some _ => true | None => false end.
Proof.
  intros A c s fr. unfold iter_step.
  destruct fr as [[f v]|].
  - destruct (process c _ f v); reflexivity.
  - destruct (post_process c _); reflexivity.
Qed.

(* ------------------------------------------------------------------ *)
(** * Characterisation of [eod] *)

Section Eod.
Context {A : Type}.
Variable c : config.

(** The buffer once the tolerated trailing silence has been dropped. *)
Definition trim (s : st A) : list A :=
  if drop c && (0 <? sil s)
  then py_slice (data s) (Some 0) (Some (- sil s)) else data s.

Definition emits (s : st A) : bool :=
  (min_length c <=? zlen (trim s))
  || ((0 <? zlen (trim s)) && negb (strict c) && contig s).

Lemma eod_true : forall s : st A,
  min_length c <= zlen (data s) ->
  eod c s true =
  (set_contig (set_start (set_data s []) (cur s + 1)) true,
   Some (data s, start s, start s + zlen (data s) - 1)).
Proof.
  intros s H. unfold eod. cbn [negb andb].
  destruct (min_length c <=? zlen (data s)) eqn:E; [|lia].
  reflexivity.
Qed.

Lemma eod_false : forall s : st A,
  eod c s false =
  if emits s
  then (set_contig (set_data s []) false,
        Some (trim s, start s, start s + zlen (trim s) - 1))
  else (set_contig (set_data s []) false, None).
Proof.
  intros s. unfold eod, emits, trim. cbn [negb andb].
  destruct (drop c && (0 <? sil s)); reflexivity.
Qed.

Lemma trim_nodrop : forall s : st A,
  drop c && (0 <? sil s) = false -> trim s = data s.
Proof. intros s H; unfold trim; now rewrite H. Qed.

Lemma trim_drop : forall s : st A,
  drop c && (0 <? sil s) = true -> sil s <= zlen (data s) ->
  trim s = firstn (Z.to_nat (zlen (data s) - sil s)) (data s).
Proof.
  intros s H Hs; unfold trim; rewrite H.
  apply py_slice_drop_tail. lia.
Qed.

Lemma zlen_trim : forall s : st A,
  sil s <= zlen (data s) ->
  zlen (trim s) = if drop c && (0 <? sil s) then zlen (data s) - sil s else zlen (data s).
Proof.
  intros s Hs. destruct (drop c && (0 <? sil s)) eqn:E.
  - rewrite trim_drop by assumption. rewrite zlen_firstn. lia.
  - now rewrite trim_nodrop.
Qed.

End Eod.

(* ------------------------------------------------------------------ *)
(** * Bounded latency *)

Section Latency.
Context {A : Type}.
Variable c : config.
Hypothesis Hacc : accepted c.

(** Invariant after [k] frames have been consumed since [reinit]. *)
Definition linv (k : Z) (s : st A) : Prop :=
  cur s = k - 1 /\ zlen (data s) < max_length c /\
  match state s with
  | SILENCE => data s = []
  | POSSIBLE_NOISE => start s + zlen (data s) = k
  | NOISE => start s + zlen (data s) = k /\ sil s = 0
  | POSSIBLE_SILENCE => start s + zlen (data s) = k /\ 1 <= sil s <= max_sil c
  end.

(** Latency clause for a token handed over while processing frame [k]
    (read number [k+1]). *)
Definition lat1 (k : Z) (t : token A) : Prop :=
  (tok_len t = max_length c /\ k + 1 = tok_end t + 1)
  \/ (tok_end t + 2 <= k + 1 <= tok_end t + Z.max 0 (max_sil c) + 2).

Ltac fields := cbn [state data contig init_count sil start cur] in *.
Ltac setters := unfold set_state, set_data, set_contig, set_init_count, set_sil,
                 set_start, set_cur in *; fields.

Ltac split_if_in H :=
  match type of H with context [if ?b then _ else _] => destruct b eqn:? end.

Lemma process_linv : forall k (s s1 : st A) f v o,
  linv k s ->
  process c (set_cur s (cur s + 1)) f v = (s1, o) ->
  linv (k + 1) s1 /\ (forall t, o = Some t -> lat1 k t).
Proof.
  intros k s s1 f v o Hinv Hp.
  destruct Hacc as (Hmx & Hmn & Hms & Him).
  destruct s as [sta d cg ic sl sr cu].
  unfold linv in Hinv; fields. destruct Hinv as (Hcur & Hlen & Hst).
  unfold process in Hp; setters.
  pose proof (zlen_nonneg d) as Hd0.
  destruct sta, v; repeat split_if_in Hp;
  try (rewrite eod_true in Hp by (fields; zl; lia); setters).
  all: try (rewrite eod_false in Hp;
    match type of Hp with context [emits c ?s] =>
      pose proof (zlen_trim c s) as Htrim; destruct (emits c s) eqn:Eem
    end; setters;
    (assert (Hside : sl <= zlen d) by lia); specialize (Htrim Hside);
    destruct (drop c && (0 <? sl)) eqn:Ed).
  all: inversion Hp; subst; clear Hp; unfold linv, lat1, tok_len, tok_end, tok_data; fields; cbn [fst snd]; zl;
    (split; [try (repeat split; (lia || reflexivity)) | intros t Ht; inversion Ht; subst; cbn [fst snd]; zl; try lia]).
Qed.

Lemma linv_reinit : forall s_old : st A, linv 0 (reinit s_old).
Proof.
  intros s_old. destruct Hacc as (Hmx & _).
  unfold linv, reinit; fields; zl. split; [lia|split; [lia|reflexivity]].
Qed.

Lemma feed_idx_lat : forall (fs : list (A * bool)) k (s : st A) n,
  linv k s -> k + zlen fs = n ->
  linv n (fst (feed_idx c s k fs))
  /\ Forall (latency_ok c n) (snd (feed_idx c s k fs)).
Proof.
  induction fs as [|[f v] rest IH]; intros k s n Hinv Hn.
  - cbn [feed_idx fst snd]. zl. replace n with k by lia. split; [assumption|constructor].
  - cbn [feed_idx]. unfold iter_step.
    destruct (process c (set_cur s (cur s + 1)) f v) as [s1 o] eqn:Hp.
    destruct (process_linv k s s1 f v o Hinv Hp) as [Hinv1 Hlat].
    zl. pose proof (zlen_nonneg rest) as Hr.
    destruct (IH (k + 1) s1 n Hinv1 ltac:(lia)) as [IH1 IH2].
    destruct (feed_idx c s1 (k + 1) rest) as [s2 outs]. cbn [fst snd] in *.
    split; [assumption|].
    apply Forall_app; split; [|assumption].
    destruct o as [t|]; cbn [opt_list map]; constructor; [|constructor].
    specialize (Hlat t eq_refl). unfold lat1 in Hlat. unfold latency_ok. lia.
Qed.

End Latency.

Theorem C08_latency : forall (A : Type) (c : config) (s_old : st A) (fs : list (A * bool)),
  accepted c -> Forall (latency_ok c (zlen fs)) (run_idx c (reinit s_old) fs).
Proof.
  intros A c s_old fs Hacc. unfold run_idx.
  destruct (feed_idx_lat c Hacc fs 0 (reinit s_old) (zlen fs) (linv_reinit c Hacc s_old) ltac:(lia))
    as [_ Hlat].
  destruct (feed_idx c (reinit s_old) 0 fs) as [s1 outs]. cbn [snd] in Hlat.
  destruct (iter_step c s1 None) as [[s2 fl] b].
  apply Forall_app; split; [assumption|].
  apply Forall_forall. intros [t r] Hin.
  apply in_map_iff in Hin. destruct Hin as (t0 & Heq & _). inversion Heq; subst.
  unfold latency_ok. right; right; reflexivity.
Qed.

(* ------------------------------------------------------------------ *)
(** * Prefix law *)

Section Prefix.
Context {A : Type}.
Variable c : config.
Hypothesis Hacc : accepted c.

Ltac fields := cbn [state data contig init_count sil start cur] in *.
Ltac setters := unfold set_state, set_data, set_contig, set_init_count, set_sil,
                 set_start, set_cur in *; fields.
Ltac split_if_in H :=
  match type of H with context [if ?b then _ else _] => destruct b eqn:? end.

(** [pre] (the token flushed at the cut point), its start and the
    continuation flag at that moment. *)
Variable pre : list A.
Variable st0 : Z.
Variable cg0 : bool.
Hypothesis Hpre : 0 < zlen pre.
Hypothesis Hemit :
  min_length c <= zlen pre \/ (strict c = false /\ cg0 = true).

(** The buffer extends [pre]; in drop mode the tolerated trailing silence
    lies entirely in the extension. *)
Definition ext_inv (s : st A) : Prop :=
  start s = st0 /\ contig s = cg0 /\ sil s < zlen (data s) /\
  exists ext, data s = pre ++ ext /\ (drop c = true -> sil s <= zlen ext).

Definition good_tok (t : token A) : Prop :=
  tok_start t = st0 /\ exists suf, tok_data t = pre ++ suf.

Lemma eod_true_ext : forall s : st A,
  ext_inv s -> max_length c <= zlen (data s) ->
  exists s' t, eod c s true = (s', Some t) /\ good_tok t.
Proof.
  intros s (Hst & _ & _ & ext & Hd & _) Hmax.
  destruct Hacc as (_ & Hmn & _).
  rewrite eod_true by lia.
  eexists; eexists; split; [reflexivity|].
  unfold good_tok, tok_start, tok_data; cbn [fst snd].
  split; [assumption|]. exists ext; assumption.
Qed.

Lemma trim_ext : forall s : st A,
  ext_inv s -> exists suf, trim c s = pre ++ suf.
Proof.
  intros s (_ & _ & Hsil & ext & Hd & Hdrop).
  destruct (drop c && (0 <? sil s)) eqn:E.
  - rewrite trim_drop by (assumption || lia).
    rewrite Hd, firstn_app.
    exists (firstn (Z.to_nat (zlen (pre ++ ext) - sil s) - length pre) ext).
    f_equal. apply firstn_all2.
    assert (sil s <= zlen ext) by (apply Hdrop; lia).
    zl. unfold zlen in *. lia.
  - rewrite trim_nodrop by assumption. exists ext; assumption.
Qed.

Lemma eod_false_ext : forall s : st A,
  ext_inv s ->
  exists s' t, eod c s false = (s', Some t) /\ good_tok t.
Proof.
  intros s Hinv. destruct (trim_ext s Hinv) as [suf Htr].
  destruct Hinv as (Hst & Hcg & _).
  rewrite eod_false.
  assert (Hem : emits c s = true).
  { unfold emits. rewrite Htr, Hcg. zl. pose proof (zlen_nonneg suf).
    destruct Hemit as [H1|[H1 H2]]; rewrite ?H1, ?H2; cbn [negb]; lia. }
  rewrite Hem. eexists; eexists; split; [reflexivity|].
  unfold good_tok, tok_start, tok_data; cbn [fst snd].
  split; [assumption|]. exists suf; assumption.
Qed.

Definition live (s : st A) : Prop := state s = NOISE \/ state s = POSSIBLE_SILENCE.

Lemma ext_inv_same : forall s s1 : st A,
  ext_inv s -> start s1 = start s -> contig s1 = contig s ->
  data s1 = data s -> sil s1 = sil s -> ext_inv s1.
Proof.
  intros s s1 Hinv H1 H2 H3 H4. unfold ext_inv in *.
  rewrite H1, H2, H3, H4. assumption.
Qed.

Lemma ext_inv_grow : forall (s s1 : st A) f,
  ext_inv s -> start s1 = start s -> contig s1 = contig s ->
  data s1 = data s ++ [f] -> sil s1 <= sil s + 1 \/ sil s1 <= 1 -> ext_inv s1.
Proof.
  intros s s1 f (Hst & Hcg & Hsil & ext & Hd & Hdrop) H1 H2 H3 H4.
  unfold ext_inv. rewrite H1, H2, H3. zl.
  pose proof (zlen_nonneg ext) as Hext.
  assert (Hlen : zlen (data s) = zlen pre + zlen ext) by (rewrite Hd; now zl).
  split; [assumption|]. split; [assumption|]. split; [lia|].
  exists (ext ++ [f]). split; [rewrite Hd; now rewrite app_assoc|].
  intros Hdr. specialize (Hdrop Hdr). zl. lia.
Qed.

Lemma process_ext : forall (s s' : st A) f v o,
  live s -> ext_inv s ->
  process c (set_cur s (cur s + 1)) f v = (s', o) ->
  match o with
  | Some t => good_tok t
  | None => live s' /\ ext_inv s'
  end.
Proof.
  intros s s' f v o Hlive Hinv Hp.
  assert (Hsil : sil s < zlen (data s)) by (destruct Hinv as (_ & _ & H & _); exact H).
  unfold process in Hp; setters.
  destruct Hlive as [Hs|Hs]; rewrite Hs in Hp; destruct v; repeat split_if_in Hp;
  lazymatch type of Hp with
  | eod c ?X true = _ =>
      let s2 := fresh "s2" in let t := fresh "t" in
      let Heq := fresh "Heq" in let Hg := fresh "Hg" in
      destruct (eod_true_ext X) as (s2 & t & Heq & Hg);
      [ eapply ext_inv_grow with (s := s); [exact Hinv | fields; try reflexivity; lia ..]
      | fields; lia
      | rewrite Heq in Hp; inversion Hp; subst; exact Hg ]
  | eod c ?X false = _ =>
      let s2 := fresh "s2" in let t := fresh "t" in
      let Heq := fresh "Heq" in let Hg := fresh "Hg" in
      destruct (eod_false_ext X) as (s2 & t & Heq & Hg);
      [ eapply ext_inv_same with (s := s); [exact Hinv | fields; reflexivity ..]
      | rewrite Heq in Hp; inversion Hp; subst; exact Hg ]
  | _ => idtac
  end.
  all: inversion Hp; subst; clear Hp; try lia.
  all: split; [unfold live; fields; auto
              | eapply ext_inv_grow with (s := s); [exact Hinv | fields; try reflexivity; lia ..]].
Qed.

Lemma ext_inv_pos : forall s : st A, ext_inv s -> 0 < zlen (data s).
Proof.
  intros s (_ & _ & _ & ext & Hd & _). rewrite Hd; zl.
  pose proof (zlen_nonneg ext). lia.
Qed.

Lemma run_ext : forall (q : list (A * bool)) (s : st A),
  live s -> ext_inv s ->
  exists t rest', snd (run c s q) = t :: rest' /\ good_tok t.
Proof.
  induction q as [|[f v] rest IH]; intros s Hlive Hinv.
  - cbn [run]. unfold iter_step.
    destruct (post_process c (set_cur s (cur s + 1))) as [s1 o] eqn:Hp.
    unfold post_process in Hp; setters.
    pose proof (ext_inv_pos s Hinv) as Hpos.
    assert (Hsil : sil s < zlen (data s)) by (destruct Hinv as (_ & _ & H & _); exact H).
    assert (Hc : (0 <? zlen (data s)) && (sil s <? zlen (data s)) = true) by lia.
    rewrite Hc in Hp.
    assert (He : eod c (mkSt (state s) (data s) (contig s) (init_count s) (sil s)
                             (start s) (cur s + 1)) false = (s1, o)).
    { destruct Hlive as [Hs|Hs]; rewrite Hs in Hp; rewrite Hs; exact Hp. }
    match type of He with eod c ?X false = _ =>
      destruct (eod_false_ext X) as (s2 & t & Heq & Hg);
      [eapply ext_inv_same with (s := s); [exact Hinv | fields; reflexivity ..]|]
    end.
    rewrite Heq in He; inversion He; subst.
    exists t, []. split; [reflexivity|assumption].
  - cbn [run]. unfold iter_step.
    destruct (process c (set_cur s (cur s + 1)) f v) as [s1 o] eqn:Hp.
    pose proof (process_ext s s1 f v o Hlive Hinv Hp) as Hstep.
    destruct o as [t|].
    + destruct (run c s1 rest) as [s2 outs]. cbn [snd opt_list app].
      exists t, outs. split; [reflexivity|assumption].
    + destruct Hstep as [Hlive1 Hinv1].
      destruct (IH s1 Hlive1 Hinv1) as (t & rest' & Hrun & Hg).
      destruct (run c s1 rest) as [s2 outs]. cbn [snd opt_list app] in *.
      exists t, rest'. split; assumption.
Qed.

End Prefix.

Section PrefixMain.
Context {A : Type}.
Variable c : config.
Hypothesis Hacc : accepted c.

Ltac fields := cbn [state data contig init_count sil start cur] in *.
Ltac setters := unfold set_state, set_data, set_contig, set_init_count, set_sil,
                 set_start, set_cur in *; fields.

(** What a successful flush tells about the state at the cut point. *)
Lemma post_process_some : forall (s s' : st A) t',
  post_process c (set_cur s (cur s + 1)) = (s', Some t') ->
  live s /\ tok_start t' = start s /\ 0 < zlen (tok_data t')
  /\ (min_length c <= zlen (tok_data t') \/ (strict c = false /\ contig s = true))
  /\ ext_inv c (tok_data t') (start s) (contig s) s.
Proof.
  intros s s' t' Hp.
  destruct Hacc as (_ & Hmn & _).
  unfold post_process in Hp; setters.
  assert (Hlive : live s).
  { unfold live. destruct (state s); try discriminate; auto. }
  split; [assumption|].
  assert (He : (0 <? zlen (data s)) && (sil s <? zlen (data s)) = true
               /\ eod c (mkSt (state s) (data s) (contig s) (init_count s) (sil s)
                              (start s) (cur s + 1)) false = (s', Some t')).
  { destruct Hlive as [Hs|Hs]; rewrite Hs in Hp; rewrite Hs;
    destruct ((0 <? zlen (data s)) && (sil s <? zlen (data s))); try discriminate;
    (split; [reflexivity|exact Hp]). }
  clear Hp. destruct He as [Hc He].
  rewrite eod_false in He.
  match type of He with context [emits c ?Y] => set (X := Y) in * end.
  destruct (emits c X) eqn:Hem; [|discriminate].
  inversion He; subst; clear He.
  unfold tok_start, tok_data; cbn [fst snd].
  assert (Htrim : trim c X = trim c s) by reflexivity.
  rewrite Htrim in *.
  unfold emits in Hem. rewrite Htrim in Hem. subst X; fields.
  split; [reflexivity|].
  split; [lia|]. split; [lia|].
  unfold ext_inv. split; [reflexivity|]. split; [reflexivity|]. split; [lia|].
  destruct (drop c && (0 <? sil s)) eqn:Ed.
  - rewrite trim_drop by (assumption || lia).
    exists (skipn (Z.to_nat (zlen (data s) - sil s)) (data s)).
    split; [now rewrite firstn_skipn|].
    intros _. rewrite zlen_skipn. lia.
  - rewrite trim_nodrop by assumption. exists []. split; [now rewrite app_nil_r|].
    intros Hdr. zl. lia.
Qed.

End PrefixMain.

Theorem C08_prefix : forall (A : Type) (c : config) (s_old : st A) (p q : list (A * bool)),
  accepted c ->
  exists out1 fl rest,
    tokenize_from c s_old p = out1 ++ fl /\
    tokenize_from c s_old (p ++ q) = out1 ++ rest /\
    (fl = [] \/ exists t' t rest', fl = [t'] /\ rest = t :: rest' /\ shorter_version t' t).
Proof.
  intros A c s_old p q Hacc.
  unfold tokenize_from.
  set (s0 := reinit s_old).
  set (s1 := fst (feed c s0 p)).
  exists (snd (feed c s0 p)), (snd (run c s1 [])), (snd (run c s1 q)).
  split; [|split].
  - rewrite <- (app_nil_r p) at 1. apply run_feed.
  - apply run_feed.
  - cbn [run]. unfold iter_step.
    destruct (post_process c (set_cur s1 (cur s1 + 1))) as [s2 o] eqn:Hp.
    destruct o as [t'|]; [right|left; reflexivity].
    destruct (post_process_some c Hacc s1 s2 t' Hp) as (Hlive & Hst & Hpos & Hemit & Hinv).
    destruct (run_ext c Hacc (tok_data t') (start s1) (contig s1) Hpos Hemit q s1 Hlive Hinv)
      as (t & rest' & Hrun & Hst' & suf & Hsuf).
    exists t', t, rest'. cbn [snd opt_list].
    split; [reflexivity|]. split; [assumption|].
    unfold shorter_version. split; [congruence|]. exists suf; assumption.
Qed.

(* ------------------------------------------------------------------ *)
(** * Non-vacuity *)

(** min_length 1, max_length 5, max_continuous_silence 2, mode
    DROP_TRAILING_SILENCE: what [validate 1 5 2 0 0 4] returns. *)
Definition cex : config := mkConfig 1 5 2 0 0 false true.

Example cex_validated : validate 1 5 2 0 0 4 = Ok cex.
Proof. reflexivity. Qed.

Example cex_accepted : accepted cex.
Proof. unfold accepted, cex; cbn [max_length min_length max_sil init_min]; lia. Qed.

(** Drop mode: the token is frame 0 alone; it is handed over on read 4, i.e.
    while processing frame 3 = max_sil + 1 frames after its last frame, which
    is the upper end of the second clause of [latency_ok]. *)
Example latency_witness_drop :
  run_idx cex (reinit init_st) [(10, true); (11, false); (12, false); (13, false); (14, false)]
  = [(([10], 0, 0), 4)]
  /\ 4 = tok_end ([10], 0, 0) + Z.max 0 (max_sil cex) + 2.
Proof. vm_compute. split; reflexivity. Qed.

(** A token cut at max_length is handed over on the read of its own last
    frame (first clause), its continuation at the end-of-stream read (third
    clause). *)
Example latency_witness_cut :
  run_idx cex (reinit init_st)
    [(10, true); (11, true); (12, true); (13, true); (14, true); (15, true)]
  = [(([10; 11; 12; 13; 14], 0, 4), 5); (([15], 5, 5), 7)].
Proof. vm_compute. reflexivity. Qed.

(** Prefix law, second alternative: cutting after one frame flushes a strictly
    shorter version of the token the whole stream delivers. *)
Example prefix_witness :
  let p := [(10, true)] in
  let q := [(11, true); (12, false); (13, false); (14, false)] in
  tokenize_from cex init_st p = [([10], 0, 0)]
  /\ tokenize_from cex init_st (p ++ q) = [([10; 11], 0, 1)]
  /\ shorter_version ([10], 0, 0) ([10; 11], 0, 1).
Proof.
  vm_compute. split; [reflexivity|]. split; [reflexivity|].
  split; [reflexivity|]. exists [11]; reflexivity.
Qed.

(** Prefix law in drop mode with trailing silence at the cut point: the
    flushed version drops the silence that the full token keeps inside. *)
Example prefix_witness_drop :
  let p := [(10, true); (11, false)] in
  let q := [(12, true)] in
  tokenize_from cex init_st p = [([10], 0, 0)]
  /\ tokenize_from cex init_st (p ++ q) = [([10; 11; 12], 0, 2)].
Proof. vm_compute. split; reflexivity. Qed.

Print Assumptions run_idx_tokens.
Print Assumptions C08_latency.
Print Assumptions feed_app.
Print Assumptions run_feed.
Print Assumptions C08_causal.
Print Assumptions C08_prefix.
Print Assumptions C08_once.
