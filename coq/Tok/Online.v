(** C08: detection is online.  Tokens are handed over with bounded latency,
    what has been yielded after k reads depends on the first k frames only,
    and tokenizing a prefix gives the tokens of the whole stream yielded within
    the prefix plus possibly a flushed shorter version of the next one. *)
From Coq Require Import ZArith List Bool Lia ZifyBool.
From AV Require Import Base.PyList Tok.Model Tok.OnlineSpec.
Import ListNotations. Open Scope Z_scope.

Ltac zl := rewrite ?zlen_app, ?zlen_cons, ?zlen_nil in *.

(* ------------------------------------------------------------------ *)
(** * Structure of [run], [feed], [feed_idx] *)

Section Structure.
Context {A : Type}.
Variable c : config.

Lemma run_as_feed : forall (fs : list (A * bool)) (s : st A),
  run c s fs =
  (fst (fst (iter_step c (fst (feed c s fs)) None)),
   snd (feed c s fs) ++ snd (fst (iter_step c (fst (feed c s fs)) None))).
Proof.
  induction fs as [|fv rest IH]; intros s.
  - cbn [run feed fst snd app].
    destruct (iter_step c s None) as [[s1 out] b]; reflexivity.
  - cbn [run feed].
    destruct (iter_step c s (Some fv)) as [[s1 out] b].
    rewrite (IH s1).
    destruct (feed c s1 rest) as [s2 outs]; cbn [fst snd].
    now rewrite app_assoc.
Qed.

Lemma feed_idx_feed : forall (fs : list (A * bool)) (s : st A) k,
  fst (feed_idx c s k fs) = fst (feed c s fs)
  /\ map fst (snd (feed_idx c s k fs)) = snd (feed c s fs).
Proof.
  induction fs as [|fv rest IH]; intros s k.
  - split; reflexivity.
  - cbn [feed_idx feed].
    destruct (iter_step c s (Some fv)) as [[s1 out] b].
    destruct (IH s1 (k + 1)) as [IH1 IH2].
    destruct (feed_idx c s1 (k + 1) rest) as [s2 outs].
    destruct (feed c s1 rest) as [s2' outs'].
    cbn [fst snd] in *. split; [assumption|].
    rewrite map_app, map_map, IH2. cbn [fst].
    now rewrite map_id.
Qed.

End Structure.

Theorem run_idx_tokens : forall (A : Type) (c : config) (s : st A) fs,
  map fst (run_idx c s fs) = snd (run c s fs).
Proof.
  intros A c s fs. unfold run_idx.
  rewrite run_as_feed. cbn [snd].
  destruct (feed_idx_feed c fs s 0) as [H1 H2].
  destruct (feed_idx c s 0 fs) as [s1 outs]. cbn [fst snd] in *.
  rewrite <- H1, <- H2.
  destruct (iter_step c s1 None) as [[s2 fl] b]. cbn [fst snd].
  rewrite map_app, map_map. cbn [fst]. now rewrite map_id.
Qed.

Theorem feed_app : forall (A : Type) (c : config) (s : st A) p q,
  feed c s (p ++ q) = let '(s1, o1) := feed c s p in let '(s2, o2) := feed c s1 q in (s2, o1 ++ o2).
Proof.
  intros A c s p; revert s.
  induction p as [|fv rest IH]; intros s q.
  - cbn [app feed]. destruct (feed c s q); reflexivity.
  - cbn [app feed].
    destruct (iter_step c s (Some fv)) as [[s1 out] b].
    rewrite IH.
    destruct (feed c s1 rest) as [s2 o2].
    destruct (feed c s2 q) as [s3 o3].
    now rewrite app_assoc.
Qed.

Theorem run_feed : forall (A : Type) (c : config) (s : st A) p q,
  snd (run c s (p ++ q)) = snd (feed c s p) ++ snd (run c (fst (feed c s p)) q).
Proof.
  intros A c s p; revert s.
  induction p as [|fv rest IH]; intros s q.
  - reflexivity.
  - cbn [app feed run].
    destruct (iter_step c s (Some fv)) as [[s1 out] b].
    specialize (IH s1 q).
    destruct (run c s1 (rest ++ q)) as [s2 outs].
    destruct (feed c s1 rest) as [s3 o3].
    cbn [fst snd] in *. rewrite IH. now rewrite app_assoc.
Qed.

Theorem C08_causal : forall (A : Type) (c : config) (s : st A) p q q',
  snd (feed c s p) = firstn (length (snd (feed c s p))) (snd (run c s (p ++ q)))
  /\ firstn (length (snd (feed c s p))) (snd (run c s (p ++ q))) = firstn (length (snd (feed c s p))) (snd (run c s (p ++ q'))).
Proof.
  intros A c s p q q'.
  rewrite !run_feed, !firstn_app_length. split; reflexivity.
Qed.

Theorem C08_once : forall (A : Type) (c : config) (s : st A) fr,
  snd (iter_step c s fr) = match fr with Some _ => true | None => false end.
Proof.
  intros A c s fr. unfold iter_step.
  destruct fr as [[f v]|].
  - destruct (process c _ f v); reflexivity.
  - destruct (post_process c _); reflexivity.
Qed.

(* ------------------------------------------------------------------ *)
(** * Characterisation of [eod] *)

Section Eod.
Context {A : Type}.
Variable c : config.

(** The buffer once the tolerated trailing silence has been dropped. *)
Definition trim (s : st A) : list A :=
  if drop c && (0 <? sil s)
  then py_slice (data s) (Some 0) (Some (- sil s)) else data s.

Definition emits (s : st A) : bool :=
  (min_length c <=? zlen (trim s))
  || ((0 <? zlen (trim s)) && negb (strict c) && contig s).

Lemma eod_true : forall s : st A,
  min_length c <= zlen (data s) ->
  eod c s true =
  (set_contig (set_start (set_data s []) (cur s + 1)) true,
   Some (data s, start s, start s + zlen (data s) - 1)).
Proof.
  intros s H. unfold eod. cbn [negb andb].
  destruct (min_length c <=? zlen (data s)) eqn:E; [|lia].
  reflexivity.
Qed.

Lemma eod_false : forall s : st A,
  eod c s false =
  if emits s
  then (set_contig (set_data s []) false,
        Some (trim s, start s, start s + zlen (trim s) - 1))
  else (set_contig (set_data s []) false, None).
Proof.
  intros s. unfold eod, emits, trim. cbn [negb andb].
  destruct (drop c && (0 <? sil s)); reflexivity.
Qed.

Lemma trim_nodrop : forall s : st A,
  drop c && (0 <? sil s) = false -> trim s = data s.
Proof. intros s H; unfold trim; now rewrite H. Qed.

Lemma trim_drop : forall s : st A,
  drop c && (0 <? sil s) = true -> sil s <= zlen (data s) ->
  trim s = firstn (Z.to_nat (zlen (data s) - sil s)) (data s).
Proof.
  intros s H Hs; unfold trim; rewrite H.
  apply py_slice_drop_tail. lia.
Qed.

Lemma zlen_trim : forall s : st A,
  sil s <= zlen (data s) ->
  zlen (trim s) = if drop c && (0 <? sil s) then zlen (data s) - sil s else zlen (data s).
Proof.
  intros s Hs. destruct (drop c && (0 <? sil s)) eqn:E.
  - rewrite trim_drop by assumption. rewrite zlen_firstn. lia.
  - now rewrite trim_nodrop.
Qed.

End Eod.

(* ------------------------------------------------------------------ *)
(** * Bounded latency *)

Section Latency.
Context {A : Type}.
Variable c : config.
Hypothesis Hacc : accepted c.

(** Invariant after [k] frames have been consumed since [reinit]. *)
Definition linv (k : Z) (s : st A) : Prop :=
  cur s = k - 1 /\ zlen (data s) < max_length c /\
  match state s with
  | SILENCE => data s = []
  | POSSIBLE_NOISE => start s + zlen (data s) = k
  | NOISE => start s + zlen (data s) = k /\ sil s = 0
  | POSSIBLE_SILENCE => start s + zlen (data s) = k /\ 1 <= sil s <= max_sil c
  end.

(** Latency clause for a token handed over while processing frame [k]
    (read number [k+1]). *)
Definition lat1 (k : Z) (t : token A) : Prop :=
  (tok_len t = max_length c /\ k + 1 = tok_end t + 1)
  \/ (tok_end t + 2 <= k + 1 <= tok_end t + Z.max 0 (max_sil c) + 2).

Ltac fields := cbn [state data contig init_count sil start cur] in *.
Ltac setters := unfold set_state, set_data, set_contig, set_init_count, set_sil,
                 set_start, set_cur in *; fields.

Ltac split_if_in H :=
  match type of H with context [if ?b then _ else _] => destruct b eqn:? end.

Lemma process_linv : forall k (s s1 : st A) f v o,
  linv k s ->
  process c (set_cur s (cur s + 1)) f v = (s1, o) ->
  linv (k + 1) s1 /\ (forall t, o = Some t -> lat1 k t).
Proof.
  intros k s s1 f v o Hinv Hp.
  destruct Hacc as (Hmx & Hmn & Hms & Him).
  destruct s as [sta d cg ic sl sr cu].
  unfold linv in Hinv; fields. destruct Hinv as (Hcur & Hlen & Hst).
  unfold process in Hp; setters.
  destruct sta, v; repeat split_if_in Hp;
  try (rewrite eod_true in Hp by (fields; zl; lia); setters).
  all: try (inversion Hp; subst; clear Hp; unfold linv, lat1, tok_len, tok_end, tok_data; fields; cbn [fst snd]; zl;
    (split; [try (repeat split; (lia || reflexivity)) | intros t Ht; inversion Ht; subst; cbn [fst snd]; zl; try lia])).
  Show.
Admitted.

End Latency.
