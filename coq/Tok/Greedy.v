(** C04: the delivered tokens are exactly the greedy segmentation of the stream.

    [tokenize_from_C04]: for every accepted configuration with [init_min c <= 1],
    every previous tokenizer state and every finite stream of (frame, verdict)
    pairs, [map bounds (tokenize_from c s_old fs) = segment c (map snd fs)].

    Proof: a simulation between the accumulator of [Spec.seg_scan] and the
    concrete automaton state.  The scanner emits the pieces of a stretch only
    when the stretch closes, whereas the automaton delivers every full piece as
    soon as it is cut, so the simulation statement carries the full pieces
    already delivered for the open stretch ([sim]).  The extent [E] of the open
    stretch is tracked as [E = k * max_length + r] with [0 <= r < max_length]:
    [k] pieces delivered, [r] frames in the buffer.  At the closing frame (or at
    end of stream) the last delivery of the automaton is the remainder clause of
    [Spec.pieces] ([rem], [eod_false_spec], [pieces_kr]). *)
From Coq Require Import ZArith List Bool Lia ZifyBool Sorted.
From AV Require Import Base.PyList Tok.Model Tok.Spec.
Import ListNotations. Open Scope Z_scope.

Lemma full_pieces_snoc : forall n p m,
  full_pieces p m (S n) = full_pieces p m n ++ [(p + Z.of_nat n * m, p + Z.of_nat n * m + m - 1)].
Proof.
  induction n as [|n IH]; intros p m.
  - cbn [full_pieces app Z.of_nat]. repeat f_equal; lia.
  - change (full_pieces p m (S (S n))) with ((p, p + m - 1) :: full_pieces (p + m) m (S n)).
    rewrite IH. cbn [full_pieces app].
    replace (p + m + Z.of_nat n * m) with (p + Z.of_nat (S n) * m) by lia. reflexivity.
Qed.

Lemma full_pieces_snocZ : forall k p m, 0 <= k ->
  full_pieces p m (Z.to_nat (k + 1)) =
  full_pieces p m (Z.to_nat k) ++ [(p + k * m, p + k * m + m - 1)].
Proof.
  intros k p m Hk. replace (Z.to_nat (k + 1)) with (S (Z.to_nat k)) by lia.
  rewrite full_pieces_snoc. rewrite Z2Nat.id by lia. reflexivity.
Qed.

(** The remainder clause of [pieces], on quotient [k] and remainder [r]. *)
Definition rem (c : config) (p k r T : Z) : list (Z * Z) :=
  let m := max_length c in
  if (r =? 0) || (r <=? T) then []
  else
    let r' := if drop c then r - T else r in
    if (min_length c <=? r') || ((0 <? r') && negb (strict c) && (1 <=? k))
    then [(p + k * m, p + k * m + r' - 1)]
    else [].

Lemma pieces_kr : forall c p k r T, 0 <= r < max_length c ->
  pieces c p (k * max_length c + r) T =
  full_pieces p (max_length c) (Z.to_nat k) ++ rem c p k r T.
Proof.
  intros c p k r T Hr. unfold pieces, rem. cbv zeta.
  assert (Hq : (k * max_length c + r) / max_length c = k).
  { symmetry. apply Z.div_unique with r; lia. }
  assert (Hm : (k * max_length c + r) mod max_length c = r).
  { symmetry. apply Z.mod_unique with k; lia. }
  rewrite Hq, Hm. reflexivity.
Qed.

Section Greedy.
Context {A : Type}.
Variable c : config.
Hypothesis Hacc : accepted c.
Hypothesis Hinit : init_min c <= 1.
Notation m := (max_length c).
Notation M := (Z.max 0 (max_sil c)).

Lemma eod_true_spec : forall s : st A, zlen (data s) = m ->
  eod c s true =
  (set_contig (set_start (set_data s []) (cur s + 1)) true,
   Some (data s, start s, start s + m - 1)).
Proof.
  intros s Hlen. unfold eod. cbn [negb andb].
  destruct Hacc as (Hm & Hmin & _).
  destruct (min_length c <=? zlen (data s)) eqn:E; [|lia].
  cbn [orb]. rewrite Hlen. reflexivity.
Qed.

Lemma eod_false_spec : forall (s : st A) p k r T,
  zlen (data s) = r -> sil s = T -> 0 <= T -> T < r \/ T = 0 -> 0 <= r ->
  contig s = (1 <=? k) -> start s = p + k * m ->
  exists s' t, eod c s false = (s', t) /\
    map bounds (opt_list t) = rem c p k r T /\
    state s' = state s /\ data s' = [] /\ contig s' = false /\ cur s' = cur s.
Proof.
  intros s p k r T Hlen Hsil HT HTr Hr Hcg Hsta.
  destruct Hacc as (Hm & Hmin & _).
  destruct s as [sst d cg ic sl sta cu]. cbn [data sil contig start] in *. subst sl cg sta.
  unfold eod, rem. cbn [negb andb state data contig init_count sil start cur]. cbv zeta.
  destruct (drop c) eqn:Edrop; cbn [andb].
  - destruct (0 <? T) eqn:ET.
    + (* trimming *)
      unfold set_data at 1 2 3 4 5 6 7. cbn [state data contig init_count sil start cur].
      rewrite py_slice_drop_tail by lia.
      set (d' := firstn (Z.to_nat (zlen d - T)) d).
      assert (Hd' : zlen d' = r - T).
      { unfold d'. rewrite zlen_firstn. lia. }
      unfold set_data, set_contig. cbn [state data contig init_count sil start cur].
      rewrite Hd'.
      destruct ((r =? 0) || (r <=? T)) eqn:E1; [lia|].
      destruct ((min_length c <=? r - T) || ((0 <? r - T) && negb (strict c) && (1 <=? k))) eqn:E2.
      * eexists _, _. split; [reflexivity|]. cbn. unfold bounds, tok_start, tok_end. cbn.
        repeat split; reflexivity.
      * eexists _, _. split; [reflexivity|]. cbn. repeat split; reflexivity.
    + unfold set_data, set_contig. cbn [state data contig init_count sil start cur].
      rewrite Hlen.
      destruct ((r =? 0) || (r <=? T)) eqn:E1.
      * destruct ((min_length c <=? r) || ((0 <? r) && negb (strict c) && (1 <=? k))) eqn:E2; [lia|].
        eexists _, _. split; [reflexivity|]. cbn. repeat split; reflexivity.
      * replace (r - T) with r by lia.
        destruct ((min_length c <=? r) || ((0 <? r) && negb (strict c) && (1 <=? k))) eqn:E2.
        -- eexists _, _. split; [reflexivity|]. cbn. unfold bounds, tok_start, tok_end. cbn.
           repeat split; try reflexivity.
        -- eexists _, _. split; [reflexivity|]. cbn. repeat split; reflexivity.
  - unfold set_data, set_contig. cbn [state data contig init_count sil start cur].
    rewrite Hlen.
    destruct ((r =? 0) || (r <=? T)) eqn:E1.
    + destruct ((min_length c <=? r) || ((0 <? r) && negb (strict c) && (1 <=? k))) eqn:E2; [lia|].
      eexists _, _. split; [reflexivity|]. cbn. repeat split; reflexivity.
    + destruct ((min_length c <=? r) || ((0 <? r) && negb (strict c) && (1 <=? k))) eqn:E2.
      * eexists _, _. split; [reflexivity|]. cbn. unfold bounds, tok_start, tok_end. cbn.
        repeat split; try reflexivity.
      * eexists _, _. split; [reflexivity|]. cbn. repeat split; reflexivity.
Qed.


Definition Rnone (s : st A) : Prop :=
  state s = SILENCE /\ data s = [] /\ contig s = false.

Definition Rsome (s : st A) (p E T k r : Z) : Prop :=
  E = k * m + r /\ 0 <= k /\ 0 <= r < m /\ 0 <= T /\
  ((T = 0 /\ state s = NOISE) \/ (0 < T /\ state s = POSSIBLE_SILENCE)) /\
  start s = p + k * m /\ zlen (data s) = r /\ sil s = T /\
  contig s = (1 <=? k) /\ cur s + 1 = p + E.

Definition adv_out (p k r : Z) : list (Z * Z) :=
  if r + 1 <? m then [] else [(p + k * m, p + k * m + m - 1)].
Definition adv_k (k r : Z) : Z := if r + 1 <? m then k else k + 1.
Definition adv_r (r : Z) : Z := if r + 1 <? m then r + 1 else 0.

Lemma full_pieces_adv : forall p k r, 0 <= k ->
  full_pieces p m (Z.to_nat (adv_k k r)) = full_pieces p m (Z.to_nat k) ++ adv_out p k r.
Proof.
  intros p k r Hk. unfold adv_k, adv_out. destruct (r + 1 <? m).
  - now rewrite app_nil_r.
  - now apply full_pieces_snocZ.
Qed.

(** After a frame has been appended: cut at [max_length] or keep going. *)
Lemma cut_or_keep : forall (s1 : st A) p E T k r (b : bool),
  E = k * m + r -> 0 <= k -> 0 <= r < m -> 0 <= T ->
  ((T = 0 /\ state s1 = NOISE) \/ (0 < T /\ state s1 = POSSIBLE_SILENCE)) ->
  start s1 = p + k * m -> zlen (data s1) = r + 1 -> sil s1 = T ->
  contig s1 = (1 <=? k) -> cur s1 = p + E ->
  b = (m <=? zlen (data s1)) ->
  exists s' t, (if b then eod c s1 true else (s1, None)) = (s', t) /\
    cur s' = cur s1 /\
    map bounds (opt_list t) = adv_out p k r /\
    Rsome s' p (E + 1) T (adv_k k r) (adv_r r).
Proof.
  intros s1 p E T k r b HE Hk Hr HT Hst Hsta Hlen Hsil Hcg Hcur Hb.
  unfold adv_out, adv_k, adv_r.
  destruct (r + 1 <? m) eqn:Ecut.
  - assert (Hbf : b = false) by lia. rewrite Hbf.
    eexists _, _. split; [reflexivity|]. split; [reflexivity|]. split; [reflexivity|].
    unfold Rsome. repeat split; try assumption; try lia.
  - assert (Hbt : b = true) by lia. rewrite Hbt.
    rewrite eod_true_spec by lia.
    eexists _, _. split; [reflexivity|].
    destruct s1 as [sst d cg ic sl sta cu].
    unfold set_contig, set_start, set_data; cbn [state data contig init_count sil start cur] in *.
    split; [reflexivity|]. split.
    + cbn. unfold bounds, tok_start, tok_end. cbn. subst sta. reflexivity.
    + unfold Rsome. cbn [state data contig init_count sil start cur].
      repeat split; try assumption; try reflexivity; try lia.
Qed.


Ltac fields := cbn [state data contig init_count sil start cur].
Ltac fields_in H := cbn [state data contig init_count sil start cur] in H.
Ltac setters := unfold set_state, set_data, set_contig, set_init_count, set_sil, set_start, set_cur.

Lemma step_none_false : forall (s : st A) f, Rnone s ->
  exists s', iter_step c s (Some (f, false)) = (s', [], true) /\
    cur s' = cur s + 1 /\ Rnone s'.
Proof.
  intros s f (Hst & Hd & Hcg).
  destruct s as [sst d cg ic sl sta cu]. cbn [state data contig init_count sil start cur] in *.
  subst sst d cg. unfold iter_step, set_cur; fields. unfold process; fields.
  eexists. split; [reflexivity|]. fields. split; [reflexivity|].
  unfold Rnone; fields. auto.
Qed.

Lemma step_none_true : forall (s : st A) f, Rnone s ->
  exists s' out, iter_step c s (Some (f, true)) = (s', out, true) /\
    cur s' = cur s + 1 /\
    map bounds out = adv_out (cur s + 1) 0 0 /\
    Rsome s' (cur s + 1) 1 0 (adv_k 0 0) (adv_r 0).
Proof.
  intros s f (Hst & Hd & Hcg).
  destruct Hacc as (Hm & Hmin & Hms & Him).
  destruct s as [sst d cg ic sl sta cu]. cbn [state data contig init_count sil start cur] in *.
  subst sst d cg. unfold iter_step, set_cur; fields. unfold process; fields.
  destruct (init_min c <=? 1) eqn:Ei; [|lia]. cbv zeta. setters; fields.
  match goal with |- context [if ?b then eod c ?s1 true else _] =>
    destruct (cut_or_keep s1 (cu + 1) 0 0 0 0 b) as (s' & t & Heq & Hc & Hout & HR)
  end; [ fields; rewrite ?zlen_app, ?zlen_cons, ?zlen_nil; try reflexivity; try lia .. | ].
  - left; auto.
  - rewrite Heq. exists s', (opt_list t). split; [reflexivity|]. fields_in Hc.
    split; [exact Hc|]. split; [exact Hout|]. exact HR.
Qed.


Ltac use_cut p E T k r :=
  match goal with |- context [if ?b then eod c ?s1 true else _] =>
    let s' := fresh "s'" in let t := fresh "t" in
    let Heq := fresh "Heq" in let Hc := fresh "Hc" in
    let Hout := fresh "Hout" in let HR := fresh "HR" in
    destruct (cut_or_keep s1 p E T k r b) as (s' & t & Heq & Hc & Hout & HR);
    [ fields; rewrite ?zlen_app, ?zlen_cons, ?zlen_nil; try reflexivity; try lia ..
    | rewrite Heq; exists s', (opt_list t); split; [reflexivity|]; fields_in Hc;
      split; [exact Hc|]; split; [exact Hout|]; exact HR ]
  end.

Lemma step_some_grow : forall (s : st A) f v p E T k r T',
  Rsome s p E T k r ->
  (v = true /\ T' = 0) \/ (v = false /\ T < M /\ T' = T + 1) ->
  exists s' out, iter_step c s (Some (f, v)) = (s', out, true) /\
    cur s' = cur s + 1 /\
    map bounds out = adv_out p k r /\
    Rsome s' p (E + 1) T' (adv_k k r) (adv_r r).
Proof.
  intros s f v p E T k r T' (HE & Hk & Hr & HT & Hst & Hsta & Hlen & Hsil & Hcg & Hcur) Hv.
  destruct Hacc as (Hm & Hmin & Hms & Him).
  destruct s as [sst d cg ic sl sta cu]. cbn [state data contig init_count sil start cur] in *.
  unfold iter_step, set_cur; fields.
  destruct Hst as [[HT0 Hs]|[HTp Hs]]; subst sst; unfold process; fields.
  - (* NOISE *)
    destruct Hv as [[-> ->]|(-> & HTM & ->)].
    + cbv zeta. setters; fields. use_cut p E 0 k r.
      left; auto.
    + destruct (max_sil c <=? 0) eqn:Ems; [lia|].
      cbv zeta. setters; fields. use_cut p E (T + 1) k r.
      right; split; [lia|reflexivity].
  - (* POSSIBLE_SILENCE *)
    destruct Hv as [[-> ->]|(-> & HTM & ->)].
    + cbv zeta. setters; fields. use_cut p E 0 k r.
      left; auto.
    + destruct (max_sil c <=? sl) eqn:Ems; [lia|].
      cbv zeta. setters; fields. use_cut p E (T + 1) k r.
      right; split; [lia|reflexivity].
Qed.


Ltac use_eod_false p k r T :=
  match goal with |- context [eod c ?s1 false] =>
    let s' := fresh "s'" in let t := fresh "t" in
    let Heq := fresh "Heq" in let Hout := fresh "Hout" in
    let Hs := fresh "Hs" in let Hd := fresh "Hd" in
    let Hg := fresh "Hg" in let Hc := fresh "Hc" in
    destruct (eod_false_spec s1 p k r T) as (s' & t & Heq & Hout & Hs & Hd & Hg & Hc);
    [ fields; try reflexivity; try assumption; try lia ..
    | rewrite Heq; exists s', (opt_list t); split; [reflexivity|];
      fields_in Hc; fields_in Hs ]
  end.

Lemma step_some_close : forall (s : st A) f p E T k r,
  Rsome s p E T k r -> M <= T ->
  exists s' out, iter_step c s (Some (f, false)) = (s', out, true) /\
    cur s' = cur s + 1 /\
    map bounds out = rem c p k r T /\
    Rnone s'.
Proof.
  intros s f p E T k r (HE & Hk & Hr & HT & Hst & Hsta & Hlen & Hsil & Hcg & Hcur) HM.
  destruct Hacc as (Hm & Hmin & Hms & Him).
  destruct s as [sst d cg ic sl sta cu]. cbn [state data contig init_count sil start cur] in *.
  unfold iter_step, set_cur; fields.
  destruct Hst as [[HT0 Hs]|[HTp Hs]]; subst sst; unfold process; fields.
  - destruct (max_sil c <=? 0) eqn:Ems; [|lia].
    setters; fields. use_eod_false p k r T.
    split; [exact Hc|]. split; [exact Hout|]. unfold Rnone; auto.
  - destruct (max_sil c <=? sl) eqn:Ems; [|lia].
    cbv zeta. setters; fields.
    destruct (sl <? zlen d) eqn:Esl.
    + use_eod_false p k r T.
      split; [exact Hc|]. split; [exact Hout|]. unfold Rnone; auto.
    + eexists _, _. split; [reflexivity|]. fields. split; [reflexivity|].
      split; [| unfold Rnone; fields; auto].
      unfold rem. destruct ((r =? 0) || (r <=? T)) eqn:E1; [reflexivity|lia].
Qed.


Lemma flush_none : forall s : st A, Rnone s -> snd (run c s []) = [].
Proof.
  intros s (Hst & Hd & Hcg).
  destruct s as [sst d cg ic sl sta cu]. cbn [state data contig init_count sil start cur] in *.
  subst sst. unfold run, iter_step, set_cur; fields. unfold post_process; fields. reflexivity.
Qed.

Lemma flush_some : forall (s : st A) p E T k r, Rsome s p E T k r ->
  map bounds (snd (run c s [])) = rem c p k r T.
Proof.
  intros s p E T k r (HE & Hk & Hr & HT & Hst & Hsta & Hlen & Hsil & Hcg & Hcur).
  destruct Hacc as (Hm & Hmin & Hms & Him).
  destruct s as [sst d cg ic sl sta cu]. cbn [state data contig init_count sil start cur] in *.
  unfold run, iter_step, set_cur; fields.
  assert (Hpp : post_process c (mkSt sst d cg ic sl sta (cu + 1)) =
                if (0 <? zlen d) && (sl <? zlen d)
                then eod c (mkSt sst d cg ic sl sta (cu + 1)) false
                else (mkSt sst d cg ic sl sta (cu + 1), None)).
  { unfold post_process; fields. destruct Hst as [[_ ->]|[_ ->]]; reflexivity. }
  rewrite Hpp. clear Hpp.
  destruct ((0 <? zlen d) && (sl <? zlen d)) eqn:Eg.
  - destruct (eod_false_spec (mkSt sst d cg ic sl sta (cu + 1)) p k r T)
      as (s' & t & Heq & Hout & _); fields; try assumption; try lia.
    rewrite Heq. cbn [snd]. exact Hout.
  - cbn [snd opt_list map]. unfold rem.
    destruct ((r =? 0) || (r <=? T)) eqn:E1; [reflexivity|lia].
Qed.

Lemma run_cons : forall (s : st A) fv rest s' out b,
  iter_step c s (Some fv) = (s', out, b) ->
  snd (run c s (fv :: rest)) = out ++ snd (run c s' rest).
Proof.
  intros s fv rest s' out b Heq. cbn [run]. rewrite Heq.
  destruct (run c s' rest) as [s2 outs]. reflexivity.
Qed.

Lemma sim : forall rest : list (A * bool),
  (forall s, Rnone s ->
     map bounds (snd (run c s rest)) = seg_scan c (cur s + 1) None (map snd rest)) /\
  (forall s p E T k r, Rsome s p E T k r ->
     full_pieces p m (Z.to_nat k) ++ map bounds (snd (run c s rest)) =
     seg_scan c (cur s + 1) (Some (p, E, T)) (map snd rest)).
Proof.
  induction rest as [|[f v] rest [IHn IHs]]; split.
  - intros s HR. rewrite flush_none by assumption. reflexivity.
  - intros s p E T k r HR. rewrite (flush_some s p E T k r HR).
    cbn [map seg_scan]. destruct HR as (HE & Hk & Hr & _). subst E.
    symmetry. apply pieces_kr. exact Hr.
  - intros s HR. cbn [map snd seg_scan]. destruct v.
    + destruct (step_none_true s f HR) as (s' & out & Heq & Hc & Hout & HR').
      rewrite (run_cons _ _ _ _ _ _ Heq), map_app, Hout.
      replace (cur s + 1 + 1) with (cur s' + 1) by lia. rewrite <- (IHs _ _ _ _ _ _ HR').
      rewrite full_pieces_adv by lia. cbn [Z.to_nat full_pieces app]. reflexivity.
    + destruct (step_none_false s f HR) as (s' & Heq & Hc & HR').
      rewrite (run_cons _ _ _ _ _ _ Heq). cbn [app].
      replace (cur s + 1 + 1) with (cur s' + 1) by lia. apply IHn, HR'.
  - intros s p E T k r HR. cbn [map snd seg_scan].
    assert (Hk : 0 <= k) by (destruct HR as (_ & Hk & _); exact Hk).
    destruct v.
    + destruct (step_some_grow s f true p E T k r 0 HR) as (s' & out & Heq & Hc & Hout & HR');
        [left; auto|].
      rewrite (run_cons _ _ _ _ _ _ Heq), map_app, Hout, app_assoc.
      rewrite <- full_pieces_adv by exact Hk.
        replace (cur s + 1 + 1) with (cur s' + 1) by lia. apply (IHs _ _ _ _ _ _ HR').
    + destruct (M <=? T) eqn:EM.
      * destruct (step_some_close s f p E T k r HR) as (s' & out & Heq & Hc & Hout & HR');
          [lia|].
        rewrite (run_cons _ _ _ _ _ _ Heq), map_app, Hout, app_assoc.
        replace (cur s + 1 + 1) with (cur s' + 1) by lia. rewrite <- (IHn _ HR'). f_equal.
        destruct HR as (HE & _ & Hr & _). subst E. symmetry. apply pieces_kr. exact Hr.
      * destruct (step_some_grow s f false p E T k r (T + 1) HR) as (s' & out & Heq & Hc & Hout & HR');
          [right; split; [reflexivity|split; [lia|reflexivity]]|].
        rewrite (run_cons _ _ _ _ _ _ Heq), map_app, Hout, app_assoc.
        rewrite <- full_pieces_adv by exact Hk.
        replace (cur s + 1 + 1) with (cur s' + 1) by lia. apply (IHs _ _ _ _ _ _ HR').
Qed.

End Greedy.

Theorem tokenize_from_C04 : forall (A : Type) (c : config) (s_old : st A) (fs : list (A * bool)),
  accepted c -> init_min c <= 1 -> P_C04 c fs (tokenize_from c s_old fs).
Proof.
  intros A c s_old fs Hacc Hinit. unfold P_C04, tokenize_from, segment.
  destruct (sim c Hacc Hinit fs) as [Hn _].
  rewrite (Hn (reinit s_old)).
  - reflexivity.
  - unfold Rnone, reinit; cbn. auto.
Qed.

Corollary tokenize_C04 : forall (A : Type) (c : config) (fs : list (A * bool)),
  accepted c -> init_min c <= 1 -> P_C04 c fs (tokenize c fs).
Proof. intros A c fs Hacc Hinit. apply tokenize_from_C04; assumption. Qed.

(* ------------------------------------------------------------------ *)
(** Corollaries ("consequently ..." clauses of C04): the first token of a stretch
    starts at its first valid frame; no token covers frames outside an extended
    stretch.  A stretch is what [Spec.seg_scan] measures; [str_scan] is the same
    pass that records the triple (first valid frame, extent, trailing invalid
    run) instead of cutting it ([seg_scan_str_scan]). *)

(** The stretches measured by [seg_scan], without the cutting: same pass, but a
    closing stretch is recorded as its triple (first valid frame, extent,
    trailing invalid run). *)
Fixpoint str_scan (c : config) (pos : Z) (acc : option (Z * Z * Z)) (v : list bool)
  : list (Z * Z * Z) :=
  match v with
  | [] => match acc with Some x => [x] | None => [] end
  | true :: rest =>
      match acc with
      | None => str_scan c (pos + 1) (Some (pos, 1, 0)) rest
      | Some (p, E, _) => str_scan c (pos + 1) (Some (p, E + 1, 0)) rest
      end
  | false :: rest =>
      match acc with
      | None => str_scan c (pos + 1) None rest
      | Some (p, E, T) =>
          if Z.max 0 (max_sil c) <=? T
          then (p, E, T) :: str_scan c (pos + 1) None rest
          else str_scan c (pos + 1) (Some (p, E + 1, T + 1)) rest
      end
  end.

Definition stretches (c : config) (v : list bool) : list (Z * Z * Z) :=
  str_scan c 0 None v.

Definition pieces3 (c : config) (x : Z * Z * Z) : list (Z * Z) :=
  let '(p, E, T) := x in pieces c p E T.

Lemma seg_scan_str_scan : forall c v pos acc,
  seg_scan c pos acc v = flat_map (pieces3 c) (str_scan c pos acc v).
Proof.
  induction v as [|b v IH]; intros pos acc.
  - destruct acc as [[[p E] T]|]; cbn [seg_scan str_scan flat_map pieces3].
    + now rewrite app_nil_r.
    + reflexivity.
  - destruct b, acc as [[[p E] T]|]; cbn [seg_scan str_scan]; try apply IH.
    destruct (Z.max 0 (max_sil c) <=? T).
    + cbn [flat_map pieces3]. now rewrite IH.
    + apply IH.
Qed.

Lemma segment_stretches : forall c v,
  segment c v = flat_map (pieces3 c) (stretches c v).
Proof. intros; apply seg_scan_str_scan. Qed.

(** What a recorded stretch looks like in the verdict sequence [vs]. *)
Definition wf_stretch (c : config) (vs : list bool) (x : Z * Z * Z) : Prop :=
  let '(p, E, T) := x in
  0 <= p /\ 0 <= T < E /\ T <= Z.max 0 (max_sil c) /\ p + E <= zlen vs
  /\ nth_error vs (Z.to_nat p) = Some true
  /\ nth_error vs (Z.to_nat (p + E - T - 1)) = Some true
  /\ (forall i, p + E - T <= i < p + E -> nth_error vs (Z.to_nat i) = Some false).

Lemma nth_error_snoc_old {B} (l : list B) x n y :
  nth_error l n = Some y -> nth_error (l ++ [x]) n = Some y.
Proof.
  intros H. rewrite nth_error_app1; [exact H|]. apply nth_error_Some. congruence.
Qed.

Lemma nth_error_snoc_new {B} (l : list B) x :
  nth_error (l ++ [x]) (Z.to_nat (zlen l)) = Some x.
Proof.
  unfold zlen. rewrite Nat2Z.id, nth_error_app2, Nat.sub_diag by lia. reflexivity.
Qed.

(** Accumulator invariant: [pre] is what has been read, [pos = zlen pre]. *)
Definition wf_acc (c : config) (pre : list bool) (acc : option (Z * Z * Z)) : Prop :=
  match acc with
  | None => True
  | Some (p, E, T) => wf_stretch c pre (p, E, T) /\ p + E = zlen pre
  end.

Lemma wf_stretch_app : forall c pre suf x,
  wf_stretch c pre x -> wf_stretch c (pre ++ suf) x.
Proof.
  intros c pre suf [[p E] T] (Hp & HT & HM & Hlen & Hfirst & Hlast & Htail).
  unfold wf_stretch. rewrite zlen_app. pose proof (zlen_nonneg suf).
  assert (Hold : forall n y, nth_error pre n = Some y -> nth_error (pre ++ suf) n = Some y).
  { intros n y H1. rewrite nth_error_app1; [exact H1|]. apply nth_error_Some. congruence. }
  repeat split; try lia; auto.
Qed.

Lemma str_scan_wf : forall c v pre acc,
  wf_acc c pre acc ->
  Forall (wf_stretch c (pre ++ v)) (str_scan c (zlen pre) acc v).
Proof.
  induction v as [|b v IH]; intros pre acc Hacc.
  - rewrite app_nil_r. destruct acc as [[[p E] T]|]; cbn [str_scan].
    + constructor; [apply Hacc|constructor].
    + constructor.
  - replace (pre ++ b :: v) with ((pre ++ [b]) ++ v) by (rewrite <- app_assoc; reflexivity).
    assert (Hpos : zlen pre + 1 = zlen (pre ++ [b])) by (rewrite zlen_app, zlen_cons, zlen_nil; lia).
    pose proof (zlen_nonneg pre) as Hnn.
    destruct b, acc as [[[p E] T]|]; cbn [str_scan]; rewrite ?Hpos.
    + (* valid frame extends the stretch *)
      apply IH. destruct Hacc as [(Hp & HT & HM & Hlen & Hfirst & Hlast & Htail) Hpe].
      split; [|lia]. unfold wf_stretch. rewrite <- Hpos.
      repeat split; try lia.
      * now apply nth_error_snoc_old.
      * replace (p + (E + 1) - 0 - 1) with (zlen pre) by lia. apply nth_error_snoc_new.
    + (* valid frame opens a stretch *)
      apply IH. split; [|lia]. unfold wf_stretch. rewrite <- Hpos.
      repeat split; try lia.
      * apply nth_error_snoc_new.
      * replace (zlen pre + 1 - 0 - 1) with (zlen pre) by lia. apply nth_error_snoc_new.
    + destruct Hacc as [Hwf Hpe].
      destruct (Z.max 0 (max_sil c) <=? T) eqn:EM.
      * constructor.
        -- apply wf_stretch_app, wf_stretch_app, Hwf.
        -- apply IH. exact I.
      * apply IH. destruct Hwf as (Hp & HT & HM & Hlen & Hfirst & Hlast & Htail).
        split; [|lia]. unfold wf_stretch. rewrite <- Hpos.
        repeat split; try lia.
        -- now apply nth_error_snoc_old.
        -- replace (p + (E + 1) - (T + 1) - 1) with (p + E - T - 1) by lia.
           now apply nth_error_snoc_old.
        -- intros i Hi. destruct (Z.eq_dec i (zlen pre)) as [->|Hne].
           ++ apply nth_error_snoc_new.
           ++ apply nth_error_snoc_old, Htail. lia.
    + apply IH. exact I.
Qed.

Lemma stretches_wf : forall c v, Forall (wf_stretch c v) (stretches c v).
Proof. intros c v. apply (str_scan_wf c v [] None). exact I. Qed.

Lemma full_pieces_In : forall n p m a b,
  In (a, b) (full_pieces p m n) ->
  exists j, 0 <= j < Z.of_nat n /\ a = p + j * m /\ b = a + m - 1.
Proof.
  induction n as [|n IH]; intros p m a b Hin; cbn [full_pieces] in Hin.
  - destruct Hin.
  - destruct Hin as [Heq|Hin].
    + inversion Heq; subst. exists 0. lia.
    + destruct (IH _ _ _ _ Hin) as (j & Hj & Ha & Hb). exists (j + 1). lia.
Qed.

(** Every piece of a stretch lies inside the stretch. *)
Lemma pieces_inside : forall c p E T a b,
  0 < max_length c -> 0 <= T -> 0 <= E ->
  In (a, b) (pieces c p E T) -> p <= a /\ a <= b /\ b <= p + E - 1.
Proof.
  intros c p E T a b Hm HT HE Hin. unfold pieces in Hin. cbv zeta in Hin.
  set (k := E / max_length c) in *. set (r := E mod max_length c) in *.
  assert (Hdm : E = max_length c * k + r) by (apply Z.div_mod; lia).
  assert (Hr : 0 <= r < max_length c) by (apply Z.mod_pos_bound; lia).
  assert (Hk : 0 <= k) by (apply Z.div_pos; lia).
  apply in_app_or in Hin. destruct Hin as [Hin|Hin].
  - apply full_pieces_In in Hin. destruct Hin as (j & Hj & Ha & Hb).
    rewrite Z2Nat.id in Hj by exact Hk. nia.
  - destruct ((r =? 0) || (r <=? T)) eqn:E1; [destruct Hin|].
    destruct (drop c).
    + destruct ((min_length c <=? r - T) || ((0 <? r - T) && negb (strict c) && (1 <=? k)));
        [|destruct Hin].
      destruct Hin as [Heq|[]]. injection Heq as Ha Hb. nia.
    + destruct ((min_length c <=? r) || ((0 <? r) && negb (strict c) && (1 <=? k)));
        [|destruct Hin].
      destruct Hin as [Heq|[]]. injection Heq as Ha Hb. nia.
Qed.

(** The first piece delivered for a stretch starts at the first frame of the stretch. *)
Lemma pieces_head : forall c p E T,
  0 < max_length c -> 0 <= E ->
  pieces c p E T = [] \/ exists b rest, pieces c p E T = (p, b) :: rest.
Proof.
  intros c p E T Hm HE. unfold pieces. cbv zeta.
  set (k := E / max_length c) in *. set (r := E mod max_length c) in *.
  assert (Hk : 0 <= k) by (apply Z.div_pos; lia).
  destruct (Z.to_nat k) as [|n] eqn:En.
  - assert (Hk0 : k = 0) by lia. rewrite Hk0. cbn [full_pieces app].
    rewrite Z.mul_0_l, Z.add_0_r.
    destruct ((r =? 0) || (r <=? T)); [left; reflexivity|].
    match goal with |- (if ?b then _ else _) = [] \/ _ => destruct b end;
      [right; eexists _, _; reflexivity | left; reflexivity].
  - right. cbn [full_pieces app]. eexists _, _; reflexivity.
Qed.

Lemma verdict_of_nth : forall (A : Type) (fs : list (A * bool)) p v,
  0 <= p -> nth_error (map snd fs) (Z.to_nat p) = Some v -> verdict fs p = v.
Proof.
  intros A fs p v Hp H. unfold verdict, znth_opt.
  destruct (p <? 0) eqn:E; [lia|].
  rewrite nth_error_map in H.
  destruct (nth_error fs (Z.to_nat p)) as [[a w]|]; cbn in H; congruence.
Qed.

(** The tokens, stretch by stretch. *)
Corollary tokenize_from_C04_stretches :
  forall (A : Type) (c : config) (s_old : st A) (fs : list (A * bool)),
  accepted c -> init_min c <= 1 ->
  map bounds (tokenize_from c s_old fs) = flat_map (pieces3 c) (stretches c (map snd fs)).
Proof.
  intros A c s_old fs Hacc Hinit.
  rewrite <- segment_stretches. apply tokenize_from_C04; assumption.
Qed.

(** Each stretch starts at a valid frame, and the first token delivered for it
    (if any) starts at that frame. *)
Corollary C04_first_token_of_stretch :
  forall (A : Type) (c : config) (fs : list (A * bool)) p E T,
  accepted c -> In (p, E, T) (stretches c (map snd fs)) ->
  verdict fs p = true
  /\ (pieces c p E T = [] \/ exists b rest, pieces c p E T = (p, b) :: rest).
Proof.
  intros A c fs p E T Hacc Hin.
  pose proof (stretches_wf c (map snd fs)) as Hwf.
  rewrite Forall_forall in Hwf. specialize (Hwf _ Hin).
  destruct Hwf as (Hp & HT & HM & Hlen & Hfirst & _).
  split.
  - apply verdict_of_nth; assumption.
  - apply pieces_head; [apply Hacc | lia].
Qed.

(** No token covers a frame outside a stretch: every token lies inside one of
    the stretches of the stream (which themselves lie inside the stream). *)
Corollary C04_token_inside_stretch :
  forall (A : Type) (c : config) (s_old : st A) (fs : list (A * bool)) t,
  accepted c -> init_min c <= 1 ->
  In t (tokenize_from c s_old fs) ->
  exists p E T, In (p, E, T) (stretches c (map snd fs))
    /\ wf_stretch c (map snd fs) (p, E, T)
    /\ p <= tok_start t /\ tok_start t <= tok_end t /\ tok_end t <= p + E - 1
    /\ p + E <= zlen fs.
Proof.
  intros A c s_old fs t Hacc Hinit Hin.
  apply (in_map bounds) in Hin.
  rewrite tokenize_from_C04_stretches in Hin by assumption.
  apply in_flat_map in Hin. destruct Hin as ([[p E] T] & Hs & Hp).
  pose proof (stretches_wf c (map snd fs)) as Hwf.
  rewrite Forall_forall in Hwf. specialize (Hwf _ Hs).
  exists p, E, T. split; [exact Hs|]. split; [exact Hwf|].
  destruct Hwf as (Hp0 & HT & HM & Hlen & _).
  unfold pieces3, bounds in Hp.
  apply pieces_inside in Hp; [|apply Hacc|lia|lia].
  rewrite zlen_map in Hlen. lia.
Qed.

(** Stretches come in stream order and at least one frame (the invalid frame
    that closed the earlier one) separates two of them. *)
Definition str_first (x : Z * Z * Z) : Z := fst (fst x).
Definition str_lt (x y : Z * Z * Z) : Prop :=
  str_first x + snd (fst x) < str_first y.

Lemma str_scan_sorted : forall c v pos acc,
  match acc with Some (p, E, _) => p + E = pos | None => True end ->
  StronglySorted str_lt (str_scan c pos acc v)
  /\ match acc with
     | None => Forall (fun y => pos <= str_first y) (str_scan c pos acc v)
     | Some (p, _, _) =>
         exists E' T' tl, str_scan c pos acc v = (p, E', T') :: tl
           /\ pos <= p + E' /\ Forall (fun y => p + E' < str_first y) tl
     end.
Proof.
  induction v as [|b v IH]; intros pos acc Hacc.
  - destruct acc as [[[p E] T]|]; cbn [str_scan].
    + split; [repeat constructor|]. exists E, T, []. repeat split; [lia|constructor].
    + split; constructor.
  - destruct b, acc as [[[p E] T]|]; cbn [str_scan].
    + destruct (IH (pos + 1) (Some (p, E + 1, 0)) ltac:(cbn beta iota; lia)) as [Hs (E' & T' & tl & Heq & Hpos & Htl)].
      split; [exact Hs|]. exists E', T', tl. repeat split; [exact Heq|lia|exact Htl].
    + destruct (IH (pos + 1) (Some (pos, 1, 0)) ltac:(cbn beta iota; lia)) as [Hs (E' & T' & tl & Heq & Hpos & Htl)].
      split; [exact Hs|]. rewrite Heq. constructor; [cbn; lia|].
      eapply Forall_impl; [|exact Htl]. intros y Hy. cbn beta in Hy. lia.
    + destruct (Z.max 0 (max_sil c) <=? T) eqn:EM.
      * destruct (IH (pos + 1) None I) as [Hs Hall].
        assert (Hgap : Forall (fun y => p + E < str_first y) (str_scan c (pos + 1) None v)).
        { eapply Forall_impl; [|exact Hall]. intros y Hy. cbn beta in Hy. lia. }
        split.
        -- constructor; [exact Hs|]. eapply Forall_impl; [|exact Hgap].
           intros y Hy. unfold str_lt, str_first. cbn [fst snd]. exact Hy.
        -- exists E, T, (str_scan c (pos + 1) None v). repeat split; [lia|exact Hgap].
      * destruct (IH (pos + 1) (Some (p, E + 1, T + 1)) ltac:(cbn beta iota; lia))
          as [Hs (E' & T' & tl & Heq & Hpos & Htl)].
        split; [exact Hs|]. exists E', T', tl. repeat split; [exact Heq|lia|exact Htl].
    + destruct (IH (pos + 1) None I) as [Hs Hall].
      split; [exact Hs|]. eapply Forall_impl; [|exact Hall]. intros y Hy. cbn beta in Hy. lia.
Qed.

Lemma stretches_sorted : forall c v, StronglySorted str_lt (stretches c v).
Proof. intros c v. apply (str_scan_sorted c v 0 None I). Qed.

(* ------------------------------------------------------------------ *)
(** Non-vacuity: an accepted configuration ([init_min = 0], trailing silence
    dropped) and a 12-frame stream.  The stretch starts at frame 1; the first cut
    (frame 4) falls inside tolerated silence which goes on after the cut, the
    second one (frame 8) too, and the last piece loses its trailing invalid
    frame. *)
Definition ex_c : config := mkConfig 2 4 2 0 0 false true.
Definition ex_fs : list (unit * bool) :=
  map (fun b => (tt, b))
      [false; true; true; true; false; false; true; true; false; true; true; false].

Example ex_config_is_constructed : validate 2 4 2 0 0 4 = Ok ex_c.
Proof. vm_compute. reflexivity. Qed.

Example ex_nonvacuous :
  accepted ex_c /\ init_min ex_c <= 1 /\ drop ex_c = true /\ zlen ex_fs = 12
  /\ map bounds (tokenize ex_c ex_fs) = [(1, 4); (5, 8); (9, 10)]
  /\ segment ex_c (map snd ex_fs) = [(1, 4); (5, 8); (9, 10)].
Proof.
  unfold accepted. cbn [ex_c min_length max_length max_sil init_min drop].
  repeat split; try lia; vm_compute; reflexivity.
Qed.

Example ex_stretches : stretches ex_c (map snd ex_fs) = [(1, 11, 1)].
Proof. vm_compute. reflexivity. Qed.

Print Assumptions tokenize_from_C04.
Print Assumptions tokenize_C04.
Print Assumptions tokenize_from_C04_stretches.
Print Assumptions C04_first_token_of_stretch.
Print Assumptions C04_token_inside_stretch.
Print Assumptions stretches_wf.
Print Assumptions stretches_sorted.
