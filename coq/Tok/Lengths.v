(** C02: token lengths.  Never above max_length; below min_length only as the
    immediate continuation of a token cut at max_length, and never in strict
    mode; the constructor accepts exactly the valid tuples. *)
From Coq Require Import ZArith List Bool Lia ZifyBool.
From AV Require Import Base.PyList Tok.Model Tok.Spec.
Import ListNotations. Open Scope Z_scope.

(* ------------------------------------------------------------------ *)
(** * The constructor *)

Definition valid_tuple (mn mx ms imin mode : Z) : Prop :=
  0 < mx /\ 0 < mn <= mx /\ ms < mx /\ imin < mx /\ (mode = 0 \/ mode = 2 \/ mode = 4 \/ mode = 6).

Theorem validate_accepts : forall mn mx ms imin ims mode, valid_tuple mn mx ms imin mode ->
  validate mn mx ms imin ims mode =
    Ok (mkConfig mn mx ms imin ims ((mode =? 2) || (mode =? 6)) ((mode =? 4) || (mode =? 6))).
Proof.
  intros mn mx ms imin ims mode (Hmx & Hmn & Hms & Him & Hmode).
  unfold validate.
  destruct (mx <=? 0) eqn:E1; [lia|].
  destruct ((mn <=? 0) || (mx <? mn)) eqn:E2; [lia|].
  destruct (mx <=? ms) eqn:E3; [lia|].
  destruct (mx <=? imin) eqn:E4; [lia|].
  destruct Hmode as [-> | [-> | [-> | ->]]]; reflexivity.
Qed.

Theorem validate_rejects : forall mn mx ms imin ims mode, ~ valid_tuple mn mx ms imin mode ->
  validate mn mx ms imin ims mode = Err ValueError.
Proof.
  intros mn mx ms imin ims mode H.
  unfold validate.
  destruct (mx <=? 0) eqn:E1; [reflexivity|].
  destruct ((mn <=? 0) || (mx <? mn)) eqn:E2; [reflexivity|].
  destruct (mx <=? ms) eqn:E3; [reflexivity|].
  destruct (mx <=? imin) eqn:E4; [reflexivity|].
  destruct (negb ((mode =? 0) || (mode =? 2) || (mode =? 4) || (mode =? 6))) eqn:E5;
    [reflexivity|].
  exfalso; apply H; unfold valid_tuple; lia.
Qed.

Theorem validate_accepted : forall mn mx ms imin ims mode c,
  validate mn mx ms imin ims mode = Ok c -> accepted c.
Proof.
  intros mn mx ms imin ims mode c.
  unfold validate.
  destruct (mx <=? 0) eqn:E1; [discriminate|].
  destruct ((mn <=? 0) || (mx <? mn)) eqn:E2; [discriminate|].
  destruct (mx <=? ms) eqn:E3; [discriminate|].
  destruct (mx <=? imin) eqn:E4; [discriminate|].
  destruct (negb ((mode =? 0) || (mode =? 2) || (mode =? 4) || (mode =? 6))) eqn:E5;
    [discriminate|].
  intros Heq; injection Heq as <-.
  unfold accepted; cbn [min_length max_length max_sil init_min]. lia.
Qed.

(** The two statements together: [validate] succeeds iff the tuple is valid. *)
Corollary validate_ok_iff : forall mn mx ms imin ims mode,
  (exists c, validate mn mx ms imin ims mode = Ok c) <-> valid_tuple mn mx ms imin mode.
Proof.
  intros mn mx ms imin ims mode; split.
  - intros [c Hc].
    assert (Hd : valid_tuple mn mx ms imin mode \/ ~ valid_tuple mn mx ms imin mode)
      by (unfold valid_tuple; lia).
    destruct Hd as [Hv | Hn]; [exact Hv|].
    rewrite (validate_rejects _ _ _ _ ims _ Hn) in Hc; discriminate.
  - intros Hv; eexists; apply validate_accepts; exact Hv.
Qed.

(* ------------------------------------------------------------------ *)
(** * A small fact on the slice used by drop_trailing_silence *)

Lemma zlen_py_slice_le {T} (l : list T) k :
  zlen (py_slice l (Some 0) (Some k)) <= zlen l.
Proof.
  unfold py_slice; cbv zeta.
  pose proof (zlen_nonneg l) as Hn.
  pose proof (norm_idx_range (zlen l) 0 Hn) as Ha.
  pose proof (norm_idx_range (zlen l) k Hn) as Hb.
  rewrite zlen_zslice by lia. lia.
Qed.

(* ------------------------------------------------------------------ *)
(** * The invariant *)

Section Lengths.
Context {A : Type}.
Notation st := (st A).
Notation token := (token A).
Variable c : config.
Hypothesis Hacc : accepted c.

(** What C02_min asks of a token, given the token delivered just before it. *)
Definition tok_ok (prev : option token) (t : token) : Prop :=
  min_length c <= tok_len t
  \/ (strict c = false /\ exists p, prev = Some p /\ continues c p t).

Fixpoint min_chain (prev : option token) (toks : list token) : Prop :=
  match toks with
  | [] => True
  | t :: r => tok_ok prev t /\ min_chain (Some t) r
  end.

(** [contig] remembers that the last delivered token was cut at max_length and
    that the buffer starts right after it. *)
Definition cont_inv (last : option token) (s : st) : Prop :=
  contig s = true ->
  exists p, last = Some p /\ tok_len p = max_length c /\ start s = tok_end p + 1.

(** State invariant between two turns of the loop; [last] is the last token
    delivered so far in this call. *)
Definition inv (last : option token) (s : st) : Prop :=
  match state s with
  | SILENCE => data s = [] /\ contig s = false
  | POSSIBLE_NOISE =>
      contig s = false /\ zlen (data s) < max_length c
      /\ start s + zlen (data s) = cur s + 1
  | NOISE | POSSIBLE_SILENCE =>
      zlen (data s) < max_length c
      /\ start s + zlen (data s) = cur s + 1
      /\ cont_inv last s
  end.

Definition out_ok (last : option token) (t : option token) : Prop :=
  match t with
  | None => True
  | Some tk => tok_ok last tk /\ tok_len tk <= max_length c
  end.

Definition new_last (last : option token) (t : option token) : option token :=
  match t with Some tk => Some tk | None => last end.

Definition step_post (last : option token) (r : st * option token) : Prop :=
  out_ok last (snd r) /\ inv (new_last last (snd r)) (fst r).

(* ---------------- eod ---------------- *)

Lemma eod_true_eq (s : st) : min_length c <= zlen (data s) ->
  eod c s true =
    (set_contig (set_start (set_data s []) (cur s + 1)) true,
     Some (data s, start s, start s + zlen (data s) - 1)).
Proof.
  intros H. unfold eod. cbn [negb andb].
  destruct (min_length c <=? zlen (data s)) eqn:E; [|lia].
  cbn [orb]. reflexivity.
Qed.

Lemma eod_true_post last (s : st) :
  (state s = NOISE \/ state s = POSSIBLE_SILENCE) ->
  zlen (data s) = max_length c ->
  start s + zlen (data s) = cur s + 1 ->
  step_post last (eod c s true).
Proof.
  intros Hst Hlen Hpos.
  pose proof Hacc as Ha; unfold accepted in Ha.
  rewrite eod_true_eq by lia.
  destruct s as [sta d cg ic sl stt cu].
  unfold step_post, out_ok, new_last, tok_ok, set_contig, set_start, set_data.
  cbn [fst snd state data contig init_count sil start cur] in *.
  split.
  - unfold tok_len, tok_data; cbn [fst snd]. split; [left|]; lia.
  - assert (Hgoal : zlen (@nil A) < max_length c
                    /\ cu + 1 + zlen (@nil A) = cu + 1
                    /\ cont_inv (Some (d, stt, stt + zlen d - 1))
                                (mkSt sta [] true ic sl (cu + 1) cu)).
    { rewrite zlen_nil. split; [lia|]. split; [lia|].
      intros _. eexists. split; [reflexivity|].
      unfold tok_len, tok_end, tok_data; cbn [fst snd start]. lia. }
    unfold inv; cbn [state data contig start cur].
    destruct Hst as [-> | ->]; exact Hgoal.
Qed.

(** The trailing-silence trim performed by a non-truncated [eod]. *)
Definition trim (s : st) : st :=
  if drop c && (0 <? sil s)
  then set_data s (py_slice (data s) (Some 0) (Some (- sil s)))
  else s.

Lemma eod_false_eq (s : st) :
  eod c s false =
    let s1 := trim s in
    if (min_length c <=? zlen (data s1))
       || ((0 <? zlen (data s1)) && negb (strict c) && contig s1)
    then (set_contig (set_data s1 []) false,
          Some (data s1, start s1, start s1 + zlen (data s1) - 1))
    else (set_data (set_contig s1 false) [], None).
Proof. reflexivity. Qed.

Lemma trim_spec (s : st) :
  state (trim s) = state s /\ contig (trim s) = contig s
  /\ start (trim s) = start s /\ zlen (data (trim s)) <= zlen (data s).
Proof.
  unfold trim. destruct (drop c && (0 <? sil s)).
  - unfold set_data; cbn [state data contig start].
    pose proof (zlen_py_slice_le (data s) (- sil s)). repeat split; lia.
  - repeat split; lia.
Qed.

Lemma eod_false_spec last (s : st) :
  zlen (data s) <= max_length c -> cont_inv last s ->
  out_ok last (snd (eod c s false))
  /\ state (fst (eod c s false)) = state s
  /\ data (fst (eod c s false)) = []
  /\ contig (fst (eod c s false)) = false.
Proof.
  intros Hlen Hc. rewrite eod_false_eq. cbv zeta.
  destruct (trim_spec s) as (Hst & Hcg & Hstart & Hle).
  set (s1 := trim s) in *. clearbody s1.
  destruct ((min_length c <=? zlen (data s1))
            || ((0 <? zlen (data s1)) && negb (strict c) && contig s1)) eqn:E.
  - unfold set_contig, set_data;
      cbn [fst snd state data contig init_count sil start cur].
    split; [|auto].
    unfold out_ok, tok_ok, tok_len, tok_data; cbn [fst snd].
    split; [|lia].
    destruct (min_length c <=? zlen (data s1)) eqn:E1; [left; lia|].
    right. cbn [orb] in E.
    assert (Hs : strict c = false) by (destruct (strict c); [lia | reflexivity]).
    assert (Hg : contig s = true) by (rewrite <- Hcg; destruct (contig s1); [reflexivity | lia]).
    split; [exact Hs|].
    destruct (Hc Hg) as (p & Hp & Hplen & Hpstart).
    exists p. split; [exact Hp|].
    unfold continues, tok_start; cbn [fst snd]. split; [exact Hplen | lia].
  - unfold set_contig, set_data;
      cbn [fst snd state data contig init_count sil start cur].
    unfold out_ok. auto.
Qed.

Lemma eod_false_post last (s : st) :
  state s = SILENCE ->
  zlen (data s) <= max_length c -> cont_inv last s ->
  step_post last (eod c s false).
Proof.
  intros Hst Hlen Hc.
  destruct (eod_false_spec last s Hlen Hc) as (Hout & Hst' & Hd & Hcg).
  unfold step_post. split; [exact Hout|].
  unfold inv. rewrite Hst', Hst. auto.
Qed.

(* ---------------- process ---------------- *)

Ltac expose :=
  unfold set_state, set_data, set_contig, set_init_count, set_sil, set_start, set_cur;
  cbn [state data contig init_count sil start cur].

Ltac zl := rewrite ?zlen_app, ?zlen_cons, ?zlen_nil in *.

(** Close a branch that ends in [eod _ _ true]. *)
Ltac by_cut :=
  apply eod_true_post; cbn [state data contig init_count sil start cur];
  zl; try lia; auto.

(** Close a branch that delivers nothing. *)
Ltac by_quiet :=
  unfold step_post, out_ok, new_last, inv, cont_inv;
  cbn [fst snd state data contig init_count sil start cur];
  zl; repeat split; try lia; try discriminate; auto.

Lemma process_step last (s : st) (f : A) (v : bool) :
  inv last s -> step_post last (process c (set_cur s (cur s + 1)) f v).
Proof.
  intros Hinv.
  pose proof Hacc as Ha; unfold accepted in Ha.
  destruct s as [sta d cg ic sl stt cu].
  pose proof (zlen_nonneg d) as Hd0.
  unfold inv in Hinv. unfold process.
  cbn [state data contig init_count sil start cur] in Hinv.
  unfold set_cur at 1; cbn [state data contig init_count sil start cur].
  destruct sta.
  - (* SILENCE *)
    destruct Hinv as [-> ->].
    destruct v; [|expose; by_quiet].
    expose.
    destruct (init_min c <=? 1) eqn:E1; [|by_quiet].
    destruct (max_length c <=? zlen ([] ++ [f])) eqn:E2; [by_cut | by_quiet].
  - (* POSSIBLE_SILENCE *)
    destruct Hinv as (Hlt & Hpos & Hc). unfold cont_inv in Hc; cbn [contig start] in Hc.
    destruct v.
    + expose.
      destruct (max_length c <=? zlen (d ++ [f])) eqn:E1; [by_cut | by_quiet].
    + expose.
      destruct (max_sil c <=? sl) eqn:E1.
      * destruct (sl <? zlen d) eqn:E2; [|by_quiet].
        apply eod_false_post; cbn [state data]; [reflexivity | lia |].
        unfold cont_inv; cbn [contig start]. exact Hc.
      * destruct (max_length c <=? zlen (d ++ [f])) eqn:E2; [by_cut | by_quiet].
  - (* POSSIBLE_NOISE *)
    destruct Hinv as (-> & Hlt & Hpos).
    destruct v.
    + expose.
      destruct (init_min c <=? ic + 1) eqn:E1.
      * destruct (max_length c <=? zlen (d ++ [f])) eqn:E2; [by_cut | by_quiet].
      * destruct (max_length c <=? zlen (d ++ [f])) eqn:E2; by_quiet.
    + expose.
      destruct ((init_max_sil c <? sl + 1) || (max_length c <=? zlen d + 1)) eqn:E1;
        by_quiet.
  - (* NOISE *)
    destruct Hinv as (Hlt & Hpos & Hc). unfold cont_inv in Hc; cbn [contig start] in Hc.
    destruct v.
    + expose.
      destruct (max_length c <=? zlen (d ++ [f])) eqn:E1; [by_cut | by_quiet].
    + destruct (max_sil c <=? 0) eqn:E1.
      * expose.
        apply eod_false_post; cbn [state data]; [reflexivity | lia |].
        unfold cont_inv; cbn [contig start]. exact Hc.
      * expose.
        destruct (zlen (d ++ [f]) =? max_length c) eqn:E2; [by_cut | by_quiet].
Qed.

(* ---------------- end of stream ---------------- *)

Lemma post_process_out last (s : st) :
  inv last s -> out_ok last (snd (post_process c (set_cur s (cur s + 1)))).
Proof.
  intros Hinv.
  destruct s as [sta d cg ic sl stt cu].
  unfold inv in Hinv. unfold post_process.
  cbn [state data contig init_count sil start cur] in Hinv.
  unfold set_cur; cbn [state data contig init_count sil start cur].
  destruct sta; try exact I.
  - destruct Hinv as (Hlt & Hpos & Hc).
    destruct ((0 <? zlen d) && (sl <? zlen d)); [|exact I].
    apply eod_false_spec; cbn [data]; [lia|].
    unfold cont_inv in *; cbn [contig start] in *. exact Hc.
  - destruct Hinv as (Hlt & Hpos & Hc).
    destruct ((0 <? zlen d) && (sl <? zlen d)); [|exact I].
    apply eod_false_spec; cbn [data]; [lia|].
    unfold cont_inv in *; cbn [contig start] in *. exact Hc.
Qed.

(* ---------------- the whole stream ---------------- *)

Lemma run_ok : forall (fs : list (A * bool)) last (s : st),
  inv last s ->
  min_chain last (snd (run c s fs))
  /\ Forall (fun t => tok_len t <= max_length c) (snd (run c s fs)).
Proof.
  induction fs as [|[f v] rest IH]; intros last s Hinv.
  - cbn [run iter_step].
    pose proof (post_process_out last s Hinv) as H.
    destruct (post_process c (set_cur s (cur s + 1))) as [s1 t].
    cbn [snd] in *.
    destruct t as [tk|]; cbn [opt_list min_chain].
    + destruct H as [Hok Hmax]. repeat split; auto.
    + split; [exact I | constructor].
  - cbn [run iter_step].
    pose proof (process_step last s f v Hinv) as H.
    destruct (process c (set_cur s (cur s + 1)) f v) as [s1 t].
    unfold step_post in H; cbn [fst snd] in H. destruct H as [Hout Hinv1].
    specialize (IH (new_last last t) s1 Hinv1).
    destruct (run c s1 rest) as [s2 outs]. cbn [snd] in *.
    destruct IH as [IHc IHm].
    destruct t as [tk|]; cbn [opt_list app new_last min_chain] in *.
    + destruct Hout as [Hok Hmax]. repeat split; auto.
    + split; assumption.
Qed.

Lemma inv_reinit (s_old : st) : inv None (reinit s_old).
Proof. unfold inv, reinit; cbn [state data contig]. auto. Qed.

(* ---------------- from the chain to the indexed statement ---------------- *)

Lemma min_chain_nth : forall toks prev, min_chain prev toks ->
  forall i t, nth_error toks i = Some t -> tok_len t < min_length c ->
  strict c = false
  /\ ((i = O /\ exists p, prev = Some p /\ continues c p t)
      \/ (exists j p, i = S j /\ nth_error toks j = Some p /\ continues c p t)).
Proof.
  induction toks as [|t0 r IH]; intros prev Hch i t Hn Hlt.
  - destruct i; cbn [nth_error] in Hn; discriminate.
  - destruct Hch as [Hok Hch]. destruct i as [|i]; cbn [nth_error] in Hn.
    + injection Hn as ->.
      destruct Hok as [Hge | [Hs Hp]]; [lia|]. split; auto.
    + destruct (IH _ Hch i t Hn Hlt)
        as [Hs [[-> (p & Hp & Hcont)] | (j & p & -> & Hj & Hcont)]].
      * injection Hp as <-. split; [exact Hs|]. right. exists O, t0. auto.
      * split; [exact Hs|]. right. exists (S j), p. auto.
Qed.

Lemma min_chain_strict : forall toks prev, strict c = true -> min_chain prev toks ->
  Forall (fun t => min_length c <= tok_len t) toks.
Proof.
  induction toks as [|t0 r IH]; intros prev Hs Hch; [constructor|].
  destruct Hch as [Hok Hch]. constructor; [|eapply IH; eauto].
  destruct Hok as [Hge | [Hf _]]; [exact Hge | congruence].
Qed.

Lemma C02_max_sec (s_old : st) fs : P_C02_max c (tokenize_from c s_old fs).
Proof.
  unfold P_C02_max, tokenize_from.
  exact (proj2 (run_ok fs None (reinit s_old) (inv_reinit s_old))).
Qed.

Lemma C02_chain_sec (s_old : st) fs : min_chain None (tokenize_from c s_old fs).
Proof.
  unfold tokenize_from.
  exact (proj1 (run_ok fs None (reinit s_old) (inv_reinit s_old))).
Qed.

Lemma C02_min_sec (s_old : st) fs : P_C02_min c (tokenize_from c s_old fs).
Proof.
  intros i t Hn Hlt.
  destruct (min_chain_nth _ _ (C02_chain_sec s_old fs) i t Hn Hlt)
    as [Hs [[_ (p & Hp & _)] | Hex]].
  - discriminate.
  - split; assumption.
Qed.

Lemma C02_strict_sec (s_old : st) fs : P_C02_strict c (tokenize_from c s_old fs).
Proof.
  intros Hs. eapply min_chain_strict; [exact Hs | apply C02_chain_sec].
Qed.

End Lengths.

(* ------------------------------------------------------------------ *)
(** * Main theorems *)

Theorem tokenize_from_C02_max : forall (A : Type) (c : config) (s_old : st A) (fs : list (A * bool)),
  accepted c -> P_C02_max c (tokenize_from c s_old fs).
Proof. intros A c s_old fs Hacc. apply C02_max_sec; exact Hacc. Qed.

Theorem tokenize_from_C02_min : forall (A : Type) (c : config) (s_old : st A) (fs : list (A * bool)),
  accepted c -> P_C02_min c (tokenize_from c s_old fs).
Proof. intros A c s_old fs Hacc. apply C02_min_sec; exact Hacc. Qed.

Theorem tokenize_from_C02_strict : forall (A : Type) (c : config) (s_old : st A) (fs : list (A * bool)),
  accepted c -> P_C02_strict c (tokenize_from c s_old fs).
Proof. intros A c s_old fs Hacc. apply C02_strict_sec; exact Hacc. Qed.

(* ------------------------------------------------------------------ *)
(** * Non-vacuity *)

(** "aaaAAAABBbbb": 12 frames, valid at positions 3..8; min 3, max 4. *)
Definition ex_c : config := mkConfig 3 4 0 0 0 false false.
Definition ex_c_strict : config := mkConfig 3 4 0 0 0 true false.
Definition ex_fs : list (Z * bool) :=
  [(0, false); (1, false); (2, false);
   (3, true); (4, true); (5, true); (6, true); (7, true); (8, true);
   (9, false); (10, false); (11, false)].

Example ex_accepted : accepted ex_c /\ accepted ex_c_strict.
Proof. unfold accepted; cbn [ex_c ex_c_strict min_length max_length max_sil init_min]; lia. Qed.

Example ex_validate :
  validate 3 4 0 0 0 0 = Ok ex_c /\ validate 3 4 0 0 0 2 = Ok ex_c_strict
  /\ valid_tuple 3 4 0 0 0 /\ valid_tuple 3 4 0 0 2
  /\ ~ valid_tuple 3 4 0 0 1 /\ validate 3 4 0 0 0 1 = Err ValueError
  /\ ~ valid_tuple 5 4 0 0 0 /\ validate 5 4 0 0 0 0 = Err ValueError.
Proof. unfold valid_tuple; repeat split; try reflexivity; lia. Qed.

(** The second token has 2 frames < min_length = 3: it is the continuation of
    the first one, which was cut at max_length = 4. *)
Example ex_short_continuation :
  tokenize ex_c ex_fs = [([3; 4; 5; 6], 3, 6); ([7; 8], 7, 8)].
Proof. vm_compute. reflexivity. Qed.

Example ex_short_is_continuation :
  exists p t, nth_error (tokenize ex_c ex_fs) 0 = Some p
           /\ nth_error (tokenize ex_c ex_fs) 1 = Some t
           /\ tok_len t < min_length ex_c /\ continues ex_c p t.
Proof.
  exists ([3; 4; 5; 6], 3, 6), ([7; 8], 7, 8).
  rewrite ex_short_continuation. unfold continues. vm_compute.
  repeat split; reflexivity.
Qed.

(** In strict mode the short continuation is not delivered. *)
Example ex_strict_no_short :
  tokenize ex_c_strict ex_fs = [([3; 4; 5; 6], 3, 6)]
  /\ Forall (fun t => min_length ex_c_strict <= tok_len t) (tokenize ex_c_strict ex_fs).
Proof.
  split; [vm_compute; reflexivity|].
  apply (tokenize_from_C02_strict Z ex_c_strict init_st ex_fs (proj2 ex_accepted)).
  reflexivity.
Qed.

Print Assumptions tokenize_from_C02_max.
Print Assumptions tokenize_from_C02_min.
Print Assumptions tokenize_from_C02_strict.
Print Assumptions validate_accepts.
Print Assumptions validate_rejects.
Print Assumptions validate_accepted.
