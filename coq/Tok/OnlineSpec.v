(** Vocabulary for C08 (online detection): every yielded token is paired with
    the number of source reads performed when it is handed to the consumer. *)
From Coq Require Import ZArith List Bool.
From AV Require Import Base.PyList Tok.Model.
Import ListNotations.
Open Scope Z_scope.

Section Online.
Context {A : Type}.
Notation token := (token A).

(** [k] = number of reads already performed before this call. Reading frame
    number k (0-based) is read k+1; tokens yielded while processing it are
    handed over before any further read. *)
Fixpoint feed_idx (c : config) (s : st A) (k : Z) (fs : list (A * bool))
  : st A * list (token * Z) :=
  match fs with
  | [] => (s, [])
  | fv :: rest =>
      let '(s1, out, _) := iter_step c s (Some fv) in
      let '(s2, outs) := feed_idx c s1 (k + 1) rest in
      (s2, map (fun t => (t, k + 1)) out ++ outs)
  end.

(** Whole run: the frames, then the read that returns None (read number
    len fs + 1) and the flush. *)
Definition run_idx (c : config) (s : st A) (fs : list (A * bool)) : list (token * Z) :=
  let '(s1, outs) := feed_idx c s 0 fs in
  let '(_, fl, _) := iter_step c s1 None in
  outs ++ map (fun t => (t, zlen fs + 1)) fl.

(** Latency clause of C08 for one hand-over [(t, r)] on a stream of [n] frames:
    handed over on the read of the frame completing max_length (its own last
    frame), or on the first frame of excess silence, which comes at most
    max_continuous_silence + 1 frames after the token's last frame, or at the
    end-of-stream read. *)
Definition latency_ok (c : config) (n : Z) (tr : token * Z) : Prop :=
  let '(t, r) := tr in
  (tok_len t = max_length c /\ r = tok_end t + 1)
  \/ (tok_end t + 2 <= r <= tok_end t + Z.max 0 (max_sil c) + 2 /\ r <= n)
  \/ r = n + 1.

(** [t'] is a shorter-or-equal version of [t] with the same start. *)
Definition shorter_version (t' t : token) : Prop :=
  tok_start t' = tok_start t /\ exists suffix, tok_data t = tok_data t' ++ suffix.

End Online.
