(** Declarative statements of the tokenizer properties C01-C04 (and the
    position/verdict vocabulary they use). No proofs here. *)
From Coq Require Import ZArith List Bool Sorted.
From AV Require Import Base.PyList Tok.Model.
Import ListNotations.
Open Scope Z_scope.

Section Spec.
Context {A : Type}.
Notation token := (token A).

(** Verdict of the frame at stream position [i] ([false] outside the stream;
    every use below is guarded by a position known to be inside a token). *)
Definition verdict (fs : list (A * bool)) (i : Z) : bool :=
  match znth_opt fs i with Some (_, v) => v | None => false end.

Definition covered (toks : list token) (i : Z) : Prop :=
  exists t, In t toks /\ tok_start t <= i <= tok_end t.

(* ---------------- C01 ---------------- *)

(** Token [t] is exactly the frames at stream positions start..end. *)
Definition exact_slice (fs : list (A * bool)) (t : token) : Prop :=
  0 <= tok_start t <= tok_end t /\ tok_end t < zlen fs
  /\ tok_data t = map fst (zslice fs (tok_start t) (tok_end t + 1)).

Definition P_C01 (fs : list (A * bool)) (toks : list token) : Prop :=
  Forall (exact_slice fs) toks
  /\ StronglySorted (fun t u => tok_end t < tok_start u) toks.

(* ---------------- C02 ---------------- *)

Definition P_C02_max (c : config) (toks : list token) : Prop :=
  Forall (fun t => tok_len t <= max_length c) toks.

(** [t] is the immediate continuation of [p], a token cut at max_length. *)
Definition continues (c : config) (p t : token) : Prop :=
  tok_len p = max_length c /\ tok_start t = tok_end p + 1.

Definition P_C02_min (c : config) (toks : list token) : Prop :=
  forall i t, nth_error toks i = Some t -> tok_len t < min_length c ->
    strict c = false
    /\ exists j p, i = S j /\ nth_error toks j = Some p /\ continues c p t.

Definition P_C02_strict (c : config) (toks : list token) : Prop :=
  strict c = true -> Forall (fun t => min_length c <= tok_len t) toks.

(* ---------------- C03 ---------------- *)

Definition sil_bound (c : config) : Z :=
  Z.max 0 (if 1 <? init_min c then Z.max (max_sil c) (init_max_sil c) else max_sil c).

(** Every run of consecutive invalid frames all of which lie inside delivered
    tokens is at most the bound.  Consecutive covered positions belong to the
    same token or to a cut token and its immediate continuation (tokens never
    overlap, C01), so this is exactly "a run that continues across the cut
    counts as one run". *)
Definition P_C03_runs (c : config) (fs : list (A * bool)) (toks : list token) : Prop :=
  forall a b, a <= b ->
    (forall i, a <= i <= b -> covered toks i /\ verdict fs i = false) ->
    b - a + 1 <= sil_bound c.

Definition P_C03_has_valid (fs : list (A * bool)) (toks : list token) : Prop :=
  Forall (fun t => exists i, tok_start t <= i <= tok_end t /\ verdict fs i = true) toks.

(** A token begins with a valid frame unless a token ends just before it
    (which only happens after a cut at max_length, see C02/continues). *)
Definition P_C03_first (fs : list (A * bool)) (toks : list token) : Prop :=
  Forall (fun t => verdict fs (tok_start t) = true
                   \/ exists p, In p toks /\ tok_start t = tok_end p + 1) toks.

Definition P_C03_last (c : config) (fs : list (A * bool)) (toks : list token) : Prop :=
  drop c = true ->
  Forall (fun t => tok_len t < max_length c -> verdict fs (tok_end t) = true) toks.

(* ---------------- C04 ---------------- *)

(** [n] consecutive pieces of [m] frames starting at position [p]. *)
Fixpoint full_pieces (p m : Z) (n : nat) : list (Z * Z) :=
  match n with
  | O => []
  | S k => (p, p + m - 1) :: full_pieces (p + m) m k
  end.

(** The pieces of one extended stretch: first valid frame at [p], [E] frames in
    all, the last [T] of them invalid (tolerated trailing silence). *)
Definition pieces (c : config) (p E T : Z) : list (Z * Z) :=
  let m := max_length c in
  let k := E / m in
  let r := E mod m in
  full_pieces p m (Z.to_nat k) ++
  (if (r =? 0) || (r <=? T) then []          (* nothing, or only silence, left *)
   else
     let r' := if drop c then r - T else r in
     if (min_length c <=? r') || ((0 <? r') && negb (strict c) && (1 <=? k))
     then [(p + k * m, p + k * m + r' - 1)]
     else []).

(** Single pass measuring stretches; all cutting is left to [pieces]. *)
Fixpoint seg_scan (c : config) (pos : Z) (acc : option (Z * Z * Z)) (v : list bool)
  : list (Z * Z) :=
  match v with
  | [] => match acc with Some (p, E, T) => pieces c p E T | None => [] end
  | true :: rest =>
      match acc with
      | None => seg_scan c (pos + 1) (Some (pos, 1, 0)) rest
      | Some (p, E, _) => seg_scan c (pos + 1) (Some (p, E + 1, 0)) rest
      end
  | false :: rest =>
      match acc with
      | None => seg_scan c (pos + 1) None rest
      | Some (p, E, T) =>
          if Z.max 0 (max_sil c) <=? T
          then pieces c p E T ++ seg_scan c (pos + 1) None rest
          else seg_scan c (pos + 1) (Some (p, E + 1, T + 1)) rest
      end
  end.

Definition segment (c : config) (v : list bool) : list (Z * Z) :=
  seg_scan c 0 None v.

Definition bounds (t : token) : Z * Z := (tok_start t, tok_end t).

Definition P_C04 (c : config) (fs : list (A * bool)) (toks : list token) : Prop :=
  map bounds toks = segment c (map snd fs).

End Spec.
