(** C01: the tokens delivered by the stream tokenizer are exact, ordered,
    non-overlapping slices of the input stream.

    Proof: an invariant over the frames consumed so far.  [l] is the list of
    frames already read (verdicts projected away) and [le] the end position of
    the last delivered token (-1 before the first one).  In state SILENCE the
    buffer is empty; in the three other states the buffer [data s] is exactly
    the suffix of [l] that begins at position [start s], and [le < start s]. *)
From Coq Require Import ZArith List Bool Lia ZifyBool Sorted.
From AV Require Import Base.PyList Tok.Model Tok.Spec.
Import ListNotations.
Open Scope Z_scope.

Section Inv.
Context {A : Type}.
Notation st := (st A).
Notation token := (token A).

Ltac unf :=
  unfold set_state, set_data, set_contig, set_init_count, set_sil, set_start, set_cur in *;
  cbn [state data contig init_count sil start cur] in *.

(* ------------------------------------------------------------------ *)
(** * List helpers *)

(** Whatever the upper bound, [d[0:k]] is a prefix of [d] (this covers every
    value of the silence counter, negative or larger than the buffer). *)
Lemma py_slice_0_prefix (d : list A) (k : Z) :
  exists n, py_slice d (Some 0) (Some k) = firstn n d.
Proof.
  unfold py_slice, zslice.
  assert (H0 : norm_idx (zlen d) 0 = 0).
  { unfold norm_idx. pose proof (zlen_nonneg d).
    replace (0 <? 0) with false by reflexivity. lia. }
  rewrite H0. exists (Z.to_nat (norm_idx (zlen d) k - 0)). reflexivity.
Qed.

Lemma zslice_map {B C} (g : B -> C) (l : list B) a b :
  zslice (map g l) a b = map g (zslice l a b).
Proof. unfold zslice. rewrite skipn_map, firstn_map. reflexivity. Qed.

(* ------------------------------------------------------------------ *)
(** * Tokens as segments of a list *)

(** [t] is a non-empty segment of [l] located at its own start position and
    its end position is consistent with its length. *)
Definition tok_at (l : list A) (t : token) : Prop :=
  exists l1 l3, l = l1 ++ tok_data t ++ l3
    /\ zlen l1 = tok_start t
    /\ tok_end t = tok_start t + zlen (tok_data t) - 1
    /\ 0 < zlen (tok_data t).

Lemma tok_at_app l r t : tok_at l t -> tok_at (l ++ r) t.
Proof.
  intros (l1 & l3 & E & H1 & H2 & H3). exists l1, (l3 ++ r).
  rewrite E, <- !app_assoc. auto.
Qed.

Lemma tok_at_bounds l t : tok_at l t -> 0 <= tok_start t <= tok_end t /\ tok_end t < zlen l.
Proof.
  intros (l1 & l3 & E & H1 & H2 & H3).
  pose proof (zlen_nonneg l1). pose proof (zlen_nonneg l3).
  rewrite E, !zlen_app. lia.
Qed.

Lemma tok_at_exact (fs : list (A * bool)) t :
  tok_at (map fst fs) t -> exact_slice fs t.
Proof.
  intros Ht. pose proof (tok_at_bounds _ _ Ht) as Hb. rewrite zlen_map in Hb.
  destruct Ht as (l1 & l3 & E & H1 & H2 & H3). unfold exact_slice.
  repeat split; try lia.
  rewrite <- zslice_map, E.
  replace (tok_end t + 1) with (zlen l1 + zlen (tok_data t)) by lia.
  replace (tok_start t) with (zlen l1) by lia.
  symmetry. apply zslice_app_exact.
Qed.

(* ------------------------------------------------------------------ *)
(** * The invariant *)

(** The open buffer is the suffix of [l] starting at [start s], strictly after
    the last delivered token. *)
Definition OpenBuf (l : list A) (le : Z) (s : st) : Prop :=
  exists before, l = before ++ data s /\ zlen before = start s /\ le < start s.

Definition Buf (l : list A) (le : Z) (s : st) : Prop :=
  le < zlen l /\
  match state s with
  | SILENCE => data s = []
  | _ => OpenBuf l le s
  end.

Definition Inv (l : list A) (le : Z) (s : st) : Prop :=
  cur s = zlen l - 1 /\ Buf l le s.

(** What one step may deliver: nothing (and [le] is unchanged) or one token
    lying in [l], strictly after [le], and ending at the new [le']. *)
Definition out_ok (l : list A) (le le' : Z) (ot : option token) : Prop :=
  match ot with
  | None => le' = le
  | Some t => tok_at l t /\ le < tok_start t /\ tok_end t = le'
  end.

Definition StepOK (l : list A) (le : Z) (s' : st) (ot : option token) : Prop :=
  exists le', le <= le' /\ Buf l le' s' /\ out_ok l le le' ot.

Lemma OpenBuf_lt l le s : OpenBuf l le s -> le < zlen l.
Proof.
  intros (before & E & Hb & Hle). rewrite E, zlen_app.
  pose proof (zlen_nonneg (data s)). lia.
Qed.

(* ------------------------------------------------------------------ *)
(** * End of detection *)

Lemma eod_true c (s : st) :
  min_length c <= zlen (data s) ->
  eod c s true =
  (set_contig (set_start (set_data s []) (cur s + 1)) true,
   Some (data s, start s, start s + zlen (data s) - 1)).
Proof.
  intros H. unfold eod. cbn [negb andb].
  destruct (min_length c <=? zlen (data s)) eqn:E; [|lia].
  cbn [orb]. destruct s; reflexivity.
Qed.

Lemma eod_false c (s s' : st) ot :
  0 < min_length c ->
  eod c s false = (s', ot) ->
  data s' = [] /\ state s' = state s /\ cur s' = cur s /\
  (ot = None \/
   exists n, ot = Some (firstn n (data s), start s,
                        start s + zlen (firstn n (data s)) - 1)
             /\ 0 < zlen (firstn n (data s))).
Proof.
  intros Hmin. unfold eod.
  set (s1 := if negb false && drop c && (0 <? sil s) then _ else s).
  assert (H1 : exists n, data s1 = firstn n (data s)
                         /\ start s1 = start s /\ state s1 = state s /\ cur s1 = cur s).
  { subst s1. destruct (negb false && drop c && (0 <? sil s)).
    - destruct (py_slice_0_prefix (data s) (- sil s)) as [n Hn].
      exists n. destruct s; unf. auto.
    - exists (length (data s)). rewrite firstn_all. auto. }
  destruct H1 as (n & Hd & Hs & Hst & Hc). clearbody s1.
  destruct ((min_length c <=? zlen (data s1))
            || (0 <? zlen (data s1)) && negb (strict c) && contig s1) eqn:E;
    intros Heq; inversion Heq; subst s' ot; clear Heq.
  - destruct s1; unf. subst. repeat split; auto.
    right. exists n. split; [reflexivity|].
    destruct (min_length c <=? zlen (firstn n (data s))) eqn:E1; [lia|].
    cbn [orb] in E. destruct (0 <? zlen (firstn n (data s))) eqn:E2; [lia|].
    discriminate E.
  - destruct s1; unf. subst. repeat split; auto.
Qed.

Lemma eod_false_ok c l le (s s' : st) ot :
  accepted c -> OpenBuf l le s ->
  eod c s false = (s', ot) ->
  data s' = [] /\ state s' = state s /\ cur s' = cur s /\
  exists le', le <= le' /\ le' < zlen l /\ out_ok l le le' ot.
Proof.
  intros (_ & Hmin & _) (before & El & Hb & Hle) Heq.
  apply eod_false in Heq; [|lia].
  destruct Heq as (Hd & Hst & Hc & Hot). repeat split; auto.
  destruct Hot as [-> | (n & -> & Hn)].
  - exists le. split; [lia|]. split; [|reflexivity].
    rewrite El, zlen_app. pose proof (zlen_nonneg (data s)). lia.
  - set (d := firstn n (data s)) in *.
    exists (start s + zlen d - 1). split; [lia|].
    assert (Hl : l = before ++ d ++ skipn n (data s)).
    { subst d. rewrite firstn_skipn. exact El. }
    split.
    + rewrite Hl, !zlen_app. pose proof (zlen_nonneg (skipn n (data s))). lia.
    + cbn [out_ok]. unfold tok_start, tok_end; cbn [fst snd].
      split; [|lia].
      exists before, (skipn n (data s)). unfold tok_data, tok_start, tok_end; cbn [fst snd].
      auto.
Qed.

(* ------------------------------------------------------------------ *)
(** * Appending a frame, then possibly cutting at max_length *)

Lemma maybe_cut c l le (s1 : st) (b : bool) s' ot :
  accepted c ->
  (state s1 = NOISE \/ state s1 = POSSIBLE_SILENCE) ->
  OpenBuf l le s1 ->
  cur s1 = zlen l - 1 ->
  (b = true -> max_length c <= zlen (data s1)) ->
  (if b then eod c s1 true else (s1, None)) = (s', ot) ->
  cur s' = cur s1 /\ StepOK l le s' ot.
Proof.
  intros Hacc Hst Hopen Hcur Hb Heq.
  pose proof (OpenBuf_lt _ _ _ Hopen) as Hlt.
  destruct b.
  - rewrite eod_true in Heq
      by (destruct Hacc as (_ & Hmin & _); specialize (Hb eq_refl); lia).
    inversion Heq; subst s' ot; clear Heq.
    destruct Hopen as (before & El & Hbef & Hle).
    destruct s1 as [sta d cg ic sl sf cu]; unf. subst cu.
    split; [reflexivity|].
    assert (Hd : 0 < zlen d).
    { destruct Hacc as (Hmax & _). specialize (Hb eq_refl). lia. }
    assert (Hz : zlen l = sf + zlen d) by (rewrite El, zlen_app; lia).
    exists (zlen l - 1). split; [lia|]. split; [split; [lia|]|].
    + assert (Ho : OpenBuf l (zlen l - 1)
                     (mkSt sta [] true ic sl (zlen l - 1 + 1) (zlen l - 1))).
      { exists l. unf. rewrite app_nil_r. repeat split; lia. }
      unf. destruct Hst as [-> | ->]; exact Ho.
    + cbn [out_ok]. unfold tok_start, tok_end; cbn [fst snd].
      split; [|lia].
      exists before, []. unfold tok_data, tok_start, tok_end; cbn [fst snd].
      rewrite app_nil_r. auto.
  - inversion Heq; subst s' ot; clear Heq. split; [reflexivity|].
    exists le. split; [lia|]. split; [|reflexivity]. split; [exact Hlt|].
    destruct Hst as [-> | ->]; exact Hopen.
Qed.

(* ------------------------------------------------------------------ *)
(** * One frame *)

Lemma process_ok c l le (s : st) f v s' ot :
  accepted c -> Buf l le s -> cur s = zlen l ->
  process c s f v = (s', ot) ->
  cur s' = cur s /\ StepOK (l ++ [f]) le s' ot.
Proof.
  intros Hacc [Hlt Hm] Hcur Heq.
  assert (Hz : zlen (l ++ [f]) = zlen l + 1) by (rewrite zlen_app, zlen_cons, zlen_nil; lia).
  (* the three "nothing delivered" shapes *)
  assert (Hsil : forall cg ic sl sf cu,
             StepOK (l ++ [f]) le (mkSt SILENCE [] cg ic sl sf cu) None).
  { intros. exists le. split; [lia|]. split; [|reflexivity]. split; [lia|reflexivity]. }
  unfold process in Heq.
  destruct s as [sta d cg ic sl sf cu]; unf. subst cu.
  destruct sta.
  - (* SILENCE *)
    subst d. destruct v.
    + destruct (init_min c <=? 1).
      * eapply maybe_cut in Heq; unf; eauto.
        -- exists l. unf. repeat split; lia.
        -- lia.
        -- intros; lia.
      * inversion Heq; subst s' ot; clear Heq. split; [reflexivity|].
        exists le. split; [lia|]. split; [|reflexivity]. split; [lia|].
        exists l. unf. repeat split; lia.
    + inversion Heq; subst s' ot; clear Heq. split; [reflexivity|]. apply Hsil.
  - (* POSSIBLE_SILENCE *)
    destruct Hm as (before & El & Hbef & Hle); unf.
    assert (Happ : forall st' cg' ic' sl',
               OpenBuf (l ++ [f]) le (mkSt st' (d ++ [f]) cg' ic' sl' sf (zlen l))).
    { intros. exists before. unf. rewrite El, app_assoc. repeat split; lia. }
    destruct v.
    + eapply maybe_cut in Heq; unf; eauto. lia. intros; lia.
    + destruct (max_sil c <=? sl).
      * destruct (sl <? zlen d).
        -- eapply eod_false_ok with (l := l) (le := le) in Heq; auto.
           2:{ exists before. unf. repeat split; auto. }
           unf. destruct Heq as (Hd' & Hst' & Hc' & le' & H1 & H2 & H3).
           split; [exact Hc'|]. exists le'. split; [lia|]. split.
           ++ split; [lia|]. rewrite Hst'. exact Hd'.
           ++ destruct ot as [t|]; cbn [out_ok] in *; [|exact H3].
              destruct H3 as (Ht & ? & ?). repeat split; auto. apply tok_at_app, Ht.
        -- inversion Heq; subst s' ot; clear Heq. split; [reflexivity|]. apply Hsil.
      * eapply maybe_cut in Heq; unf; eauto. lia. intros; lia.
  - (* POSSIBLE_NOISE *)
    destruct Hm as (before & El & Hbef & Hle); unf.
    assert (Happ : forall st' cg' ic' sl',
               OpenBuf (l ++ [f]) le (mkSt st' (d ++ [f]) cg' ic' sl' sf (zlen l))).
    { intros. exists before. unf. rewrite El, app_assoc. repeat split; lia. }
    destruct v.
    + destruct (init_min c <=? ic + 1).
      * eapply maybe_cut in Heq; unf; eauto. lia. intros; lia.
      * destruct (max_length c <=? zlen (d ++ [f]));
          inversion Heq; subst s' ot; clear Heq; (split; [reflexivity|]).
        -- apply Hsil.
        -- exists le. split; [lia|]. split; [|reflexivity]. split; [lia|]. apply Happ.
    + destruct ((init_max_sil c <? sl + 1) || (max_length c <=? zlen d + 1));
        inversion Heq; subst s' ot; clear Heq; (split; [reflexivity|]).
      * apply Hsil.
      * exists le. split; [lia|]. split; [|reflexivity]. split; [lia|]. apply Happ.
  - (* NOISE *)
    destruct Hm as (before & El & Hbef & Hle); unf.
    assert (Happ : forall st' cg' ic' sl',
               OpenBuf (l ++ [f]) le (mkSt st' (d ++ [f]) cg' ic' sl' sf (zlen l))).
    { intros. exists before. unf. rewrite El, app_assoc. repeat split; lia. }
    destruct v.
    + eapply maybe_cut in Heq; unf; eauto. lia. intros; lia.
    + destruct (max_sil c <=? 0).
      * eapply eod_false_ok with (l := l) (le := le) in Heq; auto.
        2:{ exists before. unf. repeat split; auto. }
        unf. destruct Heq as (Hd' & Hst' & Hc' & le' & H1 & H2 & H3).
        split; [exact Hc'|]. exists le'. split; [lia|]. split.
        -- split; [lia|]. rewrite Hst'. exact Hd'.
        -- destruct ot as [t|]; cbn [out_ok] in *; [|exact H3].
           destruct H3 as (Ht & ? & ?). repeat split; auto. apply tok_at_app, Ht.
      * eapply maybe_cut in Heq; unf; eauto. lia. intros; lia.
Qed.

(** End of stream: the flush delivers at most one token, inside [l]. *)
Lemma post_process_ok c l le (s s' : st) ot :
  accepted c -> Buf l le s ->
  post_process c s = (s', ot) ->
  exists le', out_ok l le le' ot.
Proof.
  intros Hacc [Hlt Hm] Heq. unfold post_process in Heq.
  assert (Hnone : (s, @None token) = (s', ot) -> exists le', out_ok l le le' ot).
  { intros H; inversion H; subst. exists le. reflexivity. }
  destruct (state s); auto.
  - destruct ((0 <? zlen (data s)) && (sil s <? zlen (data s))); auto.
    eapply eod_false_ok in Heq; eauto.
    destruct Heq as (_ & _ & _ & le' & _ & _ & H). eauto.
  - destruct ((0 <? zlen (data s)) && (sil s <? zlen (data s))); auto.
    eapply eod_false_ok in Heq; eauto.
    destruct Heq as (_ & _ & _ & le' & _ & _ & H). eauto.
Qed.

Lemma Buf_set_cur l le (s : st) k : Buf l le s -> Buf l le (set_cur s k).
Proof. destruct s; exact (fun H => H). Qed.

(* ------------------------------------------------------------------ *)
(** * The whole stream *)

Definition before_tok (t u : token) : Prop := tok_end t < tok_start u.

Lemma run_ok c : accepted c ->
  forall rest l le (s s' : st) outs,
    Inv l le s ->
    run c s rest = (s', outs) ->
    Forall (tok_at (l ++ map fst rest)) outs
    /\ StronglySorted before_tok outs
    /\ Forall (fun t => le < tok_start t) outs.
Proof.
  intros Hacc. induction rest as [|[f v] rest IH]; intros l le s s' outs [Hcur Hbuf] Heq.
  - cbn [run iter_step] in Heq.
    destruct (post_process c (set_cur s (cur s + 1))) as [s1 ot] eqn:Ep.
    inversion Heq; subst s' outs; clear Heq.
    eapply post_process_ok in Ep; eauto using Buf_set_cur.
    destruct Ep as [le' Hout]. cbn [map]. rewrite app_nil_r.
    destruct ot as [t|]; cbn [opt_list out_ok] in *.
    + destruct Hout as (Ht & Hlt & _).
      repeat split; repeat constructor; auto.
    + repeat split; constructor.
  - cbn [run iter_step] in Heq.
    destruct (process c (set_cur s (cur s + 1)) f v) as [s1 ot] eqn:Ep.
    destruct (run c s1 rest) as [s2 outs'] eqn:Er.
    inversion Heq; subst s' outs; clear Heq.
    eapply process_ok with (l := l) (le := le) in Ep; eauto using Buf_set_cur.
    2:{ destruct s; unf. lia. }
    destruct Ep as [Hc (le' & Hle' & Hbuf' & Hout)].
    assert (Hinv : Inv (l ++ [f]) le' s1).
    { split; [|exact Hbuf']. rewrite Hc, zlen_app, zlen_cons, zlen_nil.
      destruct s; unf. lia. }
    specialize (IH _ _ _ _ _ Hinv Er). destruct IH as (IH1 & IH2 & IH3).
    cbn [map fst]. rewrite <- app_assoc in IH1. cbn [app] in IH1.
    assert (IH3' : Forall (fun t => le < tok_start t) outs').
    { eapply Forall_impl; [|exact IH3]. cbn beta. intros; lia. }
    destruct ot as [t|]; cbn [opt_list out_ok app] in *.
    + destruct Hout as (Ht & Hlt & Hend).
      repeat split.
      * constructor; [|exact IH1].
        apply tok_at_app with (r := map fst rest) in Ht.
        rewrite <- app_assoc in Ht. exact Ht.
      * constructor; [exact IH2|].
        eapply Forall_impl; [|exact IH3]. unfold before_tok. cbn beta. intros; lia.
      * constructor; auto.
    + auto.
Qed.

End Inv.

(* ------------------------------------------------------------------ *)
(** * C01 *)

Theorem tokenize_from_C01 : forall (A : Type) (c : config) (s_old : st A) (fs : list (A * bool)),
  accepted c -> P_C01 fs (tokenize_from c s_old fs).
Proof.
  intros A c s_old fs Hacc. unfold tokenize_from.
  destruct (run c (reinit s_old) fs) as [s' outs] eqn:Er. cbn [snd].
  assert (Hinv : Inv (@nil A) (-1) (reinit s_old)).
  { unfold Inv, Buf, reinit. cbn [state data cur]. rewrite zlen_nil.
    repeat split; lia. }
  destruct (run_ok c Hacc fs [] (-1) _ _ _ Hinv Er) as (H1 & H2 & _).
  cbn [app] in H1. split.
  - eapply Forall_impl; [|exact H1]. intros t. apply tok_at_exact.
  - exact H2.
Qed.

Corollary tokenize_C01 : forall (A : Type) (c : config) (fs : list (A * bool)),
  accepted c -> P_C01 fs (tokenize c fs).
Proof. intros A c fs Hacc. unfold tokenize. apply tokenize_from_C01, Hacc. Qed.

Lemma exact_slice_length {A : Type} (fs : list (A * bool)) (t : token A) :
  exact_slice fs t -> tok_len t = tok_end t - tok_start t + 1.
Proof.
  intros (H1 & H2 & H3). unfold tok_len. rewrite H3, zlen_map, zlen_zslice by lia. lia.
Qed.

Corollary C01_length : forall (A : Type) (c : config) (fs : list (A * bool)) t,
  accepted c -> In t (tokenize c fs) -> tok_len t = tok_end t - tok_start t + 1.
Proof.
  intros A c fs t Hacc Hin.
  destruct (tokenize_C01 A c fs Hacc) as [HF _].
  rewrite Forall_forall in HF. eapply exact_slice_length, HF, Hin.
Qed.

(** The same for a tokenizer that has been used before. *)
Corollary C01_length_from : forall (A : Type) (c : config) (s_old : st A) (fs : list (A * bool)) t,
  accepted c -> In t (tokenize_from c s_old fs) -> tok_len t = tok_end t - tok_start t + 1.
Proof.
  intros A c s_old fs t Hacc Hin.
  destruct (tokenize_from_C01 A c s_old fs Hacc) as [HF _].
  rewrite Forall_forall in HF. eapply exact_slice_length, HF, Hin.
Qed.

(* ------------------------------------------------------------------ *)
(** * Non-vacuity *)

Definition ex_c : config := mkConfig 2 3 1 0 0 false true.

(** Ten frames (payload = position): the third frame is a tolerated silence
    on which the token is cut at max_length = 3. *)
Definition ex_fs : list (nat * bool) :=
  [(0%nat, true); (1%nat, true); (2%nat, false); (3%nat, true); (4%nat, true);
   (5%nat, false); (6%nat, false); (7%nat, true); (8%nat, true); (9%nat, true)].

Example ex_accepted : accepted ex_c.
Proof. unfold accepted, ex_c; cbn [max_length min_length max_sil init_min]. lia. Qed.

Example ex_tokens :
  tokenize ex_c ex_fs =
  [([0%nat; 1%nat; 2%nat], 0, 2); ([3%nat; 4%nat; 5%nat], 3, 5);
   ([7%nat; 8%nat; 9%nat], 7, 9)].
Proof. vm_compute. reflexivity. Qed.

Example ex_nonvacuous :
  accepted ex_c /\ (2 <= length (tokenize ex_c ex_fs))%nat
  /\ P_C01 ex_fs (tokenize ex_c ex_fs).
Proof.
  split; [exact ex_accepted|]. split.
  - rewrite ex_tokens. cbn [length]. lia.
  - apply tokenize_C01, ex_accepted.
Qed.

(** A tokenizer left in an arbitrary (here: mid-token, garbage counters) state
    by an earlier use still yields the same tokens: [reinit] is enough. *)
Example ex_dirty_state :
  tokenize_from ex_c (mkSt NOISE [41%nat; 42%nat] true 7 (-3) 99 55) ex_fs
  = tokenize ex_c ex_fs.
Proof. vm_compute. reflexivity. Qed.

(** [accepted] cannot be dropped: with min_length = 0 (rejected by the
    constructor) an empty token with end = start - 1 is delivered. *)
Example ex_accepted_needed :
  tokenize (mkConfig 0 1 0 0 0 false true) [(0%nat, true); (1%nat, false)]
  = [([0%nat], 0, 0); ([], 1, 0)].
Proof. vm_compute. reflexivity. Qed.

Print Assumptions tokenize_from_C01.
Print Assumptions tokenize_C01.
Print Assumptions C01_length.
Print Assumptions C01_length_from.
Print Assumptions ex_nonvacuous.
