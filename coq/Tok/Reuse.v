(** C20: a tokenizer reused for another stream (after a complete run, a
    partially consumed generator or an abandoned one) delivers the same tokens
    as a fresh tokenizer.

    [reinit] resets state/data/contig/cur but NOT init_count/sil/start.  These
    three fields are dead in state SILENCE: the SILENCE branch of [process]
    overwrites all three before any read (and does nothing on an invalid frame),
    [post_process] ignores them in SILENCE.  The relation [sim] below ("equal
    except for the three fields while in SILENCE") is a simulation for
    [iter_step] with equal outputs.  No hypothesis on the configuration is
    needed (in particular not [accepted]). *)
From Coq Require Import ZArith List Bool Lia ZifyBool.
From AV Require Import Base.PyList Tok.Model.
Import ListNotations.
Open Scope Z_scope.

Section Sim.
Context {A : Type}.
Implicit Types (s : st A) (c : config).

(** Equal on what [reinit] resets; equal on the rest as soon as the rest is live. *)
Definition sim s1 s2 : Prop :=
  state s1 = state s2 /\ data s1 = data s2 /\ contig s1 = contig s2 /\ cur s1 = cur s2
  /\ (state s1 <> SILENCE ->
      init_count s1 = init_count s2 /\ sil s1 = sil s2 /\ start s1 = start s2).

Lemma sim_refl s : sim s s.
Proof. unfold sim; repeat split; reflexivity. Qed.

Lemma sim_reinit s_old s_old' : sim (reinit s_old) (reinit s_old').
Proof.
  unfold sim, reinit; cbn [state data contig cur init_count sil start].
  repeat split; try reflexivity; exfalso; apply H; reflexivity.
Qed.

(** Either the states are identical, or both are in SILENCE and agree on
    data/contig/cur. *)
Lemma sim_cases s1 s2 :
  sim s1 s2 ->
  s1 = s2 \/
  (state s1 = SILENCE /\ state s2 = SILENCE /\ data s1 = data s2
   /\ contig s1 = contig s2 /\ cur s1 = cur s2).
Proof.
  destruct s1 as [st1 d1 cg1 ic1 sl1 sta1 cu1].
  destruct s2 as [st2 d2 cg2 ic2 sl2 sta2 cu2].
  unfold sim; cbn [state data contig cur init_count sil start].
  intros (Hst & Hd & Hcg & Hcu & Hlive). subst st2 d2 cg2 cu2.
  destruct st1.
  - right. repeat split; reflexivity.
  - left. destruct Hlive as (Hic & Hsl & Hsta); [discriminate|]. subst; reflexivity.
  - left. destruct Hlive as (Hic & Hsl & Hsta); [discriminate|]. subst; reflexivity.
  - left. destruct Hlive as (Hic & Hsl & Hsta); [discriminate|]. subst; reflexivity.
Qed.

Lemma sim_set_cur s1 s2 : sim s1 s2 -> sim (set_cur s1 (cur s1 + 1)) (set_cur s2 (cur s2 + 1)).
Proof.
  unfold sim, set_cur; cbn [state data contig cur init_count sil start].
  intros (Hst & Hd & Hcg & Hcu & Hlive). rewrite Hcu.
  repeat split; try assumption; try reflexivity; apply Hlive; assumption.
Qed.

(** [process]: from sim-related states, on the same frame and verdict, the
    same token comes out and the successors are sim-related. *)
Lemma process_sim c s1 s2 (f : A) (v : bool) :
  sim s1 s2 ->
  sim (fst (process c s1 f v)) (fst (process c s2 f v))
  /\ snd (process c s1 f v) = snd (process c s2 f v).
Proof.
  intros Hsim. destruct (sim_cases _ _ Hsim) as [Heq | (Hst1 & Hst2 & Hd & Hcg & Hcu)].
  - subst s2. split; [apply sim_refl | reflexivity].
  - destruct v.
    + (* a valid frame in SILENCE overwrites init_count, sil and start *)
      assert (Hsame : process c s1 f true = process c s2 f true).
      { destruct s1 as [st1 d1 cg1 ic1 sl1 sta1 cu1].
        destruct s2 as [st2 d2 cg2 ic2 sl2 sta2 cu2].
        cbn [state data contig cur] in Hst1, Hst2, Hd, Hcg, Hcu.
        subst st1 st2 d2 cg2 cu2.
        unfold process; cbn [state].
        unfold set_data, set_start, set_sil, set_init_count, set_state;
          cbn [state data contig cur init_count sil start].
        reflexivity. }
      rewrite Hsame. split; [apply sim_refl | reflexivity].
    + (* an invalid frame in SILENCE changes nothing *)
      unfold process. rewrite Hst1, Hst2. cbn [fst snd].
      split; [exact Hsim | reflexivity].
Qed.

Lemma post_process_sim c s1 s2 :
  sim s1 s2 ->
  sim (fst (post_process c s1)) (fst (post_process c s2))
  /\ snd (post_process c s1) = snd (post_process c s2).
Proof.
  intros Hsim. destruct (sim_cases _ _ Hsim) as [Heq | (Hst1 & Hst2 & _)].
  - subst s2. split; [apply sim_refl | reflexivity].
  - unfold post_process. rewrite Hst1, Hst2. cbn [fst snd].
    split; [exact Hsim | reflexivity].
Qed.

(** One loop turn: sim-related successors, EQUAL yielded tokens, EQUAL
    continue flag. *)
Lemma iter_step_sim c s1 s2 (fr : option (A * bool)) :
  sim s1 s2 ->
  sim (fst (fst (iter_step c s1 fr))) (fst (fst (iter_step c s2 fr)))
  /\ snd (fst (iter_step c s1 fr)) = snd (fst (iter_step c s2 fr))
  /\ snd (iter_step c s1 fr) = snd (iter_step c s2 fr).
Proof.
  intros Hsim. apply sim_set_cur in Hsim.
  unfold iter_step. destruct fr as [[f v]|].
  - destruct (process_sim c _ _ f v Hsim) as (Hs & Ht).
    destruct (process c (set_cur s1 (cur s1 + 1)) f v) as [s1' t1].
    destruct (process c (set_cur s2 (cur s2 + 1)) f v) as [s2' t2].
    cbn [fst snd] in *. subst t2. split; [exact Hs | split; reflexivity].
  - destruct (post_process_sim c _ _ Hsim) as (Hs & Ht).
    destruct (post_process c (set_cur s1 (cur s1 + 1))) as [s1' t1].
    destruct (post_process c (set_cur s2 (cur s2 + 1))) as [s2' t2].
    cbn [fst snd] in *. subst t2. split; [exact Hs | split; reflexivity].
Qed.

Lemma run_sim c (fs : list (A * bool)) : forall s1 s2,
  sim s1 s2 ->
  sim (fst (run c s1 fs)) (fst (run c s2 fs)) /\ snd (run c s1 fs) = snd (run c s2 fs).
Proof.
  induction fs as [|fv rest IH]; intros s1 s2 Hsim; cbn [run].
  - destruct (iter_step_sim c _ _ None Hsim) as (Hs & Ho & _).
    destruct (iter_step c s1 None) as [[s1' o1] b1].
    destruct (iter_step c s2 None) as [[s2' o2] b2].
    cbn [fst snd] in *. split; assumption.
  - destruct (iter_step_sim c _ _ (Some fv) Hsim) as (Hs & Ho & _).
    destruct (iter_step c s1 (Some fv)) as [[s1' o1] b1].
    destruct (iter_step c s2 (Some fv)) as [[s2' o2] b2].
    cbn [fst snd] in Hs, Ho. subst o2.
    destruct (IH _ _ Hs) as (Hs' & Ho').
    destruct (run c s1' rest) as [s1'' os1].
    destruct (run c s2' rest) as [s2'' os2].
    cbn [fst snd] in *. subst os2. split; [exact Hs' | reflexivity].
Qed.

Lemma feed_sim c (fs : list (A * bool)) : forall s1 s2,
  sim s1 s2 ->
  sim (fst (feed c s1 fs)) (fst (feed c s2 fs)) /\ snd (feed c s1 fs) = snd (feed c s2 fs).
Proof.
  induction fs as [|fv rest IH]; intros s1 s2 Hsim; cbn [feed].
  - cbn [fst snd]. split; [exact Hsim | reflexivity].
  - destruct (iter_step_sim c _ _ (Some fv) Hsim) as (Hs & Ho & _).
    destruct (iter_step c s1 (Some fv)) as [[s1' o1] b1].
    destruct (iter_step c s2 (Some fv)) as [[s2' o2] b2].
    cbn [fst snd] in Hs, Ho. subst o2.
    destruct (IH _ _ Hs) as (Hs' & Ho').
    destruct (feed c s1' rest) as [s1'' os1].
    destruct (feed c s2' rest) as [s2'' os2].
    cbn [fst snd] in *. subst os2. split; [exact Hs' | reflexivity].
Qed.

End Sim.

(* ------------------------------------------------------------------ *)
(** * C20 *)

(* whatever state an earlier use left behind, the next tokenize call yields the same tokens *)
Theorem C20_reinit : forall (A : Type) (c : config) (s_old s_old' : st A) (fs : list (A * bool)),
  tokenize_from c s_old fs = tokenize_from c s_old' fs.
Proof.
  intros A c s_old s_old' fs. unfold tokenize_from.
  apply (run_sim c fs _ _ (sim_reinit s_old s_old')).
Qed.

Corollary C20_fresh : forall (A : Type) (c : config) (s_old : st A) (fs : list (A * bool)),
  tokenize_from c s_old fs = tokenize c fs.
Proof. intros A c s_old fs. unfold tokenize. apply C20_reinit. Qed.

(* sequences of uses: the state after ANY earlier activity (complete run,
   partial feed, abandoned) is some state, so: *)
Corollary C20_after_run : forall (A : Type) (c : config) (fs1 fs2 : list (A * bool)),
  tokenize_from c (fst (run c (reinit init_st) fs1)) fs2 = tokenize c fs2.
Proof. intros A c fs1 fs2. apply C20_fresh. Qed.

Corollary C20_after_partial : forall (A : Type) (c : config) (fs1 fs2 : list (A * bool)),
  tokenize_from c (fst (feed c (reinit init_st) fs1)) fs2 = tokenize c fs2.
Proof. intros A c fs1 fs2. apply C20_fresh. Qed.

(* the same for the yielded-so-far sequence (generator consumed lazily) *)
Theorem C20_feed : forall (A : Type) (c : config) (s_old s_old' : st A) (fs : list (A * bool)),
  snd (feed c (reinit s_old) fs) = snd (feed c (reinit s_old') fs).
Proof.
  intros A c s_old s_old' fs.
  apply (feed_sim c fs _ _ (sim_reinit s_old s_old')).
Qed.

(** The state left at the end is the same too, up to the three dead fields. *)
Theorem C20_final_state : forall (A : Type) (c : config) (s_old s_old' : st A) (fs : list (A * bool)),
  sim (fst (run c (reinit s_old) fs)) (fst (run c (reinit s_old') fs)).
Proof.
  intros A c s_old s_old' fs.
  apply (run_sim c fs _ _ (sim_reinit s_old s_old')).
Qed.

(* ------------------------------------------------------------------ *)
(** * Non-vacuity: the theorem is not about identical start states

    After a partial use the three fields [reinit] leaves alone really differ
    from a fresh tokenizer's, i.e. [reinit s_old <> reinit init_st]; the tokens
    are nevertheless those of a fresh tokenizer. *)

Definition cfg_demo : config := mkConfig 1 10 0 1 0 false false.

(* an old generator abandoned in the middle of a token starting at frame 2 *)
Definition old_demo : st Z :=
  fst (feed cfg_demo (reinit init_st) [(0, false); (0, false); (1, true); (2, true)]).

Example old_demo_value :
  old_demo = mkSt NOISE [1; 2] false 1 0 2 3.
Proof. vm_compute. reflexivity. Qed.

Example reinit_leaves_stale_fields :
  reinit old_demo = mkSt SILENCE [] false 1 0 2 (-1)
  /\ reinit (@init_st Z) = mkSt SILENCE [] false 0 0 0 (-1)
  /\ reinit old_demo <> reinit init_st.
Proof. vm_compute. repeat split; discriminate. Qed.

Example C20_instance :
  tokenize_from cfg_demo old_demo [(7, true); (8, true); (9, false); (5, true)]
  = [([7; 8], 0, 1); ([5], 3, 3)]
  /\ tokenize cfg_demo [(7, true); (8, true); (9, false); (5, true)]
  = [([7; 8], 0, 1); ([5], 3, 3)].
Proof. vm_compute. split; reflexivity. Qed.

(* ------------------------------------------------------------------ *)
(** * Necessity: each field that [reinit] resets has to be reset

    For each of the four fields, the variant of [reinit] that keeps the old
    value produces, from an old state reachable by [feed] from
    [reinit init_st], tokens different from a fresh tokenizer's. *)

Definition reinit_no_data (s : st Z) : st Z :=
  mkSt SILENCE (data s) false (init_count s) (sil s) (start s) (-1).
Definition reinit_no_state (s : st Z) : st Z :=
  mkSt (state s) [] false (init_count s) (sil s) (start s) (-1).
Definition reinit_no_contig (s : st Z) : st Z :=
  mkSt SILENCE [] (contig s) (init_count s) (sil s) (start s) (-1).
Definition reinit_no_cur (s : st Z) : st Z :=
  mkSt SILENCE [] false (init_count s) (sil s) (start s) (cur s).

(* sanity: with all four resets the variants' scheme is [reinit] itself *)
Example reinit_is_all_four : forall s : st Z,
  reinit s = mkSt SILENCE [] false (init_count s) (sil s) (start s) (-1).
Proof. reflexivity. Qed.

(** data: the frames of the abandoned token leak into the next stream's token *)
Example reset_data_needed :
  let c := mkConfig 1 10 0 1 0 false false in
  let s_old := fst (feed c (reinit init_st) [(1, true)]) in
  let fs := [(2, true)] in
  s_old = mkSt NOISE [1] false 1 0 0 0
  /\ snd (run c (reinit_no_data s_old) fs) = [([1; 2], 0, 1)]
  /\ tokenize c fs = [([2], 0, 0)]
  /\ snd (run c (reinit_no_data s_old) fs) <> tokenize c fs.
Proof. vm_compute. repeat split; discriminate. Qed.

(** state: starting in NOISE skips the SILENCE branch, so the stale [start] is used *)
Example reset_state_needed :
  let c := mkConfig 1 10 0 1 0 false false in
  let s_old := fst (feed c (reinit init_st) [(0, false); (1, true)]) in
  let fs := [(2, true)] in
  s_old = mkSt NOISE [1] false 1 0 1 1
  /\ snd (run c (reinit_no_state s_old) fs) = [([2], 1, 1)]
  /\ tokenize c fs = [([2], 0, 0)]
  /\ snd (run c (reinit_no_state s_old) fs) <> tokenize c fs.
Proof. vm_compute. repeat split; discriminate. Qed.

(** contig: after a truncated token the flag is set; kept, it lets a too short
    first token of the next stream through (non-strict mode) *)
Example reset_contig_needed :
  let c := mkConfig 2 2 0 1 0 false false in
  let s_old := fst (feed c (reinit init_st) [(1, true); (2, true)]) in
  let fs := [(3, true); (4, false)] in
  s_old = mkSt NOISE [] true 1 0 2 1
  /\ snd (run c (reinit_no_contig s_old) fs) = [([3], 0, 0)]
  /\ tokenize c fs = []
  /\ snd (run c (reinit_no_contig s_old) fs) <> tokenize c fs.
Proof. vm_compute. repeat split; discriminate. Qed.

(** cur: frame numbering would go on from the previous stream *)
Example reset_cur_needed :
  let c := mkConfig 1 10 0 1 0 false false in
  let s_old := fst (feed c (reinit init_st) [(1, true)]) in
  let fs := [(2, true)] in
  s_old = mkSt NOISE [1] false 1 0 0 0
  /\ snd (run c (reinit_no_cur s_old) fs) = [([2], 1, 1)]
  /\ tokenize c fs = [([2], 0, 0)]
  /\ snd (run c (reinit_no_cur s_old) fs) <> tokenize c fs.
Proof. vm_compute. repeat split; discriminate. Qed.

(** The example configurations are ones the constructor accepts. *)
Example demo_configs_accepted :
  accepted (mkConfig 1 10 0 1 0 false false) /\ accepted (mkConfig 2 2 0 1 0 false false).
Proof. unfold accepted; cbn [min_length max_length max_sil init_min]. lia. Qed.

Print Assumptions C20_reinit.
Print Assumptions C20_fresh.
Print Assumptions C20_after_run.
Print Assumptions C20_after_partial.
Print Assumptions C20_feed.
Print Assumptions C20_final_state.
Print Assumptions reset_data_needed.
Print Assumptions reset_state_needed.
Print Assumptions reset_contig_needed.
Print Assumptions reset_cur_needed.
