(** C03 (silence tolerance) for the Gallina model of StreamTokenizer.

    Invariant, in words ([vd] is the verdict at a stream position, [cur s] the
    last consumed position, "buffer" = positions [start s .. cur s] while the
    automaton is not in SILENCE):
    - every delivered token ends at or before [cur s], contains a valid frame,
      begins with a valid frame or right after another delivered token, and
      (drop mode) ends with a valid frame unless it has reached [max_length];
    - every run of invalid positions covered by delivered tokens or by the open
      buffer is at most [sil_bound c] long;
    - outside SILENCE: [start s + zlen (data s) = cur s + 1], [0 <= sil s] and the
      position [cur s - sil s] is valid (so the trailing invalid run is at most
      [sil s] long, also across a cut at max_length, where [sil] is not reset);
      the buffer begins with a valid frame or right after a delivered token. *)
From Coq Require Import ZArith List Bool Lia ZifyBool.
From AV Require Import Base.PyList Tok.Model Tok.Spec.
Import ListNotations.
Open Scope Z_scope.

Ltac fld :=
  unfold set_state, set_data, set_contig, set_init_count, set_sil, set_start, set_cur;
  cbn [state data contig init_count sil start cur].

Tactic Notation "fldin" hyp(H) :=
  unfold set_state, set_data, set_contig, set_init_count, set_sil, set_start, set_cur in H;
  cbn [state data contig init_count sil start cur] in H.

(* side conditions of [Inv_ext] below *)
Ltac st_sil Hst Hv := left; split; [exact Hst | split; [reflexivity | exact Hv]].
Ltac st_open Hst := right; split; [rewrite Hst; discriminate | reflexivity].
Ltac tr_valid Hv := left; split; [exact Hv | lia].
Ltac tr_invalid Hst Hv :=
  right; split; [exact Hv | split; [rewrite Hst; discriminate | split; lia]].
Ltac cnd := first [discriminate | intros _; lia].

Lemma zlen_snoc {T} (l : list T) (x : T) : zlen (l ++ [x]) = zlen l + 1.
Proof. rewrite zlen_app, zlen_cons, zlen_nil. lia. Qed.

Section Sil.
Context {A : Type}.
Variable c : config.
Variable vd : Z -> bool.
Hypothesis Hacc : accepted c.

Notation token := (token A).
Notation st := (st A).

(* ------------------------------------------------------------------ *)
(** * Runs of invalid positions inside a set of positions *)

Definition Runs (P : Z -> Prop) (B : Z) : Prop :=
  forall a b, a <= b ->
    (forall i, a <= i <= b -> P i /\ vd i = false) -> b - a + 1 <= B.

Lemma runs_mono (P P' : Z -> Prop) B :
  (forall i, P' i -> P i) -> Runs P B -> Runs P' B.
Proof.
  intros HPP HR a b Hab Hall. apply (HR a b Hab).
  intros i Hi. destruct (Hall i Hi) as [H1 H2]. split; auto.
Qed.

Lemma runs_ext_valid (P P' : Z -> Prop) B m :
  (forall i, P' i -> P i \/ i = m) -> vd m = true -> Runs P B -> Runs P' B.
Proof.
  intros HPP Hm HR a b Hab Hall. apply (HR a b Hab).
  intros i Hi. destruct (Hall i Hi) as [H1 H2]. split; auto.
  destruct (HPP i H1) as [H|H]; auto. subst i. congruence.
Qed.

Lemma runs_ext_invalid (P P' : Z -> Prop) B m k :
  (forall i, P' i -> (P i /\ i < m) \/ i = m) ->
  0 <= k -> vd (m - 1 - k) = true -> k + 1 <= B -> Runs P B -> Runs P' B.
Proof.
  intros HPP Hk Hv HB HR a b Hab Hall.
  destruct (Z_lt_le_dec b m) as [Hbm | Hbm].
  - apply (HR a b Hab). intros i Hi. destruct (Hall i Hi) as [H1 H2]. split; auto.
    destruct (HPP i H1) as [[H _]|H]; auto. lia.
  - assert (Hb : b = m).
    { assert (Hbb : a <= b <= b) by lia.
      destruct (Hall b Hbb) as [H1 _].
      destruct (HPP b H1) as [[_ H]|H]; lia. }
    subst b.
    destruct (Z_le_gt_dec a (m - 1 - k)) as [Ha|Ha].
    + assert (Hin : a <= m - 1 - k <= m) by lia.
      destruct (Hall (m - 1 - k) Hin) as [_ H2]. congruence.
    + lia.
Qed.

(* ------------------------------------------------------------------ *)
(** * The invariant *)

Definition covP (out : list token) (opn : Prop) (lo hi i : Z) : Prop :=
  covered out i \/ (opn /\ lo <= i <= hi).

Definition tokOK (out : list token) (n : Z) (t : token) : Prop :=
  tok_end t <= n
  /\ (exists i, tok_start t <= i <= tok_end t /\ vd i = true)
  /\ (vd (tok_start t) = true \/ exists p, In p out /\ tok_start t = tok_end p + 1)
  /\ (drop c = true -> tok_len t < max_length c -> vd (tok_end t) = true).

Definition Inv (s : st) (out : list token) : Prop :=
  (forall t, In t out -> tokOK out (cur s) t)
  /\ Runs (covP out (state s <> SILENCE) (start s) (cur s)) (sil_bound c)
  /\ (state s = SILENCE -> data s = [])
  /\ (state s <> SILENCE ->
        start s + zlen (data s) = cur s + 1
        /\ 0 <= sil s /\ vd (cur s - sil s) = true
        /\ (vd (start s) = true \/ exists p, In p out /\ start s = tok_end p + 1))
  /\ (state s = NOISE -> sil s = 0)
  /\ (state s = POSSIBLE_NOISE -> 1 < init_min c).

Definition OutOK (out : list token) : Prop :=
  (exists n, forall t, In t out -> tokOK out n t)
  /\ Runs (covered out) (sil_bound c).

Lemma sil_bound_max : max_sil c <= sil_bound c.
Proof. unfold sil_bound. destruct (1 <? init_min c); lia. Qed.

Lemma sil_bound_init : 1 < init_min c -> init_max_sil c <= sil_bound c.
Proof. intros H. unfold sil_bound. destruct (1 <? init_min c) eqn:E; lia. Qed.

Lemma tokOK_mono out out' n n' t :
  tokOK out n t -> n <= n' -> (forall p, In p out -> In p out') -> tokOK out' n' t.
Proof.
  intros (H1 & H2 & H3 & H4) Hn Hin. repeat split; auto.
  - lia.
  - destruct H3 as [H3 | (p & Hp & Hp')]; [left; exact H3|].
    right. exists p. split; auto.
Qed.

Lemma covered_snoc (out : list token) t i :
  covered (out ++ [t]) i -> covered out i \/ tok_start t <= i <= tok_end t.
Proof.
  intros (u & Hu & Hi). apply in_app_or in Hu. destruct Hu as [Hu | [Hu | []]].
  - left. exists u. split; assumption.
  - subst u. right. exact Hi.
Qed.

Lemma cov_le s out i :
  Inv s out -> covP out (state s <> SILENCE) (start s) (cur s) i -> i <= cur s.
Proof.
  intros (HT & _) [(t & Ht & Hi) | (_ & Hi)]; [|lia].
  destruct (HT t Ht) as (H1 & _). lia.
Qed.

Lemma Inv_OutOK s out : Inv s out -> OutOK out.
Proof.
  intros (HT & HR & _). split.
  - exists (cur s). exact HT.
  - eapply runs_mono; [|exact HR]. intros i Hi. left. exact Hi.
Qed.

(* ------------------------------------------------------------------ *)
(** * Delivering (a prefix of) the buffer *)

Lemma deliver s out d :
  Inv s out -> state s <> SILENCE ->
  0 < zlen d -> zlen d <= zlen (data s) -> zlen (data s) - sil s <= zlen d ->
  sil s < zlen (data s) ->
  (drop c = true -> zlen d = zlen (data s) - sil s \/ max_length c <= zlen d) ->
  let tok : token := (d, start s, start s + zlen d - 1) in
  (forall t, In t (out ++ [tok]) -> tokOK (out ++ [tok]) (cur s) t)
  /\ (forall i, covered (out ++ [tok]) i ->
        covP out (state s <> SILENCE) (start s) (cur s) i).
Proof.
  intros HI Hopen Hd0 Hd1 Hd2 Hsl Hdrop tok.
  destruct HI as (HT & _ & _ & HS & _).
  destruct (HS Hopen) as (S1 & S2 & S3 & S4).
  split.
  - intros t Ht. apply in_app_or in Ht. destruct Ht as [Ht | [Ht | []]].
    + eapply tokOK_mono; [apply HT; exact Ht | lia |].
      intros p Hp. apply in_or_app. left. exact Hp.
    + subst t. unfold tokOK, tok, tok_end, tok_start, tok_len, tok_data. cbn [fst snd].
      split; [lia|]. split; [|split].
      * exists (cur s - sil s). split; [lia | exact S3].
      * destruct S4 as [S4 | (p & Hp & Hp')]; [left; exact S4|].
        right. exists p. split; [apply in_or_app; left; exact Hp | exact Hp'].
      * intros Hdr Hlen. destruct (Hdrop Hdr) as [He | He]; [|lia].
        replace (start s + zlen d - 1) with (cur s - sil s) by lia. exact S3.
  - intros i Hc. apply covered_snoc in Hc. destruct Hc as [Hc | Hc].
    + left. exact Hc.
    + right. split; [exact Hopen|].
      unfold tok, tok_start, tok_end in Hc. cbn [fst snd] in Hc. lia.
Qed.

(* ------------------------------------------------------------------ *)
(** * eod *)

Lemma eod_trunc (s : st) :
  min_length c <= zlen (data s) ->
  eod c s true =
    (mkSt (state s) [] true (init_count s) (sil s) (cur s + 1) (cur s),
     Some (data s, start s, start s + zlen (data s) - 1)).
Proof.
  intros Hm. unfold eod. cbn [negb andb]. fld.
  destruct (min_length c <=? zlen (data s)) eqn:E; [|lia].
  cbn [orb]. reflexivity.
Qed.

Lemma eod_false (s : st) s' o :
  0 <= sil s <= zlen (data s) ->
  eod c s false = (s', o) ->
  s' = mkSt (state s) [] false (init_count s) (sil s) (start s) (cur s)
  /\ (o = None
      \/ exists d, o = Some (d, start s, start s + zlen d - 1)
           /\ 0 < zlen d /\ zlen d <= zlen (data s)
           /\ zlen (data s) - sil s <= zlen d
           /\ (drop c = true -> zlen d = zlen (data s) - sil s)).
Proof.
  intros Hs. unfold eod. cbn [negb andb].
  destruct Hacc as (_ & Hmin & _).
  destruct (drop c && (0 <? sil s)) eqn:Ed.
  - fld.
    rewrite py_slice_drop_tail by lia.
    set (d := firstn (Z.to_nat (zlen (data s) - sil s)) (data s)).
    assert (Hd : zlen d = zlen (data s) - sil s).
    { unfold d. rewrite zlen_firstn. lia. }
    destruct ((min_length c <=? zlen d)
              || ((0 <? zlen d) && negb (strict c) && contig s)) eqn:Et;
      intros HP; injection HP as <- <-; (split; [reflexivity|]).
    + right. exists d. split; [reflexivity|].
      assert (0 < zlen d).
      { apply orb_true_iff in Et. destruct Et as [Et | Et]; [lia|].
        apply andb_true_iff in Et. destruct Et as [Et _].
        apply andb_true_iff in Et. destruct Et as [Et _]. lia. }
      repeat split; lia.
    + left. reflexivity.
  - fld.
    destruct ((min_length c <=? zlen (data s))
              || ((0 <? zlen (data s)) && negb (strict c) && contig s)) eqn:Et;
      intros HP; injection HP as <- <-; (split; [reflexivity|]).
    + right. exists (data s). split; [reflexivity|].
      assert (0 < zlen (data s)).
      { apply orb_true_iff in Et. destruct Et as [Et | Et]; [lia|].
        apply andb_true_iff in Et. destruct Et as [Et _].
        apply andb_true_iff in Et. destruct Et as [Et _]. lia. }
      repeat split; lia.
    + left. reflexivity.
Qed.

(* ------------------------------------------------------------------ *)
(** * The four kinds of transition *)

(** Back to SILENCE (possibly after delivering part of the buffer). *)
Lemma Inv_close s out out' st' d' cg ic sl sta :
  Inv s out -> st' = SILENCE -> d' = [] ->
  (forall t, In t out' -> tokOK out' (cur s) t) ->
  (forall i, covered out' i -> covP out (state s <> SILENCE) (start s) (cur s) i) ->
  Inv (mkSt st' d' cg ic sl sta (cur s + 1)) out'.
Proof.
  intros HI -> -> HT Hcov.
  unfold Inv. fld. split; [|split; [|split; [|split; [|split]]]].
  - intros t Ht. eapply tokOK_mono; [apply HT; exact Ht | lia | auto].
  - destruct HI as (_ & HR & _).
    eapply runs_mono; [|exact HR].
    intros i [Hi | (Hi & _)]; [apply Hcov; exact Hi | congruence].
  - reflexivity.
  - congruence.
  - discriminate.
  - discriminate.
Qed.

Lemma Inv_close0 s out st' d' cg ic sl sta :
  Inv s out -> st' = SILENCE -> d' = [] ->
  Inv (mkSt st' d' cg ic sl sta (cur s + 1)) out.
Proof.
  intros HI H1 H2. apply Inv_close with (out := out); auto.
  - destruct HI as (HT & _). exact HT.
  - intros i Hi. left. exact Hi.
Qed.

(** One more frame in the buffer, nothing delivered. *)
Lemma Inv_ext s out st' d' cg ic sl' sta' :
  Inv s out -> st' <> SILENCE -> zlen d' = zlen (data s) + 1 ->
  ((state s = SILENCE /\ sta' = cur s + 1 /\ vd (cur s + 1) = true)
   \/ (state s <> SILENCE /\ sta' = start s)) ->
  ((vd (cur s + 1) = true /\ sl' = 0)
   \/ (vd (cur s + 1) = false /\ state s <> SILENCE /\ sl' = sil s + 1
       /\ sl' <= sil_bound c)) ->
  (st' = NOISE -> sl' = 0) ->
  (st' = POSSIBLE_NOISE -> 1 < init_min c) ->
  Inv (mkSt st' d' cg ic sl' sta' (cur s + 1)) out.
Proof.
  intros HI Hst' Hd' Hsta Htr HN HPN.
  pose proof (cov_le s out) as Hle.
  assert (Hcov : forall i, covP out (st' <> SILENCE) sta' (cur s + 1) i ->
            (covP out (state s <> SILENCE) (start s) (cur s) i /\ i < cur s + 1)
            \/ i = cur s + 1).
  { intros i Hi.
    assert (Hlt : covP out (state s <> SILENCE) (start s) (cur s) i -> i < cur s + 1).
    { intros H. specialize (Hle i HI H). lia. }
    destruct Hi as [Hi | (_ & Hi)].
    - left. split; [left; exact Hi | apply Hlt; left; exact Hi].
    - destruct Hsta as [(Hs & -> & _) | (Hs & ->)]; [right; lia|].
      destruct (Z.eq_dec i (cur s + 1)) as [He | He]; [right; exact He|].
      left. assert (Hc : covP out (state s <> SILENCE) (start s) (cur s) i).
      { right. split; [exact Hs | lia]. }
      split; [exact Hc | apply Hlt; exact Hc]. }
  destruct HI as (HT & HR & HD & HS & HNs & HPNs).
  unfold Inv. fld. split; [|split; [|split; [|split; [|split]]]].
  - intros t Ht. eapply tokOK_mono; [apply HT; exact Ht | lia | auto].
  - destruct Htr as [(Hv & _) | (Hv & Hs & -> & Hb)].
    + eapply runs_ext_valid; [|exact Hv|exact HR].
      intros i Hi. destruct (Hcov i Hi) as [[H _]|H]; auto.
    + destruct (HS Hs) as (S1 & S2 & S3 & S4).
      eapply (runs_ext_invalid _ _ _ (cur s + 1) (sil s)); [exact Hcov | exact S2 | | exact Hb | exact HR].
      replace (cur s + 1 - 1 - sil s) with (cur s - sil s) by lia. exact S3.
  - intros H. contradiction.
  - intros _.
    destruct Hsta as [(Hs & -> & Hv1) | (Hs & ->)].
    + rewrite (HD Hs), zlen_nil in Hd'.
      split; [lia|].
      destruct Htr as [(Hv & ->) | (_ & Hs' & _)]; [|contradiction].
      split; [lia|]. split.
      * replace (cur s + 1 - 0) with (cur s + 1) by lia. exact Hv.
      * left. exact Hv1.
    + destruct (HS Hs) as (S1 & S2 & S3 & S4).
      split; [lia|].
      destruct Htr as [(Hv & ->) | (Hv & _ & -> & _)].
      * split; [lia|]. split; [|exact S4].
        replace (cur s + 1 - 0) with (cur s + 1) by lia. exact Hv.
      * split; [lia|]. split; [|exact S4].
        replace (cur s + 1 - (sil s + 1)) with (cur s - sil s) by lia. exact S3.
  - exact HN.
  - exact HPN.
Qed.

(** Cut at max_length: the whole buffer is delivered, the state is kept. *)
Lemma Inv_cut s out :
  Inv s out -> state s <> SILENCE ->
  sil s < zlen (data s) -> max_length c <= zlen (data s) ->
  Inv (mkSt (state s) [] true (init_count s) (sil s) (cur s + 1) (cur s))
      (out ++ [(data s, start s, start s + zlen (data s) - 1)]).
Proof.
  intros HI Hopen Hsl Hmax.
  assert (HI' := HI).
  destruct HI' as (HT & HR & HD & HS & HNs & HPNs).
  destruct (HS Hopen) as (S1 & S2 & S3 & S4).
  destruct Hacc as (Hmx & _).
  assert (Hdel : (forall t, In t (out ++ [(data s, start s, start s + zlen (data s) - 1)]) ->
                    tokOK (out ++ [(data s, start s, start s + zlen (data s) - 1)]) (cur s) t)
                 /\ (forall i, covered (out ++ [(data s, start s, start s + zlen (data s) - 1)]) i ->
                       covP out (state s <> SILENCE) (start s) (cur s) i)).
  { apply (deliver s out (data s) HI Hopen); lia. }
  destruct Hdel as (HT' & Hcov').
  unfold Inv. fld. split; [|split; [|split; [|split; [|split]]]].
  - exact HT'.
  - eapply runs_mono; [|exact HR].
    intros i [Hi | (_ & Hi)]; [apply Hcov'; exact Hi | lia].
  - intros H. contradiction.
  - intros _. rewrite zlen_nil. split; [lia|]. split; [exact S2|]. split; [exact S3|].
    right. eexists. split; [apply in_or_app; right; left; reflexivity|].
    unfold tok_end. cbn [snd]. lia.
  - exact HNs.
  - exact HPNs.
Qed.

Lemma maybe_cut s1 out (b : bool) s' o :
  Inv s1 out -> state s1 <> SILENCE ->
  (b = true -> max_length c <= zlen (data s1) /\ sil s1 < zlen (data s1)) ->
  (if b then eod c s1 true else (s1, None)) = (s', o) ->
  Inv s' (out ++ opt_list o).
Proof.
  intros HI Hopen Hb HP. destruct b.
  - destruct (Hb eq_refl) as (Hmax & Hsl).
    rewrite eod_trunc in HP by (destruct Hacc as (_ & ? & _); lia).
    injection HP as <- <-. cbn [opt_list].
    apply Inv_cut; assumption.
  - injection HP as <- <-. cbn [opt_list]. rewrite app_nil_r. exact HI.
Qed.

(** End of detection (not truncated) on an invalid frame: back to SILENCE. *)
Lemma Inv_eod_close s out cg ic s' o :
  Inv s out -> state s <> SILENCE ->
  (sil s < zlen (data s) \/ sil s = 0) ->
  eod c (mkSt SILENCE (data s) cg ic (sil s) (start s) (cur s + 1)) false = (s', o) ->
  Inv s' (out ++ opt_list o).
Proof.
  intros HI Hopen Hsl HP.
  assert (HS := HI). destruct HS as (HT & _ & _ & HS & _).
  destruct (HS Hopen) as (S1 & S2 & S3 & S4).
  pose proof (zlen_nonneg (data s)) as Hnn.
  apply eod_false in HP; fld; [|lia].
  fldin HP. destruct HP as (-> & [-> | (d & -> & Hd0 & Hd1 & Hd2 & Hd3)]).
  - cbn [opt_list]. rewrite app_nil_r. apply Inv_close0; auto.
  - cbn [opt_list].
    assert (Hsl' : sil s < zlen (data s)) by lia.
    destruct (deliver s out d HI Hopen Hd0 Hd1 Hd2 Hsl' (fun H => or_introl (Hd3 H)))
      as (HT' & Hcov').
    apply Inv_close with (out := out); auto.
Qed.

(* ------------------------------------------------------------------ *)
(** * One frame *)

Lemma process_inv s out f v s' o :
  Inv s out -> vd (cur s + 1) = v ->
  process c (set_cur s (cur s + 1)) f v = (s', o) ->
  Inv s' (out ++ opt_list o).
Proof.
  intros HI Hv.
  assert (HI' := HI). destruct HI' as (HT & HR & HD & HS & HNs & HPNs).
  pose proof (zlen_nonneg (data s)) as Hnn.
  pose proof sil_bound_max as Hbm.
  destruct Hacc as (Hmx & Hmn & Hms & Him).
  unfold process. fld.
  destruct (state s) eqn:Hst.
  - (* SILENCE *)
    destruct v.
    + destruct (init_min c <=? 1) eqn:E1.
      * intros HP. eapply maybe_cut; [ | | | exact HP].
        -- apply Inv_ext;
             [exact HI | discriminate | apply zlen_snoc | st_sil Hst Hv | tr_valid Hv | cnd | cnd].
        -- fld. discriminate.
        -- fld. rewrite zlen_snoc. intros Hb. lia.
      * intros HP. injection HP as <- <-. cbn [opt_list]. rewrite app_nil_r.
        apply Inv_ext;
          [exact HI | discriminate | apply zlen_snoc | st_sil Hst Hv | tr_valid Hv | cnd | cnd].
    + intros HP. injection HP as <- <-. cbn [opt_list]. rewrite app_nil_r.
      apply Inv_close0; [exact HI | reflexivity | exact (HD eq_refl)].
  - (* POSSIBLE_SILENCE *)
    assert (Hopen : state s <> SILENCE) by (rewrite Hst; discriminate).
    destruct HS as (S1 & S2 & S3 & S4); [discriminate|].
    destruct v.
    + intros HP. eapply maybe_cut; [ | | | exact HP].
      * apply Inv_ext;
          [exact HI | discriminate | apply zlen_snoc | st_open Hst | tr_valid Hv | cnd | cnd].
      * fld. discriminate.
      * fld. rewrite zlen_snoc. intros Hb. lia.
    + destruct (max_sil c <=? sil s) eqn:E1.
      * destruct (sil s <? zlen (data s)) eqn:E2.
        -- intros HP. eapply Inv_eod_close; [exact HI | exact Hopen | | exact HP]. lia.
        -- intros HP. injection HP as <- <-. cbn [opt_list]. rewrite app_nil_r.
           apply Inv_close0; [exact HI | reflexivity | reflexivity].
      * intros HP. eapply maybe_cut; [ | | | exact HP].
        -- apply Inv_ext;
             [exact HI | discriminate | apply zlen_snoc | st_open Hst | tr_invalid Hst Hv | cnd | cnd].
        -- fld. discriminate.
        -- fld. rewrite zlen_snoc. intros Hb. lia.
  - (* POSSIBLE_NOISE *)
    assert (Hopen : state s <> SILENCE) by (rewrite Hst; discriminate).
    destruct HS as (S1 & S2 & S3 & S4); [discriminate|].
    specialize (HPNs eq_refl).
    pose proof (sil_bound_init HPNs) as Hbi.
    destruct v.
    + destruct (init_min c <=? init_count s + 1) eqn:E1.
      * intros HP. eapply maybe_cut; [ | | | exact HP].
        -- apply Inv_ext;
             [exact HI | discriminate | apply zlen_snoc | st_open Hst | tr_valid Hv | cnd | cnd].
        -- fld. discriminate.
        -- fld. rewrite zlen_snoc. intros Hb. lia.
      * destruct (max_length c <=? zlen (data s ++ [f])) eqn:E2;
          intros HP; injection HP as <- <-; cbn [opt_list]; rewrite app_nil_r.
        -- apply Inv_close0; [exact HI | reflexivity | reflexivity].
        -- apply Inv_ext;
             [exact HI | discriminate | apply zlen_snoc | st_open Hst | tr_valid Hv | cnd | cnd].
    + destruct ((init_max_sil c <? sil s + 1) || (max_length c <=? zlen (data s) + 1)) eqn:E1;
        intros HP; injection HP as <- <-; cbn [opt_list]; rewrite app_nil_r.
      * apply Inv_close0; [exact HI | reflexivity | reflexivity].
      * apply Inv_ext;
          [exact HI | discriminate | apply zlen_snoc | st_open Hst | tr_invalid Hst Hv | cnd | cnd].
  - (* NOISE *)
    assert (Hopen : state s <> SILENCE) by (rewrite Hst; discriminate).
    destruct HS as (S1 & S2 & S3 & S4); [discriminate|].
    specialize (HNs eq_refl).
    destruct v.
    + intros HP. eapply maybe_cut; [ | | | exact HP].
      * apply Inv_ext;
          [exact HI | discriminate | apply zlen_snoc | st_open Hst | tr_valid Hv | cnd | cnd].
      * fld. discriminate.
      * fld. rewrite zlen_snoc. intros Hb. lia.
    + destruct (max_sil c <=? 0) eqn:E1.
      * intros HP. eapply Inv_eod_close; [exact HI | exact Hopen | | exact HP]. lia.
      * intros HP. eapply maybe_cut; [ | | | exact HP].
        -- apply Inv_ext;
             [exact HI | discriminate | apply zlen_snoc | st_open Hst | tr_invalid Hst Hv | cnd | cnd].
        -- fld. discriminate.
        -- fld. rewrite zlen_snoc. intros Hb. lia.
Qed.

(** End of stream. *)
Lemma post_inv s out s' o :
  Inv s out ->
  post_process c (set_cur s (cur s + 1)) = (s', o) ->
  OutOK (out ++ opt_list o).
Proof.
  intros HI.
  assert (Hnone : OutOK (out ++ opt_list (@None token))).
  { cbn [opt_list]. rewrite app_nil_r. eapply Inv_OutOK; exact HI. }
  assert (Hsome : state s <> SILENCE -> sil s < zlen (data s) ->
            eod c (mkSt (state s) (data s) (contig s) (init_count s) (sil s) (start s)
                        (cur s + 1)) false = (s', o) -> OutOK (out ++ opt_list o)).
  { intros Hopen Hsl HP.
    assert (HS := HI). destruct HS as (HT & HR & _ & HS & _).
    destruct (HS Hopen) as (S1 & S2 & S3 & S4).
    apply eod_false in HP; fld; [|lia].
    fldin HP. destruct HP as (_ & [-> | (d & -> & Hd0 & Hd1 & Hd2 & Hd3)]); [exact Hnone|].
    cbn [opt_list].
    destruct (deliver s out d HI Hopen Hd0 Hd1 Hd2 Hsl (fun H => or_introl (Hd3 H)))
      as (HT' & Hcov').
    split.
    - exists (cur s). exact HT'.
    - eapply runs_mono; [|exact HR]. exact Hcov'. }
  unfold post_process. fld.
  destruct (state s) eqn:Hst.
  - intros HP. injection HP as <- <-. exact Hnone.
  - destruct ((0 <? zlen (data s)) && (sil s <? zlen (data s))) eqn:E.
    + apply Hsome; [discriminate | lia].
    + intros HP. injection HP as <- <-. exact Hnone.
  - intros HP. injection HP as <- <-. exact Hnone.
  - destruct ((0 <? zlen (data s)) && (sil s <? zlen (data s))) eqn:E.
    + apply Hsome; [discriminate | lia].
    + intros HP. injection HP as <- <-. exact Hnone.
Qed.

Lemma Inv_init (s_old : st) : Inv (reinit s_old) [].
Proof.
  unfold Inv, reinit. fld. split; [|split; [|split; [|split; [|split]]]].
  - intros t [].
  - intros a b Hab Hall.
    assert (Ha : a <= a <= b) by lia.
    destruct (Hall a Ha) as [[(t & [] & _) | (H & _)] _]. congruence.
  - reflexivity.
  - congruence.
  - discriminate.
  - discriminate.
Qed.

End Sil.

(* ------------------------------------------------------------------ *)
(** * [cur] is only moved by the loop *)

Lemma eod_cur {A} c (s : st A) b : cur (fst (eod c s b)) = cur s.
Proof.
  unfold eod.
  repeat match goal with
         | |- context [if ?x then _ else _] => destruct x
         end; reflexivity.
Qed.

Lemma process_cur {A} c (s : st A) f v : cur (fst (process c s f v)) = cur s.
Proof.
  unfold process.
  destruct (state s); destruct v;
    repeat match goal with
           | |- context [if ?x then _ else _] => destruct x
           end;
    try rewrite eod_cur; reflexivity.
Qed.

(* ------------------------------------------------------------------ *)
(** * Whole stream *)

Lemma verdict_mid {A} (pre : list (A * bool)) f v rest :
  verdict (pre ++ (f, v) :: rest) (zlen pre) = v.
Proof.
  unfold verdict, znth_opt.
  pose proof (zlen_nonneg pre) as Hnn.
  destruct (zlen pre <? 0) eqn:E; [lia|].
  unfold zlen. rewrite Nat2Z.id.
  rewrite nth_error_app2 by lia. rewrite Nat.sub_diag. reflexivity.
Qed.

Lemma run_inv {A} (c : config) (Hacc : accepted c) :
  forall (rest pre : list (A * bool)) (s : st A) acc s' outs,
    Inv c (verdict (pre ++ rest)) s acc ->
    cur s + 1 = zlen pre ->
    run c s rest = (s', outs) ->
    OutOK c (verdict (pre ++ rest)) (acc ++ outs).
Proof.
  induction rest as [|[f v] rest IH]; intros pre s acc s' outs HI Hcur HR.
  - cbn [run iter_step] in HR.
    destruct (post_process c (set_cur s (cur s + 1))) as [s1 t] eqn:HP.
    injection HR as <- <-.
    eapply post_inv; eauto.
  - cbn [run iter_step] in HR.
    destruct (process c (set_cur s (cur s + 1)) f v) as [s1 t] eqn:HP.
    destruct (run c s1 rest) as [s2 outs'] eqn:HR'.
    injection HR as <- <-.
    rewrite app_assoc.
    replace (pre ++ (f, v) :: rest) with ((pre ++ [(f, v)]) ++ rest)
      by (rewrite <- app_assoc; reflexivity).
    eapply IH; [ | | exact HR'].
    + rewrite <- app_assoc. cbn [app].
      eapply process_inv; [exact Hacc | exact HI | | exact HP].
      rewrite Hcur. apply verdict_mid.
    + pose proof (process_cur c (set_cur s (cur s + 1)) f v) as Hc.
      rewrite HP in Hc. cbn [fst set_cur cur] in Hc.
      rewrite zlen_snoc. lia.
Qed.

Lemma tokenize_from_OutOK {A} (c : config) (s_old : st A) (fs : list (A * bool)) :
  accepted c -> OutOK c (verdict fs) (tokenize_from c s_old fs).
Proof.
  intros Hacc. unfold tokenize_from.
  destruct (run c (reinit s_old) fs) as [s' outs] eqn:HR. cbn [snd].
  change outs with ([] ++ outs).
  change fs with ([] ++ fs).
  eapply run_inv; [exact Hacc | | | exact HR].
  - apply Inv_init.
  - reflexivity.
Qed.

(* ------------------------------------------------------------------ *)
(** * C03 *)

Theorem tokenize_from_C03_runs : forall (A : Type) (c : config) (s_old : st A) (fs : list (A * bool)),
  accepted c -> P_C03_runs c fs (tokenize_from c s_old fs).
Proof.
  intros A c s_old fs Hacc.
  destruct (tokenize_from_OutOK c s_old fs Hacc) as (_ & HR).
  exact HR.
Qed.

Theorem tokenize_from_C03_has_valid : forall (A : Type) (c : config) (s_old : st A) (fs : list (A * bool)),
  accepted c -> P_C03_has_valid fs (tokenize_from c s_old fs).
Proof.
  intros A c s_old fs Hacc.
  destruct (tokenize_from_OutOK c s_old fs Hacc) as ((n & HT) & _).
  unfold P_C03_has_valid. apply Forall_forall. intros t Ht.
  destruct (HT t Ht) as (_ & H & _). exact H.
Qed.

Theorem tokenize_from_C03_first : forall (A : Type) (c : config) (s_old : st A) (fs : list (A * bool)),
  accepted c -> P_C03_first fs (tokenize_from c s_old fs).
Proof.
  intros A c s_old fs Hacc.
  destruct (tokenize_from_OutOK c s_old fs Hacc) as ((n & HT) & _).
  unfold P_C03_first. apply Forall_forall. intros t Ht.
  destruct (HT t Ht) as (_ & _ & H & _). exact H.
Qed.

Theorem tokenize_from_C03_last : forall (A : Type) (c : config) (s_old : st A) (fs : list (A * bool)),
  accepted c -> P_C03_last c fs (tokenize_from c s_old fs).
Proof.
  intros A c s_old fs Hacc.
  destruct (tokenize_from_OutOK c s_old fs Hacc) as ((n & HT) & _).
  unfold P_C03_last. intros Hdrop. apply Forall_forall. intros t Ht Hlen.
  destruct (HT t Ht) as (_ & _ & _ & H). apply H; assumption.
Qed.

(* ------------------------------------------------------------------ *)
(** * Non-vacuity *)

(** min_length 1, max_length 3, max_sil 2, init_min 1, init_max_sil 0. *)
Definition ex_cfg : config := mkConfig 1 3 2 1 0 false false.

Example ex_cfg_accepted : accepted ex_cfg.
Proof. unfold accepted, ex_cfg; cbn. lia. Qed.

Example ex_cfg_validate : validate 1 3 2 1 0 0 = Ok ex_cfg.
Proof. reflexivity. Qed.

Definition ex_stream : list (Z * bool) :=
  [(10, true); (11, true); (12, false); (13, false); (14, true)].

(** The run of two invalid frames at positions 2..3 straddles the cut at
    max_length = 3: two adjacent tokens, the second one starting with silence. *)
Example ex_straddle :
  tokenize ex_cfg ex_stream = [([10; 11; 12], 0, 2); ([13; 14], 3, 4)].
Proof. vm_compute. reflexivity. Qed.

Example ex_straddle_run :
  sil_bound ex_cfg = 2
  /\ (forall i, 2 <= i <= 3 ->
        covered (tokenize ex_cfg ex_stream) i /\ verdict ex_stream i = false).
Proof.
  split; [reflexivity|].
  rewrite ex_straddle. intros i Hi.
  assert (Hc : i = 2 \/ i = 3) by lia.
  destruct Hc as [-> | ->]; (split; [|reflexivity]).
  - exists ([10; 11; 12], 0, 2). split; [left; reflexivity | cbn; lia].
  - exists ([13; 14], 3, 4). split; [right; left; reflexivity | cbn; lia].
Qed.

(** A third invalid frame ends the detection: the leftovers (silence only)
    are not delivered. *)
Example ex_too_long :
  tokenize ex_cfg [(10, true); (11, true); (12, false); (13, false); (14, false); (15, true)]
  = [([10; 11; 12], 0, 2); ([15], 5, 5)].
Proof. vm_compute. reflexivity. Qed.

(** Drop mode: a token shorter than max_length ends with a valid frame. *)
Example ex_drop :
  tokenize (mkConfig 1 10 2 1 0 false true)
           [(10, true); (11, false); (12, true); (13, false); (14, false); (15, false)]
  = [([10; 11; 12], 0, 2)].
Proof. vm_compute. reflexivity. Qed.

Print Assumptions tokenize_from_C03_runs.
Print Assumptions tokenize_from_C03_has_valid.
Print Assumptions tokenize_from_C03_first.
Print Assumptions tokenize_from_C03_last.
