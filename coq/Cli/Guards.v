(** The two decisions cmdline_util.make_kwargs takes besides copying options
    into keyword dictionaries: the consistency guard on -j / -O and the
    `record` flag of the reader.  py2coq/kwargs.py evaluates make_kwargs
    symbolically on every run (each option either absent = None or given)
    and TieGuards.v compares the outcome tables. *)
From Coq Require Import Bool List.
Import ListNotations.

(** -j (join_detections) given without -O (save_stream): ArgumentError, which main() turns into exit status 1 *)
Definition join_guard (join_given save_given : bool) : bool := join_given && negb save_given.

(** record the stream in memory: only when it is not saved to a file and a plot or an image was asked for *)
Definition record_flag (save_given plot image_given : bool) : bool := negb save_given && (plot || image_given).

Theorem join_guard_spec j s : join_guard j s = true <-> (j = true /\ s = false).
Proof. destruct j, s; cbn; intuition discriminate. Qed.

Definition bools2 : list (bool * bool) := [(false, false); (false, true); (true, false); (true, true)].
Definition bools3 : list (bool * bool * bool) :=
  [(false, false, false); (false, false, true); (false, true, false); (false, true, true);
   (true, false, false); (true, false, true); (true, true, false); (true, true, true)].

Definition join_guard_table : list bool := map (fun p => join_guard (fst p) (snd p)) bools2.
Definition record_table : list bool := map (fun p => record_flag (fst (fst p)) (snd (fst p)) (snd p)) bools3.
