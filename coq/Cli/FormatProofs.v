(** Property C15 (formatter part): the three duration formats of the command
    line: %S (three decimals), %I (whole milliseconds), %h %m %s %i templates. *)
From Coq Require Import ZArith List Bool Lia ZifyBool.
From AV Require Import Base.PyList Base.PyFloat Tok.Model Cli.Format.
Import ListNotations. Open Scope Z_scope.
Ltac Zify.zify_post_hook ::= Z.to_euclidean_division_equations.

(* ------------------------------------------------------------------ *)
(** * The divmod chain *)

Theorem C15_fields : forall M, 0 <= M -> let '(h, m, s, i) := fields M in
  h * 3600000 + m * 60000 + s * 1000 + i = M /\ 0 <= h /\ 0 <= m < 60 /\ 0 <= s < 60 /\ 0 <= i < 1000.
Proof.
  intros M HM. unfold fields. cbv zeta. lia.
Qed.

(* ------------------------------------------------------------------ *)
(** * Decimal digits *)

Definition digits_value (ds : list Z) : Z := fold_left (fun acc d => acc * 10 + (d - 48)) ds 0.

Lemma digits_value_snoc : forall ds d, digits_value (ds ++ [d]) = digits_value ds * 10 + (d - 48).
Proof. intros ds d. unfold digits_value. rewrite fold_left_app. reflexivity. Qed.

Lemma digits_value_zeros : forall k ds, digits_value (repeat 48 k ++ ds) = digits_value ds.
Proof.
  intros k ds. unfold digits_value. rewrite fold_left_app. f_equal.
  induction k as [|k IH]; [reflexivity|]. cbn [repeat fold_left].
  replace (0 * 10 + (48 - 48)) with 0 by lia. exact IH.
Qed.

Lemma digits_fuel_spec : forall fuel n acc,
  (0 < fuel)%nat -> 0 <= n < 2 ^ Z.of_nat fuel ->
  exists ds, digits_fuel fuel n acc = ds ++ acc
    /\ digits_value ds = n
    /\ Forall (fun d => 48 <= d <= 57) ds
    /\ ds <> []
    /\ (forall k, (0 < k)%nat -> n < 10 ^ Z.of_nat k -> (length ds <= k)%nat).
Proof.
  induction fuel as [|f IH]; intros n acc Hf Hn; [lia|].
  cbn [digits_fuel].
  destruct (n / 10 =? 0) eqn:E.
  - exists [48 + n mod 10].
    split; [reflexivity|].
    split; [unfold digits_value; cbn [fold_left]; lia|].
    split; [constructor; [lia|constructor]|].
    split; [discriminate|].
    intros k Hk _. cbn [length]. lia.
  - assert (Hpow : 2 ^ Z.of_nat (S f) = 2 * 2 ^ Z.of_nat f)
      by (rewrite Nat2Z.inj_succ, Z.pow_succ_r; lia).
    assert (Hf' : (0 < f)%nat).
    { destruct f as [|f']; [|lia]. change (2 ^ Z.of_nat 1) with 2 in Hn. lia. }
    assert (Hn' : 0 <= n / 10 < 2 ^ Z.of_nat f) by lia.
    destruct (IH (n / 10) ((48 + n mod 10) :: acc) Hf' Hn') as (ds & H1 & H2 & H3 & H4 & H5).
    exists (ds ++ [48 + n mod 10]).
    split; [rewrite H1, <- app_assoc; reflexivity|].
    split; [rewrite digits_value_snoc, H2; lia|].
    split; [apply Forall_app; split; [exact H3|constructor; [lia|constructor]]|].
    split; [destruct ds; discriminate|].
    intros k Hk Hlt. rewrite app_length. cbn [length].
    destruct k as [|k]; [lia|].
    destruct k as [|k].
    { change (10 ^ Z.of_nat 1) with 10 in Hlt. lia. }
    rewrite (Nat2Z.inj_succ (S k)), Z.pow_succ_r in Hlt by lia.
    assert (Hk' : (0 < S k)%nat) by lia.
    assert (Hlt' : n / 10 < 10 ^ Z.of_nat (S k)) by lia.
    pose proof (H5 (S k) Hk' Hlt'). lia.
Qed.

Lemma digits_spec : forall n, 0 <= n ->
  digits_value (digits n) = n
  /\ Forall (fun d => 48 <= d <= 57) (digits n)
  /\ digits n <> []
  /\ (forall k, (0 < k)%nat -> n < 10 ^ Z.of_nat k -> (length (digits n) <= k)%nat).
Proof.
  intros n Hn. unfold digits.
  set (fuel := S (Z.to_nat (Z.log2 (Z.max 1 n)))).
  assert (Hfuel : 0 <= n < 2 ^ Z.of_nat fuel).
  { unfold fuel. rewrite Nat2Z.inj_succ, Z2Nat.id by apply Z.log2_nonneg.
    pose proof (Z.log2_spec (Z.max 1 n) ltac:(lia)) as [_ H]. lia. }
  destruct (digits_fuel_spec fuel n [] ltac:(unfold fuel; lia) Hfuel) as (ds & H1 & H2 & H3 & H4 & H5).
  rewrite app_nil_r in H1. rewrite H1. auto.
Qed.

Theorem digits_correct : forall n, 0 <= n ->
  digits_value (digits n) = n /\ Forall (fun d => 48 <= d <= 57) (digits n) /\ digits n <> [].
Proof.
  intros n Hn. destruct (digits_spec n Hn) as (H1 & H2 & H3 & _). auto.
Qed.

(** Corrected statement: the exact-width clause needs [0 < k]: with k = 0 and
    n = 0 one has [n < 10 ^ 0] but [pad0 0 0 = "0"] has length 1 (Python's
    "{:00d}".format(0) is "0" as well). *)
Example pad0_width_counterexample : 0 < 10 ^ Z.of_nat 0 /\ length (pad0 0 0) = 1%nat.
Proof. vm_compute. split; reflexivity. Qed.

Theorem pad0_correct : forall k n, 0 <= n ->
  digits_value (pad0 k n) = n /\ (k <= length (pad0 k n))%nat
  /\ ((0 < k)%nat -> n < 10 ^ Z.of_nat k -> length (pad0 k n) = k).
Proof.
  intros k n Hn. destruct (digits_spec n Hn) as (H1 & H2 & H3 & H4).
  unfold pad0. cbv zeta. rewrite digits_value_zeros, app_length, repeat_length.
  split; [exact H1|]. split; [lia|].
  intros Hk Hlt. pose proof (H4 k Hk Hlt). lia.
Qed.

Lemma pad0_digits : forall k n, 0 <= n -> Forall (fun d => 48 <= d <= 57) (pad0 k n).
Proof.
  intros k n Hn. destruct (digits_spec n Hn) as (_ & H2 & _).
  unfold pad0. cbv zeta. apply Forall_app. split; [|exact H2].
  apply Forall_forall. intros x Hx. apply repeat_spec in Hx. lia.
Qed.

Corollary C15_field_widths : forall M, 0 <= M -> let '(h, m, s, i) := fields M in
  length (pad0 2 m) = 2%nat /\ length (pad0 2 s) = 2%nat /\ length (pad0 3 i) = 3%nat.
Proof.
  intros M HM. pose proof (C15_fields M HM) as HF.
  destruct (fields M) as [[[h m] s] i].
  destruct HF as (_ & _ & Hm & Hs & Hi).
  split; [|split].
  - apply pad0_correct; [lia|lia|]. change (10 ^ Z.of_nat 2) with 100. lia.
  - apply pad0_correct; [lia|lia|]. change (10 ^ Z.of_nat 2) with 100. lia.
  - apply pad0_correct; [lia|lia|]. change (10 ^ Z.of_nat 3) with 1000. lia.
Qed.

(* ------------------------------------------------------------------ *)
(** * %S : three decimals, round half to even on the exact binary value *)

Lemma dy_round_near : forall m e, e < 0 -> let d := 2 ^ (- e) in
  2 * Z.abs (dy_round m e * d - m) <= d
  /\ (2 * Z.abs (dy_round m e * d - m) = d -> Z.even (dy_round m e) = true).
Proof.
  intros m e He d.
  assert (Hd : 0 < d) by (apply Z.pow_pos_nonneg; lia).
  unfold dy_round. destruct (0 <=? e) eqn:Ee; [lia|]. fold d.
  pose proof (Z.div_mod m d ltac:(lia)) as Hm.
  pose proof (Z.mod_pos_bound m d Hd) as Hr.
  set (q := m / d) in *. set (r := m mod d) in *.
  destruct (2 * r <? d) eqn:E1; [split; nia|].
  destruct (d <? 2 * r) eqn:E2; [split; nia|].
  destruct (Z.even q) eqn:E3.
  - split; [nia|]. intros _. exact E3.
  - split; [nia|]. intros _. rewrite Z.even_add, E3. reflexivity.
Qed.

Lemma thousandths_eq : forall x m e n, to_me x = Some (m, e) -> thousandths x = Some n ->
  n = dy_round (1000 * m) e.
Proof.
  intros x m e n Hx Hn. unfold thousandths in Hn. rewrite Hx in Hn. congruence.
Qed.

Theorem C15_S_rounding : forall x m e n, to_me x = Some (m, e) -> e < 0 -> thousandths x = Some n ->
  2 * Z.abs (n * 2 ^ (- e) - 1000 * m) <= 2 ^ (- e).
Proof.
  intros x m e n Hx He Hn. rewrite (thousandths_eq x m e n Hx Hn).
  exact (proj1 (dy_round_near (1000 * m) e He)).
Qed.

(** an exact tie goes to the even thousandth *)
Theorem C15_S_ties_even : forall x m e n, to_me x = Some (m, e) -> e < 0 -> thousandths x = Some n ->
  2 * Z.abs (n * 2 ^ (- e) - 1000 * m) = 2 ^ (- e) -> Z.even n = true.
Proof.
  intros x m e n Hx He Hn. rewrite (thousandths_eq x m e n Hx Hn).
  exact (proj2 (dy_round_near (1000 * m) e He)).
Qed.

(** an integer-valued double is printed exactly *)
Theorem C15_S_exact : forall x m e n, to_me x = Some (m, e) -> 0 <= e -> thousandths x = Some n ->
  n = 1000 * m * 2 ^ e.
Proof.
  intros x m e n Hx He Hn. rewrite (thousandths_eq x m e n Hx Hn).
  unfold dy_round. destruct (0 <=? e) eqn:Ee; [reflexivity|lia].
Qed.

(** %S fails exactly on inf / nan *)
Theorem C15_S_total : forall x, (exists s, format_time [37; 83] x = Ok s) <-> to_me x <> None.
Proof.
  intros x. unfold format_time. cbv beta iota. unfold fmt3, thousandths.
  destruct (to_me x) as [[m e]|]; split.
  - intros _; discriminate.
  - intros _. eexists. reflexivity.
  - intros (s & Hs). discriminate.
  - intros H. congruence.
Qed.

(* ------------------------------------------------------------------ *)
(** * Template scan *)

Definition directive (c : Z) : option piece :=
  if c =? 104 then Some Hrs else if c =? 109 then Some Mins
  else if c =? 115 then Some Secs else if c =? 105 then Some Ms else None.

Definition is_directive (c : Z) : bool :=
  (c =? 104) || (c =? 109) || (c =? 115) || (c =? 105).

Lemma directive_none : forall c, directive c = None <-> is_directive c = false.
Proof.
  intros c. unfold directive, is_directive.
  destruct (c =? 104); [split; discriminate|].
  destruct (c =? 109); [split; discriminate|].
  destruct (c =? 115); [split; discriminate|].
  destruct (c =? 105); [split; discriminate|]. split; reflexivity.
Qed.

Lemma directive_some : forall c, is_directive c = true -> exists p, directive c = Some p.
Proof.
  intros c H. destruct (directive c) as [p|] eqn:E; [exists p; reflexivity|].
  apply directive_none in E. congruence.
Qed.

Lemma is_directive_iff : forall c, is_directive c = true <-> c = 104 \/ c = 109 \/ c = 115 \/ c = 105.
Proof. intros c. unfold is_directive. lia. Qed.

Lemma parse_nil : parse_template [] = Ok [].
Proof. reflexivity. Qed.

Lemma parse_percent_end : parse_template [37] = Err TimeFormatError.
Proof. reflexivity. Qed.

Lemma parse_percent_cons : forall c rest, parse_template (37 :: c :: rest) =
  match directive c with
  | None => Err TimeFormatError
  | Some p => match parse_template rest with Ok l => Ok (p :: l) | Err e => Err e end
  end.
Proof. reflexivity. Qed.

Lemma parse_other : forall c rest, c <> 37 -> parse_template (c :: rest) =
  match parse_template rest with Ok l => Ok (Lit c :: l) | Err e => Err e end.
Proof.
  intros c rest Hc.
  destruct c as [|p|p]; try reflexivity.
  repeat (destruct p as [p|p|]; try reflexivity).
  congruence.
Qed.

(** every '%' is followed by one of h m s i (a directive letter is consumed
    with its '%') *)
Fixpoint well_formed_template (t : list Z) : bool :=
  match t with
  | [] => true
  | c :: rest =>
      if c =? 37 then
        match rest with
        | [] => false
        | d :: rest' => is_directive d && well_formed_template rest'
        end
      else well_formed_template rest
  end.

Lemma list_ind2 : forall (P : list Z -> Prop),
  P [] -> (forall a, P [a]) -> (forall a b l, P l -> P (b :: l) -> P (a :: b :: l)) ->
  forall l, P l.
Proof.
  intros P H0 H1 H2 l.
  assert (H : P l /\ forall a, P (a :: l)).
  { induction l as [|b l [IHa IHb]]; [split; [exact H0|exact H1]|].
    split; [apply IHb|]. intros a. apply H2; [exact IHa|apply IHb]. }
  exact (proj1 H).
Qed.

Theorem C15_unknown_directive : forall pre c rest, c <> 104 -> c <> 109 -> c <> 115 -> c <> 105 -> ~ In 37 pre ->
  parse_template (pre ++ 37 :: c :: rest) = Err TimeFormatError.
Proof.
  intros pre c rest H1 H2 H3 H4. induction pre as [|a pre IH]; intros Hpre.
  - cbn [app]. rewrite parse_percent_cons.
    assert (E : directive c = None) by (apply directive_none; unfold is_directive; lia).
    rewrite E. reflexivity.
  - cbn [app]. rewrite parse_other by (intros ->; apply Hpre; left; reflexivity).
    rewrite IH by (intros Hin; apply Hpre; right; exact Hin). reflexivity.
Qed.

Theorem C15_trailing_percent : forall pre, ~ In 37 pre -> parse_template (pre ++ [37]) = Err TimeFormatError.
Proof.
  induction pre as [|a pre IH]; intros Hpre.
  - reflexivity.
  - cbn [app]. rewrite parse_other by (intros ->; apply Hpre; left; reflexivity).
    rewrite IH by (intros Hin; apply Hpre; right; exact Hin). reflexivity.
Qed.

Theorem C15_parse_only_error : forall t e, parse_template t = Err e -> e = TimeFormatError.
Proof.
  intros t. induction t as [|a|a b l IHl IHbl] using list_ind2; intros e.
  - discriminate.
  - destruct (Z.eq_dec a 37) as [->|Ha].
    + rewrite parse_percent_end. congruence.
    + rewrite parse_other by exact Ha. rewrite parse_nil. discriminate.
  - destruct (Z.eq_dec a 37) as [->|Ha].
    + rewrite parse_percent_cons. destruct (directive b) as [p|]; [|congruence].
      destruct (parse_template l) as [ps|e'] eqn:E; [discriminate|].
      intros H; injection H as <-. apply IHl. reflexivity.
    + rewrite parse_other by exact Ha.
      destruct (parse_template (b :: l)) as [ps|e'] eqn:E; [discriminate|].
      intros H; injection H as <-. apply IHbl. reflexivity.
Qed.

Theorem C15_parse_ok_iff : forall t, (exists ps, parse_template t = Ok ps) <-> well_formed_template t = true.
Proof.
  intros t. induction t as [|a|a b l IHl IHbl] using list_ind2.
  - split; [reflexivity|]. intros _. exists []. reflexivity.
  - destruct (Z.eq_dec a 37) as [->|Ha].
    + rewrite parse_percent_end. split; [intros (ps & H); discriminate|discriminate].
    + rewrite parse_other by exact Ha. rewrite parse_nil. cbn [well_formed_template].
      destruct (a =? 37) eqn:E; [lia|]. split; [reflexivity|]. intros _. eexists; reflexivity.
  - destruct (Z.eq_dec a 37) as [->|Ha].
    + rewrite parse_percent_cons. cbn [well_formed_template]. change (37 =? 37) with true. cbv iota.
      destruct (directive b) as [p|] eqn:Ed.
      * assert (Hb : is_directive b = true).
        { destruct (is_directive b) eqn:Eb; [reflexivity|]. apply directive_none in Eb. congruence. }
        rewrite Hb. cbn [andb]. rewrite <- IHl.
        destruct (parse_template l) as [ps|e']; split.
        -- intros _. exists ps. reflexivity.
        -- intros _. eexists. reflexivity.
        -- intros (ps & H). discriminate.
        -- intros (ps & H). discriminate.
      * apply directive_none in Ed. rewrite Ed. cbn [andb].
        split; [intros (ps & H); discriminate|discriminate].
    + rewrite parse_other by exact Ha.
      replace (well_formed_template (a :: b :: l)) with (well_formed_template (b :: l))
        by (cbn [well_formed_template]; destruct (a =? 37) eqn:E; [lia|reflexivity]).
      rewrite <- IHbl.
      destruct (parse_template (b :: l)) as [ps|e']; split.
      * intros _. exists ps. reflexivity.
      * intros _. eexists. reflexivity.
      * intros (ps & H). discriminate.
      * intros (ps & H). discriminate.
Qed.

(** a well-formed prefix is consumed exactly, so the scan of a concatenation
    continues with the suffix *)
Lemma parse_app : forall pre ps suf, parse_template pre = Ok ps ->
  parse_template (pre ++ suf) =
  match parse_template suf with Ok l => Ok (ps ++ l) | Err e => Err e end.
Proof.
  intros pre. induction pre as [|a|a b l IHl IHbl] using list_ind2; intros ps suf Hp.
  - rewrite parse_nil in Hp. injection Hp as <-. cbn [app].
    destruct (parse_template suf); reflexivity.
  - destruct (Z.eq_dec a 37) as [->|Ha].
    + rewrite parse_percent_end in Hp. discriminate.
    + rewrite parse_other, parse_nil in Hp by exact Ha. injection Hp as <-.
      cbn [app]. rewrite parse_other by exact Ha.
      destruct (parse_template suf); reflexivity.
  - destruct (Z.eq_dec a 37) as [->|Ha].
    + rewrite parse_percent_cons in Hp. cbn [app]. rewrite parse_percent_cons.
      destruct (directive b) as [p|]; [|discriminate].
      destruct (parse_template l) as [l'|e'] eqn:El; [|discriminate].
      injection Hp as <-. rewrite (IHl l' suf eq_refl).
      destruct (parse_template suf); reflexivity.
    + rewrite parse_other in Hp by exact Ha.
      change ((a :: b :: l) ++ suf) with (a :: ((b :: l) ++ suf)).
      rewrite parse_other by exact Ha.
      destruct (parse_template (b :: l)) as [l'|e'] eqn:El; [|discriminate].
      injection Hp as <-. rewrite (IHbl l' suf eq_refl).
      destruct (parse_template suf); reflexivity.
Qed.

(** an unknown directive anywhere after a well-formed prefix (not only the
    first '%') is a TimeFormatError *)
Theorem C15_unknown_directive_anywhere : forall pre c rest,
  well_formed_template pre = true -> is_directive c = false ->
  parse_template (pre ++ 37 :: c :: rest) = Err TimeFormatError.
Proof.
  intros pre c rest Hpre Hc. apply C15_parse_ok_iff in Hpre. destruct Hpre as (ps & Hps).
  rewrite (parse_app pre ps _ Hps), parse_percent_cons.
  apply directive_none in Hc. rewrite Hc. reflexivity.
Qed.

Theorem C15_trailing_percent_anywhere : forall pre,
  well_formed_template pre = true -> parse_template (pre ++ [37]) = Err TimeFormatError.
Proof.
  intros pre Hpre. apply C15_parse_ok_iff in Hpre. destruct Hpre as (ps & Hps).
  rewrite (parse_app pre ps _ Hps), parse_percent_end. reflexivity.
Qed.

(** the boolean scan means what it says: every occurrence of '%' in the
    template is immediately followed by one of h, m, s, i *)
Definition every_percent_followed (t : list Z) : Prop :=
  forall pre suf, t = pre ++ 37 :: suf -> exists c rest, suf = c :: rest /\ is_directive c = true.

Theorem well_formed_template_meaning : forall t,
  well_formed_template t = true <-> every_percent_followed t.
Proof.
  intros t. unfold every_percent_followed.
  induction t as [|a|a b l IHl IHbl] using list_ind2.
  - split; [|reflexivity]. intros _ pre suf H. destruct pre; discriminate.
  - cbn [well_formed_template]. destruct (a =? 37) eqn:E.
    + assert (a = 37) by lia. subst a. split; [discriminate|].
      intros H. destruct (H [] [] eq_refl) as (c & rest & Hc & _). discriminate.
    + split; [|reflexivity]. intros _ pre suf H.
      destruct pre as [|x pre]; cbn [app] in H.
      * injection H as H _. lia.
      * injection H as _ H. destruct pre; discriminate.
  - destruct (Z.eq_dec a 37) as [->|Ha].
    + cbn [well_formed_template]. change (37 =? 37) with true. cbv iota.
      rewrite andb_true_iff, IHl. split.
      * intros [Hb Hl] pre suf H.
        destruct pre as [|x pre]; cbn [app] in H.
        { injection H as <-. exists b, l. auto. }
        injection H as _ H.
        destruct pre as [|y pre]; cbn [app] in H.
        { injection H as -> _. discriminate. }
        injection H as _ H. exact (Hl pre suf H).
      * intros H. split.
        { destruct (H [] (b :: l) eq_refl) as (c & rest & Hc & Hd). injection Hc as <- _. exact Hd. }
        intros pre suf Hl. apply (H (37 :: b :: pre) suf). rewrite Hl. reflexivity.
    + replace (well_formed_template (a :: b :: l)) with (well_formed_template (b :: l))
        by (cbn [well_formed_template]; destruct (a =? 37) eqn:E; [lia|reflexivity]).
      rewrite IHbl. split.
      * intros Hbl pre suf H.
        destruct pre as [|x pre]; cbn [app] in H.
        { injection H as H _. congruence. }
        injection H as _ H. exact (Hbl pre suf H).
      * intros H pre suf Hbl. apply (H (a :: pre) suf). rewrite Hbl. reflexivity.
Qed.

(** the literal format tests of make_duration_formatter *)
Ltac crackZ z :=
  destruct z as [|?p|?p]; try discriminate;
  repeat (match goal with p : positive |- _ => destruct p as [?p|?p|]; try discriminate end).

Lemma fmt_is_S : forall fmt,
  match fmt with [37; 83] => true | _ => false end = true -> fmt = [37; 83].
Proof.
  intros fmt H. destruct fmt as [|a fmt]; [discriminate|]. crackZ a.
  destruct fmt as [|b fmt]; [discriminate|]. crackZ b.
  destruct fmt; [reflexivity|discriminate].
Qed.

Lemma fmt_is_I : forall fmt,
  match fmt with [37; 73] => true | _ => false end = true -> fmt = [37; 73].
Proof.
  intros fmt H. destruct fmt as [|a fmt]; [discriminate|]. crackZ a.
  destruct fmt as [|b fmt]; [discriminate|]. crackZ b.
  destruct fmt; [reflexivity|discriminate].
Qed.

Lemma fmt_is_S_or_I : forall fmt,
  match fmt with [37; 83] => true | [37; 73] => true | _ => false end = true ->
  fmt = [37; 83] \/ fmt = [37; 73].
Proof.
  intros fmt H. destruct fmt as [|a fmt]; [discriminate|]. crackZ a.
  destruct fmt as [|b fmt]; [discriminate|]. crackZ b.
  - destruct fmt; [(left; reflexivity) || (right; reflexivity)|discriminate].
  - destruct fmt; [(left; reflexivity) || (right; reflexivity)|discriminate].
Qed.

(** the formatter constructor fails only with TimeFormatError, and exactly on
    ill-formed templates other than "%S" and "%I" *)
Theorem C15_formatter_ok_iff : forall fmt,
  formatter_ok fmt = Ok tt <-> fmt = [37; 83] \/ fmt = [37; 73] \/ well_formed_template fmt = true.
Proof.
  intros fmt. unfold formatter_ok.
  destruct (match fmt with [37; 83] => true | [37; 73] => true | _ => false end) eqn:E.
  - split; [|reflexivity]. intros _.
    destruct (fmt_is_S_or_I fmt E); auto.
  - rewrite <- C15_parse_ok_iff. split.
    + destruct (parse_template fmt) as [ps|e]; [|discriminate]. intros _. right. right. exists ps. reflexivity.
    + intros [->|[->|(ps & H)]]; [discriminate|discriminate|]. rewrite H. reflexivity.
Qed.

Theorem C15_formatter_error_kind : forall fmt e, formatter_ok fmt = Err e -> e = TimeFormatError.
Proof.
  intros fmt e. unfold formatter_ok.
  destruct (match fmt with [37; 83] => true | [37; 73] => true | _ => false end); [discriminate|].
  destruct (parse_template fmt) as [ps|e'] eqn:E; [discriminate|].
  intros H; injection H as <-. exact (C15_parse_only_error fmt e' E).
Qed.

(* ------------------------------------------------------------------ *)
(** * %I and the fields print the same whole-millisecond value *)

Theorem C15_I_and_fields_agree : forall x M, millis x = Some M -> 0 <= M ->
  format_time [37;73] x = Ok (show_int M) /\ digits_value (digits M) = M
  /\ let '(h,m,s,i) := fields M in h * 3600000 + m * 60000 + s * 1000 + i = M.
Proof.
  intros x M Hx HM. split; [|split].
  - unfold format_time. cbv beta iota. rewrite Hx. reflexivity.
  - apply digits_correct. exact HM.
  - pose proof (C15_fields M HM) as HF. destruct (fields M) as [[[h m] s] i]. tauto.
Qed.

(** for M >= 0, %I is the plain decimal numeral *)
Lemma show_int_nonneg : forall M, 0 <= M -> show_int M = digits M.
Proof. intros M HM. unfold show_int. destruct (M <? 0) eqn:E; [lia|reflexivity]. Qed.

(** a template formats the same [millis x] through [fields] *)
Theorem C15_template_uses_millis : forall fmt ps x M,
  fmt <> [37; 83] -> fmt <> [37; 73] -> parse_template fmt = Ok ps -> millis x = Some M ->
  format_time fmt x = Ok (flat_map (render_piece M) ps).
Proof.
  intros fmt ps x M H1 H2 Hp Hx. unfold format_time.
  destruct (match fmt with [37; 83] => true | _ => false end) eqn:E1.
  { exfalso. exact (H1 (fmt_is_S fmt E1)). }
  destruct (match fmt with [37; 73] => true | _ => false end) eqn:E2.
  { exfalso. exact (H2 (fmt_is_I fmt E2)). }
  rewrite Hp, Hx. reflexivity.
Qed.

(* ------------------------------------------------------------------ *)
(** * Non-vacuity: 59.9996 = 0x1.dfff2e48e8a72p+5 *)

Definition x59_9996 : f64 := of_me 0x1dfff2e48e8a72 (-47).

(** "%S" -> "60.000" *)
Example C15_example_S : format_time [37; 83] x59_9996 = Ok [54; 48; 46; 48; 48; 48].
Proof. vm_compute. reflexivity. Qed.

(** "%I" -> "59999" *)
Example C15_example_I : format_time [37; 73] x59_9996 = Ok [53; 57; 57; 57; 57].
Proof. vm_compute. reflexivity. Qed.

(** "%h:%m:%s.%i" -> "00:00:59.999" *)
Example C15_example_hmsi :
  format_time [37; 104; 58; 37; 109; 58; 37; 115; 46; 37; 105] x59_9996
  = Ok [48; 48; 58; 48; 48; 58; 53; 57; 46; 57; 57; 57].
Proof. vm_compute. reflexivity. Qed.

Example C15_example_millis : millis x59_9996 = Some 59999.
Proof. vm_compute. reflexivity. Qed.

(** hypotheses of C15_S_rounding are met, with n = 60000 *)
Example C15_example_S_rounding :
  to_me x59_9996 = Some (0x1dfff2e48e8a72, -47) /\ -47 < 0 /\ thousandths x59_9996 = Some 60000.
Proof. vm_compute. repeat split; reflexivity. Qed.

Example C15_example_fields : fields 3723004 = (1, 2, 3, 4).
Proof. vm_compute. reflexivity. Qed.

Example C15_example_digits : digits 59999 = [53; 57; 57; 57; 57] /\ digits 0 = [48] /\ pad0 3 4 = [48; 48; 52].
Proof. vm_compute. repeat split; reflexivity. Qed.

(** "ab%xc" : unknown directive (instance of the theorem); "%h:%x" : unknown
    directive after a good one; "ab%" : trailing percent *)
Example C15_example_unknown : parse_template [97; 98; 37; 120; 99] = Err TimeFormatError.
Proof.
  apply (C15_unknown_directive [97; 98] 120 [99]); try lia.
  intros [H|[H|[]]]; discriminate.
Qed.

Example C15_example_unknown_later : formatter_ok [37; 104; 58; 37; 120] = Err TimeFormatError.
Proof. vm_compute. reflexivity. Qed.

(** "%h:%x" through the general theorem *)
Example C15_example_unknown_later_parse : parse_template [37; 104; 58; 37; 120] = Err TimeFormatError.
Proof. apply (C15_unknown_directive_anywhere [37; 104; 58] 120 []); reflexivity. Qed.

Example C15_example_trailing : parse_template [97; 98; 37] = Err TimeFormatError.
Proof.
  apply (C15_trailing_percent [97; 98]). intros [H|[H|[]]]; discriminate.
Qed.

Example C15_example_well_formed :
  well_formed_template [37; 104; 58; 37; 109; 58; 37; 115; 46; 37; 105] = true
  /\ well_formed_template [37; 104; 58; 37; 120] = false
  /\ well_formed_template [37; 37; 104] = false.
Proof. vm_compute. repeat split; reflexivity. Qed.

Print Assumptions C15_fields.
Print Assumptions digits_correct.
Print Assumptions pad0_correct.
Print Assumptions pad0_digits.
Print Assumptions C15_field_widths.
Print Assumptions dy_round_near.
Print Assumptions C15_S_rounding.
Print Assumptions C15_S_ties_even.
Print Assumptions C15_S_exact.
Print Assumptions C15_S_total.
Print Assumptions C15_unknown_directive.
Print Assumptions C15_trailing_percent.
Print Assumptions C15_parse_only_error.
Print Assumptions C15_parse_ok_iff.
Print Assumptions parse_app.
Print Assumptions C15_unknown_directive_anywhere.
Print Assumptions C15_trailing_percent_anywhere.
Print Assumptions well_formed_template_meaning.
Print Assumptions C15_formatter_ok_iff.
Print Assumptions C15_formatter_error_kind.
Print Assumptions C15_I_and_fields_agree.
Print Assumptions C15_template_uses_millis.
Print Assumptions C15_example_S.
(* The Reals axioms (sig_forall_dec, sig_not_dec, functional_extensionality_dep,
   Classical_Prop.classic) listed for statements mentioning f64 values come from
   inside Flocq's definitions of the binary64 operations; no axiom is declared
   in this file. *)
