(** auditok.util.make_duration_formatter: the three time formats of the
    command line (%S, %I, and %h %m %s %i templates). Characters are Z code
    points. Definitions only. *)
From Coq Require Import ZArith List Bool.
From AV Require Import Base.PyList Base.PyFloat Tok.Model.
Import ListNotations.
Open Scope Z_scope.

(** int(seconds * 1000): whole milliseconds by truncation of the binary64 product *)
Definition millis (x : f64) : option Z := py_int (fmul x (of_Z 1000)).

(** the divmod chain *)
Definition fields (M : Z) : Z * Z * Z * Z :=
  let hrs := M / 3600000 in
  let r1 := M mod 3600000 in
  let mins := r1 / 60000 in
  let r2 := r1 mod 60000 in
  let secs := r2 / 1000 in
  let ms := r2 mod 1000 in
  (hrs, mins, secs, ms).

(** decimal digits of n >= 0, most significant first (fuel = enough digits) *)
Fixpoint digits_fuel (fuel : nat) (n : Z) (acc : list Z) : list Z :=
  match fuel with
  | O => acc
  | S f => let acc' := (48 + n mod 10) :: acc in
           if n / 10 =? 0 then acc' else digits_fuel f (n / 10) acc'
  end.

Definition digits (n : Z) : list Z := digits_fuel (S (Z.to_nat (Z.log2 (Z.max 1 n)))) n [].

(** "{:0kd}" for n >= 0 *)
Definition pad0 (k : nat) (n : Z) : list Z :=
  let d := digits n in repeat 48 (k - length d) ++ d.

Definition show_int (n : Z) : list Z :=
  if n <? 0 then 45 :: digits (- n) else digits n.

(** "{:.3f}" of the exact dyadic value m*2^e: nearest multiple of 1/1000,
    ties to even (Python formats the exact binary value, correctly rounded). *)
Definition thousandths (x : f64) : option Z :=
  match to_me x with Some (m, e) => Some (dy_round (1000 * m) e) | None => None end.

Definition fmt3 (x : f64) : option (list Z) :=
  match thousandths x with
  | None => None
  | Some n =>
      let a := Z.abs n in
      let neg := match to_me x with Some (m, _) => m <? 0 | None => false end in
      Some ((if neg then [45] else []) ++ digits (a / 1000) ++ [46] ++ pad0 3 (a mod 1000))
  end.

Inductive piece := Lit (c : Z) | Hrs | Mins | Secs | Ms.

(** Scan of a %h/%m/%s/%i template: each '%' followed by h, m, s or i is a
    directive; any other '%' is an unknown directive. *)
Fixpoint parse_template (t : list Z) : result (list piece) :=
  match t with
  | [] => Ok []
  | 37 :: c :: rest =>
      let k := if c =? 104 then Some Hrs else if c =? 109 then Some Mins
               else if c =? 115 then Some Secs else if c =? 105 then Some Ms else None in
      match k with
      | None => Err TimeFormatError
      | Some p => match parse_template rest with Ok l => Ok (p :: l) | Err e => Err e end
      end
  | [37] => Err TimeFormatError
  | c :: rest => match parse_template rest with Ok l => Ok (Lit c :: l) | Err e => Err e end
  end.

Definition render_piece (M : Z) (p : piece) : list Z :=
  let '(h, m, s, i) := fields M in
  match p with
  | Lit c => [c]
  | Hrs => pad0 2 h
  | Mins => pad0 2 m
  | Secs => pad0 2 s
  | Ms => pad0 3 i
  end.

(** make_duration_formatter(fmt)(seconds) *)
Definition format_time (fmt : list Z) (x : f64) : result (list Z) :=
  if match fmt with [37; 83] => true | _ => false end then       (* "%S" *)
    match fmt3 x with Some s => Ok s | None => Err ValueError end
  else if match fmt with [37; 73] => true | _ => false end then  (* "%I" *)
    match millis x with Some M => Ok (show_int M) | None => Err ValueError end
  else
    match parse_template fmt with
    | Err e => Err e
    | Ok ps => match millis x with
               | Some M => Ok (flat_map (render_piece M) ps)
               | None => Err ValueError
               end
    end.

(** the formatter is built before any duration is formatted: an unknown
    directive is an error at construction *)
Definition formatter_ok (fmt : list Z) : result unit :=
  if match fmt with [37; 83] => true | [37; 73] => true | _ => false end then Ok tt
  else match parse_template fmt with Ok _ => Ok tt | Err e => Err e end.
