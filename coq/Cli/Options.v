(** Documented command-line option table of auditok (cmdline.py) and the
    namespace -> keyword mapping of cmdline_util.make_kwargs, as data, with
    the derived "flow" of each option to the API parameter it feeds.

    Tie to /repo: harness/py2coq/cli.py extracts both tables from the source on
    every run (CliGen.v) and CliTie.v checks them equal to these by
    reflexivity, then re-derives the flow theorem over the generated tables. *)
From Coq Require Import String List Bool.
Import ListNotations.
Open Scope string_scope.

Record opt := mkOpt { flags : list string; dest : string; typ : string; default : string; action : string; nargs : string }.


Definition options : list opt := [
  mkOpt ["-a"; "--analysis-window"] "analysis_window" "float" "0.01" "" "";
  mkOpt ["-c"; "--channels"] "channels" "int" "1" "" "";
  mkOpt ["-C"; "--command"] "command" "str" "<none>" "" "";
  mkOpt ["-D"; "--debug"] "debug" "" "False" "store_true" "";
  mkOpt ["--debug-file"] "debug_file" "str" "None" "" "";
  mkOpt ["-d"; "--drop-trailing-silence"] "drop_trailing_silence" "" "False" "store_true" "";
  mkOpt ["-E"; "--echo"] "echo" "" "False" "store_true" "";
  mkOpt ["-e"; "--energy-threshold"] "energy_threshold" "float" "50" "" "";
  mkOpt ["-F"; "--audio-frame-per-buffer"] "frame_per_buffer" "int" "1024" "" "";
  mkOpt [] "input" "" "None" "" "?";
  mkOpt ["-I"; "--input-device-index"] "input_device_index" "int" "None" "" "";
  mkOpt ["-f"; "--input-format"] "input_format" "str" "None" "" "";
  mkOpt ["-j"; "--join-detections"] "join_detections" "float" "None" "" "";
  mkOpt ["-L"; "--large-file"] "large_file" "" "False" "store_true" "";
  mkOpt ["-m"; "--max-duration"] "max_duration" "float" "5" "" "";
  mkOpt ["-M"; "--max-read"] "max_read" "float" "None" "" "";
  mkOpt ["-s"; "--max-silence"] "max_silence" "float" "0.3" "" "";
  mkOpt ["-n"; "--min-duration"] "min_duration" "float" "0.2" "" "";
  mkOpt ["-T"; "--output-format"] "output_format" "str" "None" "" "";
  mkOpt ["-p"; "--plot"] "plot" "" "False" "store_true" "";
  mkOpt ["--printf"] "printf" "str" "'{id} {start} {end}'" "" "";
  mkOpt ["-B"; "--progress-bar"] "progress_bar" "" "False" "store_true" "";
  mkOpt ["-q"; "--quiet"] "quiet" "" "False" "store_true" "";
  mkOpt ["-w"; "--width"] "sample_width" "int" "2" "" "";
  mkOpt ["-r"; "--rate"] "sampling_rate" "int" "16000" "" "";
  mkOpt ["-o"; "--save-detections-as"] "save_detections_as" "str" "None" "" "";
  mkOpt ["--save-image"] "save_image" "str" "<none>" "" "";
  mkOpt ["-O"; "--save-stream"] "save_stream" "str" "None" "" "";
  mkOpt ["-R"; "--strict-min-duration"] "strict_min_duration" "" "False" "store_true" "";
  mkOpt ["--time-format"] "time_format" "str" "'%S'" "" "";
  mkOpt ["--timestamp-format"] "timestamp_format" "str" "'%Y/%m/%d %H:%M:%S'" "" "";
  mkOpt ["-u"; "--use-channel"] "use_channel" "str" "None" "" "";
  mkOpt ["--version"; "-v"] "version" "" "<none>" "version" ""
].

Definition kwargs : list (string * string * string) := [
  ("io", "input", "input");
  ("io", "audio_format", "input_format");
  ("io", "max_read", "max_read");
  ("io", "block_dur", "analysis_window");
  ("io", "sampling_rate", "sampling_rate");
  ("io", "sample_width", "sample_width");
  ("io", "channels", "channels");
  ("io", "use_channel", "local:use_channel<-use_channel");
  ("io", "save_stream", "save_stream");
  ("io", "save_detections_as", "save_detections_as");
  ("io", "join_detections", "join_detections");
  ("io", "export_format", "output_format");
  ("io", "large_file", "large_file");
  ("io", "frames_per_buffer", "frame_per_buffer");
  ("io", "input_device_index", "input_device_index");
  ("io", "record", "local:record<-plot,save_image,save_stream");
  ("split", "min_dur", "min_duration");
  ("split", "max_dur", "max_duration");
  ("split", "max_silence", "max_silence");
  ("split", "drop_trailing_silence", "drop_trailing_silence");
  ("split", "strict_min_dur", "strict_min_duration");
  ("split", "energy_threshold", "energy_threshold");
  ("miscellaneous", "echo", "echo");
  ("miscellaneous", "progress_bar", "progress_bar");
  ("miscellaneous", "command", "command");
  ("miscellaneous", "quiet", "quiet");
  ("miscellaneous", "printf", "printf");
  ("miscellaneous", "time_format", "time_format");
  ("miscellaneous", "timestamp_format", "timestamp_format")
].

(** the option carrying [flag] *)
Definition find_opt (tbl : list opt) (flag : string) : option opt :=
  find (fun o => existsb (String.eqb flag) (flags o)) tbl.

(** (group, keyword) pairs fed by namespace attribute [d] (directly, or through the local derived from it) *)
Definition fed_by (kw : list (string * string * string)) (d : string) : list (string * string) :=
  map (fun r => (fst (fst r), snd (fst r)))
      (filter (fun r => String.eqb (snd r) d || String.eqb (snd r) ("local:" ++ d ++ "<-" ++ d)) kw).

(** flag -> (type, default, action, [(group, keyword)]) *)
Definition flow (tbl : list opt) (kw : list (string * string * string)) (flag : string)
  : option (string * string * string * list (string * string)) :=
  match find_opt tbl flag with
  | Some o => Some (typ o, default o, action o, fed_by kw (dest o))
  | None => None
  end.

(** The options named in the property statement, short and long spelling. *)
Definition stated : list (string * string) :=
  [("-n", "--min-duration"); ("-m", "--max-duration"); ("-s", "--max-silence"); ("-a", "--analysis-window");
   ("-e", "--energy-threshold"); ("-d", "--drop-trailing-silence"); ("-R", "--strict-min-duration");
   ("-u", "--use-channel"); ("-M", "--max-read"); ("-r", "--rate"); ("-c", "--channels"); ("-w", "--width");
   ("-f", "--input-format"); ("-L", "--large-file"); ("-q", "--quiet"); ("-o", "--save-detections-as");
   ("-O", "--save-stream"); ("-j", "--join-detections")].

Definition documented_flow : list (option (string * string * string * list (string * string))) :=
  [Some ("float", "0.2", "", [("split", "min_dur")]);
   Some ("float", "5", "", [("split", "max_dur")]);
   Some ("float", "0.3", "", [("split", "max_silence")]);
   Some ("float", "0.01", "", [("io", "block_dur")]);
   Some ("float", "50", "", [("split", "energy_threshold")]);
   Some ("", "False", "store_true", [("split", "drop_trailing_silence")]);
   Some ("", "False", "store_true", [("split", "strict_min_dur")]);
   Some ("str", "None", "", [("io", "use_channel")]);
   Some ("float", "None", "", [("io", "max_read")]);
   Some ("int", "16000", "", [("io", "sampling_rate")]);
   Some ("int", "1", "", [("io", "channels")]);
   Some ("int", "2", "", [("io", "sample_width")]);
   Some ("str", "None", "", [("io", "audio_format")]);
   Some ("", "False", "store_true", [("io", "large_file")]);
   Some ("", "False", "store_true", [("miscellaneous", "quiet")]);
   Some ("str", "None", "", [("io", "save_detections_as")]);
   Some ("str", "None", "", [("io", "save_stream")]);
   Some ("float", "None", "", [("io", "join_detections")])].

(** every flag is unambiguous: no two options share a flag, no two keywords share a (group, name) *)
Fixpoint nodupb (l : list string) : bool :=
  match l with [] => true | x :: r => negb (existsb (String.eqb x) r) && nodupb r end.
Definition table_ok (tbl : list opt) (kw : list (string * string * string)) : bool :=
  nodupb (flat_map flags tbl) && nodupb (map dest tbl)
  && nodupb (map (fun r => fst (fst r) ++ "/" ++ snd (fst r)) kw).
