(** C15, option part: each documented option (short and long spelling alike)
    has the documented type and default and feeds the documented API keyword. *)
From Coq Require Import String List Bool.
From AV Require Import Cli.Options.
Import ListNotations.
Open Scope string_scope.

Theorem C15_table_short : map (fun p => flow options kwargs (fst p)) stated = documented_flow.
Proof. vm_compute. reflexivity. Qed.

Theorem C15_table_long : map (fun p => flow options kwargs (snd p)) stated = documented_flow.
Proof. vm_compute. reflexivity. Qed.

Theorem C15_table_unambiguous : table_ok options kwargs = true.
Proof. vm_compute. reflexivity. Qed.

(** printing defaults *)
Theorem C15_print_defaults :
  flow options kwargs "--printf" = Some ("str", "'{id} {start} {end}'", "", [("miscellaneous", "printf")])
  /\ flow options kwargs "--time-format" = Some ("str", "'%S'", "", [("miscellaneous", "time_format")]).
Proof. vm_compute. split; reflexivity. Qed.
