(** C07 - A window is active exactly when its log energy reaches the threshold. *)
From Coq Require Import ZArith List Bool Reals.
From AV Require Import Base.PyList Tok.Model Audio.Pcm Audio.Energy Audio.EnergyProofs IO.WavProofs Audio.Selector.
Import ListNotations.
Open Scope Z_scope.

(** the integer decision IS the real-number statement 10*log10(S/N) >= p/q *)
Theorem C07_spec : forall S N p q : Z, 0 < S -> 0 < N -> 0 < q ->
  active_frac S N p q = true <-> (db S N >= IZR p / IZR q)%R.
Proof. exact EnergyProofs.C07_spec. Qed.

Theorem C07_silence : forall N p q, 0 < q -> active_frac 0 N p q = true <-> (IZR p / IZR q <= -200)%R.
Proof. exact EnergyProofs.C07_silence. Qed.

Theorem C07_floor_irrelevant : forall S N, 0 < S -> 0 < N < 10 ^ 20 -> (db S N > -200)%R.
Proof. exact EnergyProofs.C07_floor_irrelevant. Qed.

(** raising the threshold can only turn active windows inactive *)
Theorem C07_monotone : forall w ch s p1 q1 p2 q2 data,
  0 < q1 -> 0 < q2 -> p1 * q2 <= p2 * q1 ->
  is_valid w ch s p2 q2 data = Ok true -> is_valid w ch s p1 q1 data = Ok true.
Proof. exact EnergyProofs.C07_monotone. Qed.

Theorem C07_any : forall w ch p q data, (ch <> 1)%nat ->
  is_valid w ch SAny p q data = Ok (existsb (fun x => active_chan x p q) (to_array w ch data)).
Proof. exact EnergyProofs.C07_any. Qed.

Theorem C07_selector_errors : forall w ch s p q data, (ch <> 1)%nat ->
  (is_valid w ch s p q data = Err ValueError
   <-> (s = SBad \/ exists i, s = SIdx i /\ ~ (- Z.of_nat ch <= i < Z.of_nat ch))).
Proof. exact EnergyProofs.C07_selector_errors. Qed.

Theorem C07_mono_ignores_selector : forall w s s' p q data,
  is_valid w 1 s p q data = is_valid w 1 s' p q data.
Proof. exact EnergyProofs.C07_mono_ignores_selector. Qed.

Theorem C07_neg_index : forall w ch i p q data, (ch <> 1)%nat -> - Z.of_nat ch <= i < 0 ->
  is_valid w ch (SIdx i) p q data = is_valid w ch (SIdx (i + Z.of_nat ch)) p q data.
Proof. exact EnergyProofs.C07_neg_index. Qed.

(** decoding: signed little-endian round trip, de-interleaving layout *)
Theorem C07_decode : forall w x, (0 < w)%nat ->
  - (256 ^ Z.of_nat w / 2) <= x < 256 ^ Z.of_nat w / 2 -> le_signed (le_encode w x) = x.
Proof. exact WavProofs.le_signed_encode. Qed.

(** the decision is the dispatch of make_channel_selector (tied to util.py by translation on every run, TieSelector.v)
    followed by the selection it names; accepted channel indices are exactly [-channels, channels) *)
Theorem C07_decision_via_selector : forall (w ch : nat) (s : sel) (p q : Z) (data : list Z),
  is_valid w ch s p q data =
  match resolve_selector (Z.of_nat ch) s with
  | Err e => Err e
  | Ok RAll => Ok (existsb (fun x => active_chan x p q) (to_array w ch data))
  | Ok RMix => Ok (active_mix (to_array w ch data) p q)
  | Ok (RIdx i) => Ok (active_chan (nth (Z.to_nat i) (to_array w ch data) []) p q)
  end.
Proof. exact is_valid_via_resolve. Qed.

Theorem C07_index_range : forall channels i : Z, 1 < channels ->
  (exists j, resolve_selector channels (SIdx i) = Ok (RIdx j) /\ 0 <= j < channels /\ (j = i \/ j = i + channels))
  <-> - channels <= i < channels.
Proof. exact resolve_index_range. Qed.

Print Assumptions C07_spec.
Print Assumptions C07_silence.
Print Assumptions C07_floor_irrelevant.
Print Assumptions C07_monotone.
Print Assumptions C07_any.
Print Assumptions C07_selector_errors.
Print Assumptions C07_mono_ignores_selector.
Print Assumptions C07_neg_index.
Print Assumptions C07_decode.
Print Assumptions C07_decision_via_selector.
Print Assumptions C07_index_range.
