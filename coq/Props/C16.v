(** C16 - Region slicing follows Python slice semantics on whole samples. *)
From Coq Require Import ZArith List Bool.
From AV Require Import Base.PyList Base.PyFloat Tok.Model Audio.Region Audio.RegionProofs.
Import ListNotations.
Open Scope Z_scope.

Theorem C16_slice : forall B (r : region B) (a b : option Z), wf r ->
  rdata (getitem r a b) = concat (py_slice (samples r) a b)
  /\ rate (getitem r a b) = rate r /\ width (getitem r a b) = width r /\ nch (getitem r a b) = nch r.
Proof. exact RegionProofs.C16_slice. Qed.

Theorem C16_wf : forall B (r : region B) a b, wf r -> wf (getitem r a b).
Proof. exact RegionProofs.C16_wf. Qed.

Theorem C16_len : forall B (r : region B), wf r -> rlen r = zlen (samples r).
Proof. exact RegionProofs.C16_len. Qed.

Theorem C16_millis : forall B (r : region B) a b,
  ms_getitem r a b
  = sec_getitem r (Some (ms_to_sec (match a with Some x => x | None => 0 end))) (option_map ms_to_sec b).
Proof. exact RegionProofs.C16_millis. Qed.

(** start truncated toward zero, stop rounded to nearest (ties to even): within one sample *)
Theorem C16_trunc : forall m e, e < 0 -> let d := 2 ^ (- e) in
  (0 <= m -> dy_trunc m e * d <= m < (dy_trunc m e + 1) * d)
  /\ (m <= 0 -> (dy_trunc m e - 1) * d < m <= dy_trunc m e * d).
Proof. exact RegionProofs.dy_trunc_spec. Qed.

Theorem C16_round : forall m e, e < 0 -> let d := 2 ^ (- e) in
  2 * Z.abs (dy_round m e * d - m) <= d
  /\ (2 * Z.abs (dy_round m e * d - m) = d -> Z.even (dy_round m e) = true).
Proof. exact RegionProofs.dy_round_spec. Qed.

Print Assumptions C16_slice.
Print Assumptions C16_wf.
Print Assumptions C16_len.
Print Assumptions C16_millis.
Print Assumptions C16_trunc.
Print Assumptions C16_round.
