(** C03 - Silence tolerance: gaps inside an event never exceed the configured maximum. *)
From Coq Require Import ZArith List Bool.
From AV Require Import Base.PyList Tok.Model Tok.Spec Tok.Silence.

Theorem C03_runs : forall (A : Type) (c : config) (s_old : st A) (fs : list (A * bool)),
  accepted c -> P_C03_runs c fs (tokenize_from c s_old fs).
Proof. exact tokenize_from_C03_runs. Qed.

Theorem C03_has_valid : forall (A : Type) (c : config) (s_old : st A) (fs : list (A * bool)),
  accepted c -> P_C03_has_valid fs (tokenize_from c s_old fs).
Proof. exact tokenize_from_C03_has_valid. Qed.

Theorem C03_first : forall (A : Type) (c : config) (s_old : st A) (fs : list (A * bool)),
  accepted c -> P_C03_first fs (tokenize_from c s_old fs).
Proof. exact tokenize_from_C03_first. Qed.

Theorem C03_last : forall (A : Type) (c : config) (s_old : st A) (fs : list (A * bool)),
  accepted c -> P_C03_last c fs (tokenize_from c s_old fs).
Proof. exact tokenize_from_C03_last. Qed.

Print Assumptions C03_runs.
Print Assumptions C03_has_valid.
Print Assumptions C03_first.
Print Assumptions C03_last.
