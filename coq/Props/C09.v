(** C09 - Same audio, same result, whatever the container or parameter spelling.
    In the model split is by construction a function of the decoded audio and
    the resolved parameters; what is proved here: max_read = pre-slicing, alias
    resolution (long name wins), the limiter never shows more than the prefix,
    the wav container round trip. The nine containers are held to the one model
    by the correspondence runs. *)
From Coq Require Import ZArith List Bool.
From AV Require Import Base.PyList Tok.Model Split.Split Split.SplitProofs IO.Reader IO.ReaderProofs IO.Wav IO.WavProofs.
Import ListNotations.
Open Scope Z_scope.

Theorem C09_max_read : forall B c W bps verdict (data : list B) m,
  split_core c W bps verdict (visible data bps (Some m))
  = split_core c W bps verdict (firstn (Z.to_nat (m * bps)) data).
Proof. exact SplitProofs.C09_max_read. Qed.

(** the blocks a max_read-limited reader hands to split are the chunks of the first max_samples samples *)
Theorem C09_limited_reader_blocks : forall S (data : list S) W rec mx k, 1 <= W ->
  snd (reads (mk_reader data W None rec mx) k)
  = map (fun i => fixed_block (vis data mx) W (Z.of_nat i)) (seq 0 k).
Proof. exact ReaderProofs.C10_fixed. Qed.

Theorem C09_long_wins : forall T (a : T) s d, resolve (Some a) s d = a.
Proof. exact SplitProofs.C09_long_wins. Qed.
Theorem C09_short_used : forall T (b : T) d, resolve None (Some b) d = b.
Proof. exact SplitProofs.C09_short_used. Qed.
Theorem C09_default : forall T (d : T), resolve None None d = d.
Proof. exact SplitProofs.C09_default. Qed.

Theorem C09_wav : forall x, wav_ok x -> wav_decode (wav_encode x) = Some x.
Proof. exact WavProofs.C18_wav_roundtrip. Qed.

Print Assumptions C09_max_read.
Print Assumptions C09_limited_reader_blocks.
Print Assumptions C09_long_wins.
Print Assumptions C09_short_used.
Print Assumptions C09_default.
Print Assumptions C09_wav.
