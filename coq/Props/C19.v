(** C19 - A recorder returns exactly what was read, and replays it identically. *)
From Coq Require Import ZArith List Bool.
From AV Require Import Base.PyList Tok.Model IO.Reader IO.ReaderProofs IO.Layers.
Import ListNotations.
Open Scope Z_scope.

Theorem C19_data : forall S (data : list S) W H mx k r1 blocks, 1 <= W ->
  (forall h, H = Some h -> 1 <= h < W) ->
  reads (mk_reader data W H true mx) k = (r1, blocks) ->
  let d := firstn (Z.to_nat (pos r1)) data in
  exists r2,
    rewind r1 = Ok r2 /\ rdata r2 = Some d /\ get_data r2 = Ok d
    /\ pos r1 <= zlen (vis data mx)
    /\ pos r1 = Z.min (zlen (vis data mx)) (consumed W H k)
    /\ r2 = mkRd d 0 true [] (Some d) mx 0 W H GInit.
Proof. exact ReaderProofs.C19_data. Qed.

Theorem C19_replay : forall S (data : list S) W H mx k r1 blocks r2, 1 <= W ->
  (forall h, H = Some h -> 1 <= h < W) ->
  reads (mk_reader data W H true mx) k = (r1, blocks) -> rewind r1 = Ok r2 ->
  snd (reads r2 k) = blocks.
Proof. exact ReaderProofs.C19_replay. Qed.

Theorem C19_rewind_again : forall S (r2 : rd S) d j r3, recording r2 = true -> rdata r2 = Some d ->
  src r2 = d -> fst (reads r2 j) = r3 ->
  exists r4, rewind r3 = Ok r4 /\ rdata r4 = Some d /\ src r4 = d /\ pos r4 = 0 /\ gen r4 = GInit /\ nread r4 = 0.
Proof. exact ReaderProofs.C19_rewind_again. Qed.

Theorem C19_guard_unrewound : forall S (data : list S) W H mx k,
  get_data (fst (reads (mk_reader data W H true mx) k)) = Err RuntimeError.
Proof. exact ReaderProofs.C19_guard_unrewound. Qed.

Theorem C19_guard_nonrecording : forall S (data : list S) W H mx k,
  get_data (fst (reads (mk_reader data W H false mx) k)) = Err AttributeError
  /\ rewind (fst (reads (mk_reader data W H false mx) k)) = Err AttributeError.
Proof. exact ReaderProofs.C19_guard_nonrecording. Qed.

Definition C19_replay_closed := @ReaderProofs.C19_replay_closed.
Definition C19_consumed := @ReaderProofs.C19_consumed.

(** the recorder of the composed model is [rec_layer] over the raw source -- the layer _Recorder._read_and_cache is proved
    equal to by translation on every run (TieReader.v) *)
Theorem C19_recorder_is_layer : forall (S : Type) (r : @rd S) n,
  recording r = true -> rdata r = None ->
  snd (base_read r n) = snd (rec_layer (cache r) n (raw_read r))
  /\ cache (fst (base_read r n)) = fst (rec_layer (cache r) n (raw_read r)).
Proof. exact (@base_read_is_rec_layer). Qed.

Print Assumptions C19_data.
Print Assumptions C19_replay.
Print Assumptions C19_rewind_again.
Print Assumptions C19_guard_unrewound.
Print Assumptions C19_guard_nonrecording.
Print Assumptions C19_replay_closed.
Print Assumptions C19_consumed.
Print Assumptions C19_recorder_is_layer.
