(** C15 - The command line reports exactly what the API detects (formatter part;
    the option tables are checked by the per-run table extraction, the
    end-to-end behaviour by the correspondence runs). *)
From Coq Require Import ZArith List Bool.
From Coq Require String.
From AV Require Import Base.PyList Base.PyFloat Tok.Model Cli.Format Cli.FormatProofs Cli.Options Cli.OptionsProofs Cli.Guards.
Import ListNotations.
Open Scope Z_scope.

Theorem C15_fields : forall M, 0 <= M -> let '(h, m, s, i) := fields M in
  h * 3600000 + m * 60000 + s * 1000 + i = M /\ 0 <= h /\ 0 <= m < 60 /\ 0 <= s < 60 /\ 0 <= i < 1000.
Proof. exact FormatProofs.C15_fields. Qed.

Theorem C15_field_widths : forall M, 0 <= M -> let '(h, m, s, i) := fields M in
  length (pad0 2 m) = 2%nat /\ length (pad0 2 s) = 2%nat /\ length (pad0 3 i) = 3%nat.
Proof. exact FormatProofs.C15_field_widths. Qed.

Theorem C15_digits : forall n, 0 <= n ->
  digits_value (digits n) = n /\ Forall (fun d => 48 <= d <= 57) (digits n) /\ digits n <> [].
Proof. exact FormatProofs.digits_correct. Qed.

Theorem C15_S_rounding : forall x m e n, to_me x = Some (m, e) -> e < 0 -> thousandths x = Some n ->
  2 * Z.abs (n * 2 ^ (- e) - 1000 * m) <= 2 ^ (- e).
Proof. exact FormatProofs.C15_S_rounding. Qed.

Theorem C15_I_and_fields_agree : forall x M, millis x = Some M -> 0 <= M ->
  format_time [37;73] x = Ok (show_int M) /\ digits_value (digits M) = M
  /\ let '(h,m,s,i) := fields M in h * 3600000 + m * 60000 + s * 1000 + i = M.
Proof. exact FormatProofs.C15_I_and_fields_agree. Qed.

Theorem C15_template_uses_millis : forall fmt ps x M,
  fmt <> [37; 83] -> fmt <> [37; 73] -> parse_template fmt = Ok ps -> millis x = Some M ->
  format_time fmt x = Ok (flat_map (render_piece M) ps).
Proof. exact FormatProofs.C15_template_uses_millis. Qed.

Theorem C15_formatter_ok_iff : forall fmt,
  formatter_ok fmt = Ok tt <-> fmt = [37; 83] \/ fmt = [37; 73] \/ well_formed_template fmt = true.
Proof. exact FormatProofs.C15_formatter_ok_iff. Qed.

Theorem C15_formatter_error_kind : forall fmt e, formatter_ok fmt = Err e -> e = TimeFormatError.
Proof. exact FormatProofs.C15_formatter_error_kind. Qed.

Theorem C15_well_formed_meaning : forall t, well_formed_template t = true <-> every_percent_followed t.
Proof. exact FormatProofs.well_formed_template_meaning. Qed.

(** option tables: type, default and destination keyword of every option named in the statement,
    for the short and the long spelling (tables tied to cmdline.py / cmdline_util.py by per-run extraction, CliTie.v) *)
Theorem C15_table_short : map (fun p => flow options kwargs (fst p)) stated = documented_flow.
Proof. exact OptionsProofs.C15_table_short. Qed.

Theorem C15_table_long : map (fun p => flow options kwargs (snd p)) stated = documented_flow.
Proof. exact OptionsProofs.C15_table_long. Qed.

Theorem C15_table_unambiguous : table_ok options kwargs = true.
Proof. exact OptionsProofs.C15_table_unambiguous. Qed.

(** -j without -O is refused (ArgumentError, exit status 1) and nothing else is: the guard of make_kwargs, tied to
    cmdline_util.py by symbolic evaluation on every run (TieGuards.v) *)
Theorem C15_join_needs_save_stream : forall j s : bool, join_guard j s = true <-> (j = true /\ s = false).
Proof. exact join_guard_spec. Qed.

Print Assumptions C15_fields.
Print Assumptions C15_field_widths.
Print Assumptions C15_digits.
Print Assumptions C15_S_rounding.
Print Assumptions C15_I_and_fields_agree.
Print Assumptions C15_template_uses_millis.
Print Assumptions C15_formatter_ok_iff.
Print Assumptions C15_formatter_error_kind.
Print Assumptions C15_well_formed_meaning.
Print Assumptions C15_table_short.
Print Assumptions C15_table_long.
Print Assumptions C15_table_unambiguous.
Print Assumptions C15_join_needs_save_stream.
