(** C14 - Stopping at any moment yields a consistent prefix and a clean shutdown. *)
From Coq Require Import ZArith List Bool.
From AV Require Import Base.PyList Tok.Model Conc.Workers.
From AV Require Conc.WorkersSafety Conc.WorkersProgress.
Import ListNotations.
Open Scope Z_scope.

Module S := WorkersSafety.
Module P := WorkersProgress.

(** whatever the schedule and wherever stop_all was issued: when the workers have
    exited, the detections are exactly those of the k blocks read, "as if the
    stream had ended there", and the saved stream holds exactly those k blocks *)
Theorem C14_prefix : forall (A : Type) (c : config) (bsz : A -> Z) (cache_size : Z)
    (fs : list (A * bool)) (nobs : nat) (with_saver : bool) (s_old : st A) (y : sys A),
  S.reachable c bsz cache_size fs nobs with_saver s_old y -> all_workers_exited y = true ->
  exists k, 0 <= k <= zlen fs /\ nread y = k
    /\ map snd (dets y) = tokenize_from c s_old (firstn (Z.to_nat k) fs)
    /\ (forall v, sav y = Some v -> written v = map fst (firstn (Z.to_nat k) fs)).
Proof. exact (@S.C14_prefix). Qed.

Theorem C14_observers_get_prefix : forall (A : Type) (c : config) (bsz : A -> Z) (cache_size : Z)
    (fs : list (A * bool)) (nobs : nat) (with_saver : bool) (s_old : st A) (y : sys A),
  S.reachable c bsz cache_size fs nobs with_saver s_old y -> all_workers_exited y = true ->
  forall j o, nth_error (observers y) j = Some o ->
    processed o = S.numbered (tokenize_from c s_old (S.blocks_read fs y)).
Proof.
  intros A c bsz cs fs nobs ws s_old y Hr Hex j o Hj.
  destruct (@S.C12_final A c bsz cs fs nobs ws s_old y Hr Hex) as (Hd & Ho & _).
  rewrite (Ho j o Hj). exact Hd.
Qed.

(** a stop issued in ANY reachable state still leads to termination of every thread *)
Theorem C14_stop_anytime_terminates : forall (A : Type) (c : config) (bsz : A -> Z) (cs : Z)
    (fs : list (A * bool)) (nobs : nat) (ws : bool) (s_old : st A) (y : sys A),
  P.reachable c bsz cs fs nobs ws s_old y ->
  exists n, all_exited (exec c bsz cs y (concat (repeat (CMain true :: P.round nobs) n))) = true.
Proof. exact (@P.stop_anytime_terminates). Qed.

Theorem C14_no_deadlock : forall (A : Type) (c : config) (bsz : A -> Z) (cs : Z)
    (fs : list (A * bool)) (nobs : nat) (ws : bool) (s_old : st A) (y : sys A),
  P.reachable c bsz cs fs nobs ws s_old y -> all_exited y = false ->
  exists ch, ch <> CMain true /\ P.moves c bsz cs y ch.
Proof. exact (@P.progress_no_deadlock). Qed.

Print Assumptions C14_prefix.
Print Assumptions C14_observers_get_prefix.
Print Assumptions C14_stop_anytime_terminates.
Print Assumptions C14_no_deadlock.
