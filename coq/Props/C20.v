(** C20 - Results never depend on an object's earlier use (tokenizer part; the
    source part is C11_close_open, splits/validators are functions of their input
    in the model and held to that by the correspondence runs). *)
From Coq Require Import ZArith List Bool.
From AV Require Import Base.PyList Tok.Model Tok.Reuse.

Theorem C20_reinit : forall (A : Type) (c : config) (s_old s_old' : st A) (fs : list (A * bool)),
  tokenize_from c s_old fs = tokenize_from c s_old' fs.
Proof. exact Reuse.C20_reinit. Qed.

Theorem C20_after_run : forall (A : Type) (c : config) (fs1 fs2 : list (A * bool)),
  tokenize_from c (fst (run c (reinit init_st) fs1)) fs2 = tokenize c fs2.
Proof. exact Reuse.C20_after_run. Qed.

Theorem C20_after_partial : forall (A : Type) (c : config) (fs1 fs2 : list (A * bool)),
  tokenize_from c (fst (feed c (reinit init_st) fs1)) fs2 = tokenize c fs2.
Proof. exact Reuse.C20_after_partial. Qed.

Theorem C20_feed : forall (A : Type) (c : config) (s_old s_old' : st A) (fs : list (A * bool)),
  snd (feed c (reinit s_old) fs) = snd (feed c (reinit s_old') fs).
Proof. exact Reuse.C20_feed. Qed.

Print Assumptions C20_reinit.
Print Assumptions C20_after_run.
Print Assumptions C20_after_partial.
Print Assumptions C20_feed.
