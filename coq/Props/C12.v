(** C12 - Every observer gets every detection exactly once, in order; all threads end.
    Theorems about the interleaving model Conc/Workers.v: every list of choices is
    a schedule (disabled choices are skipped), timeouts are stutter steps. *)
From Coq Require Import ZArith List Bool.
From AV Require Import Base.PyList Tok.Model Conc.Workers.
From AV Require Conc.WorkersSafety Conc.WorkersProgress Conc.Loops.
Import ListNotations.
Open Scope Z_scope.

Module S := WorkersSafety.
Module P := WorkersProgress.
Module L := Loops.

(** safety invariant of every reachable state (exactly once, in order, ids 1,2,3..., equal to the worker's own list) *)
Definition C12_inv := @S.C12_inv.

(** final state: every observer processed exactly the numbered tokenization of the blocks read *)
Theorem C12_final : forall (A : Type) (c : config) (bsz : A -> Z) (cache_size : Z)
    (fs : list (A * bool)) (nobs : nat) (with_saver : bool) (s_old : st A) (y : sys A),
  S.reachable c bsz cache_size fs nobs with_saver s_old y -> all_workers_exited y = true ->
  dets y = S.numbered (tokenize_from c s_old (S.blocks_read fs y))
  /\ (forall j o, nth_error (observers y) j = Some o -> processed o = dets y)
  /\ (forall v, sav y = Some v -> written v = map fst (S.blocks_read fs y) /\ closed_file v = true).
Proof. exact (@S.C12_final). Qed.

(** without an external stop: the detections of the WHOLE stream, i.e. what split() returns *)
Theorem C12_final_no_stop : forall (A : Type) (c : config) (bsz : A -> Z) (cache_size : Z)
    (fs : list (A * bool)) (nobs : nat) (with_saver : bool) (s_old : st A) (sched : list choice),
  (forall ch, In ch sched -> ch <> CMain true) ->
  let y := exec c bsz cache_size (init_sys fs nobs with_saver s_old) sched in
  all_workers_exited y = true ->
  forall j o, nth_error (observers y) j = Some o -> processed o = S.numbered (tokenize_from c s_old fs).
Proof. exact (@S.C12_final_no_stop). Qed.

(** no deadlock, no external stop needed *)
Theorem C12_no_deadlock : forall (A : Type) (c : config) (bsz : A -> Z) (cs : Z)
    (fs : list (A * bool)) (nobs : nat) (ws : bool) (s_old : st A) (y : sys A),
  P.reachable c bsz cs fs nobs ws s_old y -> all_exited y = false ->
  exists ch, ch <> CMain true /\ P.moves c bsz cs y ch.
Proof. exact (@P.progress_no_deadlock). Qed.

(** bounded work: every real move decreases a natural-number measure *)
Theorem C12_measure_decreases : forall (A : Type) (c : config) (bsz : A -> Z) (cs : Z)
    (fs : list (A * bool)) (nobs : nat) (ws : bool) (s_old : st A) (y : sys A) ch y',
  P.reachable c bsz cs fs nobs ws s_old y -> step c bsz cs y ch = Some y' -> y' <> y ->
  (P.measure y' < P.measure y)%nat.
Proof. exact (@P.measure_decreases). Qed.

Theorem C12_workers_terminate_alone : forall (A : Type) (c : config) (bsz : A -> Z) (cs : Z)
    (fs : list (A * bool)) (nobs : nat) (ws : bool) (s_old : st A),
  exists sched, (forall ch, In ch sched -> match ch with CMain _ => False | _ => True end)
    /\ all_workers_exited (exec c bsz cs (init_sys fs nobs ws s_old) sched) = true.
Proof. exact (@P.workers_terminate_alone). Qed.

Theorem C12_round_robin_terminates : forall (A : Type) (c : config) (bsz : A -> Z) (cs : Z)
    (fs : list (A * bool)) (nobs : nat) (ws : bool) (s_old : st A),
  exists n, all_exited (exec c bsz cs (init_sys fs nobs ws s_old) (concat (repeat (P.round nobs) n))) = true.
Proof. exact (@P.round_robin_terminates). Qed.

(** the observer step of the model is one turn of Worker.run's loop (Conc/Loops.v; run_turn is tied to /repo's workers.py by
    translation on every run) *)
Theorem C12_observer_step_is_loop_turn : forall (A : Type) (o : obs A) (timeout : bool),
  opcv o = ORun ->
  step_obs_one o timeout =
  match L.obs_answer o timeout with
  | None => None
  | Some a =>
      match L.run_turn a with
      | L.TContinue => Some o
      | L.TLeave => Some (mkObs (tl (oinbox o)) (processed o) OExit)
      | L.TProcess m => Some (mkObs (tl (oinbox o)) (processed o ++ [m]) ORun)
      end
  end.
Proof. exact (@L.step_obs_is_run_turn). Qed.

Print Assumptions C12_inv.
Print Assumptions C12_final.
Print Assumptions C12_final_no_stop.
Print Assumptions C12_no_deadlock.
Print Assumptions C12_measure_decreases.
Print Assumptions C12_workers_terminate_alone.
Print Assumptions C12_round_robin_terminates.
Print Assumptions C12_observer_step_is_loop_turn.
