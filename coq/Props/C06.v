(** C06 - Durations given in seconds are honoured, counted in analysis windows. *)
From Coq Require Import ZArith List Bool.
From AV Require Import Base.PyList Base.PyFloat Tok.Model Split.Duration Split.DurationProofs.
Import ListNotations.
Open Scope Z_scope.

(** accept / reject decision of split()'s parameter block *)
Theorem C06_accept : forall min_dur max_dur max_silence aw rate r,
  split_params min_dur max_dur max_silence aw rate = Ok r <->
  exists W mn0 mx ms,
    fle min_dur fzero = false /\ fle max_dur fzero = false /\ flt max_silence fzero = false /\ fle aw fzero = false
    /\ py_int (fmul aw (of_Z rate)) = Some W /\ W <> 0
    /\ nbw min_dur aw RCeil (Some eps_neg) = Ok mn0 /\ nbw max_dur aw RFloor (Some eps_pos) = Ok mx
    /\ nbw max_silence aw RFloor (Some eps_pos) = Ok ms
    /\ Z.max mn0 1 <= mx /\ ms < mx /\ r = (Z.max mn0 1, mx, ms, W).
Proof. exact DurationProofs.C06_accept. Qed.

Theorem C06_reject_iff : forall min_dur max_dur max_silence aw rate,
  split_params min_dur max_dur max_silence aw rate = Err ValueError <->
  ~ exists r, split_params min_dur max_dur max_silence aw rate = Ok r.
Proof. exact DurationProofs.C06_reject_iff. Qed.

Theorem C06_accept_reader : forall min_dur max_dur max_silence W rate r,
  split_params_reader min_dur max_dur max_silence W rate = Ok r <->
  exists mn0 mx ms,
    let aw := fdiv (of_Z W) (of_Z rate) in
    fle min_dur fzero = false /\ fle max_dur fzero = false /\ flt max_silence fzero = false
    /\ nbw min_dur aw RCeil (Some eps_neg) = Ok mn0 /\ nbw max_dur aw RFloor (Some eps_pos) = Ok mx
    /\ nbw max_silence aw RFloor (Some eps_pos) = Ok ms
    /\ Z.max mn0 1 <= mx /\ ms < mx /\ r = (Z.max mn0 1, mx, ms, W).
Proof. exact DurationProofs.C06_accept_reader. Qed.

(** the derived counts are always accepted by the tokenizer constructor *)
Theorem C06_params_validate : forall min_dur max_dur max_silence aw rate mn mx ms W mode,
  split_params min_dur max_dur max_silence aw rate = Ok (mn, mx, ms, W) ->
  mode = 0 \/ mode = 2 \/ mode = 4 \/ mode = 6 ->
  exists cfg, validate mn mx ms 0 0 mode = Ok cfg.
Proof. exact DurationProofs.C06_params_validate. Qed.

(** millisecond grid, by reflection: a checked row gives, for every duration
    a ms (0 <= a <= amax) and window b ms, exactly ceil(a/b) and floor(a/b). *)
Theorem C06_grid_row_meaning : forall amax b, grid_row_ok amax b = true ->
  forall a, 0 <= a <= amax ->
  nbw (ms a) (ms b) RCeil (Some eps_neg) = Ok (zceil a b)
  /\ nbw (ms a) (ms b) RFloor (Some eps_pos) = Ok (zfloor a b).
Proof. exact DurationProofs.C06_grid_row_meaning. Qed.

Theorem C06_ceil_is_smallest_cover : forall a b, 0 < b -> (zceil a b - 1) * b < a <= zceil a b * b.
Proof. exact DurationProofs.zceil_spec. Qed.
Theorem C06_floor_is_largest_within : forall a b, 0 < b -> zfloor a b * b <= a < (zfloor a b + 1) * b.
Proof. exact DurationProofs.zfloor_spec. Qed.

Theorem C06_grid_10ms : grid_row_ok 2000 10 = true.
Proof. exact DurationProofs.C06_grid_10ms. Qed.
Theorem C06_grid_20ms : grid_row_ok 1000 20 = true.
Proof. exact DurationProofs.C06_grid_20ms. Qed.
Theorem C06_grid_50ms : grid_row_ok 1000 50 = true.
Proof. exact DurationProofs.C06_grid_50ms. Qed.
Theorem C06_example_007 : nbw (ms 70) (ms 10) RCeil (Some eps_neg) = Ok 7.
Proof. exact DurationProofs.C06_example_007. Qed.

Print Assumptions C06_accept.
Print Assumptions C06_reject_iff.
Print Assumptions C06_accept_reader.
Print Assumptions C06_params_validate.
Print Assumptions C06_grid_row_meaning.
Print Assumptions C06_ceil_is_smallest_cover.
Print Assumptions C06_floor_is_largest_within.
Print Assumptions C06_grid_10ms.
Print Assumptions C06_grid_20ms.
Print Assumptions C06_grid_50ms.
Print Assumptions C06_example_007.
