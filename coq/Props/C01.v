(** C01 - Tokens are exact, ordered, non-overlapping slices of the input stream. *)
From Coq Require Import ZArith List.
From AV Require Import Base.PyList Tok.Model Tok.Spec Tok.Inv.

Theorem C01 : forall (A : Type) (c : config) (s_old : st A) (fs : list (A * bool)),
  accepted c -> P_C01 fs (tokenize_from c s_old fs).
Proof. exact tokenize_from_C01. Qed.

Theorem C01_length : forall (A : Type) (c : config) (s_old : st A) (fs : list (A * bool)) t,
  accepted c -> In t (tokenize_from c s_old fs) -> tok_len t = (tok_end t - tok_start t + 1)%Z.
Proof. exact C01_length_from. Qed.

Print Assumptions C01.
Print Assumptions C01_length.
