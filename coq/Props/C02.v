(** C02 - Token length: never above max_length; below min_length only as a
    remainder; the constructor accepts exactly the valid tuples. *)
From Coq Require Import ZArith List Bool.
From AV Require Import Base.PyList Tok.Model Tok.Spec Tok.Lengths.
Open Scope Z_scope.

Theorem C02_max : forall (A : Type) (c : config) (s_old : st A) (fs : list (A * bool)),
  accepted c -> P_C02_max c (tokenize_from c s_old fs).
Proof. exact tokenize_from_C02_max. Qed.

Theorem C02_min : forall (A : Type) (c : config) (s_old : st A) (fs : list (A * bool)),
  accepted c -> P_C02_min c (tokenize_from c s_old fs).
Proof. exact tokenize_from_C02_min. Qed.

Theorem C02_strict : forall (A : Type) (c : config) (s_old : st A) (fs : list (A * bool)),
  accepted c -> P_C02_strict c (tokenize_from c s_old fs).
Proof. exact tokenize_from_C02_strict. Qed.

Theorem C02_accepts : forall mn mx ms imin ims mode, valid_tuple mn mx ms imin mode ->
  validate mn mx ms imin ims mode =
    Ok (mkConfig mn mx ms imin ims ((mode =? 2) || (mode =? 6)) ((mode =? 4) || (mode =? 6))).
Proof. exact validate_accepts. Qed.

Theorem C02_rejects : forall mn mx ms imin ims mode, ~ valid_tuple mn mx ms imin mode ->
  validate mn mx ms imin ims mode = Err ValueError.
Proof. exact validate_rejects. Qed.

Theorem C02_accepted : forall mn mx ms imin ims mode c,
  validate mn mx ms imin ims mode = Ok c -> accepted c.
Proof. exact validate_accepted. Qed.

Print Assumptions C02_max.
Print Assumptions C02_min.
Print Assumptions C02_strict.
Print Assumptions C02_accepts.
Print Assumptions C02_rejects.
Print Assumptions C02_accepted.
