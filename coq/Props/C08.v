(** C08 - Detection is online: bounded latency, lazy reading, prefix-consistent output. *)
From Coq Require Import ZArith List Bool.
From AV Require Import Base.PyList Tok.Model Tok.Spec Tok.OnlineSpec Tok.Online.
Open Scope Z_scope.

Theorem C08_latency : forall (A : Type) (c : config) (s_old : st A) (fs : list (A * bool)),
  accepted c -> Forall (latency_ok c (zlen fs)) (run_idx c (reinit s_old) fs).
Proof. exact Online.C08_latency. Qed.

Theorem C08_tokens : forall (A : Type) (c : config) (s : st A) fs,
  map fst (run_idx c s fs) = snd (run c s fs).
Proof. exact run_idx_tokens. Qed.

Theorem C08_causal : forall (A : Type) (c : config) (s : st A) p q q',
  snd (feed c s p) = firstn (length (snd (feed c s p))) (snd (run c s (p ++ q)))
  /\ firstn (length (snd (feed c s p))) (snd (run c s (p ++ q)))
     = firstn (length (snd (feed c s p))) (snd (run c s (p ++ q'))).
Proof. exact Online.C08_causal. Qed.

Theorem C08_prefix : forall (A : Type) (c : config) (s_old : st A) (p q : list (A * bool)),
  accepted c ->
  exists out1 fl rest,
    tokenize_from c s_old p = out1 ++ fl /\
    tokenize_from c s_old (p ++ q) = out1 ++ rest /\
    (fl = nil \/ exists t' t rest', fl = cons t' nil /\ rest = cons t rest' /\ shorter_version t' t).
Proof. exact Online.C08_prefix. Qed.

Theorem C08_once : forall (A : Type) (c : config) (s : st A) fr,
  snd (iter_step c s fr) = match fr with Some _ => true | None => false end.
Proof. exact Online.C08_once. Qed.

Print Assumptions C08_latency.
Print Assumptions C08_tokens.
Print Assumptions C08_causal.
Print Assumptions C08_prefix.
Print Assumptions C08_once.
