(** C18 - Audio survives save/load unchanged; load(skip,max_read) equals slicing
    (codec and layout part; load = two reads on a source is C11, the empty
    results are covered there by ONone and by the correspondence runs). *)
From Coq Require Import ZArith List Bool.
From AV Require Import Base.PyList Tok.Model Audio.Pcm IO.Wav IO.WavProofs IO.Source IO.SourceProofs.
Import ListNotations.
Open Scope Z_scope.

Theorem C18_wav_roundtrip : forall x, wav_ok x -> wav_decode (wav_encode x) = Some x.
Proof. exact WavProofs.C18_wav_roundtrip. Qed.

Theorem C18_wav_roundtrip_iff : forall x, wav_decode (wav_encode x) = Some x <-> wav_ok_weak x.
Proof. exact WavProofs.C18_wav_roundtrip_iff. Qed.

Theorem C18_header_length : forall r w c n, zlen (wav_header r w c n) = 44.
Proof. exact WavProofs.wav_header_length. Qed.

Theorem C18_numpy_layout : forall w ch data c i, (0 < w)%nat -> (0 < ch)%nat -> (c < ch)%nat ->
  (Z.of_nat (w * ch) | zlen data) -> (Z.of_nat i < zlen data / Z.of_nat (w * ch)) ->
  length (to_array w ch data) = ch /\
  nth i (nth c (to_array w ch data) []) 0
    = le_signed (zslice data (Z.of_nat ((i * ch + c) * w)) (Z.of_nat ((i * ch + c) * w + w)))
  /\ zlen (nth c (to_array w ch data) []) = zlen data / Z.of_nat (w * ch).
Proof. exact WavProofs.C18_numpy_layout. Qed.

(** load(skip, max_read) = read(skip samples) then read(max samples): two
    successive reads return the contiguous slice [skip, skip+max) *)
Theorem C18_load_is_slice : forall B (a : audio B) s ns, wfa a -> binv a s -> is_open s = true ->
  let '(s', outs) := bsteps a s (map Read ns) in
  concat (flat_map (fun o => match o with OData d => [d] | _ => [] end) outs)
    = zslice (abytes a) (pos s) (pos s')
  /\ pos s <= pos s' /\ is_open s' = true.
Proof. exact SourceProofs.C11_reads_contiguous. Qed.

Print Assumptions C18_wav_roundtrip.
Print Assumptions C18_wav_roundtrip_iff.
Print Assumptions C18_header_length.
Print Assumptions C18_numpy_layout.
Print Assumptions C18_load_is_slice.
