(** C18 - Audio survives save/load unchanged; load(skip,max_read) equals slicing
    (codec and layout part; load = two reads on a source is C11, the empty
    results are covered there by ONone and by the correspondence runs). *)
From Coq Require Import ZArith List Bool.
From AV Require Import Base.PyList Base.PyFloat Tok.Model Audio.Pcm IO.Wav IO.WavProofs IO.Source IO.SourceProofs IO.Load IO.LoadProofs.
Import ListNotations.
Open Scope Z_scope.

Theorem C18_wav_roundtrip : forall x, wav_ok x -> wav_decode (wav_encode x) = Some x.
Proof. exact WavProofs.C18_wav_roundtrip. Qed.

Theorem C18_wav_roundtrip_iff : forall x, wav_decode (wav_encode x) = Some x <-> wav_ok_weak x.
Proof. exact WavProofs.C18_wav_roundtrip_iff. Qed.

Theorem C18_header_length : forall r w c n, zlen (wav_header r w c n) = 44.
Proof. exact WavProofs.wav_header_length. Qed.

Theorem C18_numpy_layout : forall w ch data c i, (0 < w)%nat -> (0 < ch)%nat -> (c < ch)%nat ->
  (Z.of_nat (w * ch) | zlen data) -> (Z.of_nat i < zlen data / Z.of_nat (w * ch)) ->
  length (to_array w ch data) = ch /\
  nth i (nth c (to_array w ch data) []) 0
    = le_signed (zslice data (Z.of_nat ((i * ch + c) * w)) (Z.of_nat ((i * ch + c) * w + w)))
  /\ zlen (nth c (to_array w ch data) []) = zlen data / Z.of_nat (w * ch).
Proof. exact WavProofs.C18_numpy_layout. Qed.

(** load(skip, max_read) = read(skip samples) then read(max samples): two
    successive reads return the contiguous slice [skip, skip+max) *)
Theorem C18_load_is_slice : forall B (a : audio B) s ns, wfa a -> binv a s -> is_open s = true ->
  let '(s', outs) := bsteps a s (map Read ns) in
  concat (flat_map (fun o => match o with OData d => [d] | _ => [] end) outs)
    = zslice (abytes a) (pos s) (pos s')
  /\ pos s <= pos s' /\ is_open s' = true.
Proof. exact SourceProofs.C11_reads_contiguous. Qed.

(** load(skip, max_read) on the eager path (core._read_offline, tied to IO/Load.v by translation on every run): the data are the
    samples [m1, m1 + m2) of the audio, where m1 is the skip request clamped to the N samples there are and m2 the size request
    clamped to what is left (everything left for None or a negative request) -- the Python slice of the sample sequence at the
    requested instants; the requests are round(skip * rate) (no skipping read unless skip > 0) and round(max_read * rate) *)
Theorem C18_offline_data_is_slice : forall B (a : audio B) (sk mr : option Z), wfa a ->
  let N := nsamples a in
  let m1 := match sk with Some k => if k <? 0 then N else Z.min k N | None => 0 end in
  let m2 := match mr with Some k => if k <? 0 then N - m1 else Z.min k (N - m1) | None => N - m1 end in
  offline_data a sk mr = zslice (abytes a) (m1 * abps a) ((m1 + m2) * abps a)
  /\ 0 <= m1 <= N /\ 0 <= m2 /\ m1 + m2 <= N.
Proof. exact (@offline_data_is_slice). Qed.

Theorem C18_read_offline_requests : forall B (a : audio B) skip max_read d, wfa a ->
  read_offline a skip max_read = Ok d ->
  exists sk mr, offline_requests (arate a) skip max_read = Ok (sk, mr) /\ d = offline_data a sk mr.
Proof. exact (@read_offline_is_slice). Qed.

(** non-vacuity: 10 one-byte samples at 4 Hz, skip 0.6 s (2.4 -> 2 samples), max_read 1.3 s (5.2 -> 5 samples) *)
Example C18_offline_example :
  read_offline (mkAudio [0;1;2;3;4;5;6;7;8;9] 4 1) (Some (of_me 5404319552844595 (-53))) (Some (of_me 5854679515581645 (-52)))
  = Ok [2;3;4;5;6].
Proof. vm_compute. reflexivity. Qed.

Print Assumptions C18_wav_roundtrip.
Print Assumptions C18_wav_roundtrip_iff.
Print Assumptions C18_header_length.
Print Assumptions C18_numpy_layout.
Print Assumptions C18_load_is_slice.
Print Assumptions C18_offline_data_is_slice.
Print Assumptions C18_read_offline_requests.
