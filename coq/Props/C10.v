(** C10 - AudioReader framing: fixed-size blocks, overlap and max_read are exact. *)
From Coq Require Import ZArith List Bool.
From AV Require Import Base.PyList Tok.Model IO.Reader IO.ReaderProofs IO.Layers.
Import ListNotations.
Open Scope Z_scope.

Theorem C10_fixed : forall S (data : list S) W rec mx k, 1 <= W ->
  snd (reads (mk_reader data W None rec mx) k)
  = map (fun i => fixed_block (vis data mx) W (Z.of_nat i)) (seq 0 k).
Proof. exact ReaderProofs.C10_fixed. Qed.

Theorem C10_fixed_concat : forall S (data : list S) W rec mx k, 1 <= W ->
  zlen (vis data mx) <= Z.of_nat k * W ->
  concat (flat_map (fun o => match o with Some b => [b] | None => [] end)
                   (snd (reads (mk_reader data W None rec mx) k))) = vis data mx.
Proof. exact ReaderProofs.C10_fixed_concat. Qed.

Theorem C10_overlap : forall S (data : list S) W H rec mx k, 1 <= H -> H <= W ->
  snd (reads (mk_reader data W (Some H) rec mx) k)
  = map (fun i => overlap_block (vis data mx) W H (Z.of_nat i)) (seq 0 k).
Proof. exact ReaderProofs.C10_overlap. Qed.

Theorem C10_overlap_full : forall S (v : list S) W H k, 1 <= H -> H <= W -> 0 <= k ->
  k + 1 < nb_overlap (zlen v) W H -> zlen (zslice v (k * H) (k * H + W)) = W.
Proof. exact ReaderProofs.C10_overlap_full. Qed.

Theorem C10_overlap_last_nonempty : forall S (v : list S) W H k, 1 <= H -> H <= W ->
  0 <= k < nb_overlap (zlen v) W H -> 0 < zlen (zslice v (k * H) (k * H + W)).
Proof. exact ReaderProofs.C10_overlap_last_nonempty. Qed.

Theorem C10_limit : forall S (data : list S) W H rec m k, 1 <= W -> (forall h, H = Some h -> 0 <= h) ->
  pos (fst (reads (mk_reader data W H rec (Some m)) k)) <= Z.max 0 m.
Proof. exact ReaderProofs.C10_limit. Qed.

(** the composed model of the reader stack, layer by layer: its limiter is [lim_layer] over the layer below, its fixed-size
    reader is [fixed_layer] over the limiter -- the layers the methods _Limiter.read and _FixedSizeAudioReader.read are proved equal
    to by translation on every run (TieReader.v) *)
Theorem C10_limiter_is_layer : forall (S : Type) (r : @rd S) n mx,
  limit r = Some mx ->
  snd (lim_read r n) = snd (lim_layer mx (nread r) n (fun k => snd (base_read r k)))
  /\ nread (fst (lim_read r n)) = fst (lim_layer mx (nread r) n (fun k => snd (base_read r k))).
Proof. exact (@lim_read_is_lim_layer). Qed.

Theorem C10_fixed_is_layer : forall (S : Type) (r : @rd S),
  hop r = None -> snd (read r) = fixed_layer (bsize r) (fun k => snd (lim_read r k)).
Proof. exact (@read_fixed_is_fixed_layer). Qed.

(** the overlap reader of the composed model is the generator _iter_blocks_with_overlap, one resumption per read: [ov_first] then
    [ov_next] over the limiter -- the functions the generator is proved equal to by translation on every run (TieReader.v) *)
Theorem C10_overlap_first_is_generator : forall (S : Type) (r : @rd S) H,
  hop r = Some H -> gen r = GInit ->
  snd (read r) = snd (ov_first (bsize r) H (fun k => snd (lim_read r k)))
  /\ gen (fst (read r)) = fst (ov_first (bsize r) H (fun k => snd (lim_read r k))).
Proof. exact (@read_overlap_first). Qed.

Theorem C10_overlap_next_is_generator : forall (S : Type) (r : @rd S) H c,
  hop r = Some H -> gen r = GRun c ->
  snd (read r) = snd (ov_next H c (fun k => snd (lim_read r k)))
  /\ gen (fst (read r)) = fst (ov_next H c (fun k => snd (lim_read r k))).
Proof. exact (@read_overlap_next). Qed.

Print Assumptions C10_fixed.
Print Assumptions C10_fixed_concat.
Print Assumptions C10_overlap.
Print Assumptions C10_overlap_full.
Print Assumptions C10_overlap_last_nonempty.
Print Assumptions C10_limit.
Print Assumptions C10_limiter_is_layer.
Print Assumptions C10_fixed_is_layer.
Print Assumptions C10_overlap_first_is_generator.
Print Assumptions C10_overlap_next_is_generator.
