(** C04 - Detection is complete: the tokens are exactly the greedy segmentation
    (default initial phase, init_min <= 1). *)
From Coq Require Import ZArith List Bool.
Import ListNotations.
From AV Require Import Base.PyList Tok.Model Tok.Spec Tok.Greedy.
Open Scope Z_scope.

Theorem C04 : forall (A : Type) (c : config) (s_old : st A) (fs : list (A * bool)),
  accepted c -> init_min c <= 1 -> P_C04 c fs (tokenize_from c s_old fs).
Proof. exact tokenize_from_C04. Qed.

(** The same, stretch by stretch: tokens = pieces of the measured stretches. *)
Theorem C04_stretches : forall (A : Type) (c : config) (s_old : st A) (fs : list (A * bool)),
  accepted c -> init_min c <= 1 ->
  map bounds (tokenize_from c s_old fs) = flat_map (pieces3 c) (stretches c (map snd fs)).
Proof. exact tokenize_from_C04_stretches. Qed.

(** "the first token of a stretch starts at its first valid frame" *)
Theorem C04_first : forall (A : Type) (c : config) (fs : list (A * bool)) p E T,
  accepted c -> In (p, E, T) (stretches c (map snd fs)) ->
  verdict fs p = true
  /\ (pieces c p E T = [] \/ exists b rest, pieces c p E T = (p, b) :: rest).
Proof. exact C04_first_token_of_stretch. Qed.

(** "no token covers frames outside such an extended stretch" *)
Theorem C04_inside : forall (A : Type) (c : config) (s_old : st A) (fs : list (A * bool)) t,
  accepted c -> init_min c <= 1 ->
  In t (tokenize_from c s_old fs) ->
  exists p E T, In (p, E, T) (stretches c (map snd fs))
    /\ wf_stretch c (map snd fs) (p, E, T)
    /\ p <= tok_start t /\ tok_start t <= tok_end t /\ tok_end t <= p + E - 1
    /\ p + E <= zlen fs.
Proof. exact C04_token_inside_stretch. Qed.

Print Assumptions C04.
Print Assumptions C04_stretches.
Print Assumptions C04_first.
Print Assumptions C04_inside.
