(** C11 - Audio sources hand out successive whole-sample chunks, then None. *)
From Coq Require Import ZArith List Bool.
From AV Require Import Base.PyList Base.PyFloat Tok.Model IO.Source IO.SourceProofs.
Import ListNotations.
Open Scope Z_scope.

Theorem C11_inv : forall B (a : audio B) ops, wfa a -> binv a (fst (bsteps a init_b ops)).
Proof. exact SourceProofs.C11_inv. Qed.

Theorem C11_read_open : forall B (a : audio B) s n, wfa a -> binv a s -> is_open s = true ->
  let w := want a s n in
  (w = 0 -> bstep a s (Read n) = (s, ONone))
  /\ (0 < w -> bstep a s (Read n) = (mkB (pos s + w * abps a) true,
                                    OData (zslice (abytes a) (pos s) (pos s + w * abps a)))
               /\ zlen (zslice (abytes a) (pos s) (pos s + w * abps a)) = w * abps a).
Proof. exact SourceProofs.C11_read_open. Qed.

Theorem C11_read_closed : forall B (a : audio B) s n, is_open s = false ->
  bstep a s (Read n) = (s, OErr AudioIOError).
Proof. exact SourceProofs.C11_read_closed. Qed.

Theorem C11_never_empty : forall B (a : audio B) s o s' d, bstep a s o = (s', OData d) -> d <> [].
Proof. exact SourceProofs.C11_never_empty. Qed.

Theorem C11_reads_contiguous : forall B (a : audio B) s ns, wfa a -> binv a s -> is_open s = true ->
  let '(s', outs) := bsteps a s (map Read ns) in
  concat (flat_map (fun o => match o with OData d => [d] | _ => [] end) outs)
    = zslice (abytes a) (pos s) (pos s')
  /\ pos s <= pos s' /\ is_open s' = true.
Proof. exact SourceProofs.C11_reads_contiguous. Qed.

Theorem C11_getpos : forall B (a : audio B) s, bstep a s GetPos = (s, OInt (pos s / abps a)).
Proof. exact SourceProofs.C11_getpos. Qed.

Theorem C11_setpos : forall B (a : audio B) s p, wfa a ->
  (0 <= norm_pos a p <= zlen (abytes a) / abps a ->
     bstep a s (SetPos p) = (mkB (norm_pos a p * abps a) (is_open s), OUnit))
  /\ (~ (0 <= norm_pos a p <= zlen (abytes a) / abps a) -> bstep a s (SetPos p) = (s, OErr IndexError)).
Proof. exact SourceProofs.C11_setpos. Qed.

Theorem C11_setpos_s : forall B (a : audio B) s t p, py_int (fmul (of_Z (arate a)) t) = Some p ->
  bstep a s (SetPosS t) = bstep a s (SetPos p).
Proof. exact SourceProofs.C11_setpos_s. Qed.

Theorem C11_setpos_ms : forall B (a : audio B) s ms p,
  py_int (fdiv (of_Z (arate a * ms)) (of_Z 1000)) = Some p ->
  bstep a s (SetPosMs ms) = bstep a s (SetPos p).
Proof. exact SourceProofs.C11_setpos_ms. Qed.

Theorem C11_rewind : forall B (a : audio B) s,
  pos (fst (bstep a s Rewind)) = 0 /\ is_open (fst (bstep a s Rewind)) = is_open s.
Proof. exact SourceProofs.C11_rewind. Qed.

Theorem C11_close_open : forall B (a : audio B) s, fst (bsteps a s [Close; Open]) = mkB 0 true.
Proof. exact SourceProofs.C11_close_open. Qed.

Definition C11_file_inv := @SourceProofs.C11_file_inv.
Definition C11_file_read := @SourceProofs.C11_file_read.
Definition C11_file_closed := @SourceProofs.C11_file_closed.
Definition C11_file_reopen := @SourceProofs.C11_file_reopen.
Definition C11_kinds_agree := @SourceProofs.C11_kinds_agree.

Print Assumptions C11_inv.
Print Assumptions C11_read_open.
Print Assumptions C11_read_closed.
Print Assumptions C11_never_empty.
Print Assumptions C11_reads_contiguous.
Print Assumptions C11_getpos.
Print Assumptions C11_setpos.
Print Assumptions C11_setpos_s.
Print Assumptions C11_setpos_ms.
Print Assumptions C11_rewind.
Print Assumptions C11_close_open.
Print Assumptions C11_file_inv.
Print Assumptions C11_file_read.
Print Assumptions C11_file_closed.
Print Assumptions C11_file_reopen.
Print Assumptions C11_kinds_agree.
