(** C17 - Region algebra: concatenate, repeat, divide, join are byte-exact and safe. *)
From Coq Require Import ZArith List Bool.
From AV Require Import Base.PyList Base.PyFloat Tok.Model Audio.Region Audio.RegionProofs.
Import ListNotations.
Open Scope Z_scope.

Theorem C17_add : forall B (r1 r2 : region B), wf r1 -> wf r2 -> same_params r1 r2 = true ->
  add r1 r2 = Ok (mkRegion (rdata r1 ++ rdata r2) (rate r1) (width r1) (nch r1)).
Proof. exact RegionProofs.C17_add. Qed.
Theorem C17_add_mismatch : forall B (r1 r2 : region B), same_params r1 r2 = false ->
  add r1 r2 = Err AudioParameterError.
Proof. exact RegionProofs.C17_add_mismatch. Qed.
Theorem C17_mul : forall B (r : region B) n, wf r ->
  mul r n = Ok (mkRegion (repeat_list (rdata r) (Z.to_nat n)) (rate r) (width r) (nch r)).
Proof. exact RegionProofs.C17_mul. Qed.
Theorem C17_join : forall B (sep : region B) others, wf sep -> Forall wf others ->
  forallb (same_params sep) others = true ->
  join sep others = Ok (mkRegion (intercalate (rdata sep) (map rdata others)) (rate sep) (width sep) (nch sep)).
Proof. exact RegionProofs.C17_join. Qed.
Theorem C17_join_mismatch : forall B (sep : region B) others,
  forallb (same_params sep) others = false -> join sep others = Err AudioParameterError.
Proof. exact RegionProofs.C17_join_mismatch. Qed.
Theorem C17_make : forall B (d : list B) sr w ch, 0 < w * ch ->
  (make d sr w ch = Ok (mkRegion d sr w ch) <-> (w * ch | zlen d))
  /\ (~ (w * ch | zlen d) -> make d sr w ch = Err AudioParameterError).
Proof. exact RegionProofs.C17_make. Qed.
Theorem C17_silence : forall d sr w ch n, 0 < w -> 0 < ch -> py_round (fmul d (of_Z sr)) = Some n -> 0 <= n ->
  make_silence d sr w ch = Ok (mkRegion (repeat 0 (Z.to_nat (n * w * ch))) sr w ch).
Proof. exact RegionProofs.C17_silence. Qed.
Theorem C17_div : forall B (r : region B) n, wf r -> 0 < rlen r -> 1 <= n ->
  exists pieces, div r n = Ok pieces
    /\ zlen pieces = Z.min n (rlen r)
    /\ concat (map rdata pieces) = rdata r
    /\ Forall (fun p => wf p /\ rate p = rate r /\ width p = width r /\ nch p = nch r
                        /\ (rlen p = rlen r / n \/ rlen p = rlen r / n + 1)) pieces.
Proof. exact RegionProofs.C17_div. Qed.
Theorem C17_div_balanced : forall B (r : region B) n pieces, wf r -> 0 < rlen r -> 1 <= n ->
  div r n = Ok pieces -> forall p q, In p pieces -> In q pieces -> Z.abs (rlen p - rlen q) <= 1.
Proof. exact RegionProofs.C17_div_balanced. Qed.
Theorem C17_div_type_error : forall B (r : region B) n, n <= 0 -> div r n = Err TypeError.
Proof. exact RegionProofs.C17_div_type_error. Qed.
Theorem C17_eq : forall r1 r2 : region Z, region_eqb r1 r2 = true
  <-> (rdata r1 = rdata r2 /\ rate r1 = rate r2 /\ width r1 = width r2 /\ nch r1 = nch r2).
Proof. exact RegionProofs.C17_eq. Qed.

Print Assumptions C17_add.
Print Assumptions C17_add_mismatch.
Print Assumptions C17_mul.
Print Assumptions C17_join.
Print Assumptions C17_join_mismatch.
Print Assumptions C17_make.
Print Assumptions C17_silence.
Print Assumptions C17_div.
Print Assumptions C17_div_balanced.
Print Assumptions C17_div_type_error.
Print Assumptions C17_eq.
