(** C05 - split() regions are the input's own bytes at the reported times. *)
From Coq Require Import ZArith List Bool Sorted.
From AV Require Import Base.PyList Base.PyFloat Tok.Model Tok.Spec Audio.Energy Split.Duration Split.Split Split.SplitProofs.
Import ListNotations.
Open Scope Z_scope.

Theorem C05_bytes : forall B (c : config) W bps (verdict : list B -> bool) (vis : list B),
  accepted c -> 0 < W -> 0 < bps ->
  Forall (fun r => let '(d, s, e) := r in
            0 <= s <= e /\ s * (W * bps) < zlen vis
            /\ d = zslice vis (s * (W * bps)) ((e + 1) * (W * bps))
            /\ zlen d = Z.min ((e + 1) * (W * bps)) (zlen vis) - s * (W * bps)
            /\ 0 < zlen d)
         (split_core c W bps verdict vis).
Proof. exact SplitProofs.C05_bytes. Qed.

Theorem C05_order : forall B c W bps verdict (vis : list B), accepted c -> 0 < W -> 0 < bps ->
  StronglySorted (fun r1 r2 => snd r1 < snd (fst r2)) (split_core c W bps verdict vis).
Proof. exact SplitProofs.C05_order. Qed.

Theorem C05_whole_samples : forall B c W bps verdict (vis : list B) d s e,
  accepted c -> 0 < W -> 0 < bps -> (bps | zlen vis) ->
  In (d, s, e) (split_core c W bps verdict vis) ->
  (bps | zlen d) /\ d = zslice vis ((s * W) * bps) ((s * W) * bps + zlen d).
Proof. exact SplitProofs.C05_whole_samples. Qed.

(** the regions ARE the tokenizer segmentation (C01-C04) of the per-window verdicts (C07) *)
Theorem C05_compose : forall B c W bps verdict (vis : list B),
  map (fun r => (snd (fst r), snd r)) (split_core c W bps verdict vis)
  = map (fun t => (tok_start t, tok_end t))
        (tokenize c (map (fun b => (b, verdict b)) (chunks (Z.to_nat (W * bps)) vis))).
Proof. exact SplitProofs.C05_compose. Qed.

Theorem C05_energy_errors : forall data rate w ch mind maxd maxs aw st dr sel p q mx e,
  split_energy data rate w ch mind maxd maxs aw st dr sel p q mx = Err e -> e = ValueError.
Proof. exact SplitProofs.C05_energy_errors. Qed.

Definition C05_energy_ok := @SplitProofs.C05_energy_ok.
Definition C05_sample_count := @SplitProofs.C05_sample_count.

Print Assumptions C05_bytes.
Print Assumptions C05_order.
Print Assumptions C05_whole_samples.
Print Assumptions C05_compose.
Print Assumptions C05_energy_errors.
Print Assumptions C05_energy_ok.
Print Assumptions C05_sample_count.
