(** C13 - Saved stream and joined events are byte-exact under every interleaving
    and any cache size ([cache_size] is universally quantified). The joiner's and
    the region saver's files are functions of the observer's processed list
    (C12): join with silence / one file per detection (C17_join, C17_silence). *)
From Coq Require Import ZArith List Bool.
From AV Require Import Base.PyList Tok.Model Conc.Workers Audio.Region.
From AV Require Conc.WorkersSafety Audio.RegionProofs Conc.Savers.
Import ListNotations.
Open Scope Z_scope.

Module S := WorkersSafety.

(** in every reachable state: written ++ cached ++ in flight = the blocks read, in order;
    nothing is queued behind a stop marker; an exited writer has flushed and closed *)
Theorem C13_saver_inv : forall (A : Type) (c : config) (bsz : A -> Z) (cache_size : Z)
    (fs : list (A * bool)) (nobs : nat) (with_saver : bool) (s_old : st A) (y : sys A),
  S.reachable c bsz cache_size fs nobs with_saver s_old y ->
  forall v, sav y = Some v ->
    written v ++ scache v ++ S.sdata (sinbox v) = map fst (S.blocks_read fs y)
    /\ (forall pre post, sinbox v = pre ++ SStop :: post -> S.sdata post = [])
    /\ (spcv v = SExit -> scache v = [] /\ S.sdata (sinbox v) = [] /\ closed_file v = true).
Proof.
  intros A c bsz cs fs nobs ws s_old y Hr.
  exact (proj2 (proj2 (proj2 (proj2 (proj2 (proj2 (proj2 (@S.C12_inv A c bsz cs fs nobs ws s_old y Hr)))))))).
Qed.

Theorem C13_saver_final : forall (A : Type) (c : config) (bsz : A -> Z) (cache_size : Z)
    (fs : list (A * bool)) (nobs : nat) (with_saver : bool) (s_old : st A) (y : sys A),
  S.reachable c bsz cache_size fs nobs with_saver s_old y -> all_workers_exited y = true ->
  forall v, sav y = Some v -> written v = map fst (S.blocks_read fs y) /\ closed_file v = true.
Proof.
  intros A c bsz cs fs nobs ws s_old y Hr Hex.
  exact (proj2 (proj2 (@S.C12_final A c bsz cs fs nobs ws s_old y Hr Hex))).
Qed.

(** the joiner writes join(silence, events): byte-level interleaving, silence = round(d*rate) zero samples *)
Theorem C13_join_bytes : forall B (sep : region B) others, RegionProofs.wf sep -> Forall RegionProofs.wf others ->
  forallb (same_params sep) others = true ->
  join sep others = Ok (mkRegion (intercalate (rdata sep) (map rdata others)) (rate sep) (width sep) (nch sep)).
Proof. exact RegionProofs.C17_join. Qed.

(** the writer's methods (tied to workers.py by translation, TieSavers.v): the model's step on a data message is
    _process_message; whatever the cache size, a run of blocks followed by the final flush leaves exactly the blocks in the file *)
Theorem C13_writer_step_is_method : forall (A : Type) (bsz : A -> Z) (cache_size : Z) (v : saver A) b more,
  spcv v = SRun -> sinbox v = SData b :: more ->
  exists v', step_sav_one bsz cache_size v false = Some v' /\ sinbox v' = more /\ spcv v' = SRun
             /\ Savers.of_saver v' = let s := Savers.w_process bsz cache_size (Savers.of_saver v) b in
                                     Savers.mkW (Savers.wcache s) (Savers.wtotal s) (Savers.wfile s) false.
Proof. exact (@Savers.step_sav_data_is_w_process). Qed.

Theorem C13_writer_run : forall (A : Type) (bsz : A -> Z) (cache_size : Z) (ds : list A) (s : Savers.wstate A),
  let s' := Savers.w_flush (fold_left (Savers.w_process bsz cache_size) ds s) in
  Savers.wfile s' = Savers.wfile s ++ Savers.wcache s ++ ds /\ Savers.wcache s' = [].
Proof. exact (@Savers.w_run_content). Qed.

(** the joiner's method, event after event: the file is join(silence, events) - nothing before the first, nothing after the last *)
Theorem C13_joiner_file : forall B (sil : list B) (events : list (list B)),
  concat (snd (fold_left (Savers.j_write sil) events (true, []))) = intercalate sil events.
Proof. exact (@Savers.joiner_file_is_join). Qed.

Print Assumptions C13_saver_inv.
Print Assumptions C13_saver_final.
Print Assumptions C13_join_bytes.
Print Assumptions C13_writer_step_is_method.
Print Assumptions C13_writer_run.
Print Assumptions C13_joiner_file.
