(** C13 - Saved stream and joined events are byte-exact under every interleaving
    and any cache size ([cache_size] is universally quantified). The joiner's and
    the region saver's files are functions of the observer's processed list
    (C12): join with silence / one file per detection (C17_join, C17_silence). *)
From Coq Require Import ZArith List Bool.
From AV Require Import Base.PyList Tok.Model Conc.Workers Audio.Region.
From AV Require Conc.WorkersSafety Audio.RegionProofs.
Import ListNotations.
Open Scope Z_scope.

Module S := WorkersSafety.

(** in every reachable state: written ++ cached ++ in flight = the blocks read, in order;
    nothing is queued behind a stop marker; an exited writer has flushed and closed *)
Theorem C13_saver_inv : forall (A : Type) (c : config) (bsz : A -> Z) (cache_size : Z)
    (fs : list (A * bool)) (nobs : nat) (with_saver : bool) (s_old : st A) (y : sys A),
  S.reachable c bsz cache_size fs nobs with_saver s_old y ->
  forall v, sav y = Some v ->
    written v ++ scache v ++ S.sdata (sinbox v) = map fst (S.blocks_read fs y)
    /\ (forall pre post, sinbox v = pre ++ SStop :: post -> S.sdata post = [])
    /\ (spcv v = SExit -> scache v = [] /\ S.sdata (sinbox v) = [] /\ closed_file v = true).
Proof.
  intros A c bsz cs fs nobs ws s_old y Hr.
  exact (proj2 (proj2 (proj2 (proj2 (proj2 (proj2 (proj2 (@S.C12_inv A c bsz cs fs nobs ws s_old y Hr)))))))).
Qed.

Theorem C13_saver_final : forall (A : Type) (c : config) (bsz : A -> Z) (cache_size : Z)
    (fs : list (A * bool)) (nobs : nat) (with_saver : bool) (s_old : st A) (y : sys A),
  S.reachable c bsz cache_size fs nobs with_saver s_old y -> all_workers_exited y = true ->
  forall v, sav y = Some v -> written v = map fst (S.blocks_read fs y) /\ closed_file v = true.
Proof.
  intros A c bsz cs fs nobs ws s_old y Hr Hex.
  exact (proj2 (proj2 (@S.C12_final A c bsz cs fs nobs ws s_old y Hr Hex))).
Qed.

(** the joiner writes join(silence, events): byte-level interleaving, silence = round(d*rate) zero samples *)
Theorem C13_join_bytes : forall B (sep : region B) others, RegionProofs.wf sep -> Forall RegionProofs.wf others ->
  forallb (same_params sep) others = true ->
  join sep others = Ok (mkRegion (intercalate (rdata sep) (map rdata others)) (rate sep) (width sep) (nch sep)).
Proof. exact RegionProofs.C17_join. Qed.

Print Assumptions C13_saver_inv.
Print Assumptions C13_saver_final.
Print Assumptions C13_join_bytes.
