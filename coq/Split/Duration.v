(** auditok.core._duration_to_nb_windows and the parameter derivation block of
    split(), on binary64 exactly as Python computes them. Definitions only. *)
From Coq Require Import ZArith List Bool.
From AV Require Import Base.PyList Base.PyFloat Tok.Model.
Import ListNotations.
Open Scope Z_scope.

Inductive rnd := RFloor | RCeil.

(** _EPSILON = 1e-10 = 0x1.b7cdfd9d7bdbbp-34 *)
Definition eps_pos : f64 := of_me 0x1b7cdfd9d7bdbb (-86).
Definition eps_neg : f64 := of_me (- 0x1b7cdfd9d7bdbb) (-86).

(** _duration_to_nb_windows(duration, analysis_window, round_fn, epsilon);
    [eps = None] is the default integer 0 (x + 0 == x). *)
Definition nbw (d w : f64) (r : rnd) (eps : option f64) : result Z :=
  if flt d fzero || fle w fzero then Err ValueError
  else if feq d fzero then Ok 0
  else
    let x := fdiv d w in
    let x := match eps with Some e => fadd x e | None => x end in
    match (match r with RFloor => py_floor x | RCeil => py_ceil x end) with
    | Some n => Ok n
    | None => Err ValueError              (* floor/ceil of inf or nan *)
    end.

Definition bind {T U} (x : result T) (f : T -> result U) : result U :=
  match x with Ok v => f v | Err e => Err e end.

(** The checks and conversions of split() for an input that is NOT an
    AudioReader: [aw] is the analysis_window argument, [rate] the sampling rate.
    Result: (min_length, max_length, max_continuous_silence, block size). *)
Definition split_params (min_dur max_dur max_silence aw : f64) (rate : Z) : result (Z * Z * Z * Z) :=
  if fle min_dur fzero then Err ValueError
  else if fle max_dur fzero then Err ValueError
  else if flt max_silence fzero then Err ValueError
  else if fle aw fzero then Err ValueError
  else match py_int (fmul aw (of_Z rate)) with
       | None => Err ValueError
       | Some W =>
           if W =? 0 then Err ValueError       (* TooSmallBlockDuration re-raised as ValueError *)
           else
             bind (nbw min_dur aw RCeil (Some eps_neg)) (fun mn0 =>
             let mn := Z.max mn0 1 in
             bind (nbw max_dur aw RFloor (Some eps_pos)) (fun mx =>
             bind (nbw max_silence aw RFloor (Some eps_pos)) (fun ms =>
             if mx <? mn then Err ValueError
             else if mx <=? ms then Err ValueError
             else Ok (mn, mx, ms, W))))
       end.

(** For an AudioReader input the window is the reader's block duration
    block_size / rate and no analysis_window / block-size check is made. *)
Definition split_params_reader (min_dur max_dur max_silence : f64) (W rate : Z) : result (Z * Z * Z * Z) :=
  let aw := fdiv (of_Z W) (of_Z rate) in
  if fle min_dur fzero then Err ValueError
  else if fle max_dur fzero then Err ValueError
  else if flt max_silence fzero then Err ValueError
  else
    bind (nbw min_dur aw RCeil (Some eps_neg)) (fun mn0 =>
    let mn := Z.max mn0 1 in
    bind (nbw max_dur aw RFloor (Some eps_pos)) (fun mx =>
    bind (nbw max_silence aw RFloor (Some eps_pos)) (fun ms =>
    if mx <? mn then Err ValueError
    else if mx <=? ms then Err ValueError
    else Ok (mn, mx, ms, W)))).

(** Millisecond grid: the double written 0.001*a in decimal is the correctly
    rounded quotient a/1000. *)
Definition ms (a : Z) : f64 := fdiv (of_Z a) (of_Z 1000).

(** exact integer ceil / floor of a/b for b > 0 *)
Definition zceil (a b : Z) : Z := - ((- a) / b).
Definition zfloor (a b : Z) : Z := a / b.

Definition grid_point_ok (a b : Z) : bool :=
  match nbw (ms a) (ms b) RCeil (Some eps_neg), nbw (ms a) (ms b) RFloor (Some eps_pos) with
  | Ok c, Ok f => (c =? zceil a b) && (f =? zfloor a b)
  | _, _ => false
  end.
