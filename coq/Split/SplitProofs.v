(** Property C05: the regions delivered by split() are the input's own bytes at
    the reported window positions, in order and without overlap; and the model
    part of C09 (max_read is pre-slicing, alias resolution).

    Everything is a corollary of C01 (the tokenizer delivers exact slices of the
    frame stream) and of a list fact: slicing the list of analysis windows and
    concatenating is slicing the flat audio at multiples of the window size -
    also when the last window is partial. *)
From Coq Require Import ZArith List Bool Lia ZifyBool Sorted Arith Wf_nat.
From AV Require Import Base.PyList Base.PyFloat Tok.Model Tok.Spec Tok.Inv Tok.Lengths
  Audio.Pcm Audio.Energy Audio.RegionProofs Split.Duration Split.DurationProofs Split.Split.
Import ListNotations. Open Scope Z_scope.
Ltac Zify.zify_post_hook ::= Z.to_euclidean_division_equations.

(* ------------------------------------------------------------------ *)
(** * chunks without divisibility *)

Lemma skipn_chunks {A} n (Hn : (0 < n)%nat) : forall k (l : list A),
  skipn k (chunks n l) = chunks n (skipn (k * n) l).
Proof.
  induction k as [|k IH]; intros l; [reflexivity|].
  destruct l as [|x l].
  - rewrite chunks_nil, !skipn_nil. reflexivity.
  - rewrite chunks_cons_unfold by assumption. rewrite skipn_cons.
    rewrite IH, skipn_skipn'. reflexivity.
Qed.

Lemma concat_firstn_chunks {A} n (Hn : (0 < n)%nat) : forall k (l : list A),
  concat (firstn k (chunks n l)) = firstn (k * n) l.
Proof.
  induction k as [|k IH]; intros l; [reflexivity|].
  destruct l as [|x l].
  - rewrite chunks_nil, !firstn_nil. reflexivity.
  - rewrite chunks_cons_unfold by assumption. rewrite firstn_cons. cbn [concat].
    rewrite IH, firstn_firstn_skipn. reflexivity.
Qed.

(** general: slicing the chunk list = slicing the flat list at multiples of n,
    WITHOUT divisibility (zslice clamps at the end) *)
Lemma concat_zslice_chunks_gen : forall A n (l : list A) a b, (0 < n)%nat -> 0 <= a ->
  concat (zslice (chunks n l) a b) = zslice l (a * Z.of_nat n) (b * Z.of_nat n).
Proof.
  intros A n l a b Hn Ha. unfold zslice.
  rewrite skipn_chunks, concat_firstn_chunks by assumption.
  f_equal; [|f_equal].
  - destruct (Z.le_gt_cases a b) as [Hab|Hab].
    + apply Nat2Z.inj. rewrite Nat2Z.inj_mul, !Z2Nat.id by nia. ring.
    + replace (Z.to_nat (b - a)) with 0%nat by lia.
      replace (Z.to_nat (b * Z.of_nat n - a * Z.of_nat n)) with 0%nat by nia.
      reflexivity.
  - apply Nat2Z.inj. rewrite Nat2Z.inj_mul, !Z2Nat.id by nia. ring.
Qed.

(** ceil(len / n) windows *)
Lemma chunks_count : forall A n (l : list A), (0 < n)%nat ->
  zlen (chunks n l) = (zlen l + Z.of_nat n - 1) / Z.of_nat n.
Proof.
  intros A n l Hn. remember (length l) as k eqn:Hk.
  revert l Hk. induction k as [k IH] using lt_wf_ind. intros l Hk.
  destruct l as [|x l].
  - rewrite chunks_nil. change (zlen (@nil (list A))) with 0. change (zlen (@nil A)) with 0.
    symmetry. apply Z.div_small. lia.
  - rewrite chunks_cons_unfold by assumption. rewrite zlen_cons.
    rewrite (IH (length (skipn n (x :: l)))); [| |reflexivity].
    2:{ rewrite skipn_length. subst k. cbn [length]. lia. }
    rewrite zlen_skipn.
    pose proof (zlen_nonneg l) as Hl. rewrite zlen_cons.
    set (L := zlen l) in *. set (N := Z.of_nat n). assert (HN : 0 < N) by lia.
    destruct (Z.le_gt_cases N (L + 1)) as [Hge|Hlt].
    + rewrite Z.max_r by lia.
      replace (L + 1 + N - 1) with ((L + 1 - N + N - 1) + 1 * N) by ring.
      rewrite Z.div_add by lia. ring.
    + rewrite Z.max_l by lia.
      rewrite (Z.div_small (0 + N - 1) N) by lia.
      replace (L + 1 + N - 1) with (L + 1 * N) by ring.
      rewrite Z.div_add by lia. rewrite Z.div_small by lia. ring.
Qed.

Lemma map_fst_annot : forall A (f : A -> bool) l, map fst (map (fun b => (b, f b)) l) = l.
Proof. intros A f l. rewrite map_map. cbn [fst]. apply map_id. Qed.

(** A slice whose upper bound is past the end stops at the end. *)
Lemma zslice_clamp {A} (l : list A) a b : 0 <= a -> zlen l <= b ->
  zslice l a b = zslice l a (zlen l).
Proof.
  intros Ha Hb. unfold zslice.
  rewrite !firstn_all2; [reflexivity| |]; rewrite skipn_length; unfold zlen in *; lia.
Qed.

Lemma StronglySorted_map {X Y} (R : Y -> Y -> Prop) (f : X -> Y) (l : list X) :
  StronglySorted (fun a b => R (f a) (f b)) l -> StronglySorted R (map f l).
Proof.
  induction 1 as [|a l Hl IH Ha]; cbn [map]; constructor; [assumption|].
  rewrite Forall_map. exact Ha.
Qed.

(* ------------------------------------------------------------------ *)
(** * C05 *)

(** The window size as a natural number. *)
Lemma window_nat W bps : 0 < W -> 0 < bps ->
  Z.of_nat (Z.to_nat (W * bps)) = W * bps /\ (0 < Z.to_nat (W * bps))%nat.
Proof. intros HW Hb. assert (0 < W * bps) by nia. lia. Qed.

(** The region built from one token that is an exact slice of the window stream. *)
Lemma region_of_token {B} W bps (verdict : list B -> bool) (vis : list B) (t : token (list B)) :
  0 < W -> 0 < bps ->
  exact_slice (map (fun b => (b, verdict b)) (chunks (Z.to_nat (W * bps)) vis)) t ->
  let d := concat (tok_data t) in
  let s := tok_start t in
  let e := tok_end t in
  0 <= s <= e /\ s * (W * bps) < zlen vis
  /\ d = zslice vis (s * (W * bps)) ((e + 1) * (W * bps))
  /\ zlen d = Z.min ((e + 1) * (W * bps)) (zlen vis) - s * (W * bps)
  /\ 0 < zlen d.
Proof.
  intros HW Hbps (H1 & H2 & H3). cbv zeta.
  destruct (window_nat W bps HW Hbps) as [HN Hn].
  set (n := Z.to_nat (W * bps)) in *. set (N := W * bps) in *.
  assert (HNpos : 0 < N) by lia.
  set (s := tok_start t) in *. set (e := tok_end t) in *.
  rewrite zlen_map, chunks_count in H2 by assumption. rewrite HN in H2.
  assert (Hs : s * N < zlen vis).
  { assert (Hq : ((zlen vis + N - 1) / N) * N <= zlen vis + N - 1).
    { rewrite Z.mul_comm. apply Z.mul_div_le. lia. }
    nia. }
  assert (Hd : concat (tok_data t) = zslice vis (s * N) ((e + 1) * N)).
  { rewrite H3, zslice_map, map_fst_annot.
    rewrite concat_zslice_chunks_gen by lia. rewrite HN. reflexivity. }
  assert (Hlen : zlen (concat (tok_data t)) = Z.min ((e + 1) * N) (zlen vis) - s * N).
  { rewrite Hd, zlen_zslice by nia. nia. }
  repeat split; try lia; try assumption.
  rewrite Hlen. nia.
Qed.

(** C05: each region is exactly the input bytes of windows s..e *)
Theorem C05_bytes : forall B (c : config) W bps (verdict : list B -> bool) (vis : list B),
  accepted c -> 0 < W -> 0 < bps ->
  Forall (fun r => let '(d, s, e) := r in
            0 <= s <= e /\ s * (W * bps) < zlen vis
            /\ d = zslice vis (s * (W * bps)) ((e + 1) * (W * bps))
            /\ zlen d = Z.min ((e + 1) * (W * bps)) (zlen vis) - s * (W * bps)
            /\ 0 < zlen d)
         (split_core c W bps verdict vis).
Proof.
  intros B c W bps verdict vis Hacc HW Hbps. unfold split_core. cbv zeta.
  rewrite Forall_map.
  destruct (tokenize_C01 _ c (map (fun b => (b, verdict b)) (chunks (Z.to_nat (W * bps)) vis)) Hacc)
    as [HF _].
  eapply Forall_impl; [|exact HF].
  intros t Ht. exact (region_of_token W bps verdict vis t HW Hbps Ht).
Qed.

(** regions come in increasing order and never overlap (in windows, hence in
    samples and time) *)
Theorem C05_order : forall B c W bps verdict (vis : list B), accepted c -> 0 < W -> 0 < bps ->
  StronglySorted (fun r1 r2 => snd r1 < snd (fst r2)) (split_core c W bps verdict vis).
Proof.
  intros B c W bps verdict vis Hacc HW Hbps. unfold split_core. cbv zeta.
  destruct (tokenize_C01 _ c (map (fun b => (b, verdict b)) (chunks (Z.to_nat (W * bps)) vis)) Hacc)
    as [_ HS].
  apply StronglySorted_map. cbn [fst snd]. exact HS.
Qed.

(** composition: the regions' window bounds ARE the tokenizer's output on the
    per-window verdicts (so C02-C04 transfer) *)
Theorem C05_compose : forall B c W bps verdict (vis : list B),
  map (fun r => (snd (fst r), snd r)) (split_core c W bps verdict vis)
  = map (fun t => (tok_start t, tok_end t))
        (tokenize c (map (fun b => (b, verdict b)) (chunks (Z.to_nat (W * bps)) vis))).
Proof.
  intros B c W bps verdict vis. unfold split_core. cbv zeta.
  rewrite map_map. reflexivity.
Qed.

(** whole samples: if the input is a whole number of samples so is every
    region; its sample range is [s*W, s*W + len) *)
Theorem C05_whole_samples : forall B c W bps verdict (vis : list B) d s e,
  accepted c -> 0 < W -> 0 < bps -> (bps | zlen vis) ->
  In (d, s, e) (split_core c W bps verdict vis) ->
  (bps | zlen d) /\ d = zslice vis ((s * W) * bps) ((s * W) * bps + zlen d).
Proof.
  intros B c W bps verdict vis d s e Hacc HW Hbps Hdiv Hin.
  pose proof (C05_bytes B c W bps verdict vis Hacc HW Hbps) as HF.
  rewrite Forall_forall in HF. specialize (HF _ Hin). cbv beta iota in HF.
  destruct HF as (Hse & Hs & Hd & Hlen & Hpos).
  destruct (Z.le_gt_cases ((e + 1) * (W * bps)) (zlen vis)) as [Hle|Hgt].
  - rewrite Z.min_l in Hlen by assumption. split.
    + rewrite Hlen. exists ((e + 1) * W - s * W). ring.
    + replace (s * W * bps + zlen d) with ((e + 1) * (W * bps)) by (rewrite Hlen; ring).
      replace (s * W * bps) with (s * (W * bps)) by ring. exact Hd.
  - rewrite Z.min_r in Hlen by lia. split.
    + rewrite Hlen. destruct Hdiv as [k Hk]. exists (k - s * W). rewrite Hk. ring.
    + replace (s * W * bps + zlen d) with (zlen vis) by (rewrite Hlen; ring).
      replace (s * W * bps) with (s * (W * bps)) by ring.
      rewrite <- zslice_clamp with (b := (e + 1) * (W * bps)) by nia. exact Hd.
Qed.

(** The same in samples: the region is samples [s*W, min((e+1)*W, nsamples)). *)
Corollary C05_sample_count : forall B c W bps verdict (vis : list B) d s e nsamples,
  accepted c -> 0 < W -> 0 < bps -> zlen vis = nsamples * bps ->
  In (d, s, e) (split_core c W bps verdict vis) ->
  zlen d = (Z.min ((e + 1) * W) nsamples - s * W) * bps /\ s * W < nsamples.
Proof.
  intros B c W bps verdict vis d s e ns Hacc HW Hbps Hns Hin.
  pose proof (C05_bytes B c W bps verdict vis Hacc HW Hbps) as HF.
  rewrite Forall_forall in HF. specialize (HF _ Hin). cbv beta iota in HF.
  destruct HF as (Hse & Hs & Hd & Hlen & Hpos).
  rewrite Hns in *. split; [|nia].
  rewrite Hlen.
  destruct (Z.le_gt_cases ((e + 1) * W) ns) as [Hle|Hgt].
  - rewrite Z.min_l by nia. rewrite (Z.min_l ((e + 1) * W)) by assumption. ring.
  - rewrite Z.min_r by nia. rewrite (Z.min_r ((e + 1) * W)) by lia. ring.
Qed.

(* ------------------------------------------------------------------ *)
(** * C09 (model part) *)

(** the result is a function of the visible audio: max_read = pre-slicing *)
Theorem C09_max_read : forall B c W bps verdict (data : list B) m,
  split_core c W bps verdict (visible data bps (Some m))
  = split_core c W bps verdict (firstn (Z.to_nat (m * bps)) data).
Proof. reflexivity. Qed.

(** True for every [m]: for [m < 0] both sides are [[]] (see below). *)
Theorem C09_visible_prefix : forall B (data : list B) bps m, 0 < bps ->
  visible data bps (Some m) = zslice data 0 (m * bps).
Proof.
  intros B data bps m _. unfold visible, zslice. rewrite Z.sub_0_r. reflexivity.
Qed.

Corollary C09_visible_neg : forall B (data : list B) bps m, 0 < bps -> m <= 0 ->
  visible data bps (Some m) = [].
Proof.
  intros B data bps m Hb Hm. unfold visible.
  replace (Z.to_nat (m * bps)) with 0%nat by nia. reflexivity.
Qed.

Corollary C09_visible_len : forall B (data : list B) bps m, 0 < bps -> 0 <= m ->
  zlen (visible data bps (Some m)) = Z.min (m * bps) (zlen data).
Proof.
  intros B data bps m Hb Hm. unfold visible. rewrite zlen_firstn. nia.
Qed.

Theorem C09_visible_all : forall B (data : list B) bps, visible data bps None = data.
Proof. reflexivity. Qed.

(** alias resolution, the long name wins *)
Theorem C09_long_wins : forall T (a : T) s d, resolve (Some a) s d = a.
Proof. reflexivity. Qed.
Theorem C09_short_used : forall T (b : T) d, resolve None (Some b) d = b.
Proof. reflexivity. Qed.
Theorem C09_default : forall T (d : T), resolve None None d = d.
Proof. reflexivity. Qed.

(* ------------------------------------------------------------------ *)
(** * Errors of the whole split *)

Lemma is_valid_err_kind : forall w ch s p q data e,
  is_valid w ch s p q data = Err e -> e = ValueError.
Proof.
  intros w ch s p q data e. unfold is_valid.
  destruct (Nat.eqb ch 1); [congruence|].
  destruct s as [| |i|]; try congruence.
  destruct ((_ <? 0) || _); congruence.
Qed.

Lemma validate_err_kind : forall mn mx ms imin ims mode e,
  validate mn mx ms imin ims mode = Err e -> e = ValueError.
Proof.
  intros mn mx ms imin ims mode e. unfold validate.
  destruct (mx <=? 0); [congruence|].
  destruct ((mn <=? 0) || (mx <? mn)); [congruence|].
  destruct (mx <=? ms); [congruence|].
  destruct (mx <=? imin); [congruence|].
  destruct (negb _); congruence.
Qed.

Theorem C05_energy_errors : forall data rate w ch mind maxd maxs aw st dr sel p q mx e,
  split_energy data rate w ch mind maxd maxs aw st dr sel p q mx = Err e -> e = ValueError.
Proof.
  intros data rate w ch mind maxd maxs aw st dr sel p q mx e. unfold split_energy.
  destruct (split_params mind maxd maxs aw rate) as [[[[mn mxl] ms] W]|e1] eqn:Esp.
  - destruct (is_valid (Z.to_nat w) (Z.to_nat ch) sel p q []) as [b|e2] eqn:Ev.
    + destruct (validate mn mxl ms 0 0 _) as [c|e3] eqn:Eval; [discriminate|].
      intros H; injection H as <-. eapply validate_err_kind, Eval.
    + intros H; injection H as <-. eapply is_valid_err_kind, Ev.
  - intros H; injection H as <-. eapply C06_reject_kind, Esp.
Qed.

Theorem C05_custom_errors : forall data rate w ch mind maxd maxs aw st dr verdicts mx e,
  split_custom data rate w ch mind maxd maxs aw st dr verdicts mx = Err e -> e = ValueError.
Proof.
  intros data rate w ch mind maxd maxs aw st dr verdicts mx e. unfold split_custom.
  destruct (split_params mind maxd maxs aw rate) as [[[[mn mxl] ms] W]|e1] eqn:Esp.
  - destruct (validate mn mxl ms 0 0 _) as [c|e3] eqn:Eval; [discriminate|].
    intros H; injection H as <-. eapply validate_err_kind, Eval.
  - intros H; injection H as <-. eapply C06_reject_kind, Esp.
Qed.

(** The constructor never fails on the output of [split_params]. *)
Lemma split_validate : forall mind maxd maxs aw rate mn mxl ms W (st dr : bool),
  split_params mind maxd maxs aw rate = Ok (mn, mxl, ms, W) ->
  exists c, validate mn mxl ms 0 0 ((if st then 2 else 0) + (if dr then 4 else 0)) = Ok c
            /\ accepted c /\ init_min c = 0 /\ strict c = st /\ drop c = dr
            /\ min_length c = mn /\ max_length c = mxl /\ max_sil c = ms.
Proof.
  intros mind maxd maxs aw rate mn mxl ms W st dr Hsp.
  apply C06_params_valid in Hsp. destruct Hsp as (H1 & H2 & H3 & _).
  set (mode := (if st then 2 else 0) + (if dr then 4 else 0)).
  assert (Hv : valid_tuple mn mxl ms 0 mode).
  { unfold valid_tuple. repeat split; try lia. subst mode. destruct st, dr; lia. }
  eexists. split; [apply validate_accepts; exact Hv|].
  unfold accepted. cbn [min_length max_length max_sil init_min strict drop].
  repeat split; try lia; subst mode; destruct st, dr; reflexivity.
Qed.

Theorem C05_energy_ok : forall data rate w ch mind maxd maxs aw (st dr : bool) sel p q mx mn mxl ms W,
  split_params mind maxd maxs aw rate = Ok (mn, mxl, ms, W) ->
  (exists b, is_valid (Z.to_nat w) (Z.to_nat ch) sel p q [] = Ok b) ->
  exists c, validate mn mxl ms 0 0 ((if st then 2 else 0) + (if dr then 4 else 0)) = Ok c
    /\ accepted c /\ init_min c = 0
    /\ split_energy data rate w ch mind maxd maxs aw st dr sel p q mx =
       Ok (split_core c W (w * ch)
             (fun blk => match is_valid (Z.to_nat w) (Z.to_nat ch) sel p q blk with
                         | Ok b => b | Err _ => false end)
             (visible data (w * ch) mx)).
Proof.
  intros data rate w ch mind maxd maxs aw st dr sel p q mx mn mxl ms W Hsp [b Hb].
  destruct (split_validate _ _ _ _ _ _ _ _ _ st dr Hsp) as (c & Hc & Hacc & Hi & _).
  exists c. split; [exact Hc|]. split; [exact Hacc|]. split; [exact Hi|].
  unfold split_energy. rewrite Hsp, Hb, Hc. reflexivity.
Qed.

(** ... and conversely a success is exactly that. *)
Theorem C05_energy_ok_inv : forall data rate w ch mind maxd maxs aw st dr sel p q mx rs,
  split_energy data rate w ch mind maxd maxs aw st dr sel p q mx = Ok rs ->
  exists mn mxl ms W b, split_params mind maxd maxs aw rate = Ok (mn, mxl, ms, W)
    /\ is_valid (Z.to_nat w) (Z.to_nat ch) sel p q [] = Ok b.
Proof.
  intros data rate w ch mind maxd maxs aw st dr sel p q mx rs. unfold split_energy.
  destruct (split_params mind maxd maxs aw rate) as [[[[mn mxl] ms] W]|e1] eqn:Esp; [|discriminate].
  destruct (is_valid (Z.to_nat w) (Z.to_nat ch) sel p q []) as [b|e2] eqn:Ev; [|discriminate].
  intros _. exists mn, mxl, ms, W, b. split; reflexivity.
Qed.

(* ------------------------------------------------------------------ *)
(** * Non-vacuity *)

Definition ex_cfg : config := mkConfig 1 4 0 0 0 false false.
Definition ex_verdict (blk : list Z) : bool := existsb (fun x => 0 <? x) blk.

Example ex_cfg_accepted : accepted ex_cfg.
Proof. unfold accepted, ex_cfg; cbn [min_length max_length max_sil init_min]; lia. Qed.

(** 23 bytes, 1 byte per sample, windows of 4 samples: 6 windows, the last one
    has 3 bytes. *)
Definition ex_audio23 : list Z :=
  [0;0;0;0; 1;2;3;4; 5;6;7;8; 0;0;0;0; 0;0;0;0; 9;9;9].

Example ex_split_23 :
  split_core ex_cfg 4 1 ex_verdict ex_audio23
  = [([1;2;3;4;5;6;7;8], 1, 2); ([9;9;9], 5, 5)].
Proof. vm_compute. reflexivity. Qed.

(** the second region ends in the partial last window: (e+1)*W*bps = 24 > 23 *)
Example ex_split_23_partial :
  zslice ex_audio23 (5 * (4 * 1)) ((5 + 1) * (4 * 1)) = [9;9;9]
  /\ Z.min ((5 + 1) * (4 * 1)) (zlen ex_audio23) - 5 * (4 * 1) = 3
  /\ zslice ex_audio23 (1 * (4 * 1)) ((2 + 1) * (4 * 1)) = [1;2;3;4;5;6;7;8].
Proof. vm_compute. repeat split; reflexivity. Qed.

(** 22 bytes = 11 samples of 2 bytes, windows of 2 samples (4 bytes): 6 windows,
    the last one has a single sample. *)
Definition ex_audio22 : list Z :=
  [0;0;0;0; 1;2;3;4; 5;6;7;8; 0;0;0;0; 0;0;0;0; 9;9].

Example ex_split_22 :
  split_core ex_cfg 2 2 ex_verdict ex_audio22
  = [([1;2;3;4;5;6;7;8], 1, 2); ([9;9], 5, 5)].
Proof. vm_compute. reflexivity. Qed.

Example ex_split_22_whole : (2 | zlen ex_audio22) /\ zlen ex_audio22 = 11 * 2.
Proof. split; [exists 11|]; reflexivity. Qed.

(** the theorems instantiated on the examples *)
Example ex_C05_bytes_inst :
  Forall (fun r => let '(d, s, e) := r in
            0 <= s <= e /\ s * (2 * 2) < zlen ex_audio22
            /\ d = zslice ex_audio22 (s * (2 * 2)) ((e + 1) * (2 * 2))
            /\ zlen d = Z.min ((e + 1) * (2 * 2)) (zlen ex_audio22) - s * (2 * 2)
            /\ 0 < zlen d)
         [([1;2;3;4;5;6;7;8], 1, 2); ([9;9], 5, 5)].
Proof.
  rewrite <- ex_split_22. apply C05_bytes; [exact ex_cfg_accepted | lia | lia].
Qed.

Example ex_C05_whole_inst :
  (2 | zlen [9;9]) /\ [9;9] = zslice ex_audio22 ((5 * 2) * 2) ((5 * 2) * 2 + zlen [9;9]).
Proof.
  apply (C05_whole_samples Z ex_cfg 2 2 ex_verdict ex_audio22 [9;9] 5 5);
    [exact ex_cfg_accepted | lia | lia | exists 11; reflexivity |].
  rewrite ex_split_22. right; left; reflexivity.
Qed.

Example ex_C05_order_inst :
  StronglySorted (fun r1 r2 : list Z * Z * Z => snd r1 < snd (fst r2))
                 [([1;2;3;4;5;6;7;8], 1, 2); ([9;9], 5, 5)].
Proof.
  rewrite <- ex_split_22. apply C05_order; [exact ex_cfg_accepted | lia | lia].
Qed.

(** max_read = 5 samples of 2 bytes: only the first 10 bytes are seen *)
Example ex_C09_max_read :
  split_core ex_cfg 2 2 ex_verdict (visible ex_audio22 2 (Some 5)) = [([1;2;3;4;5;6], 1, 2)]
  /\ visible ex_audio22 2 (Some 5) = [0;0;0;0; 1;2;3;4; 5;6]
  /\ visible ex_audio22 2 (Some (-3)) = []
  /\ visible ex_audio22 2 (Some 100) = ex_audio22.
Proof. vm_compute. repeat split; reflexivity. Qed.

Example ex_resolve :
  resolve (Some 1) (Some 2) 3 = 1 /\ resolve None (Some 2) 3 = 2 /\ resolve (@None Z) None 3 = 3.
Proof. repeat split; reflexivity. Qed.

(** split_energy: 8-bit mono at 10 Hz, windows of 0.2 s = 2 samples, threshold
    0 dB; 9 bytes, the last window is partial. *)
Definition ex_energy_audio : list Z := [0;0; 3;4; 5;6; 0;0; 7].

Example ex_energy_params : split_params (ms 200) (ms 1000) (ms 0) (ms 200) 10 = Ok (1, 5, 0, 2).
Proof. vm_compute. reflexivity. Qed.

Example ex_energy_selector : exists b, is_valid (Z.to_nat 1) (Z.to_nat 1) SAny 0 1 [] = Ok b.
Proof. eexists. vm_compute. reflexivity. Qed.

Example ex_energy_split :
  split_energy ex_energy_audio 10 1 1 (ms 200) (ms 1000) (ms 0) (ms 200) false false SAny 0 1 None
  = Ok [([3;4;5;6], 1, 2); ([7], 4, 4)].
Proof. vm_compute. reflexivity. Qed.

(** C05_energy_ok applies to it *)
Example ex_C05_energy_ok_inst :
  exists c, validate 1 5 0 0 0 ((if false then 2 else 0) + (if false then 4 else 0)) = Ok c
    /\ accepted c /\ init_min c = 0
    /\ split_energy ex_energy_audio 10 1 1 (ms 200) (ms 1000) (ms 0) (ms 200) false false SAny 0 1 None =
       Ok (split_core c 2 (1 * 1)
             (fun blk => match is_valid (Z.to_nat 1) (Z.to_nat 1) SAny 0 1 blk with
                         | Ok b => b | Err _ => false end)
             (visible ex_energy_audio (1 * 1) None)).
Proof. apply C05_energy_ok; [exact ex_energy_params | exact ex_energy_selector]. Qed.

Example ex_energy_bad_selector :
  split_energy ex_energy_audio 10 1 2 (ms 200) (ms 1000) (ms 0) (ms 200) false false (SIdx 2) 0 1 None
  = Err ValueError.
Proof. vm_compute. reflexivity. Qed.

(* ------------------------------------------------------------------ *)

Print Assumptions concat_zslice_chunks_gen.
Print Assumptions chunks_count.
Print Assumptions map_fst_annot.
Print Assumptions C05_bytes.
Print Assumptions C05_order.
Print Assumptions C05_whole_samples.
Print Assumptions C05_sample_count.
Print Assumptions C05_compose.
Print Assumptions C09_max_read.
Print Assumptions C09_visible_prefix.
Print Assumptions C09_visible_neg.
Print Assumptions C09_visible_len.
Print Assumptions C09_visible_all.
Print Assumptions C09_long_wins.
Print Assumptions C09_short_used.
Print Assumptions C09_default.
Print Assumptions C05_energy_errors.
Print Assumptions C05_custom_errors.
Print Assumptions C05_energy_ok.
Print Assumptions C05_energy_ok_inv.
