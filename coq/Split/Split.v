(** Model of auditok.core.split(): framing of the visible audio into analysis
    windows, per-window verdicts, tokenization, regions. Definitions only.
    The input is the decoded audio (bytes as Z) - the model is by construction
    a function of the audio and the resolved parameters only (C09). *)
From Coq Require Import ZArith List Bool.
From AV Require Import Base.PyList Base.PyFloat Tok.Model Audio.Pcm Audio.Energy Split.Duration.
Import ListNotations.
Open Scope Z_scope.

Section Core.
Context {B : Type}.

(** The regions as (bytes, first window, last window). [W] window size in
    samples, [bps] bytes per sample (all channels). *)
Definition split_core (c : config) (W bps : Z) (verdict : list B -> bool) (vis : list B)
  : list (list B * Z * Z) :=
  let blks := chunks (Z.to_nat (W * bps)) vis in
  map (fun t => (concat (tok_data t), tok_start t, tok_end t))
      (tokenize c (map (fun b => (b, verdict b)) blks)).

(** max_read: the visible data is the first [m] samples. *)
Definition visible (data : list B) (bps : Z) (max_samples : option Z) : list B :=
  match max_samples with
  | None => data
  | Some m => firstn (Z.to_nat (m * bps)) data
  end.

End Core.

(** kwargs.get("long", kwargs.get("short", default)): a key that is present
    wins even if its value is None. *)
Definition resolve {T} (long short : option T) (default : T) : T :=
  match long with Some a => a | None => match short with Some b => b | None => default end end.

(** Region times exactly as the code computes them in binary64:
    start = start_frame * (block_size / sr); duration = len(data) / (sr*sw*ch);
    end = start + duration. *)
Definition region_start (s W rate : Z) : f64 := fmul (of_Z s) (fdiv (of_Z W) (of_Z rate)).
Definition region_duration (nbytes rate w ch : Z) : f64 := fdiv (of_Z nbytes) (of_Z (rate * w * ch)).
Definition region_end (s W rate nbytes w ch : Z) : f64 :=
  fadd (region_start s W rate) (region_duration nbytes rate w ch).

(** Energy verdict of one window; a selector the constructor rejects is an
    error of the whole split. *)
Definition split_energy (data : list Z) (rate w ch : Z)
           (min_dur max_dur max_silence aw : f64) (strict drop : bool)
           (sel : sel) (p q : Z) (max_samples : option Z)
  : result (list (list Z * Z * Z)) :=
  match split_params min_dur max_dur max_silence aw rate with
  | Err e => Err e
  | Ok (mn, mx, ms, W) =>
      match is_valid (Z.to_nat w) (Z.to_nat ch) sel p q [] with
      | Err e => Err e
      | Ok _ =>
          let mode := (if strict then 2 else 0) + (if drop then 4 else 0) in
          match validate mn mx ms 0 0 mode with
          | Err e => Err e
          | Ok c =>
              let verdict := fun blk => match is_valid (Z.to_nat w) (Z.to_nat ch) sel p q blk with
                                        | Ok b => b | Err _ => false end in
              Ok (split_core c W (w * ch) verdict (visible data (w * ch) max_samples))
          end
      end
  end.

(** Same with externally supplied verdicts per window (custom validator). *)
Definition split_custom (data : list Z) (rate w ch : Z)
           (min_dur max_dur max_silence aw : f64) (strict drop : bool)
           (verdicts : list bool) (max_samples : option Z)
  : result (list (list Z * Z * Z)) :=
  match split_params min_dur max_dur max_silence aw rate with
  | Err e => Err e
  | Ok (mn, mx, ms, W) =>
      let mode := (if strict then 2 else 0) + (if drop then 4 else 0) in
      match validate mn mx ms 0 0 mode with
      | Err e => Err e
      | Ok c =>
          let vis := visible data (w * ch) max_samples in
          let blks := chunks (Z.to_nat (W * (w * ch))) vis in
          Ok (map (fun t => (concat (tok_data t), tok_start t, tok_end t))
                  (tokenize c (combine blks (verdicts ++ repeat false (length blks)))))
      end
  end.
