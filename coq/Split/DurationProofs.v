(** Property C06: the duration -> window-count block of split().
    Accept / reject decision, error kind, validity of the derived counts for the
    tokenizer constructor, and the millisecond grid (reflection). *)
From Coq Require Import ZArith List Bool Lia ZifyBool.
From AV Require Import Base.PyList Base.PyFloat Tok.Model Split.Duration.
Import ListNotations. Open Scope Z_scope.
Ltac Zify.zify_post_hook ::= Z.to_euclidean_division_equations.

(* ------------------------------------------------------------------ *)
(** * Facts on [nbw] *)

Lemma nbw_err_kind : forall d w r eps e, nbw d w r eps = Err e -> e = ValueError.
Proof.
  intros d w r eps e. unfold nbw.
  destruct (flt d fzero || fle w fzero); [congruence|].
  destruct (feq d fzero); [congruence|].
  destruct (match r with RFloor => _ | RCeil => _ end); congruence.
Qed.

Lemma nbw_zero : forall d w r eps,
  flt d fzero = false -> fle w fzero = false -> feq d fzero = true ->
  nbw d w r eps = Ok 0.
Proof.
  intros d w r eps Hd Hw Hz. unfold nbw. rewrite Hd, Hw, Hz. reflexivity.
Qed.

(** a negative duration or a non-positive window is rejected *)
Lemma nbw_reject : forall d w r eps,
  flt d fzero = true \/ fle w fzero = true -> nbw d w r eps = Err ValueError.
Proof.
  intros d w r eps H. unfold nbw.
  destruct (flt d fzero); [reflexivity|].
  destruct (fle w fzero); [reflexivity|].
  destruct H; discriminate.
Qed.

(** when [nbw] answers, the guards passed and the count is the rounding of the
    (epsilon-shifted) binary64 quotient *)
Lemma nbw_ok_inv : forall d w r eps n, nbw d w r eps = Ok n ->
  flt d fzero = false /\ fle w fzero = false /\
  ((feq d fzero = true /\ n = 0) \/
   (feq d fzero = false /\
    let x := fdiv d w in
    let x := match eps with Some e => fadd x e | None => x end in
    match r with RFloor => py_floor x | RCeil => py_ceil x end = Some n)).
Proof.
  intros d w r eps n. unfold nbw.
  destruct (flt d fzero); [discriminate|].
  destruct (fle w fzero); [discriminate|]. cbn [orb].
  destruct (feq d fzero).
  - intros H; injection H as <-. auto.
  - destruct (match r with RFloor => _ | RCeil => _ end) as [k|] eqn:E; [|discriminate].
    intros H; injection H as <-. repeat split. right. split; reflexivity.
Qed.

(* ------------------------------------------------------------------ *)
(** * C06: accept / reject *)

Theorem C06_accept : forall min_dur max_dur max_silence aw rate r,
  split_params min_dur max_dur max_silence aw rate = Ok r <->
  exists W mn0 mx ms,
    fle min_dur fzero = false /\ fle max_dur fzero = false /\ flt max_silence fzero = false /\ fle aw fzero = false
    /\ py_int (fmul aw (of_Z rate)) = Some W /\ W <> 0
    /\ nbw min_dur aw RCeil (Some eps_neg) = Ok mn0 /\ nbw max_dur aw RFloor (Some eps_pos) = Ok mx /\ nbw max_silence aw RFloor (Some eps_pos) = Ok ms
    /\ Z.max mn0 1 <= mx /\ ms < mx /\ r = (Z.max mn0 1, mx, ms, W).
Proof.
  intros min_dur max_dur max_silence aw rate r. unfold split_params. split.
  - destruct (fle min_dur fzero) eqn:E1; [discriminate|].
    destruct (fle max_dur fzero) eqn:E2; [discriminate|].
    destruct (flt max_silence fzero) eqn:E3; [discriminate|].
    destruct (fle aw fzero) eqn:E4; [discriminate|].
    destruct (py_int (fmul aw (of_Z rate))) as [W|] eqn:EW; [|discriminate].
    destruct (W =? 0) eqn:EW0; [discriminate|].
    destruct (nbw min_dur aw RCeil (Some eps_neg)) as [mn0|e1] eqn:N1; cbn [bind]; [|discriminate].
    destruct (nbw max_dur aw RFloor (Some eps_pos)) as [mx|e2] eqn:N2; cbn [bind]; [|discriminate].
    destruct (nbw max_silence aw RFloor (Some eps_pos)) as [ms|e3] eqn:N3; cbn [bind]; [|discriminate].
    destruct (mx <? Z.max mn0 1) eqn:C1; [discriminate|].
    destruct (mx <=? ms) eqn:C2; [discriminate|].
    intros H; injection H as <-.
    exists W, mn0, mx, ms. repeat split; try reflexivity; lia.
  - intros (W & mn0 & mx & ms & E1 & E2 & E3 & E4 & EW & EW0 & N1 & N2 & N3 & C1 & C2 & ->).
    rewrite E1, E2, E3, E4, EW.
    destruct (W =? 0) eqn:EW0'; [lia|].
    rewrite N1; cbn [bind]. rewrite N2; cbn [bind]. rewrite N3; cbn [bind].
    destruct (mx <? Z.max mn0 1) eqn:C1'; [lia|].
    destruct (mx <=? ms) eqn:C2'; [lia|]. reflexivity.
Qed.

Theorem C06_reject_kind : forall min_dur max_dur max_silence aw rate e,
  split_params min_dur max_dur max_silence aw rate = Err e -> e = ValueError.
Proof.
  intros min_dur max_dur max_silence aw rate e. unfold split_params.
  destruct (fle min_dur fzero); [congruence|].
  destruct (fle max_dur fzero); [congruence|].
  destruct (flt max_silence fzero); [congruence|].
  destruct (fle aw fzero); [congruence|].
  destruct (py_int (fmul aw (of_Z rate))) as [W|]; [|congruence].
  destruct (W =? 0); [congruence|].
  destruct (nbw min_dur aw RCeil (Some eps_neg)) as [mn0|e1] eqn:N1; cbn [bind];
    [|intros H; injection H as <-; exact (nbw_err_kind _ _ _ _ _ N1)].
  destruct (nbw max_dur aw RFloor (Some eps_pos)) as [mx|e2] eqn:N2; cbn [bind];
    [|intros H; injection H as <-; exact (nbw_err_kind _ _ _ _ _ N2)].
  destruct (nbw max_silence aw RFloor (Some eps_pos)) as [ms|e3] eqn:N3; cbn [bind];
    [|intros H; injection H as <-; exact (nbw_err_kind _ _ _ _ _ N3)].
  destruct (mx <? Z.max mn0 1); [congruence|].
  destruct (mx <=? ms); congruence.
Qed.

(** the complete reject characterisation: which test fails *)
Theorem C06_reject_iff : forall min_dur max_dur max_silence aw rate,
  split_params min_dur max_dur max_silence aw rate = Err ValueError <->
  ~ exists r, split_params min_dur max_dur max_silence aw rate = Ok r.
Proof.
  intros. split.
  - intros H (r & Hr). congruence.
  - intros H. destruct (split_params min_dur max_dur max_silence aw rate) as [r|e] eqn:E.
    + exfalso. apply H. exists r. reflexivity.
    + rewrite (C06_reject_kind _ _ _ _ _ _ E). reflexivity.
Qed.

Theorem C06_accept_reader : forall min_dur max_dur max_silence W rate r,
  split_params_reader min_dur max_dur max_silence W rate = Ok r <->
  exists mn0 mx ms,
    let aw := fdiv (of_Z W) (of_Z rate) in
    fle min_dur fzero = false /\ fle max_dur fzero = false /\ flt max_silence fzero = false
    /\ nbw min_dur aw RCeil (Some eps_neg) = Ok mn0 /\ nbw max_dur aw RFloor (Some eps_pos) = Ok mx /\ nbw max_silence aw RFloor (Some eps_pos) = Ok ms
    /\ Z.max mn0 1 <= mx /\ ms < mx /\ r = (Z.max mn0 1, mx, ms, W).
Proof.
  intros min_dur max_dur max_silence W rate r. unfold split_params_reader.
  set (aw := fdiv (of_Z W) (of_Z rate)). split.
  - destruct (fle min_dur fzero) eqn:E1; [discriminate|].
    destruct (fle max_dur fzero) eqn:E2; [discriminate|].
    destruct (flt max_silence fzero) eqn:E3; [discriminate|].
    destruct (nbw min_dur aw RCeil (Some eps_neg)) as [mn0|e1] eqn:N1; cbn [bind]; [|discriminate].
    destruct (nbw max_dur aw RFloor (Some eps_pos)) as [mx|e2] eqn:N2; cbn [bind]; [|discriminate].
    destruct (nbw max_silence aw RFloor (Some eps_pos)) as [ms|e3] eqn:N3; cbn [bind]; [|discriminate].
    destruct (mx <? Z.max mn0 1) eqn:C1; [discriminate|].
    destruct (mx <=? ms) eqn:C2; [discriminate|].
    intros H; injection H as <-.
    exists mn0, mx, ms. cbv zeta. repeat split; try reflexivity; lia.
  - intros (mn0 & mx & ms & H). cbv zeta in H.
    destruct H as (E1 & E2 & E3 & N1 & N2 & N3 & C1 & C2 & ->).
    rewrite E1, E2, E3.
    rewrite N1; cbn [bind]. rewrite N2; cbn [bind]. rewrite N3; cbn [bind].
    destruct (mx <? Z.max mn0 1) eqn:C1'; [lia|].
    destruct (mx <=? ms) eqn:C2'; [lia|]. reflexivity.
Qed.

Theorem C06_reject_kind_reader : forall min_dur max_dur max_silence W rate e,
  split_params_reader min_dur max_dur max_silence W rate = Err e -> e = ValueError.
Proof.
  intros min_dur max_dur max_silence W rate e. unfold split_params_reader.
  set (aw := fdiv (of_Z W) (of_Z rate)).
  destruct (fle min_dur fzero); [congruence|].
  destruct (fle max_dur fzero); [congruence|].
  destruct (flt max_silence fzero); [congruence|].
  destruct (nbw min_dur aw RCeil (Some eps_neg)) as [mn0|e1] eqn:N1; cbn [bind];
    [|intros H; injection H as <-; exact (nbw_err_kind _ _ _ _ _ N1)].
  destruct (nbw max_dur aw RFloor (Some eps_pos)) as [mx|e2] eqn:N2; cbn [bind];
    [|intros H; injection H as <-; exact (nbw_err_kind _ _ _ _ _ N2)].
  destruct (nbw max_silence aw RFloor (Some eps_pos)) as [ms|e3] eqn:N3; cbn [bind];
    [|intros H; injection H as <-; exact (nbw_err_kind _ _ _ _ _ N3)].
  destruct (mx <? Z.max mn0 1); [congruence|].
  destruct (mx <=? ms); congruence.
Qed.

(* ------------------------------------------------------------------ *)
(** * The derived counts are accepted by the tokenizer constructor *)

(** Corrected statement: about the block size only [W <> 0] is known (a negative
    sampling rate gives a negative [W]); the task's disjunction was a slip. *)
Theorem C06_params_valid : forall min_dur max_dur max_silence aw rate mn mx ms W,
  split_params min_dur max_dur max_silence aw rate = Ok (mn, mx, ms, W) ->
  0 < mx /\ 0 < mn <= mx /\ ms < mx /\ W <> 0.
Proof.
  intros min_dur max_dur max_silence aw rate mn mx ms W H.
  apply C06_accept in H.
  destruct H as (W' & mn0 & mx' & ms' & _ & _ & _ & _ & _ & HW & _ & _ & _ & C1 & C2 & E).
  injection E as -> -> -> ->. lia.
Qed.

Theorem C06_params_valid_reader : forall min_dur max_dur max_silence W0 rate mn mx ms W,
  split_params_reader min_dur max_dur max_silence W0 rate = Ok (mn, mx, ms, W) ->
  0 < mx /\ 0 < mn <= mx /\ ms < mx /\ W = W0.
Proof.
  intros min_dur max_dur max_silence W0 rate mn mx ms W H.
  apply C06_accept_reader in H.
  destruct H as (mn0 & mx' & ms' & H). cbv zeta in H.
  destruct H as (_ & _ & _ & _ & _ & _ & C1 & C2 & E).
  injection E as -> -> -> ->. lia.
Qed.

(** ... hence StreamTokenizer.__init__ ([validate]) succeeds with split()'s
    init_min = init_max_silence = 0 and any legal mode. *)
Theorem C06_params_validate : forall min_dur max_dur max_silence aw rate mn mx ms W mode,
  split_params min_dur max_dur max_silence aw rate = Ok (mn, mx, ms, W) ->
  mode = 0 \/ mode = 2 \/ mode = 4 \/ mode = 6 ->
  exists cfg, validate mn mx ms 0 0 mode = Ok cfg.
Proof.
  intros min_dur max_dur max_silence aw rate mn mx ms W mode H Hmode.
  apply C06_params_valid in H. destruct H as (H1 & H2 & H3 & _).
  unfold validate.
  destruct (mx <=? 0) eqn:E1; [lia|].
  destruct (mn <=? 0) eqn:E2; [lia|].
  destruct (mx <? mn) eqn:E3; [lia|]. cbn [orb].
  destruct (mx <=? ms) eqn:E4; [lia|].
  destruct (mx <=? 0) eqn:E5; [lia|].
  destruct Hmode as [ -> | [ -> | [ -> | -> ] ] ]; cbn; eexists; reflexivity.
Qed.

Theorem C06_params_validate_reader : forall min_dur max_dur max_silence W0 rate mn mx ms W mode,
  split_params_reader min_dur max_dur max_silence W0 rate = Ok (mn, mx, ms, W) ->
  mode = 0 \/ mode = 2 \/ mode = 4 \/ mode = 6 ->
  exists cfg, validate mn mx ms 0 0 mode = Ok cfg.
Proof.
  intros min_dur max_dur max_silence W0 rate mn mx ms W mode H Hmode.
  apply C06_params_valid_reader in H. destruct H as (H1 & H2 & H3 & _).
  unfold validate.
  destruct (mx <=? 0) eqn:E1; [lia|].
  destruct (mn <=? 0) eqn:E2; [lia|].
  destruct (mx <? mn) eqn:E3; [lia|]. cbn [orb].
  destruct (mx <=? ms) eqn:E4; [lia|].
  destruct (mx <=? 0) eqn:E5; [lia|].
  destruct Hmode as [ -> | [ -> | [ -> | -> ] ] ]; cbn; eexists; reflexivity.
Qed.

(* ------------------------------------------------------------------ *)
(** * Millisecond grid *)

Lemma zceil_spec : forall a b, 0 < b -> (zceil a b - 1) * b < a <= zceil a b * b.
Proof. intros a b Hb. unfold zceil. nia. Qed.

Lemma zfloor_spec : forall a b, 0 < b -> zfloor a b * b <= a < (zfloor a b + 1) * b.
Proof. intros a b Hb. unfold zfloor. nia. Qed.

(** [zceil a b] is the smallest count of windows of b ms covering a ms, and
    [zfloor a b] the largest count fitting in a ms *)
Lemma zceil_least : forall a b n, 0 < b -> a <= n * b -> zceil a b <= n.
Proof. intros a b n Hb H. pose proof (zceil_spec a b Hb). nia. Qed.

Lemma zfloor_greatest : forall a b n, 0 < b -> n * b <= a -> n <= zfloor a b.
Proof. intros a b n Hb H. pose proof (zfloor_spec a b Hb). nia. Qed.

Lemma zceil_zfloor_exact : forall k b, 0 < b -> zceil (k * b) b = k /\ zfloor (k * b) b = k.
Proof.
  intros k b Hb. pose proof (zceil_spec (k * b) b Hb). pose proof (zfloor_spec (k * b) b Hb).
  split; nia.
Qed.

Definition zr (a b : Z) := map (fun i => a + Z.of_nat i) (seq 0 (Z.to_nat (b - a + 1))).

Lemma In_zr : forall a b x, a <= x <= b -> In x (zr a b).
Proof.
  intros a b x H. unfold zr. apply in_map_iff.
  exists (Z.to_nat (x - a)). split; [lia|].
  apply in_seq. lia.
Qed.

Definition grid_row_ok (amax b : Z) : bool := forallb (fun a => grid_point_ok a b) (zr 0 amax).

Theorem C06_grid_row : forall amax b, grid_row_ok amax b = true ->
  forall a, 0 <= a <= amax -> grid_point_ok a b = true.
Proof.
  intros amax b H a Ha. unfold grid_row_ok in H.
  rewrite forallb_forall in H. apply H. apply In_zr. exact Ha.
Qed.

Theorem C06_grid_point_meaning : forall a b, grid_point_ok a b = true ->
  nbw (ms a) (ms b) RCeil (Some eps_neg) = Ok (zceil a b) /\ nbw (ms a) (ms b) RFloor (Some eps_pos) = Ok (zfloor a b).
Proof.
  intros a b. unfold grid_point_ok.
  destruct (nbw (ms a) (ms b) RCeil (Some eps_neg)) as [c|e1]; [|discriminate].
  destruct (nbw (ms a) (ms b) RFloor (Some eps_pos)) as [f|e2]; [|discriminate].
  intros H. apply andb_true_iff in H. destruct H as [H1 H2].
  apply Z.eqb_eq in H1. apply Z.eqb_eq in H2. subst. split; reflexivity.
Qed.

(** a whole row at once, in the form used by the generated sweep files *)
Corollary C06_grid_row_meaning : forall amax b, grid_row_ok amax b = true ->
  forall a, 0 <= a <= amax ->
  nbw (ms a) (ms b) RCeil (Some eps_neg) = Ok (zceil a b) /\ nbw (ms a) (ms b) RFloor (Some eps_pos) = Ok (zfloor a b).
Proof.
  intros amax b H a Ha. apply C06_grid_point_meaning. exact (C06_grid_row amax b H a Ha).
Qed.

(** concrete rows: every whole-millisecond duration up to 2 s (resp. 1 s) with
    the 10 ms (resp. 20 ms, 50 ms) analysis window *)
Theorem C06_grid_10ms : grid_row_ok 2000 10 = true.
Proof. vm_compute. reflexivity. Qed.

Theorem C06_grid_20ms : grid_row_ok 1000 20 = true.
Proof. vm_compute. reflexivity. Qed.

Theorem C06_grid_50ms : grid_row_ok 1000 50 = true.
Proof. vm_compute. reflexivity. Qed.

Corollary C06_example_007 : nbw (ms 70) (ms 10) RCeil (Some eps_neg) = Ok 7.
Proof.
  exact (proj1 (C06_grid_row_meaning 2000 10 C06_grid_10ms 70 ltac:(lia))).
Qed.

(** the same quotient without the epsilon is the defect D5: 0.07/0.01 is
    7.000000000000001 in binary64, whose ceiling is 8 *)
Example C06_example_007_no_epsilon : nbw (ms 70) (ms 10) RCeil None = Ok 8.
Proof. vm_compute. reflexivity. Qed.

Corollary C06_example_floor_03_01 : nbw (ms 300) (ms 100) RFloor (Some eps_pos) = Ok 3.
Proof. vm_compute. reflexivity. Qed.

(* ------------------------------------------------------------------ *)
(** * Non-vacuity *)

(** split(min_dur=0.2, max_dur=5, max_silence=0.3, analysis_window=0.05) at 16 kHz *)
Example C06_accept_example :
  split_params (ms 200) (ms 5000) (ms 300) (ms 50) 16000 = Ok (4, 100, 6, 800).
Proof. vm_compute. reflexivity. Qed.

(** min_dur=0.07, analysis_window=0.01: exactly 7 windows *)
Example C06_accept_example_007 :
  split_params (ms 70) (ms 5000) (ms 300) (ms 10) 16000 = Ok (7, 500, 30, 160).
Proof. vm_compute. reflexivity. Qed.

(** min_dur below one window is clamped to 1 *)
Example C06_accept_example_clamp :
  split_params (ms 1) (ms 5000) (ms 0) (ms 50) 16000 = Ok (1, 100, 0, 800).
Proof. vm_compute. reflexivity. Qed.

(** rejections: min_dur = 0, max_dur < min_dur, max_silence >= max_dur, window
    shorter than one sample *)
Example C06_reject_example_min0 :
  split_params (ms 0) (ms 5000) (ms 300) (ms 50) 16000 = Err ValueError.
Proof. vm_compute. reflexivity. Qed.
Example C06_reject_example_max_lt_min :
  split_params (ms 500) (ms 400) (ms 300) (ms 50) 16000 = Err ValueError.
Proof. vm_compute. reflexivity. Qed.
Example C06_reject_example_silence_ge_max :
  split_params (ms 200) (ms 1000) (ms 1000) (ms 50) 16000 = Err ValueError.
Proof. vm_compute. reflexivity. Qed.
Example C06_reject_example_small_block :
  split_params (ms 200) (ms 1000) (ms 300) (ms 1) 10 = Err ValueError.
Proof. vm_compute. reflexivity. Qed.

Example C06_accept_reader_example :
  split_params_reader (ms 200) (ms 5000) (ms 300) 800 16000 = Ok (4, 100, 6, 800).
Proof. vm_compute. reflexivity. Qed.
Example C06_reject_reader_example :
  split_params_reader (ms 200) (ms 100) (ms 300) 800 16000 = Err ValueError.
Proof. vm_compute. reflexivity. Qed.

Example nbw_zero_example : nbw (ms 0) (ms 50) RFloor (Some eps_pos) = Ok 0.
Proof. apply nbw_zero; vm_compute; reflexivity. Qed.

Print Assumptions nbw_err_kind.
Print Assumptions nbw_zero.
Print Assumptions nbw_reject.
Print Assumptions nbw_ok_inv.
Print Assumptions C06_accept.
Print Assumptions C06_reject_kind.
Print Assumptions C06_reject_iff.
Print Assumptions C06_accept_reader.
Print Assumptions C06_reject_kind_reader.
Print Assumptions C06_params_valid.
Print Assumptions C06_params_valid_reader.
Print Assumptions C06_params_validate.
Print Assumptions C06_params_validate_reader.
Print Assumptions zceil_spec.
Print Assumptions zfloor_spec.
Print Assumptions zceil_least.
Print Assumptions zfloor_greatest.
Print Assumptions zceil_zfloor_exact.
Print Assumptions In_zr.
Print Assumptions C06_grid_row.
Print Assumptions C06_grid_point_meaning.
Print Assumptions C06_grid_row_meaning.
Print Assumptions C06_grid_10ms.
Print Assumptions C06_grid_20ms.
Print Assumptions C06_grid_50ms.
Print Assumptions C06_example_007.
Print Assumptions C06_accept_example.
(* The Reals axioms (sig_forall_dec, sig_not_dec, functional_extensionality_dep,
   Classical_Prop.classic) listed for statements mentioning fmul / fdiv / of_Z
   come from inside Flocq's definitions of the binary64 operations; no axiom is
   declared in this file. *)
