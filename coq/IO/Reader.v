(** Model of auditok.util.AudioReader's wrapper stack (definitions only):

      source  ->  [_Recorder]  ->  [_Limiter]  ->  _FixedSizeAudioReader | _OverlapAudioReader

    at the granularity of whole multi-channel samples [S] (sources hand out
    whole samples, C11; the byte arithmetic of the wrappers — hop size in bytes,
    len(block) // bytes_per_sample — is tied to this model by the correspondence
    runs on multi-byte, multi-channel audio). *)
From Coq Require Import ZArith List Bool.
From AV Require Import Base.PyList Base.PyFloat Tok.Model.
Import ListNotations.
Open Scope Z_scope.

Section Reader.
Context {S : Type}.

(** State of the generator _iter_blocks_with_overlap. *)
Inductive gstate :=
  | GInit                      (* not started: next read asks for a whole block *)
  | GRun (cache : list S)      (* started: next read asks for hop samples *)
  | GDone.                     (* generator returned: every read is None *)

Record rd := mkRd {
  src : list S;                (* audio of the source currently being read *)
  pos : Z;                     (* its cursor, in samples *)
  recording : bool;            (* a _Recorder is in the stack *)
  cache : list S;              (* _Recorder._cache, concatenated *)
  rdata : option (list S);     (* _Recorder._data: None until the first rewind *)
  limit : option Z;            (* _Limiter._max_samples *)
  nread : Z;                   (* _Limiter._read_samples *)
  bsize : Z;                   (* block size W in samples *)
  hop : option Z;              (* None: fixed-size reader; Some H: overlap reader *)
  gen : gstate
}.

(** AudioReader(..., block_dur, hop_dur, record, max_read) over an open source
    positioned at its beginning; sizes already converted to samples. *)
Definition mk_reader (data : list S) (W : Z) (H : option Z) (record : bool) (max_samples : option Z) : rd :=
  mkRd data 0 record [] None max_samples 0 W H GInit.

(** source.read(n) under the (optional) recorder, n >= 0. *)
Definition base_read (r : rd) (n : Z) : rd * option (list S) :=
  let chunk := zslice (src r) (pos r) (pos r + n) in
  match chunk with
  | [] => (r, None)
  | _ =>
      let cache' := if recording r && negb (match rdata r with Some _ => true | None => false end)
                    then cache r ++ chunk else cache r in
      (mkRd (src r) (pos r + zlen chunk) (recording r) cache' (rdata r)
            (limit r) (nread r) (bsize r) (hop r) (gen r), Some chunk)
  end.

(** _Limiter.read(size) (or the layer below when there is no limiter). *)
Definition lim_read (r : rd) (n : Z) : rd * option (list S) :=
  match limit r with
  | None => base_read r n
  | Some mx =>
      let size := Z.min (mx - nread r) n in
      if size <=? 0 then (r, None)
      else
        let '(r1, b) := base_read r size in
        match b with
        | None => (r1, None)
        | Some blk =>
            (mkRd (src r1) (pos r1) (recording r1) (cache r1) (rdata r1) (limit r1)
                  (nread r1 + zlen blk) (bsize r1) (hop r1) (gen r1), Some blk)
        end
  end.

Definition set_gen (r : rd) (g : gstate) : rd :=
  mkRd (src r) (pos r) (recording r) (cache r) (rdata r) (limit r) (nread r) (bsize r) (hop r) g.

(** AudioReader.read() *)
Definition read (r : rd) : rd * option (list S) :=
  match hop r with
  | None => lim_read r (bsize r)
  | Some H =>
      match gen r with
      | GDone => (r, None)
      | GInit =>
          let '(r1, b) := lim_read r (bsize r) in
          match b with
          | None => (set_gen r1 GDone, None)
          | Some blk => (set_gen r1 (GRun (skipn (Z.to_nat H) blk)), Some blk)
          end
      | GRun c =>
          let '(r1, b) := lim_read r H in
          match b with
          | None => (r1, None)
          | Some blk =>
              let blk' := c ++ blk in
              (set_gen r1 (GRun (skipn (Z.to_nat H) blk')), Some blk')
          end
      end
  end.

(** AudioReader.rewind() on a recording reader: the first rewind freezes the
    recorded data and swaps the source for a buffer over it; later rewinds
    rewind that buffer. The limiter's counter and the overlap generator restart. *)
Definition rewind (r : rd) : result rd :=
  if negb (recording r) then Err AttributeError
  else
    let d := match rdata r with Some d => d | None => cache r end in
    Ok (mkRd d 0 true [] (Some d) (limit r) 0 (bsize r) (hop r) GInit).

(** AudioReader.data *)
Definition get_data (r : rd) : result (list S) :=
  if negb (recording r) then Err AttributeError
  else match rdata r with
       | None => Err RuntimeError
       | Some d => Ok (match limit r with
                       | Some mx => py_slice d None (Some mx)       (* _Limiter.data: data[:max_bytes] *)
                       | None => d
                       end)
       end.

Inductive rop := RRead | RRewind | RData.
Inductive rout := RBlock (b : option (list S)) | RUnit | RBytes (d : list S) | RErr (e : err).

Definition rstep (r : rd) (o : rop) : rd * rout :=
  match o with
  | RRead => let '(r1, b) := read r in (r1, RBlock b)
  | RRewind => match rewind r with Ok r1 => (r1, RUnit) | Err e => (r, RErr e) end
  | RData => match get_data r with Ok d => (r, RBytes d) | Err e => (r, RErr e) end
  end.

Fixpoint rsteps (r : rd) (ops : list rop) : rd * list rout :=
  match ops with
  | [] => (r, [])
  | o :: rest =>
      let '(r1, x) := rstep r o in
      let '(r2, xs) := rsteps r1 rest in
      (r2, x :: xs)
  end.

(** k successive reads. *)
Fixpoint reads (r : rd) (k : nat) : rd * list (option (list S)) :=
  match k with
  | O => (r, [])
  | Datatypes.S k' =>
      let '(r1, b) := read r in
      let '(r2, bs) := reads r1 k' in
      (r2, b :: bs)
  end.

End Reader.

Arguments rd S : clear implicits.
Arguments gstate S : clear implicits.

(** Constructor arithmetic: block_dur / hop_dur / max_read in seconds (floats),
    sampling rate an int.  Result: (block size, hop option, max_samples option)
    or the error the constructor raises. *)
Definition reader_params (rate : Z) (block_dur : f64) (hop_dur : option f64) (max_read : option f64)
  : result (Z * option Z * option Z) :=
  let mx := match max_read with
            | None => Some None
            | Some t => match py_round (fmul t (of_Z rate)) with Some n => Some (Some n) | None => None end
            end in
  match mx with
  | None => Err ValueError                         (* round(inf/nan) *)
  | Some mx =>
    let fixed := match hop_dur with None => true | Some h => feq h block_dur end in
    if negb fixed && (match hop_dur with Some h => fle block_dur h | None => false end)
    then Err ValueError                            (* "hop_dur" should be <= "block_dur" *)
    else if fle block_dur fzero then Err ValueError
    else match py_int (fmul block_dur (of_Z rate)) with
         | None => Err ValueError
         | Some W =>
             if W =? 0 then Err TooSmallBlockDuration
             else if fixed then Ok (W, None, mx)
             else match hop_dur with
                  | Some h => match py_int (fmul h (of_Z rate)) with
                              | Some H => Ok (W, Some H, mx)
                              | None => Err ValueError
                              end
                  | None => Ok (W, None, mx)
                  end
         end
  end.
