(** The wrapper classes of the reader stack as *layers* over an inner read
    function: what one call of _Limiter.read, _Recorder._read_and_cache and
    _FixedSizeAudioReader.read does, given what the layer below answers to
    the single request the method makes.  py2coq translates the three methods
    from util.py on every run; TieReader.v proves them equal to these; the
    lemmas below relate the layers to the composed model IO/Reader.v. *)
From Coq Require Import ZArith List Bool Lia.
From AV Require Import Base.PyList IO.Reader.
Import ListNotations.
Open Scope Z_scope.

Section Layers.
Context {S : Type}.

(** _Limiter.read(size): state = _read_samples *)
Definition lim_layer (mx nr n : Z) (inner : Z -> option (list S)) : Z * option (list S) :=
  let size := Z.min (mx - nr) n in
  if size <=? 0 then (nr, None)
  else match inner size with
       | None => (nr, None)
       | Some blk => (nr + zlen blk, Some blk)
       end.

(** _Recorder._read_and_cache(size): state = the cache (concatenated) *)
Definition rec_layer (cache : list S) (n : Z) (inner : Z -> option (list S)) : list S * option (list S) :=
  match inner n with
  | None => (cache, None)
  | Some blk => (cache ++ blk, Some blk)
  end.

(** _FixedSizeAudioReader.read() *)
Definition fixed_layer (W : Z) (inner : Z -> option (list S)) : option (list S) := inner W.

(** the raw source under the stack: a non-empty slice from the cursor, or None *)
Definition raw_read (r : @rd S) (k : Z) : option (list S) :=
  match zslice (src r) (pos r) (pos r + k) with [] => None | c => Some c end.

(** the recorder of the composed model is rec_layer over the raw source *)
Lemma base_read_is_rec_layer (r : @rd S) n :
  recording r = true -> rdata r = None ->
  snd (base_read r n) = snd (rec_layer (cache r) n (raw_read r))
  /\ cache (fst (base_read r n)) = fst (rec_layer (cache r) n (raw_read r)).
Proof.
  intros Hr Hd. unfold base_read, rec_layer, raw_read. rewrite Hr, Hd.
  destruct (zslice (src r) (pos r) (pos r + n)) as [|x c]; cbn; split; reflexivity.
Qed.

(** without a recorder in caching mode the base read is the raw read, the cache is untouched *)
Lemma base_read_is_raw (r : @rd S) n :
  snd (base_read r n) = raw_read r n.
Proof.
  unfold base_read, raw_read. destruct (zslice (src r) (pos r) (pos r + n)); reflexivity.
Qed.

(** the limiter of the composed model is lim_layer over the layer below *)
Lemma lim_read_is_lim_layer (r : @rd S) n mx :
  limit r = Some mx ->
  snd (lim_read r n) = snd (lim_layer mx (nread r) n (fun k => snd (base_read r k)))
  /\ nread (fst (lim_read r n)) = fst (lim_layer mx (nread r) n (fun k => snd (base_read r k))).
Proof.
  intros Hl. unfold lim_read, lim_layer. rewrite Hl. cbv zeta.
  destruct (Z.min (mx - nread r) n <=? 0); [split; reflexivity|].
  unfold base_read at 1 2 3. cbv zeta.
  destruct (zslice (src r) (pos r) (pos r + Z.min (mx - nread r) n)) as [|x c] eqn:E; cbn.
  - unfold base_read. rewrite E. split; reflexivity.
  - unfold base_read. rewrite E. cbn. split; reflexivity.
Qed.

(** the fixed-size reader of the composed model is fixed_layer over the limiter (or the base) *)
Lemma read_fixed_is_fixed_layer (r : @rd S) :
  hop r = None -> snd (read r) = fixed_layer (bsize r) (fun k => snd (lim_read r k)).
Proof. intros H. unfold read, fixed_layer. rewrite H. reflexivity. Qed.

(** _OverlapAudioReader._iter_blocks_with_overlap, one resumption of the generator: the first one asks for a whole block,
    the later ones for hop samples and prepend the overlap kept from the previous block *)
Definition ov_first (W H : Z) (inner : Z -> option (list S)) : @gstate S * option (list S) :=
  match inner W with
  | Some blk => (GRun (skipn (Z.to_nat H) blk), Some blk)
  | None => (GDone, None)
  end.

Definition ov_next (H : Z) (c : list S) (inner : Z -> option (list S)) : @gstate S * option (list S) :=
  match inner H with
  | Some [] => (GRun c, None)
  | Some blk => (GRun (skipn (Z.to_nat H) (c ++ blk)), Some (c ++ blk))
  | None => (GRun c, None)
  end.

Lemma base_read_nonempty (r : @rd S) n blk : snd (base_read r n) = Some blk -> blk <> [].
Proof.
  unfold base_read. destruct (zslice (src r) (pos r) (pos r + n)) as [|x c]; cbn; intros H; [discriminate|].
  inversion H; discriminate.
Qed.

Lemma lim_read_nonempty (r : @rd S) n blk : snd (lim_read r n) = Some blk -> blk <> [].
Proof.
  unfold lim_read. destruct (limit r) as [mx|]; [|apply base_read_nonempty].
  cbv zeta. destruct (Z.min (mx - nread r) n <=? 0); [discriminate|].
  pose proof (base_read_nonempty r (Z.min (mx - nread r) n)) as Hb.
  destruct (base_read r (Z.min (mx - nread r) n)) as [r1 [b|]]; cbn in *; intros H; [|discriminate].
  inversion H; subst. apply Hb; reflexivity.
Qed.

(** the overlap reader of the composed model is the generator over the limiter (or the base) *)
Lemma read_overlap_first (r : @rd S) H :
  hop r = Some H -> gen r = GInit ->
  snd (read r) = snd (ov_first (bsize r) H (fun k => snd (lim_read r k)))
  /\ gen (fst (read r)) = fst (ov_first (bsize r) H (fun k => snd (lim_read r k))).
Proof.
  intros Hh Hg. unfold read, ov_first. rewrite Hh, Hg.
  destruct (lim_read r (bsize r)) as [r1 [blk|]]; cbn; split; reflexivity.
Qed.

Lemma read_overlap_next (r : @rd S) H c :
  hop r = Some H -> gen r = GRun c ->
  snd (read r) = snd (ov_next H c (fun k => snd (lim_read r k)))
  /\ gen (fst (read r)) = fst (ov_next H c (fun k => snd (lim_read r k))).
Proof.
  intros Hh Hg. unfold read, ov_next. rewrite Hh, Hg.
  pose proof (lim_read_nonempty r H) as Hne.
  destruct (lim_read r H) as [r1 [blk|]] eqn:E; cbn in *.
  - destruct blk as [|x blk]; [exfalso; apply (Hne []); reflexivity|]. split; reflexivity.
  - split; [reflexivity|]. (* the limiter does not touch the generator state *)
    unfold lim_read in E. destruct (limit r) as [mx|].
    + cbv zeta in E. destruct (Z.min (mx - nread r) H <=? 0); [inversion E; subst; exact Hg|].
      unfold base_read in E. destruct (zslice (src r) (pos r) (pos r + Z.min (mx - nread r) H)); inversion E; subst; exact Hg.
    + unfold base_read in E. destruct (zslice (src r) (pos r) (pos r + H)); inversion E; subst; exact Hg.
Qed.

End Layers.
