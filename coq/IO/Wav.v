(** The RIFF/WAVE PCM container as Python's wave module writes it (44-byte
    header, no padding) and a decoder for that layout.  Definitions only. *)
From Coq Require Import ZArith List Bool.
From AV Require Import Base.PyList Audio.Pcm.
Import ListNotations.
Open Scope Z_scope.

Record wav := mkWav { wrate : Z; wwidth : Z; wch : Z; wdata : list Z }.

Definition u16 (x : Z) : list Z := le_bytes 2 x.
Definition u32 (x : Z) : list Z := le_bytes 4 x.

Definition tag_RIFF := [82; 73; 70; 70].
Definition tag_WAVE := [87; 65; 86; 69].
Definition tag_fmt := [102; 109; 116; 32].
Definition tag_data := [100; 97; 116; 97].

Definition wav_header (rate w ch datalen : Z) : list Z :=
  tag_RIFF ++ u32 (36 + datalen) ++ tag_WAVE ++ tag_fmt ++ u32 16
  ++ u16 1 ++ u16 ch ++ u32 rate ++ u32 (ch * rate * w) ++ u16 (ch * w) ++ u16 (w * 8)
  ++ tag_data ++ u32 datalen.

Definition wav_encode (x : wav) : list Z :=
  wav_header (wrate x) (wwidth x) (wch x) (zlen (wdata x)) ++ wdata x.

Definition list_Z_eqb (a b : list Z) : bool :=
  Nat.eqb (length a) (length b) && forallb (fun p => fst p =? snd p) (combine a b).

(** Decoder for exactly this layout (canonical 44-byte header, PCM format). *)
Definition wav_decode (f : list Z) : option wav :=
  let fld a b := le_unsigned (zslice f a b) in
  if negb (44 <=? zlen f) then None
  else if negb (list_Z_eqb (zslice f 0 4) tag_RIFF && list_Z_eqb (zslice f 8 12) tag_WAVE
                && list_Z_eqb (zslice f 12 16) tag_fmt && list_Z_eqb (zslice f 36 40) tag_data) then None
  else if negb ((fld 16 20 =? 16) && (fld 20 22 =? 1)) then None
  else
    let ch := fld 22 24 in
    let rate := fld 24 28 in
    let bits := fld 34 36 in
    let datalen := fld 40 44 in
    if negb (bits mod 8 =? 0) then None
    else Some (mkWav rate (bits / 8) ch (zslice f 44 (44 + datalen))).
