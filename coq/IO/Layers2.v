(** More of the reader wrappers as layers: what _Limiter.data returns, given the data the layer below (the recorder) exposes.
    Translated from util.py on every run (TieReader.v, tie_lim_data) and linked to the composed model's get_data. *)
From Coq Require Import ZArith List Bool.
From AV Require Import Base.PyList Tok.Model IO.Reader.
Import ListNotations.
Open Scope Z_scope.

Section Layers2.
Context {S : Type}.

(** _Limiter.data: the first _max_samples samples of the recorded data *)
Definition lim_data (mx : Z) (d : list S) : list S := py_slice d None (Some mx).

Lemma get_data_is_lim_data (r : @rd S) d :
  recording r = true -> rdata r = Some d ->
  get_data r = Ok (match limit r with Some mx => lim_data mx d | None => d end).
Proof.
  intros Hr Hd. unfold get_data, lim_data. rewrite Hr, Hd. cbn [negb]. reflexivity.
Qed.

End Layers2.
