(** Model of auditok.io audio sources (definitions only).
    [BufferAudioSource] in full (cursor in bytes, position get/set in samples,
    seconds, milliseconds); file-like sources (raw file, wav file, stdin) as the
    sub-machine open / close / read. *)
From Coq Require Import ZArith List Bool.
From AV Require Import Base.PyList Base.PyFloat Tok.Model.
Import ListNotations.
Open Scope Z_scope.

Section Source.
Context {B : Type}.

(** Static part: the audio and its format. *)
Record audio := mkAudio {
  abytes : list B;
  arate : Z;
  abps : Z            (* sample_width * channels *)
}.

Record bstate := mkB { pos : Z; is_open : bool }.     (* _current_position_bytes, _is_open *)

Inductive op :=
  | Open | Close | Rewind
  | Read (n : option Z)
  | GetPos | GetPosS | GetPosMs
  | SetPos (p : Z) | SetPosS (t : f64) | SetPosMs (ms : Z).

Inductive out :=
  | OUnit | ONone | OData (d : list B) | OInt (z : Z) | OFloat (x : f64) | OErr (e : err).

Definition init_b : bstate := mkB 0 false.

(** position setter (argument in samples). *)
Definition set_position (a : audio) (s : bstate) (p : Z) : bstate * out :=
  let p1 := p * abps a in
  let p2 := if p1 <? 0 then p1 + zlen (abytes a) else p1 in
  if (p2 <? 0) || (zlen (abytes a) <? p2) then (s, OErr IndexError)
  else (mkB p2 (is_open s), OUnit).

Definition bstep (a : audio) (s : bstate) (o : op) : bstate * out :=
  match o with
  | Open => (mkB (pos s) true, OUnit)
  | Close => (mkB 0 false, OUnit)                       (* _is_open = False; rewind() *)
  | Rewind => (mkB 0 (is_open s), OUnit)                (* position = 0 always in range *)
  | Read n =>
      if negb (is_open s) then (s, OErr AudioIOError)
      else
        let offset := match n with
                      | None => None
                      | Some k => if k <? 0 then None else Some (pos s + abps a * k)
                      end in
        let d := py_slice (abytes a) (Some (pos s)) offset in
        match d with
        | [] => (s, ONone)
        | _ => (mkB (pos s + zlen d) (is_open s), OData d)
        end
  | GetPos => (s, OInt (pos s / abps a))
  | GetPosS => (s, OFloat (fdiv (of_Z (pos s / abps a)) (of_Z (arate a))))
  | GetPosMs => (s, OInt ((pos s * 1000) / (abps a * arate a)))
  | SetPos p => set_position a s p
  | SetPosS t =>
      match py_int (fmul (of_Z (arate a)) t) with
      | Some p => set_position a s p
      | None => (s, OErr ValueError)                    (* int(inf/nan): OverflowError/ValueError *)
      end
  | SetPosMs ms =>
      match py_int (fdiv (of_Z (arate a * ms)) (of_Z 1000)) with
      | Some p => set_position a s p
      | None => (s, OErr ValueError)
      end
  end.

Fixpoint bsteps (a : audio) (s : bstate) (ops : list op) : bstate * list out :=
  match ops with
  | [] => (s, [])
  | o :: rest =>
      let '(s1, r) := bstep a s o in
      let '(s2, rs) := bsteps a s1 rest in
      (s2, r :: rs)
  end.

(** File-like sources: [fpos = None] means closed. Re-opening a file restarts
    at byte 0; standard input ([restart = false]) is a one-way stream whose
    cursor survives close/open. Only Open / Close / Read are meaningful. *)
Record fstate := mkF { fpos : Z; fopen : bool }.

Definition init_f : fstate := mkF 0 false.

Definition fstep (restart : bool) (a : audio) (s : fstate) (o : op) : fstate * out :=
  match o with
  | Open => if fopen s then (s, OUnit) else (mkF (if restart then 0 else fpos s) true, OUnit)
  | Close => (mkF (fpos s) false, OUnit)
  | Read n =>
      if negb (fopen s) then (s, OErr AudioIOError)
      else
        let rem := zlen (abytes a) - fpos s in
        let want := match n with
                    | None => rem
                    | Some k => if k <? 0 then rem else Z.min rem (k * abps a)
                    end in
        let d := zslice (abytes a) (fpos s) (fpos s + want) in
        match d with
        | [] => (s, ONone)
        | _ => (mkF (fpos s + zlen d) true, OData d)
        end
  | _ => (s, OErr AttributeError)
  end.

End Source.

Arguments audio B : clear implicits.
