(** C11: the audio sources deliver the audio, in order, in whole samples.
    Proofs over the model [IO/Source.v] (not edited here). *)
From Coq Require Import ZArith List Bool Lia ZifyBool.
From AV Require Import Base.PyList Base.PyFloat Tok.Model IO.Source.
Import ListNotations.
Open Scope Z_scope.

Definition wfa {B} (a : audio B) : Prop :=
  0 < abps a /\ 0 < arate a /\ (abps a | zlen (abytes a)).

Definition binv {B} (a : audio B) (s : bstate) : Prop :=
  0 <= pos s <= zlen (abytes a) /\ (abps a | pos s).

(* ------------------------------------------------------------------ *)
(** * List / slice helpers *)

Lemma match_nonnil {A T} (d : list A) (x y : T) :
  d <> [] -> match d with [] => x | _ :: _ => y end = y.
Proof. destruct d; [congruence | reflexivity]. Qed.

Lemma zslice_nil_iff {A} (l : list A) p q :
  0 <= p -> (zslice l p q = [] <-> q <= p \/ zlen l <= p).
Proof.
  intros Hp; split.
  - intros H. pose proof (zlen_zslice l p q Hp) as HL.
    rewrite H, zlen_nil in HL. lia.
  - intros H. apply zlen_zero_nil. rewrite zlen_zslice by exact Hp. lia.
Qed.

Lemma firstn_skipn_add {A} (n m : nat) (l : list A) :
  firstn n l ++ firstn m (skipn n l) = firstn (n + m) l.
Proof.
  revert l; induction n as [|n IH]; intros l.
  - reflexivity.
  - destruct l as [|x l].
    + simpl. rewrite firstn_nil. reflexivity.
    + simpl. f_equal. apply IH.
Qed.

Lemma skipn_add {A} (n m : nat) (l : list A) :
  skipn m (skipn n l) = skipn (n + m) l.
Proof.
  revert l; induction n as [|n IH]; intros l.
  - reflexivity.
  - destruct l as [|x l].
    + simpl. apply skipn_nil.
    + simpl. apply IH.
Qed.

Lemma zslice_app {A} (l : list A) p q r :
  0 <= p <= q -> q <= r -> zslice l p q ++ zslice l q r = zslice l p r.
Proof.
  intros Hpq Hqr. unfold zslice.
  replace (Z.to_nat q) with (Z.to_nat p + Z.to_nat (q - p))%nat by lia.
  rewrite <- skipn_add, firstn_skipn_add.
  f_equal. lia.
Qed.

(* ------------------------------------------------------------------ *)
(** * Arithmetic of whole samples *)

Definition remaining {B} (a : audio B) (s : bstate) : Z :=
  (zlen (abytes a) - pos s) / abps a.   (* in samples *)

Definition want {B} (a : audio B) (s : bstate) (n : option Z) : Z :=
  match n with
  | None => remaining a s
  | Some k => if k <? 0 then remaining a s else Z.min k (remaining a s)
  end.

Lemma div_exact_mul b x : 0 < b -> (b | x) -> x / b * b = x.
Proof.
  intros Hb [q Hq]. subst x. rewrite Z.div_mul by lia. reflexivity.
Qed.

Lemma remaining_mul {B} (a : audio B) s :
  wfa a -> binv a s -> remaining a s * abps a = zlen (abytes a) - pos s.
Proof.
  intros (Hb & _ & Hd) (_ & Hp). unfold remaining.
  apply div_exact_mul; [exact Hb | apply Z.divide_sub_r; assumption].
Qed.

Lemma remaining_nonneg {B} (a : audio B) s :
  wfa a -> binv a s -> 0 <= remaining a s.
Proof.
  intros Hw Hi. pose proof (remaining_mul a s Hw Hi) as HR.
  destruct Hw as (Hb & _ & _). destruct Hi as (Hr & _). nia.
Qed.

Lemma want_range {B} (a : audio B) s n :
  wfa a -> binv a s -> 0 <= want a s n <= remaining a s.
Proof.
  intros Hw Hi. pose proof (remaining_nonneg a s Hw Hi) as HR.
  unfold want. destruct n as [k|]; [|lia].
  destruct (k <? 0) eqn:E; lia.
Qed.

Lemma want_mul_bound {B} (a : audio B) s n :
  wfa a -> binv a s -> 0 <= want a s n * abps a <= zlen (abytes a) - pos s.
Proof.
  intros Hw Hi.
  pose proof (remaining_mul a s Hw Hi) as HR.
  pose proof (want_range a s n Hw Hi) as HW.
  destruct Hw as (Hb & _ & _).
  rewrite <- HR. split.
  - apply Z.mul_nonneg_nonneg; lia.
  - apply Z.mul_le_mono_nonneg_r; lia.
Qed.

(** The slice that [Read n] takes. *)
Definition read_offset {B} (a : audio B) (s : bstate) (n : option Z) : option Z :=
  match n with
  | None => None
  | Some k => if k <? 0 then None else Some (pos s + abps a * k)
  end.

Lemma read_slice {B} (a : audio B) s n :
  wfa a -> binv a s ->
  py_slice (abytes a) (Some (pos s)) (read_offset a s n)
  = zslice (abytes a) (pos s) (pos s + want a s n * abps a).
Proof.
  intros Hw Hi.
  pose proof (remaining_mul a s Hw Hi) as HR.
  pose proof (remaining_nonneg a s Hw Hi) as HR0.
  destruct Hw as (Hb & _ & _). destruct Hi as (Hr & _).
  unfold py_slice, norm_idx.
  destruct (pos s <? 0) eqn:Epos; [lia|].
  rewrite (Z.min_l (pos s)) by lia.
  assert (Hall : zslice (abytes a) (pos s) (zlen (abytes a))
                 = zslice (abytes a) (pos s) (pos s + remaining a s * abps a)).
  { f_equal. lia. }
  unfold read_offset, want. destruct n as [k|]; [|exact Hall].
  destruct (k <? 0) eqn:Ek; [exact Hall|].
  destruct (pos s + abps a * k <? 0) eqn:Eo; [nia|].
  f_equal.
  destruct (k <=? remaining a s) eqn:Ekr.
  - rewrite (Z.min_l k) by lia. nia.
  - rewrite (Z.min_r k) by lia. nia.
Qed.

Lemma read_slice_len {B} (a : audio B) s n :
  wfa a -> binv a s ->
  zlen (zslice (abytes a) (pos s) (pos s + want a s n * abps a)) = want a s n * abps a.
Proof.
  intros Hw Hi.
  pose proof (want_mul_bound a s n Hw Hi) as HWB.
  destruct Hi as (Hr & _).
  rewrite zlen_zslice by lia. lia.
Qed.

(* ------------------------------------------------------------------ *)
(** * Read *)

Theorem C11_read_open : forall B (a : audio B) s n, wfa a -> binv a s -> is_open s = true ->
  let w := want a s n in
  (w = 0 -> bstep a s (Read n) = (s, ONone))
  /\ (0 < w -> bstep a s (Read n) = (mkB (pos s + w * abps a) true, OData (zslice (abytes a) (pos s) (pos s + w * abps a)))
               /\ zlen (zslice (abytes a) (pos s) (pos s + w * abps a)) = w * abps a).
Proof.
  intros B a s n Hw Hi Ho w.
  pose proof (read_slice a s n Hw Hi) as HS.
  pose proof (read_slice_len a s n Hw Hi) as HL.
  fold w in HS, HL.
  assert (Hstep : bstep a s (Read n) =
                  match zslice (abytes a) (pos s) (pos s + w * abps a) with
                  | [] => (s, ONone)
                  | _ :: _ => (mkB (pos s + w * abps a) true,
                               OData (zslice (abytes a) (pos s) (pos s + w * abps a)))
                  end).
  { cbn [bstep]. rewrite Ho. cbn [negb].
    change (match n with
            | None => None
            | Some k => if k <? 0 then None else Some (pos s + abps a * k)
            end) with (read_offset a s n).
    rewrite HS, HL. reflexivity. }
  split.
  - intros H0. rewrite Hstep.
    replace (zslice (abytes a) (pos s) (pos s + w * abps a)) with (@nil B); [reflexivity|].
    symmetry. apply zlen_zero_nil. rewrite HL, H0. reflexivity.
  - intros Hpos. split; [|exact HL].
    rewrite Hstep. apply match_nonnil.
    intros Hnil. rewrite Hnil, zlen_nil in HL.
    destruct Hw as (Hb & _). nia.
Qed.

Theorem C11_read_closed : forall B (a : audio B) s n, is_open s = false -> bstep a s (Read n) = (s, OErr AudioIOError).
Proof. intros B a s n Ho. cbn [bstep]. rewrite Ho. reflexivity. Qed.

Lemma set_position_out {B} (a : audio B) s p s' (d : list B) :
  set_position a s p = (s', OData d) -> False.
Proof.
  unfold set_position.
  destruct ((_ <? 0) || (_ <? _)); intros H; inversion H.
Qed.

Theorem C11_never_empty : forall B (a : audio B) s o s' d, bstep a s o = (s', OData d) -> d <> [].
Proof.
  intros B a s o s' d H.
  destruct o as [ | | | n | | | | p | t | ms]; cbn [bstep] in H;
    try (inversion H; fail).
  - destruct (negb (is_open s)); [inversion H|].
    destruct (py_slice (abytes a) (Some (pos s)) _) as [|x l] eqn:E.
    + inversion H.
    + inversion H. discriminate.
  - exfalso; eapply set_position_out; exact H.
  - destruct (py_int _); [exfalso; eapply set_position_out; exact H | inversion H].
  - destruct (py_int _); [exfalso; eapply set_position_out; exact H | inversion H].
Qed.

(* ------------------------------------------------------------------ *)
(** * Position getter / setters *)

Theorem C11_getpos : forall B (a : audio B) s, bstep a s GetPos = (s, OInt (pos s / abps a)).
Proof. reflexivity. Qed.

Definition norm_pos {B} (a : audio B) (p : Z) : Z :=
  if p <? 0 then p + zlen (abytes a) / abps a else p.   (* in samples *)

Lemma set_position_spec {B} (a : audio B) s p : wfa a ->
  (0 <= norm_pos a p <= zlen (abytes a) / abps a ->
     set_position a s p = (mkB (norm_pos a p * abps a) (is_open s), OUnit))
  /\ (~ (0 <= norm_pos a p <= zlen (abytes a) / abps a) ->
     set_position a s p = (s, OErr IndexError)).
Proof.
  intros (Hb & _ & Hd).
  pose proof (div_exact_mul _ _ Hb Hd) as HL.
  set (L := zlen (abytes a) / abps a) in *.
  unfold set_position, norm_pos. fold L.
  assert (Hp2 : (if p * abps a <? 0 then p * abps a + zlen (abytes a) else p * abps a)
                = (if p <? 0 then p + L else p) * abps a).
  { destruct (p * abps a <? 0) eqn:E1; destruct (p <? 0) eqn:E2; nia. }
  rewrite Hp2.
  set (q := if p <? 0 then p + L else p).
  destruct ((q * abps a <? 0) || (zlen (abytes a) <? q * abps a)) eqn:E.
  - split; intros H; [nia | reflexivity].
  - split; intros H; [reflexivity | exfalso; apply H; nia].
Qed.

Theorem C11_setpos : forall B (a : audio B) s p, wfa a ->
  (0 <= norm_pos a p <= zlen (abytes a) / abps a -> bstep a s (SetPos p) = (mkB (norm_pos a p * abps a) (is_open s), OUnit))
  /\ (~ (0 <= norm_pos a p <= zlen (abytes a) / abps a) -> bstep a s (SetPos p) = (s, OErr IndexError)).
Proof. intros B a s p Hw. exact (set_position_spec a s p Hw). Qed.

Theorem C11_setpos_s : forall B (a : audio B) s t p, py_int (fmul (of_Z (arate a)) t) = Some p -> bstep a s (SetPosS t) = bstep a s (SetPos p).
Proof. intros B a s t p H. cbn [bstep]. rewrite H. reflexivity. Qed.

Theorem C11_setpos_ms : forall B (a : audio B) s ms p, py_int (fdiv (of_Z (arate a * ms)) (of_Z 1000)) = Some p -> bstep a s (SetPosMs ms) = bstep a s (SetPos p).
Proof. intros B a s ms p H. cbn [bstep]. rewrite H. reflexivity. Qed.

Theorem C11_rewind : forall B (a : audio B) s, pos (fst (bstep a s Rewind)) = 0 /\ is_open (fst (bstep a s Rewind)) = is_open s.
Proof. intros; split; reflexivity. Qed.

Theorem C11_close_open : forall B (a : audio B) s, fst (bsteps a s [Close; Open]) = mkB 0 true.
Proof. reflexivity. Qed.

(* ------------------------------------------------------------------ *)
(** * Invariant *)

Lemma set_position_inv {B} (a : audio B) s p :
  wfa a -> binv a s -> binv a (fst (set_position a s p)).
Proof.
  intros (Hb & _ & Hd) Hi. unfold set_position.
  set (p2 := if p * abps a <? 0 then p * abps a + zlen (abytes a) else p * abps a).
  destruct ((p2 <? 0) || (zlen (abytes a) <? p2)) eqn:E; cbn [fst]; [exact Hi|].
  split; cbn [pos]; [lia|].
  unfold p2. destruct (p * abps a <? 0).
  - apply Z.divide_add_r; [apply Z.divide_factor_r | exact Hd].
  - apply Z.divide_factor_r.
Qed.

Lemma binv_zero {B} (a : audio B) o : binv a (mkB 0 o).
Proof.
  split; cbn [pos]; [pose proof (zlen_nonneg (abytes a)); lia | apply Z.divide_0_r].
Qed.

Theorem C11_inv_step : forall B (a : audio B) s o, wfa a -> binv a s -> binv a (fst (bstep a s o)).
Proof.
  intros B a s o Hw Hi.
  destruct o as [ | | | n | | | | p | t | ms].
  4: { (* Read *)
    destruct (is_open s) eqn:Ho.
    - destruct (C11_read_open B a s n Hw Hi Ho) as [H0 Hpos].
      pose proof (want_range a s n Hw Hi) as HW.
      pose proof (want_mul_bound a s n Hw Hi) as HWB.
      destruct (Z.eq_dec (want a s n) 0) as [Hz|Hnz].
      + rewrite (H0 Hz). exact Hi.
      + assert (Hp : 0 < want a s n) by lia.
        destruct (Hpos Hp) as [Hs _]. rewrite Hs. cbn [fst].
        destruct Hw as (Hb & _ & Hd). destruct Hi as (Hr & Hdp).
        split; cbn [pos]; [lia|].
        apply Z.divide_add_r; [exact Hdp | apply Z.divide_factor_r].
    - rewrite (C11_read_closed B a s n Ho). exact Hi. }
  all: cbn [bstep fst]; try exact Hi; try apply binv_zero.
  - apply set_position_inv; assumption.
  - destruct (py_int _); [apply set_position_inv; assumption | exact Hi].
  - destruct (py_int _); [apply set_position_inv; assumption | exact Hi].
Qed.

Lemma inv_steps {B} (a : audio B) ops : forall s, wfa a -> binv a s -> binv a (fst (bsteps a s ops)).
Proof.
  induction ops as [|o ops IH]; intros s Hw Hi.
  - exact Hi.
  - cbn [bsteps].
    pose proof (C11_inv_step B a s o Hw Hi) as H1.
    destruct (bstep a s o) as [s1 r]. cbn [fst] in H1.
    specialize (IH s1 Hw H1).
    destruct (bsteps a s1 ops) as [s2 rs]. exact IH.
Qed.

Theorem C11_inv : forall B (a : audio B) ops, wfa a -> binv a (fst (bsteps a init_b ops)).
Proof.
  intros B a ops Hw. apply inv_steps; [exact Hw | apply binv_zero].
Qed.

(* ------------------------------------------------------------------ *)
(** * Successive reads *)

Definition datas {B} (outs : list (@out B)) : list (list B) :=
  flat_map (fun o => match o with OData d => [d] | _ => [] end) outs.

Lemma reads_contig_aux {B} (a : audio B) ns : forall s s' outs,
  wfa a -> binv a s -> is_open s = true ->
  bsteps a s (map Read ns) = (s', outs) ->
  concat (datas outs) = zslice (abytes a) (pos s) (pos s')
  /\ pos s <= pos s' /\ is_open s' = true.
Proof.
  induction ns as [|n ns IH]; intros s s' outs Hw Hi Ho Hrun.
  - cbn [map bsteps] in Hrun. inversion Hrun; subst s' outs.
    split; [|split; [lia | exact Ho]].
    cbn [datas flat_map concat]. symmetry.
    apply zslice_nil_iff; [destruct Hi as (Hr & _); lia | left; lia].
  - cbn [map bsteps] in Hrun.
    pose proof (C11_inv_step B a s (Read n) Hw Hi) as Hi1.
    destruct (C11_read_open B a s n Hw Hi Ho) as [H0 Hpos].
    pose proof (want_range a s n Hw Hi) as HW.
    destruct (Z.eq_dec (want a s n) 0) as [Hz|Hnz].
    + rewrite (H0 Hz) in Hrun.
      destruct (bsteps a s (map Read ns)) as [s2 rs] eqn:E.
      inversion Hrun; subst s' outs.
      destruct (IH s s2 rs Hw Hi Ho E) as (Hc & Hle & Ho2).
      split; [|split; assumption]. exact Hc.
    + assert (Hp : 0 < want a s n) by lia.
      destruct (Hpos Hp) as [Hs HL].
      rewrite Hs in Hi1. cbn [fst] in Hi1.
      rewrite Hs in Hrun.
      set (s1 := mkB (pos s + want a s n * abps a) true) in *.
      destruct (bsteps a s1 (map Read ns)) as [s2 rs] eqn:E.
      inversion Hrun; subst s' outs.
      destruct (IH s1 s2 rs Hw Hi1 eq_refl E) as (Hc & Hle & Ho2).
      assert (Hle1 : pos s <= pos s1).
      { unfold s1; cbn [pos]. destruct Hw as (Hb & _). nia. }
      split; [|split; [lia | exact Ho2]].
      unfold datas. cbn [flat_map app concat]. fold (datas rs). rewrite Hc.
      change (pos s + want a s n * abps a) with (pos s1).
      apply zslice_app; [destruct Hi as (Hr & _); lia | exact Hle].
Qed.

Theorem C11_reads_contiguous : forall B (a : audio B) s ns, wfa a -> binv a s -> is_open s = true ->
  let '(s', outs) := bsteps a s (map Read ns) in
  concat (flat_map (fun o => match o with OData d => [d] | _ => [] end) outs) = zslice (abytes a) (pos s) (pos s')
  /\ pos s <= pos s' /\ is_open s' = true.
Proof.
  intros B a s ns Hw Hi Ho.
  destruct (bsteps a s (map Read ns)) as [s' outs] eqn:E.
  exact (reads_contig_aux a ns s s' outs Hw Hi Ho E).
Qed.

(* ------------------------------------------------------------------ *)
(** * File-like sources *)

Definition finv {B} (a : audio B) (s : fstate) : Prop :=
  0 <= fpos s <= zlen (abytes a) /\ (abps a | fpos s).

(** A file state seen as a buffer state (same cursor, same open flag). *)
Definition f2b (s : fstate) : bstate := mkB (fpos s) (fopen s).

Lemma file_read_w {B} restart (a : audio B) s n :
  wfa a -> finv a s -> fopen s = true ->
  let w := want a (f2b s) n in
  (w = 0 -> fstep restart a s (Read n) = (s, ONone))
  /\ (0 < w -> fstep restart a s (Read n)
               = (mkF (fpos s + w * abps a) true,
                  OData (zslice (abytes a) (fpos s) (fpos s + w * abps a)))).
Proof.
  intros Hw Hi Ho w.
  assert (Hbi : binv a (f2b s)) by exact Hi.
  pose proof (remaining_mul a (f2b s) Hw Hbi) as HR.
  pose proof (remaining_nonneg a (f2b s) Hw Hbi) as HR0.
  pose proof (read_slice_len a (f2b s) n Hw Hbi) as HL.
  fold w in HL. cbn [f2b pos] in HL, HR.
  set (fw := match n with
             | None => zlen (abytes a) - fpos s
             | Some k => if k <? 0 then zlen (abytes a) - fpos s
                         else Z.min (zlen (abytes a) - fpos s) (k * abps a)
             end).
  assert (Hfw : fw = w * abps a).
  { unfold fw, w, want. destruct n as [k|]; [|lia].
    destruct (k <? 0) eqn:Ek; [lia|].
    destruct Hw as (Hb & _).
    destruct (k <=? remaining a (f2b s)) eqn:Ekr.
    - rewrite (Z.min_l k) by lia. nia.
    - rewrite (Z.min_r k) by lia. nia. }
  assert (Hstep : fstep restart a s (Read n) =
                  match zslice (abytes a) (fpos s) (fpos s + w * abps a) with
                  | [] => (s, ONone)
                  | _ :: _ => (mkF (fpos s + w * abps a) true,
                               OData (zslice (abytes a) (fpos s) (fpos s + w * abps a)))
                  end).
  { cbn [fstep]. rewrite Ho. cbn [negb]. fold fw. rewrite Hfw, HL. reflexivity. }
  split.
  - intros H0. rewrite Hstep.
    replace (zslice (abytes a) (fpos s) (fpos s + w * abps a)) with (@nil B); [reflexivity|].
    symmetry. apply zlen_zero_nil. rewrite HL, H0. reflexivity.
  - intros Hpos. rewrite Hstep. apply match_nonnil.
    intros Hnil. rewrite Hnil, zlen_nil in HL.
    destruct Hw as (Hb & _). nia.
Qed.

Theorem C11_file_read : forall B restart (a : audio B) s n, wfa a -> finv a s -> fopen s = true ->
  let rem := (zlen (abytes a) - fpos s) / abps a in
  let w := match n with None => rem | Some k => if k <? 0 then rem else Z.min k rem end in
  (w = 0 -> fstep restart a s (Read n) = (s, ONone))
  /\ (0 < w -> fstep restart a s (Read n) = (mkF (fpos s + w * abps a) true, OData (zslice (abytes a) (fpos s) (fpos s + w * abps a)))).
Proof.
  intros B restart a s n Hw Hi Ho.
  exact (file_read_w restart a s n Hw Hi Ho).
Qed.

Theorem C11_file_inv : forall B restart (a : audio B) s o, wfa a -> finv a s -> finv a (fst (fstep restart a s o)).
Proof.
  intros B restart a s o Hw Hi.
  destruct o as [ | | | n | | | | p | t | ms].
  4: { (* Read *)
    destruct (fopen s) eqn:Ho.
    - destruct (file_read_w restart a s n Hw Hi Ho) as [H0 Hpos].
      assert (Hbi : binv a (f2b s)) by exact Hi.
      pose proof (want_range a (f2b s) n Hw Hbi) as HW.
      pose proof (want_mul_bound a (f2b s) n Hw Hbi) as HWB. cbn [f2b pos] in HWB.
      destruct (Z.eq_dec (want a (f2b s) n) 0) as [Hz|Hnz].
      + rewrite (H0 Hz). exact Hi.
      + assert (Hp : 0 < want a (f2b s) n) by lia.
        rewrite (Hpos Hp). cbn [fst].
        destruct Hw as (Hb & _ & Hd). destruct Hi as (Hr & Hdp).
        split; cbn [fpos]; [lia|].
        apply Z.divide_add_r; [exact Hdp | apply Z.divide_factor_r].
    - cbn [fstep]. rewrite Ho. exact Hi. }
  all: cbn [fstep fst]; try exact Hi.
  (* Open *)
  destruct (fopen s); cbn [fst]; [exact Hi|].
  destruct restart; [|exact Hi].
  split; cbn [fpos]; [pose proof (zlen_nonneg (abytes a)); lia | apply Z.divide_0_r].
Qed.

Theorem C11_file_closed : forall B restart (a : audio B) s n, fopen s = false -> fstep restart a s (Read n) = (s, OErr AudioIOError).
Proof. intros B restart a s n Ho. cbn [fstep]. rewrite Ho. reflexivity. Qed.

Theorem C11_file_reopen : forall B (a : audio B) s, fopen s = false -> fst (fstep true a s Open) = mkF 0 true.
Proof. intros B a s Ho. cbn [fstep]. rewrite Ho. reflexivity. Qed.

(* ------------------------------------------------------------------ *)
(** * Cross-kind agreement *)

Definition fsteps {B} (restart : bool) (a : audio B) : fstate -> list op -> fstate * list out :=
  fix go s ops :=
    match ops with
    | [] => (s, [])
    | o :: r =>
        let '(s1, x) := fstep restart a s o in
        let '(s2, xs) := go s1 r in
        (s2, x :: xs)
    end.

Lemma kinds_agree_aux {B} restart (a : audio B) ns : forall s fs,
  wfa a -> binv a s -> is_open s = true -> f2b fs = s ->
  snd (bsteps a s (map Read ns)) = snd (fsteps restart a fs (map Read ns)).
Proof.
  induction ns as [|n ns IH]; intros s fs Hw Hi Ho Hfs.
  - reflexivity.
  - cbn [map bsteps fsteps].
    assert (Hfi : finv a fs) by (subst s; exact Hi).
    assert (Hfo : fopen fs = true) by (subst s; exact Ho).
    pose proof (C11_inv_step B a s (Read n) Hw Hi) as Hi1.
    destruct (C11_read_open B a s n Hw Hi Ho) as [H0 Hpos].
    destruct (file_read_w restart a fs n Hw Hfi Hfo) as [F0 Fpos].
    rewrite Hfs in F0, Fpos.
    pose proof (want_range a s n Hw Hi) as HW.
    destruct (Z.eq_dec (want a s n) 0) as [Hz|Hnz].
    + rewrite (H0 Hz), (F0 Hz).
      specialize (IH s fs Hw Hi Ho Hfs).
      destruct (bsteps a s (map Read ns)) as [s2 rs].
      destruct (fsteps restart a fs (map Read ns)) as [f2 xs].
      cbn [snd] in *. f_equal. exact IH.
    + assert (Hp : 0 < want a s n) by lia.
      destruct (Hpos Hp) as [Hs _].
      rewrite Hs in Hi1. cbn [fst] in Hi1.
      rewrite Hs, (Fpos Hp).
      assert (Hfp : fpos fs = pos s) by (subst s; reflexivity).
      rewrite Hfp.
      set (s1 := mkB (pos s + want a s n * abps a) true) in *.
      set (f1 := mkF (pos s + want a s n * abps a) true).
      specialize (IH s1 f1 Hw Hi1 eq_refl eq_refl).
      destruct (bsteps a s1 (map Read ns)) as [s2 rs].
      destruct (fsteps restart a f1 (map Read ns)) as [f2 xs].
      cbn [snd] in *. f_equal. exact IH.
Qed.

Theorem C11_kinds_agree : forall B (a : audio B) ns, wfa a ->
  snd (bsteps a (mkB 0 true) (map Read ns)) = snd ((fix go s ops := match ops with [] => (s, []) | o :: r => let '(s1, x) := fstep true a s o in let '(s2, xs) := go s1 r in (s2, x :: xs) end) (mkF 0 true) (map Read ns)).
Proof.
  intros B a ns Hw.
  exact (kinds_agree_aux true a ns (mkB 0 true) (mkF 0 true) Hw (binv_zero a true) eq_refl eq_refl).
Qed.

(* ------------------------------------------------------------------ *)
(** * Non-vacuity: a 6-byte, 2-bytes-per-sample audio *)

Definition a6 : audio Z := mkAudio [1; 2; 3; 4; 5; 6] 4 2.

Example a6_wfa : wfa a6.
Proof. unfold wfa; cbn. repeat split; try lia. exists 3. reflexivity. Qed.

Example a6_run :
  bsteps a6 init_b [Open; Read (Some 2); GetPos; SetPos (-1); Read None; Read (Some 1); Close; Read (Some 1)]
  = (mkB 0 false,
     [OUnit; OData [1; 2; 3; 4]; OInt 2; OUnit; OData [5; 6]; ONone; OUnit; OErr AudioIOError]).
Proof. vm_compute. reflexivity. Qed.

Example a6_binv_mid : binv a6 (mkB 4 true).
Proof. unfold binv; cbn. split; [lia | exists 2; reflexivity]. Qed.

(* C11_read_open, positive branch: one sample wanted at cursor 2, got bytes [3;4]. *)
Example a6_read_pos :
  want a6 (mkB 2 true) (Some 1) = 1
  /\ bstep a6 (mkB 2 true) (Read (Some 1)) = (mkB 4 true, OData [3; 4]).
Proof. vm_compute. split; reflexivity. Qed.

(* C11_read_open, zero branch: end of data, and n = 0. *)
Example a6_read_zero :
  want a6 (mkB 6 true) None = 0 /\ bstep a6 (mkB 6 true) (Read None) = (mkB 6 true, ONone)
  /\ want a6 (mkB 2 true) (Some 0) = 0 /\ bstep a6 (mkB 2 true) (Read (Some 0)) = (mkB 2 true, ONone).
Proof. vm_compute. repeat split; reflexivity. Qed.

(* C11_reads_contiguous: reads of 1, 0, all-remaining (negative size), 1 samples. *)
Example a6_reads :
  bsteps a6 (mkB 0 true) (map Read [Some 1; Some 0; Some (-1); Some 1])
  = (mkB 6 true, [OData [1; 2]; ONone; OData [3; 4; 5; 6]; ONone]).
Proof. vm_compute. reflexivity. Qed.

(* C11_setpos: both branches, negative index. *)
Example a6_setpos :
  norm_pos a6 (-1) = 2
  /\ bstep a6 (mkB 0 true) (SetPos (-1)) = (mkB 4 true, OUnit)
  /\ bstep a6 (mkB 0 true) (SetPos 3) = (mkB 6 true, OUnit)
  /\ bstep a6 (mkB 2 true) (SetPos 4) = (mkB 2 true, OErr IndexError)
  /\ bstep a6 (mkB 2 true) (SetPos (-4)) = (mkB 2 true, OErr IndexError).
Proof. vm_compute. repeat split; reflexivity. Qed.

(* C11_setpos_s / C11_setpos_ms: rate 4, t = 0.5 s -> sample 2; 250 ms -> sample 1. *)
Example a6_setpos_s :
  py_int (fmul (of_Z (arate a6)) (of_me 1 (-1))) = Some 2
  /\ bstep a6 (mkB 0 true) (SetPosS (of_me 1 (-1))) = (mkB 4 true, OUnit).
Proof. vm_compute. split; reflexivity. Qed.

Example a6_setpos_ms :
  py_int (fdiv (of_Z (arate a6 * 250)) (of_Z 1000)) = Some 1
  /\ bstep a6 (mkB 0 true) (SetPosMs 250) = (mkB 2 true, OUnit).
Proof. vm_compute. split; reflexivity. Qed.

(* File kinds: raw/wav file restarts on reopen, stdin does not; same data as the buffer. *)
Example a6_file :
  fsteps true a6 init_f [Open; Read (Some 2); Close; Read (Some 1); Open; Read (Some (-1)); Read (Some 1)]
  = (mkF 6 true,
     [OUnit; OData [1; 2; 3; 4]; OUnit; OErr AudioIOError; OUnit; OData [1; 2; 3; 4; 5; 6]; ONone]).
Proof. vm_compute. reflexivity. Qed.

Example a6_stdin :
  fsteps false a6 init_f [Open; Read (Some 2); Close; Open; Read None; Read (Some 1)]
  = (mkF 6 true, [OUnit; OData [1; 2; 3; 4]; OUnit; OUnit; OData [5; 6]; ONone]).
Proof. vm_compute. reflexivity. Qed.

Example a6_kinds :
  snd (bsteps a6 (mkB 0 true) (map Read [Some 2; None; Some 1]))
  = [OData [1; 2; 3; 4]; OData [5; 6]; ONone]
  /\ snd (fsteps true a6 (mkF 0 true) (map Read [Some 2; None; Some 1]))
  = [OData [1; 2; 3; 4]; OData [5; 6]; ONone].
Proof. vm_compute. split; reflexivity. Qed.

(* The hypotheses of the main theorems are jointly satisfiable: instantiate them. *)
Example a6_binv_2 : binv a6 (mkB 2 true).
Proof. unfold binv; cbn. split; [lia | exists 1; reflexivity]. Qed.

Example a6_finv_2 : finv a6 (mkF 2 true).
Proof. exact a6_binv_2. Qed.

Example a6_inst_inv :=
  C11_inv Z a6 [Open; Read (Some 2); GetPos; SetPos (-1); Read None; Read (Some 1); Close; Read (Some 1)] a6_wfa.
Example a6_inst_read_open := C11_read_open Z a6 (mkB 2 true) (Some 1) a6_wfa a6_binv_2 eq_refl.
Example a6_inst_reads :=
  C11_reads_contiguous Z a6 (mkB 2 true) [Some 1; Some 0; None] a6_wfa a6_binv_2 eq_refl.
Example a6_inst_setpos := C11_setpos Z a6 (mkB 2 true) (-1) a6_wfa.
Example a6_inst_setpos_s :=
  C11_setpos_s Z a6 (mkB 0 true) (of_me 1 (-1)) 2 (proj1 a6_setpos_s).
Example a6_inst_setpos_ms :=
  C11_setpos_ms Z a6 (mkB 0 true) 250 1 (proj1 a6_setpos_ms).
Example a6_inst_file_read := C11_file_read Z true a6 (mkF 2 true) (Some 1) a6_wfa a6_finv_2 eq_refl.
Example a6_inst_kinds := C11_kinds_agree Z a6 [Some 2; None; Some 1] a6_wfa.

(* ------------------------------------------------------------------ *)
(** Assumptions.  NOTE: the model constant [bstep] itself is not closed: its
    [SetPosS]/[SetPosMs] branches call [fmul]/[fdiv]/[of_Z] (Flocq [Bmult], [Bdiv],
    [binary_normalize]), whose definitions embed proofs over the standard-library
    Reals.  Every theorem whose proof term mentions [bstep] therefore lists exactly
    the four Reals axioms that [Print Assumptions bstep] lists, and nothing else;
    the theorems about [fstep] / [set_position] only are closed. *)
Print Assumptions bstep.

Print Assumptions C11_inv_step.
Print Assumptions C11_inv.
Print Assumptions C11_read_open.
Print Assumptions C11_read_closed.
Print Assumptions C11_never_empty.
Print Assumptions C11_reads_contiguous.
Print Assumptions C11_getpos.
Print Assumptions C11_setpos.
Print Assumptions C11_setpos_s.
Print Assumptions C11_setpos_ms.
Print Assumptions C11_rewind.
Print Assumptions C11_close_open.
Print Assumptions C11_file_inv.
Print Assumptions C11_file_read.
Print Assumptions C11_file_closed.
Print Assumptions C11_file_reopen.
Print Assumptions C11_kinds_agree.
