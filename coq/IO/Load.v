(** Model of auditok.core._read_offline (the eager path of load() /
    AudioRegion.load()): open the source, skip round(skip * rate) samples by a
    read whose result is dropped, then read round(max_read * rate) samples (all
    that is left for None or a negative value); no data = the empty region.
    The source is the buffer machine of IO/Source.v. Definitions only. *)
From Coq Require Import ZArith List Bool.
From AV Require Import Base.PyList Base.PyFloat Tok.Model IO.Source.
Import ListNotations.
Open Scope Z_scope.

Section Load.
Context {B : Type}.

(** what the two reads of _read_offline ask for: the samples to skip (None: no skipping read is made) and the
    size of the data read; ValueError when a product is inf / nan (round() raises) *)
Definition offline_requests (rate : Z) (skip max_read : option f64) : result (option Z * option Z) :=
  let sk := match skip with
            | Some t => if flt fzero t then
                          match py_round (fmul t (of_Z rate)) with Some k => Some (Some k) | None => None end
                        else Some None
            | None => Some None
            end in
  match sk with
  | None => Err ValueError
  | Some sk =>
      let mr := match max_read with
                | None => Some None
                | Some m => if flt m fzero then Some None
                            else match py_round (fmul m (of_Z rate)) with Some k => Some (Some k) | None => None end
                end in
      match mr with
      | None => Err ValueError
      | Some mr => Ok (sk, mr)
      end
  end.

(** the data _read_offline returns for the requests (sk, mr) on an opened source at position 0 *)
Definition offline_data (a : audio B) (sk : option Z) (mr : option Z) : list B :=
  let s0 := mkB 0 true in
  let s1 := match sk with Some k => fst (bstep a s0 (Read (Some k))) | None => s0 end in
  match snd (bstep a s1 (Read mr)) with
  | OData d => d
  | _ => []
  end.

Definition read_offline (a : audio B) (skip max_read : option f64) : result (list B) :=
  match offline_requests (arate a) skip max_read with
  | Ok (sk, mr) => Ok (offline_data a sk mr)
  | Err e => Err e
  end.

End Load.
