(** load(skip, max_read) = slicing: the data _read_offline returns are the samples
    [m1, m1 + m2) of the audio, m1 = min(skip samples, N), m2 = min(max samples, N - m1)
    (everything left for None / negative) -- i.e. the Python slice of the sample
    sequence at the rounded instants. *)
From Coq Require Import ZArith List Bool Lia.
From AV Require Import Base.PyList Base.PyFloat Tok.Model IO.Source IO.SourceProofs IO.Load.
Import ListNotations.
Open Scope Z_scope.

Section LoadProofs.
Context {B : Type}.

Definition nsamples (a : audio B) : Z := zlen (abytes a) / abps a.

Lemma binv_start (a : audio B) : wfa a -> binv a (mkB 0 true).
Proof.
  intros (Hb & _ & Hd). split; cbn [pos].
  - split; [lia | apply zlen_nonneg].
  - apply Z.divide_0_r.
Qed.

Lemma remaining_start (a : audio B) : remaining a (mkB 0 true) = nsamples a.
Proof. unfold remaining, nsamples. cbn [pos]. f_equal. lia. Qed.

(** one read from an open state in the invariant: the state after it and its data *)
Lemma read_result (a : audio B) s n : wfa a -> binv a s -> is_open s = true ->
  let w := want a s n in
  pos (fst (bstep a s (Read n))) = pos s + w * abps a
  /\ is_open (fst (bstep a s (Read n))) = true
  /\ (match snd (bstep a s (Read n)) with OData d => d | _ => [] end)
     = zslice (abytes a) (pos s) (pos s + w * abps a).
Proof.
  intros Hw Hi Ho w.
  destruct (C11_read_open B a s n Hw Hi Ho) as [H0 Hp]. fold w in H0, Hp.
  pose proof (want_range a s n Hw Hi) as Hr. fold w in Hr.
  destruct (Z.eq_dec w 0) as [E|E].
  - rewrite (H0 E). cbn [fst snd pos is_open]. rewrite E. repeat split; [lia | exact Ho |].
    replace (pos s + 0 * abps a) with (pos s) by lia. unfold zslice. rewrite Z.sub_diag. reflexivity.
  - assert (Hpos : 0 < w) by lia. destruct (Hp Hpos) as [Hs _]. rewrite Hs. cbn [fst snd pos is_open].
    repeat split; reflexivity.
Qed.


(** the two reads of _read_offline *)
Theorem offline_data_is_slice (a : audio B) (sk mr : option Z) :
  wfa a ->
  let N := nsamples a in
  let m1 := match sk with Some k => if k <? 0 then N else Z.min k N | None => 0 end in
  let m2 := match mr with Some k => if k <? 0 then N - m1 else Z.min k (N - m1) | None => N - m1 end in
  offline_data a sk mr = zslice (abytes a) (m1 * abps a) ((m1 + m2) * abps a)
  /\ 0 <= m1 <= N /\ 0 <= m2 /\ m1 + m2 <= N.
Proof.
  intros Hw N m1 m2.
  pose proof (binv_start a Hw) as Hi0.
  set (s0 := mkB 0 true) in *.
  assert (Hb : 0 < abps a) by (destruct Hw as (Hb & _); exact Hb).
  assert (HR : N * abps a = zlen (abytes a)).
  { pose proof (remaining_mul a s0 Hw Hi0) as HR. unfold s0 in HR. rewrite remaining_start in HR. cbn [pos] in HR. fold N in HR. lia. }
  assert (HN : 0 <= N).
  { unfold N. rewrite <- remaining_start. apply remaining_nonneg; assumption. }
  set (s1 := match sk with Some k => fst (bstep a s0 (Read (Some k))) | None => s0 end).
  assert (Hs1 : pos s1 = m1 * abps a /\ is_open s1 = true /\ binv a s1 /\ 0 <= m1 <= N).
  { unfold s1, m1. destruct sk as [k|].
    - destruct (read_result a s0 (Some k) Hw Hi0 eq_refl) as (Hp & Ho & _).
      assert (Hwant : want a s0 (Some k) = if k <? 0 then N else Z.min k N).
      { unfold want. unfold s0. rewrite remaining_start. reflexivity. }
      rewrite Hwant in Hp. unfold s0 in Hp at 2. cbn [pos] in Hp.
      set (m := if k <? 0 then N else Z.min k N) in *.
      assert (Hm : 0 <= m <= N) by (unfold m; destruct (k <? 0) eqn:E; lia).
      split; [rewrite Hp; lia|]. split; [exact Ho|]. split; [|exact Hm].
      split; [rewrite Hp; nia | rewrite Hp; exists m; lia].
    - split; [unfold s0; cbn [pos]; lia|]. split; [reflexivity|]. split; [exact Hi0|]. lia. }
  destruct Hs1 as (Hp1 & Ho1 & Hi1 & Hm1).
  destruct (read_result a s1 mr Hw Hi1 Ho1) as (_ & _ & Hd).
  assert (Hrem : remaining a s1 = N - m1).
  { unfold remaining. rewrite Hp1, <- HR.
    replace (N * abps a - m1 * abps a) with ((N - m1) * abps a) by lia.
    rewrite Z.div_mul by lia. reflexivity. }
  assert (Hwant : want a s1 mr = m2).
  { unfold want, m2. rewrite Hrem. reflexivity. }
  split.
  - unfold offline_data. fold s0. fold s1. rewrite Hd, Hwant, Hp1. f_equal. lia.
  - unfold m2. destruct mr as [k|]; [destruct (k <? 0) eqn:E|]; lia.
Qed.

(** with the requests computed from the durations: load(skip, max_read) *)
Theorem read_offline_is_slice (a : audio B) skip max_read d :
  wfa a -> read_offline a skip max_read = Ok d ->
  exists sk mr, offline_requests (arate a) skip max_read = Ok (sk, mr)
    /\ d = offline_data a sk mr.
Proof.
  intros _ H. unfold read_offline in H. destruct (offline_requests (arate a) skip max_read) as [[sk mr]|e]; [|discriminate].
  inversion H; subst. exists sk, mr. split; reflexivity.
Qed.

End LoadProofs.
