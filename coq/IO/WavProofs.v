(** Codec part of C18 / C09: little-endian two's complement round trips,
    the (channels, samples) layout of [to_array], and the 44-byte RIFF/WAVE
    container round trip.  Everything is closed under the global context. *)
From Coq Require Import ZArith List Bool Lia ZifyBool.
From AV Require Import Base.PyList Audio.Pcm IO.Wav.
Import ListNotations.
Open Scope Z_scope.

(* ------------------------------------------------------------------ *)
(** * Bytes *)

Lemma le_bytes_length : forall w u, length (le_bytes w u) = w.
Proof. induction w as [|w IH]; intros u; cbn [le_bytes length]; [reflexivity | now rewrite IH]. Qed.

Lemma le_bytes_range : forall w u, Forall (fun b => 0 <= b < 256) (le_bytes w u).
Proof.
  induction w as [|w IH]; intros u; cbn [le_bytes]; constructor; [|apply IH].
  apply Z.mod_pos_bound. lia.
Qed.

Lemma pow256_succ (w : nat) : 256 ^ Z.of_nat (S w) = 256 * 256 ^ Z.of_nat w.
Proof. rewrite Nat2Z.inj_succ, Z.pow_succ_r by lia. reflexivity. Qed.

Lemma pow256_pos (w : nat) : 0 < 256 ^ Z.of_nat w.
Proof. apply Z.pow_pos_nonneg; lia. Qed.

(** Decoding what [le_bytes] wrote gives the value modulo 256^w ... *)
Lemma le_unsigned_le_bytes_mod : forall w u,
  le_unsigned (le_bytes w u) = u mod 256 ^ Z.of_nat w.
Proof.
  induction w as [|w IH]; intros u.
  - cbn [le_bytes le_unsigned]. change (256 ^ Z.of_nat 0) with 1. now rewrite Z.mod_1_r.
  - cbn [le_bytes le_unsigned]. rewrite IH, pow256_succ.
    pose proof (pow256_pos w) as Hp.
    rewrite Z.rem_mul_r by lia. reflexivity.
Qed.

(** ... hence the value itself when it fits. *)
Lemma le_unsigned_le_bytes : forall w u, 0 <= u < 256 ^ Z.of_nat w ->
  le_unsigned (le_bytes w u) = u.
Proof. intros w u Hu. rewrite le_unsigned_le_bytes_mod. now apply Z.mod_small. Qed.

Lemma le_unsigned_range : forall bs, Forall (fun b => 0 <= b < 256) bs ->
  0 <= le_unsigned bs < 256 ^ zlen bs.
Proof.
  induction 1 as [|b bs Hb Hbs IH].
  - cbn [le_unsigned]. change (256 ^ zlen (@nil Z)) with 1. lia.
  - cbn [le_unsigned]. rewrite zlen_cons. pose proof (zlen_nonneg bs) as Hn.
    rewrite Z.pow_add_r by lia. change (256 ^ 1) with 256. lia.
Qed.

Lemma le_bytes_le_unsigned : forall bs, Forall (fun b => 0 <= b < 256) bs ->
  le_bytes (length bs) (le_unsigned bs) = bs.
Proof.
  induction 1 as [|b bs Hb Hbs IH]; [reflexivity|].
  cbn [length le_bytes le_unsigned].
  replace (b + 256 * le_unsigned bs) with (b + le_unsigned bs * 256) by ring.
  rewrite Z.mod_add, Z.div_add by lia.
  rewrite (Z.mod_small b), (Z.div_small b), Z.add_0_l by lia. now rewrite IH.
Qed.

(** Two's complement round trip for any width (in particular 1, 2, 4). *)
Theorem le_signed_encode : forall w x, (0 < w)%nat ->
  - (256 ^ Z.of_nat w / 2) <= x < 256 ^ Z.of_nat w / 2 ->
  le_signed (le_encode w x) = x.
Proof.
  intros w x Hw Hx. unfold le_signed, le_encode, zlen.
  rewrite le_bytes_length, le_unsigned_le_bytes_mod, Z.mod_mod by (pose proof (pow256_pos w); lia).
  destruct w as [|w]; [lia|]. rewrite pow256_succ in *.
  pose proof (pow256_pos w) as Hp. set (m := 256 ^ Z.of_nat w) in *. clearbody m.
  replace (256 * m / 2) with (128 * m) in Hx by (rewrite (Z.mul_comm 256 m); replace (m * 256) with (m * 128 * 2) by ring; rewrite Z.div_mul by lia; ring).
  destruct (Z.le_gt_cases 0 x) as [Hpos|Hneg].
  - rewrite Z.mod_small by lia. destruct (2 * x <? 256 * m) eqn:E; lia.
  - replace (x mod (256 * m)) with (x + 256 * m).
    + destruct (2 * (x + 256 * m) <? 256 * m) eqn:E; lia.
    + apply Z.mod_unique with (q := -1); lia.
Qed.

Theorem le_encode_signed : forall bs, bs <> [] -> Forall (fun b => 0 <= b < 256) bs ->
  le_encode (length bs) (le_signed bs) = bs.
Proof.
  intros bs _ Hbs. unfold le_encode, le_signed. fold (zlen bs).
  pose proof (le_unsigned_range bs Hbs) as Hr.
  set (m := 256 ^ zlen bs) in *. set (u := le_unsigned bs) in *.
  assert (Hu : (if 2 * u <? m then u else u - m) mod m = u).
  { destruct (2 * u <? m).
    - apply Z.mod_small. lia.
    - symmetry. apply Z.mod_unique with (q := -1); lia. }
  rewrite Hu. unfold u. now apply le_bytes_le_unsigned.
Qed.

(* ------------------------------------------------------------------ *)
(** * chunks (local copies of the facts needed here) *)

Lemma chunks_fuel_indep {A} : forall f1 f2 n (l : list A), (0 < n)%nat ->
  (length l <= f1)%nat -> (length l <= f2)%nat ->
  chunks_fuel f1 n l = chunks_fuel f2 n l.
Proof.
  induction f1 as [|f1 IH]; intros f2 n l Hn H1 H2.
  - destruct l; [|cbn [length] in H1; lia]. destruct f2; reflexivity.
  - destruct l as [|x l].
    + destruct f2; reflexivity.
    + destruct f2 as [|f2]; [cbn [length] in H2; lia|].
      cbn [chunks_fuel]. f_equal.
      apply IH; [assumption | |]; rewrite skipn_length; cbn [length] in *; lia.
Qed.

Lemma chunks_step {A} n (l : list A) : (0 < n)%nat -> l <> [] ->
  chunks n l = firstn n l :: chunks n (skipn n l).
Proof.
  intros Hn Hl. destruct l as [|x l]; [contradiction|].
  unfold chunks. cbn [length chunks_fuel]. f_equal.
  apply chunks_fuel_indep; [assumption | | lia].
  rewrite skipn_length. cbn [length]. lia.
Qed.

Lemma skipn_skipn_add {A} : forall x y (l : list A), skipn x (skipn y l) = skipn (y + x) l.
Proof.
  intros x y; revert x. induction y as [|y IH]; intros x l; [reflexivity|].
  destruct l as [|h l]; [cbn [skipn Nat.add]; now rewrite skipn_nil|].
  cbn [skipn Nat.add]. apply IH.
Qed.

(** block [i] of [chunks n l] *)
Lemma nth_chunks {A} n : (0 < n)%nat -> forall i (l : list A) d, (i * n < length l)%nat ->
  nth i (chunks n l) d = firstn n (skipn (i * n) l).
Proof.
  intros Hn. induction i as [|i IH]; intros l d Hi.
  - assert (Hl : l <> []) by (destruct l; [cbn [length] in Hi; lia | discriminate]).
    rewrite chunks_step by assumption. reflexivity.
  - assert (Hl : l <> []) by (destruct l; [cbn [length] in Hi; lia | discriminate]).
    rewrite chunks_step by assumption.
    cbn [nth]. rewrite IH by (rewrite skipn_length; lia).
    rewrite skipn_skipn_add. reflexivity.
Qed.

Lemma chunks_length_exact {A} n : (0 < n)%nat -> forall k (l : list A),
  length l = (k * n)%nat -> length (chunks n l) = k.
Proof.
  intros Hn. induction k as [|k IH]; intros l Hl.
  - destruct l; [reflexivity | cbn [length] in Hl; lia].
  - assert (Hne : l <> []) by (destruct l; [cbn [length] in Hl; lia | discriminate]).
    rewrite chunks_step by assumption.
    cbn [length]. f_equal. apply IH. rewrite skipn_length. lia.
Qed.

Lemma nth_firstn_skipn {A} (l : list A) a n c d : (c < n)%nat ->
  nth c (firstn n (skipn a l)) d = nth (a + c) l d.
Proof.
  intros Hc. revert l. induction a as [|a IH]; intros l.
  - cbn [skipn Nat.add]. revert n l Hc. induction c as [|c IHc]; intros n l Hc.
    + destruct n; [lia|]. destruct l; reflexivity.
    + destruct n; [lia|]. destruct l; [reflexivity|]. cbn [firstn nth]. apply IHc. lia.
  - destruct l as [|h l].
    + cbn [skipn]. rewrite firstn_nil. destruct c; destruct (S a + _)%nat; reflexivity.
    + cbn [skipn Nat.add nth]. apply IH.
Qed.

Lemma nth_map_default {A B} (f : A -> B) l i d d' : (i < length l)%nat ->
  nth i (map f l) d' = f (nth i l d).
Proof.
  intros Hi. rewrite (nth_indep _ d' (f d)) by now rewrite map_length. apply map_nth.
Qed.

(* ------------------------------------------------------------------ *)
(** * Layout of [to_array]: shape (channels, samples) *)

Lemma divide_length {A} (l : list A) (n : nat) : (0 < n)%nat -> (Z.of_nat n | zlen l) ->
  exists k, length l = (k * n)%nat /\ Z.of_nat k = zlen l / Z.of_nat n.
Proof.
  intros Hn [k Hk]. unfold zlen in *.
  assert (0 <= k) by nia.
  exists (Z.to_nat k). split.
  - apply Nat2Z.inj. rewrite Nat2Z.inj_mul, Z2Nat.id by assumption. exact Hk.
  - rewrite Hk, Z.div_mul by lia. lia.
Qed.

Lemma decode_all_length w data k : (0 < w)%nat -> length data = (k * w)%nat ->
  length (decode_all w data) = k.
Proof. intros Hw Hl. unfold decode_all. rewrite map_length. now apply chunks_length_exact. Qed.

Lemma decode_all_nth w data k j : (0 < w)%nat -> length data = (k * w)%nat -> (j < k)%nat ->
  nth j (decode_all w data) 0 = le_signed (zslice data (Z.of_nat (j * w)) (Z.of_nat (j * w + w))).
Proof.
  intros Hw Hl Hj. unfold decode_all.
  rewrite (nth_map_default le_signed _ _ []) by (rewrite (chunks_length_exact w Hw k); assumption).
  rewrite nth_chunks by (try assumption; nia).
  unfold zslice. rewrite Nat2Z.id.
  replace (Z.to_nat (Z.of_nat (j * w + w) - Z.of_nat (j * w))) with w by lia. reflexivity.
Qed.

Lemma channel_length ch c xs k : (0 < ch)%nat -> length xs = (k * ch)%nat ->
  length (channel ch c xs) = k.
Proof. intros Hch Hl. unfold channel. rewrite map_length. now apply chunks_length_exact. Qed.

Lemma channel_nth ch c xs k i : (0 < ch)%nat -> (c < ch)%nat -> length xs = (k * ch)%nat ->
  (i < k)%nat -> nth i (channel ch c xs) 0 = nth (i * ch + c) xs 0.
Proof.
  intros Hch Hc Hl Hi. unfold channel.
  rewrite (nth_map_default _ _ _ []) by (rewrite (chunks_length_exact ch Hch k); assumption).
  rewrite nth_chunks by (try assumption; nia).
  now apply nth_firstn_skipn.
Qed.

Lemma to_array_nth w ch data c : (c < ch)%nat ->
  nth c (to_array w ch data) [] = channel ch c (decode_all w data).
Proof.
  intros Hc. unfold to_array.
  rewrite (nth_map_default _ _ _ O) by now rewrite seq_length.
  now rewrite seq_nth.
Qed.

(** element [c][i] of to_array is the sample at byte offset (i*ch + c)*w *)
Theorem C18_numpy_layout : forall w ch data c i, (0 < w)%nat -> (0 < ch)%nat -> (c < ch)%nat ->
  (Z.of_nat (w * ch) | zlen data) -> (Z.of_nat i < zlen data / Z.of_nat (w * ch)) ->
  length (to_array w ch data) = ch /\
  nth i (nth c (to_array w ch data) []) 0
    = le_signed (zslice data (Z.of_nat ((i * ch + c) * w)) (Z.of_nat ((i * ch + c) * w + w)))
  /\ zlen (nth c (to_array w ch data) []) = zlen data / Z.of_nat (w * ch).
Proof.
  intros w ch data c i Hw Hch Hc Hd Hi.
  destruct (divide_length data (w * ch)%nat ltac:(nia) Hd) as [k [Hk Hk']].
  rewrite <- Hk' in *. apply Nat2Z.inj_lt in Hi.
  assert (Hk2 : length data = (k * ch * w)%nat) by lia.
  pose proof (decode_all_length w data (k * ch) Hw Hk2) as Hdl.
  split; [|split].
  - unfold to_array. now rewrite map_length, seq_length.
  - rewrite to_array_nth by assumption.
    rewrite (channel_nth ch c _ k i) by assumption.
    apply (decode_all_nth w data (k * ch)); [assumption | assumption | nia].
  - rewrite to_array_nth by assumption. unfold zlen. f_equal.
    now apply channel_length.
Qed.

(* ------------------------------------------------------------------ *)
(** * WAV container *)

Lemma length4 {A} (l : list A) : length l = 4%nat -> exists a b c d, l = [a; b; c; d].
Proof.
  destruct l as [|a [|b [|c [|d [|e l]]]]]; try discriminate. intros _. now exists a, b, c, d.
Qed.

Lemma length2 {A} (l : list A) : length l = 2%nat -> exists a b, l = [a; b].
Proof.
  destruct l as [|a [|b [|c l]]]; try discriminate. intros _. now exists a, b.
Qed.

(** Field offsets of the canonical header, for arbitrary field contents of the
    right sizes. *)
Lemma wav_layout (A B C D E F G H I d : list Z) :
  length A = 4%nat -> length B = 4%nat -> length C = 2%nat -> length D = 2%nat ->
  length E = 4%nat -> length F = 4%nat -> length G = 2%nat -> length H = 2%nat ->
  length I = 4%nat ->
  let f := (tag_RIFF ++ A ++ tag_WAVE ++ tag_fmt ++ B ++ C ++ D ++ E ++ F ++ G ++ H
            ++ tag_data ++ I) ++ d in
  zlen f = 44 + zlen d /\
  zslice f 0 4 = tag_RIFF /\ zslice f 8 12 = tag_WAVE /\ zslice f 12 16 = tag_fmt /\
  zslice f 36 40 = tag_data /\
  zslice f 16 20 = B /\ zslice f 20 22 = C /\ zslice f 22 24 = D /\ zslice f 24 28 = E /\
  zslice f 34 36 = H /\ zslice f 40 44 = I /\
  forall n, zslice f 44 (44 + n) = zslice d 0 n.
Proof.
  intros HA HB HC HD HE HF HG HH HI.
  destruct (length4 _ HA) as [a1 [a2 [a3 [a4 ->]]]].
  destruct (length4 _ HB) as [b1 [b2 [b3 [b4 ->]]]].
  destruct (length2 _ HC) as [c1 [c2 ->]].
  destruct (length2 _ HD) as [d1 [d2 ->]].
  destruct (length4 _ HE) as [e1 [e2 [e3 [e4 ->]]]].
  destruct (length4 _ HF) as [f1 [f2 [f3 [f4 ->]]]].
  destruct (length2 _ HG) as [g1 [g2 ->]].
  destruct (length2 _ HH) as [h1 [h2 ->]].
  destruct (length4 _ HI) as [i1 [i2 [i3 [i4 ->]]]].
  intros f. subst f. unfold tag_RIFF, tag_WAVE, tag_fmt, tag_data. cbn [app].
  split; [|repeat split; try reflexivity].
  - rewrite !zlen_cons. ring.
  - intros n. unfold zslice. replace (44 + n - 44) with (n - 0) by ring. reflexivity.
Qed.

Lemma zslice_0_zlen {A} (l : list A) : zslice l 0 (zlen l) = l.
Proof.
  unfold zslice, zlen. rewrite Z.sub_0_r, Nat2Z.id. cbn [Z.to_nat skipn]. apply firstn_all.
Qed.

Lemma list_Z_eqb_refl (a : list Z) : list_Z_eqb a a = true.
Proof.
  unfold list_Z_eqb. rewrite Nat.eqb_refl. cbn [andb].
  induction a as [|x a IH]; [reflexivity|].
  cbn [combine forallb fst snd]. now rewrite Z.eqb_refl, IH.
Qed.

Theorem wav_header_length : forall r w c n, zlen (wav_header r w c n) = 44.
Proof.
  intros r w c n. unfold wav_header, u16, u32, tag_RIFF, tag_WAVE, tag_fmt, tag_data, zlen.
  rewrite !app_length, !le_bytes_length. reflexivity.
Qed.

(** What the decoder reads back from ANY encoded record: every header field
    reduced modulo its width. *)
Ltac Zify.zify_post_hook ::= Z.to_euclidean_division_equations.

Theorem wav_decode_encode : forall x,
  wav_decode (wav_encode x) =
  Some (mkWav (wrate x mod 2 ^ 32) ((wwidth x * 8) mod 2 ^ 16 / 8) (wch x mod 2 ^ 16)
              (zslice (wdata x) 0 (zlen (wdata x) mod 2 ^ 32))).
Proof.
  intros [r w c d]. unfold wav_encode, wav_header. cbn [wrate wwidth wch wdata].
  pose proof (wav_layout (u32 (36 + zlen d)) (u32 16) (u16 1) (u16 c) (u32 r)
                (u32 (c * r * w)) (u16 (c * w)) (u16 (w * 8)) (u32 (zlen d)) d
                (le_bytes_length _ _) (le_bytes_length _ _) (le_bytes_length _ _)
                (le_bytes_length _ _) (le_bytes_length _ _) (le_bytes_length _ _)
                (le_bytes_length _ _) (le_bytes_length _ _) (le_bytes_length _ _)) as L.
  cbv zeta in L.
  set (f := (tag_RIFF ++ _) ++ d) in *.
  destruct L as (Llen & L0 & L8 & L12 & L36 & L16 & L20 & L22 & L24 & L34 & L40 & L44).
  unfold wav_decode.
  rewrite Llen, L0, L8, L12, L36, L16, L20, L22, L24, L34, L40, L44.
  clearbody f. clear.
  rewrite !list_Z_eqb_refl.
  unfold u16, u32. rewrite !le_unsigned_le_bytes_mod.
  change (256 ^ Z.of_nat 4) with (2 ^ 32). change (256 ^ Z.of_nat 2) with (2 ^ 16).
  change (16 mod 2 ^ 32) with 16. change (1 mod 2 ^ 16) with 1.
  pose proof (zlen_nonneg d) as Hd.
  destruct (44 <=? 44 + zlen d) eqn:E1; [|lia]. cbn [negb andb]. rewrite !Z.eqb_refl. cbn [negb andb].
  assert (E8 : ((w * 8) mod 2 ^ 16) mod 8 = 0).
  { change (2 ^ 16) with 65536. clear. lia. }
  rewrite E8. reflexivity.
Qed.

Definition wav_ok (x : wav) : Prop :=
  0 <= wrate x < 2 ^ 32 /\ 0 < wwidth x < 2 ^ 13 /\ 0 <= wch x < 2 ^ 16 /\
  zlen (wdata x) < 2 ^ 32 - 36 /\ Forall (fun b => 0 <= b < 256) (wdata x).

(** The weakest condition: each field the decoder reads back fits its width.
    (The RIFF size, byte rate and block align fields are written but never read.) *)
Definition wav_ok_weak (x : wav) : Prop :=
  0 <= wrate x < 2 ^ 32 /\ 0 <= wwidth x < 2 ^ 13 /\ 0 <= wch x < 2 ^ 16 /\
  zlen (wdata x) < 2 ^ 32.

Lemma wav_ok_weaken x : wav_ok x -> wav_ok_weak x.
Proof. unfold wav_ok, wav_ok_weak. change (2 ^ 32) with 4294967296. lia. Qed.

Theorem C18_wav_roundtrip_iff : forall x, wav_decode (wav_encode x) = Some x <-> wav_ok_weak x.
Proof.
  intros x. rewrite wav_decode_encode. destruct x as [r w c d].
  unfold wav_ok_weak. cbn [wrate wwidth wch wdata].
  pose proof (zlen_nonneg d) as Hd.
  change (2 ^ 32) with 4294967296. change (2 ^ 16) with 65536. change (2 ^ 13) with 8192.
  split.
  - intros H. inversion H as [[Hr Hw Hc Hdd]]. clear H.
    assert (Hz : zlen d mod 4294967296 = zlen d).
    { apply (f_equal zlen) in Hdd. rewrite zlen_zslice in Hdd by lia. lia. }
    rewrite Hr, Hw, Hc, Hdd. lia.
  - intros (Hr & Hw & Hc & Hl).
    rewrite (Z.mod_small r), (Z.mod_small c), (Z.mod_small (zlen d)), (Z.mod_small (w * 8)) by lia.
    rewrite Z.div_mul by lia. now rewrite zslice_0_zlen.
Qed.

Theorem C18_wav_roundtrip : forall x, wav_ok x -> wav_decode (wav_encode x) = Some x.
Proof. intros x Hx. now apply C18_wav_roundtrip_iff, wav_ok_weaken. Qed.

(* ------------------------------------------------------------------ *)
(** * Non-vacuity *)

(** 2 channels, 2 bytes, 3 samples: L = 1, -2, 258; R = -1, 32767, -32768 *)
Definition ex_pcm : list Z := [1; 0; 255; 255;   254; 255; 255; 127;   2; 1; 0; 128].
Example ex_to_array : to_array 2 2 ex_pcm = [[1; -2; 258]; [-1; 32767; -32768]].
Proof. vm_compute. reflexivity. Qed.

Example ex_layout_hyps : (Z.of_nat (2 * 2) | zlen ex_pcm) /\ Z.of_nat 2 < zlen ex_pcm / Z.of_nat (2 * 2).
Proof. split; [exists 3; reflexivity | reflexivity]. Qed.

Example ex_layout : nth 2 (nth 1 (to_array 2 2 ex_pcm) []) 0 = le_signed [0; 128].
Proof.
  destruct (C18_numpy_layout 2 2 ex_pcm 1 2) as [_ [H _]]; try lia;
    [apply ex_layout_hyps | apply ex_layout_hyps | exact H].
Qed.

Example ex_signed : le_signed (le_encode 1 (-128)) = -128 /\ le_signed (le_encode 2 (-32768)) = -32768
  /\ le_signed (le_encode 4 2147483647) = 2147483647 /\ le_encode 2 (-2) = [254; 255]
  /\ le_signed (le_encode 2 32768) = -32768.   (* out of range wraps *)
Proof. vm_compute. repeat split. Qed.

Definition ex_wav : wav := mkWav 16000 2 2 ex_pcm.
Example ex_wav_ok : wav_ok ex_wav.
Proof.
  unfold wav_ok, ex_wav. cbn [wrate wwidth wch wdata].
  repeat split; try (vm_compute; congruence).
  unfold ex_pcm. repeat constructor; lia.
Qed.
Example ex_wav_bytes : wav_encode ex_wav =
  [82;73;70;70; 48;0;0;0; 87;65;86;69; 102;109;116;32; 16;0;0;0; 1;0; 2;0; 128;62;0;0;
   0;250;0;0; 4;0; 16;0; 100;97;116;97; 12;0;0;0] ++ ex_pcm.
Proof. vm_compute. reflexivity. Qed.
Example ex_wav_roundtrip : wav_decode (wav_encode ex_wav) = Some ex_wav.
Proof. vm_compute. reflexivity. Qed.
(** a field that does not fit is NOT recovered: 70000 channels read back as 4464 *)
Example ex_wav_overflow : wav_decode (wav_encode (mkWav 16000 2 70000 [])) = Some (mkWav 16000 2 4464 []).
Proof. vm_compute. reflexivity. Qed.

Print Assumptions le_bytes_length.
Print Assumptions le_bytes_range.
Print Assumptions le_unsigned_le_bytes.
Print Assumptions le_signed_encode.
Print Assumptions le_encode_signed.
Print Assumptions C18_numpy_layout.
Print Assumptions wav_header_length.
Print Assumptions wav_decode_encode.
Print Assumptions C18_wav_roundtrip_iff.
Print Assumptions C18_wav_roundtrip.
