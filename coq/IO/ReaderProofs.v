(** Proofs about the AudioReader model [IO/Reader.v]:
    C10 (framing: fixed-size and overlapping blocks, max_read limit) and
    C19 (recorder: data, rewind, replay, guards). *)
From Coq Require Import ZArith List Bool Lia ZifyBool.
From AV Require Import Base.PyList Tok.Model IO.Reader.
Import ListNotations.
Open Scope Z_scope.

(* ------------------------------------------------------------------ *)
(** * Definitions used in the statements *)

(** The visible data: what the limiter lets through. [Z.to_nat] of a negative is 0. *)
Definition vis {S} (data : list S) (mx : option Z) : list S :=
  match mx with None => data | Some m => firstn (Z.to_nat m) data end.

(** Closed form of the k-th read (k = 0,1,2,...) of a fixed-size reader. *)
Definition fixed_block {S} (v : list S) (W : Z) (k : Z) : option (list S) :=
  match zslice v (k * W) (k * W + W) with [] => None | b => Some b end.

(** Number of blocks of an overlapping reader: 1 + ceil(max 0 (n-W) / H). *)
Definition nb_overlap (n W H : Z) : Z :=
  if n =? 0 then 0 else 1 + (Z.max 0 (n - W) + H - 1) / H.

Definition overlap_block {S} (v : list S) (W H : Z) (k : Z) : option (list S) :=
  if k <? nb_overlap (zlen v) W H then Some (zslice v (k * H) (k * H + W)) else None.

(** Number of source samples consumed by k reads if the data were unbounded. *)
Definition consumed (W : Z) (H : option Z) (k : nat) : Z :=
  match H with
  | None => Z.of_nat k * W
  | Some h => if Z.of_nat k =? 0 then 0 else W + (Z.of_nat k - 1) * h
  end.

(* ------------------------------------------------------------------ *)
(** * List facts about [zslice] *)

Section ListFacts.
Context {A : Type}.
Implicit Types l : list A.

Lemma zslice_nil_ge l a b : 0 <= a -> zlen l <= a -> zslice l a b = [].
Proof.
  intros Ha Hl. apply zlen_zero_nil. rewrite zlen_zslice by exact Ha. lia.
Qed.

Lemma zslice_nil_le l a b : b <= a -> zslice l a b = [].
Proof.
  intros Hb. unfold zslice. replace (Z.to_nat (b - a)) with 0%nat by lia. reflexivity.
Qed.

Lemma zslice_nil_inv l a b : 0 <= a -> zslice l a b = [] -> b <= a \/ zlen l <= a.
Proof.
  intros Ha E. pose proof (zlen_zslice l a b Ha) as Hz. rewrite E, zlen_nil in Hz. lia.
Qed.

Lemma zslice_cons_inv l a b x c : 0 <= a -> zslice l a b = x :: c -> a < b /\ a < zlen l.
Proof.
  intros Ha E. pose proof (zlen_zslice l a b Ha) as Hz. rewrite E, zlen_cons in Hz.
  pose proof (zlen_nonneg c). lia.
Qed.

Lemma zslice_0 l p : zslice l 0 p = firstn (Z.to_nat p) l.
Proof.
  unfold zslice. rewrite Z.sub_0_r. reflexivity.
Qed.

Lemma zslice_firstn l m a b :
  0 <= a -> zslice (firstn (Z.to_nat m) l) a b = zslice l a (Z.min b m).
Proof.
  intros Ha. unfold zslice. rewrite skipn_firstn_comm, firstn_firstn.
  f_equal. lia.
Qed.

Lemma zslice_clip l a b : 0 <= a -> zslice l a (Z.min b (zlen l)) = zslice l a b.
Proof.
  intros Ha. destruct (Z.le_gt_cases b (zlen l)) as [Hle|Hgt].
  - rewrite Z.min_l by exact Hle. reflexivity.
  - rewrite Z.min_r by lia. unfold zslice.
    rewrite !firstn_all2; [reflexivity | |]; rewrite skipn_length; unfold zlen in *; lia.
Qed.

Lemma firstn_app_skipn l (n m : nat) :
  firstn n l ++ firstn m (skipn n l) = firstn (n + m) l.
Proof.
  rewrite firstn_skipn_comm.
  replace (firstn n l) with (firstn n (firstn (n + m) l)).
  - apply firstn_skipn.
  - rewrite firstn_firstn. f_equal. lia.
Qed.

Lemma skipn_skipn' l (x y : nat) : skipn x (skipn y l) = skipn (x + y) l.
Proof.
  revert l. induction y as [|y IH]; intros l.
  - rewrite Nat.add_0_r. reflexivity.
  - rewrite Nat.add_succ_r. destruct l as [|e l].
    + rewrite !skipn_nil. reflexivity.
    + cbn [skipn]. apply IH.
Qed.

Lemma zslice_app_adj l a b c :
  0 <= a <= b -> b <= c -> zslice l a b ++ zslice l b c = zslice l a c.
Proof.
  intros Hab Hbc. unfold zslice.
  replace (Z.to_nat b) with (Z.to_nat (b - a) + Z.to_nat a)%nat by lia.
  rewrite <- skipn_skipn', firstn_app_skipn. f_equal. lia.
Qed.

Lemma skipn_zslice l a b h :
  0 <= a -> 0 <= h -> skipn (Z.to_nat h) (zslice l a b) = zslice l (a + h) b.
Proof.
  intros Ha Hh. unfold zslice. rewrite skipn_firstn_comm, skipn_skipn'.
  f_equal; [lia | f_equal; lia].
Qed.

(** A slice is determined by its start and its own length. *)
Lemma zslice_self_len l a b :
  0 <= a -> zslice l a b = zslice l a (a + zlen (zslice l a b)).
Proof.
  intros Ha. rewrite zlen_zslice by exact Ha.
  destruct (Z.le_gt_cases b a) as [Hba|Hba].
  { rewrite (zslice_nil_le l a b) by exact Hba. symmetry. apply zslice_nil_le. lia. }
  destruct (Z.le_gt_cases (zlen l) a) as [Hla|Hla].
  { rewrite !zslice_nil_ge by lia. reflexivity. }
  destruct (Z.le_gt_cases b (zlen l)) as [Hbl|Hbl].
  - f_equal. lia.
  - rewrite <- (zslice_clip l a b) by exact Ha. f_equal. lia.
Qed.

Lemma zslice_all l b : zlen l <= b -> zslice l 0 b = l.
Proof.
  intros Hb. rewrite zslice_0. apply firstn_all2. unfold zlen in Hb. lia.
Qed.

Lemma vis_firstn l mx p :
  vis (firstn p l) mx = firstn p (vis l mx).
Proof.
  destruct mx as [m|]; [|reflexivity]. unfold vis.
  rewrite !firstn_firstn. f_equal. lia.
Qed.

Lemma zlen_vis_le l mx : zlen (vis l mx) <= zlen l.
Proof.
  destruct mx as [m|]; unfold vis; [rewrite zlen_firstn|]; lia.
Qed.

Lemma zlen_vis_limit l m : zlen (vis l (Some m)) <= Z.max 0 m.
Proof.
  unfold vis. rewrite zlen_firstn. lia.
Qed.

(** A slice of the visible data is a slice of the source. *)
Lemma zslice_vis_src l mx a b :
  0 <= a -> exists q, zslice (vis l mx) a b = zslice l a q.
Proof.
  intros Ha. destruct mx as [m|]; unfold vis.
  - eexists. apply zslice_firstn. exact Ha.
  - eexists. reflexivity.
Qed.

End ListFacts.

(* ------------------------------------------------------------------ *)
(** * Fields that no read ever changes *)

Section Static.
Context {A : Type}.
Implicit Types r : rd A.

Definition same_static r r' : Prop :=
  src r' = src r /\ recording r' = recording r /\ rdata r' = rdata r /\
  limit r' = limit r /\ bsize r' = bsize r /\ hop r' = hop r.

Lemma same_static_refl r : same_static r r.
Proof. unfold same_static. repeat split. Qed.

Lemma same_static_trans r1 r2 r3 : same_static r1 r2 -> same_static r2 r3 -> same_static r1 r3.
Proof.
  unfold same_static. intros (Ha & Hb & Hc & Hd & He & Hf) (Ha' & Hb' & Hc' & Hd' & He' & Hf').
  repeat split; congruence.
Qed.

Lemma base_read_static r n : same_static r (fst (base_read r n)).
Proof.
  unfold base_read. destruct (zslice (src r) (pos r) (pos r + n)).
  - apply same_static_refl.
  - unfold same_static. cbn [fst src recording rdata limit bsize hop]. repeat split.
Qed.

Lemma lim_read_static r n : same_static r (fst (lim_read r n)).
Proof.
  unfold lim_read. destruct (limit r) as [m|].
  - destruct (Z.min (m - nread r) n <=? 0).
    + apply same_static_refl.
    + pose proof (base_read_static r (Z.min (m - nread r) n)) as Hb.
      destruct (base_read r (Z.min (m - nread r) n)) as [r1 [blk|]]; cbn [fst] in *.
      * unfold same_static in *. cbn [src recording rdata limit bsize hop]. exact Hb.
      * exact Hb.
  - apply base_read_static.
Qed.

Lemma set_gen_static r g : same_static r (set_gen r g).
Proof. unfold same_static, set_gen. cbn [src recording rdata limit bsize hop]. repeat split. Qed.

Lemma read_static r : same_static r (fst (read r)).
Proof.
  unfold read. destruct (hop r) as [h|].
  - destruct (gen r) as [|c|].
    + pose proof (lim_read_static r (bsize r)) as Hl.
      destruct (lim_read r (bsize r)) as [r1 [blk|]]; cbn [fst] in *;
        (eapply same_static_trans; [exact Hl | apply set_gen_static]).
    + pose proof (lim_read_static r h) as Hl.
      destruct (lim_read r h) as [r1 [blk|]]; cbn [fst] in *.
      * eapply same_static_trans; [exact Hl | apply set_gen_static].
      * exact Hl.
    + apply same_static_refl.
  - apply lim_read_static.
Qed.

Lemma reads_static r k : same_static r (fst (reads r k)).
Proof.
  revert r. induction k as [|k IH]; intros r.
  - apply same_static_refl.
  - cbn [reads]. pose proof (read_static r) as Hr.
    destruct (read r) as [r1 b]. cbn [fst] in Hr.
    pose proof (IH r1) as Hk. destruct (reads r1 k) as [r2 bs]. cbn [fst] in *.
    eapply same_static_trans; eassumption.
Qed.

End Static.

(* ------------------------------------------------------------------ *)
(** * The limiter + recorder + source, seen from above *)

Section LimRead.
Context {A : Type}.
Implicit Types r : rd A.

(** The visible data of a reader state. *)
Definition rvis r : list A := vis (src r) (limit r).

(** Effect of successfully reading chunk [c]. *)
Definition adv r (c : list A) : rd A :=
  mkRd (src r) (pos r + zlen c) (recording r)
       (if recording r && negb (match rdata r with Some _ => true | None => false end)
        then cache r ++ c else cache r)
       (rdata r) (limit r)
       (match limit r with Some _ => nread r + zlen c | None => nread r end)
       (bsize r) (hop r) (gen r).

(** The limiter's counter follows the source cursor. *)
Definition lim_ok r : Prop :=
  0 <= pos r /\ (forall m, limit r = Some m -> nread r = pos r).

(** While recording and not yet rewound, the cache is what was consumed. *)
Definition rec_ok r : Prop :=
  recording r = true -> rdata r = None -> cache r = zslice (src r) 0 (pos r).

Lemma lim_read_spec r n :
  lim_ok r ->
  lim_read r n =
  match zslice (rvis r) (pos r) (pos r + n) with
  | [] => (r, None)
  | c => (adv r c, Some c)
  end.
Proof.
  intros [Hpos Hn]. unfold lim_read, rvis, adv.
  destruct (limit r) as [m|] eqn:El.
  - rewrite (Hn m eq_refl). unfold vis. rewrite zslice_firstn by exact Hpos.
    destruct (Z.min (m - pos r) n <=? 0) eqn:Es.
    + rewrite zslice_nil_le by lia. reflexivity.
    + unfold base_read.
      replace (pos r + Z.min (m - pos r) n) with (Z.min (pos r + n) m) by lia.
      destruct (zslice (src r) (pos r) (Z.min (pos r + n) m)) as [|x c]; [reflexivity|].
      cbn [src pos recording cache rdata limit nread bsize hop gen].
      rewrite El, (Hn m eq_refl). reflexivity.
  - unfold vis, base_read.
    destruct (zslice (src r) (pos r) (pos r + n)) as [|x c]; [reflexivity|].
    rewrite El. reflexivity.
Qed.

Lemma adv_static r c : same_static r (adv r c).
Proof. unfold same_static, adv. cbn [src recording rdata limit bsize hop]. repeat split. Qed.

Lemma adv_lim_ok r c : lim_ok r -> lim_ok (adv r c).
Proof.
  intros [Hpos Hn]. unfold lim_ok, adv. cbn [pos limit nread].
  pose proof (zlen_nonneg c). split; [lia|].
  intros m Hm. rewrite Hm. rewrite (Hn m Hm). reflexivity.
Qed.

Lemma adv_rec_ok r b :
  lim_ok r -> rec_ok r -> rec_ok (adv r (zslice (rvis r) (pos r) b)).
Proof.
  intros [Hpos _] Hrec. unfold rec_ok, adv.
  cbn [recording rdata cache src pos]. intros Hr Hd.
  rewrite Hr, Hd. cbn [andb negb]. rewrite (Hrec Hr Hd).
  destruct (zslice_vis_src (src r) (limit r) (pos r) b Hpos) as [q Hq].
  unfold rvis. rewrite Hq.
  rewrite (zslice_self_len (src r) (pos r) q) at 1 by exact Hpos.
  apply zslice_app_adj; [lia|].
  pose proof (zlen_nonneg (zslice (src r) (pos r) q)). lia.
Qed.

Lemma set_gen_lim_ok r g : lim_ok r -> lim_ok (set_gen r g).
Proof. unfold lim_ok, set_gen. cbn [pos limit nread]. tauto. Qed.

Lemma set_gen_rec_ok r g : rec_ok r -> rec_ok (set_gen r g).
Proof. unfold rec_ok, set_gen. cbn [recording rdata cache src pos]. tauto. Qed.

End LimRead.

(* ------------------------------------------------------------------ *)
(** * Generic preservation, and the cursor never passes the visible data *)

Section Bound.
Context {A : Type}.
Implicit Types r : rd A.

Lemma adv_rec_ok' r b c :
  lim_ok r -> rec_ok r -> c = zslice (rvis r) (pos r) b -> rec_ok (adv r c).
Proof. intros Hl Hr ->. apply adv_rec_ok; assumption. Qed.

Lemma read_preserves (P : rd A -> Prop) :
  (forall r n, P r -> P (fst (lim_read r n))) ->
  (forall r g, P r -> P (set_gen r g)) ->
  forall r, P r -> P (fst (read r)).
Proof.
  intros Hlim Hset r Hr. unfold read. destruct (hop r) as [h|].
  - destruct (gen r) as [|c|].
    + pose proof (Hlim r (bsize r) Hr) as Hl.
      destruct (lim_read r (bsize r)) as [r1 [blk|]]; cbn [fst] in *; apply Hset; exact Hl.
    + pose proof (Hlim r h Hr) as Hl.
      destruct (lim_read r h) as [r1 [blk|]]; cbn [fst] in *; [apply Hset|]; exact Hl.
    + exact Hr.
  - apply Hlim. exact Hr.
Qed.

Lemma reads_preserves (P : rd A -> Prop) :
  (forall r, P r -> P (fst (read r))) ->
  forall k r, P r -> P (fst (reads r k)).
Proof.
  intros Hread k. induction k as [|k IH]; intros r Hr.
  - exact Hr.
  - cbn [reads]. pose proof (Hread r Hr) as H1.
    destruct (read r) as [r1 b]. cbn [fst] in H1.
    pose proof (IH r1 H1) as H2. destruct (reads r1 k) as [r2 bs]. exact H2.
Qed.

Definition bound_ok r : Prop := lim_ok r /\ pos r <= zlen (rvis r).

Lemma lim_read_bound r n : bound_ok r -> bound_ok (fst (lim_read r n)).
Proof.
  intros [Hl Hb]. rewrite lim_read_spec by exact Hl.
  destruct (zslice (rvis r) (pos r) (pos r + n)) as [|x c] eqn:E; cbn [fst].
  - split; assumption.
  - rewrite <- E. split; [apply adv_lim_ok; exact Hl|].
    unfold rvis, adv. cbn [pos src limit]. fold (rvis r).
    destruct Hl as [Hpos _]. rewrite zlen_zslice by exact Hpos. lia.
Qed.

Lemma set_gen_bound r g : bound_ok r -> bound_ok (set_gen r g).
Proof.
  intros [Hl Hb]. split; [apply set_gen_lim_ok; exact Hl|].
  unfold rvis, set_gen. cbn [pos src limit]. exact Hb.
Qed.

Lemma reads_bound r k : bound_ok r -> bound_ok (fst (reads r k)).
Proof.
  apply reads_preserves. apply read_preserves.
  - apply lim_read_bound.
  - apply set_gen_bound.
Qed.

Lemma mk_reader_lim_ok (data : list A) W H rec mx : lim_ok (mk_reader data W H rec mx).
Proof. unfold lim_ok, mk_reader. cbn [pos limit nread]. split; [lia | reflexivity]. Qed.

Lemma mk_reader_bound (data : list A) W H rec mx : bound_ok (mk_reader data W H rec mx).
Proof.
  split; [apply mk_reader_lim_ok|]. unfold mk_reader. cbn [pos]. apply zlen_nonneg.
Qed.

End Bound.

(* ------------------------------------------------------------------ *)
(** * Fixed-size reader *)

Section Fixed.
Context {A : Type}.
Context (data : list A) (mx : option Z) (W : Z) (HW : 1 <= W).
Local Notation v := (vis data mx).

(** State after [i] reads. *)
Definition InvF (i : nat) (r : rd A) : Prop :=
  src r = data /\ limit r = mx /\ bsize r = W /\ hop r = None /\
  lim_ok r /\ rec_ok r /\ pos r = Z.min (zlen v) (Z.of_nat i * W).

Lemma fixed_step i r :
  InvF i r ->
  InvF (S i) (fst (read r)) /\ snd (read r) = fixed_block v W (Z.of_nat i).
Proof.
  intros (Hs & Hl & Hb & Hh & Hok & Hrec & Hp).
  assert (Hv : rvis r = v) by (unfold rvis; rewrite Hs, Hl; reflexivity).
  unfold read. rewrite Hh, Hb. rewrite lim_read_spec by exact Hok.
  rewrite Hv. unfold fixed_block.
  pose proof (zlen_nonneg v) as Hn.
  assert (Hi : 0 <= Z.of_nat i * W) by nia.
  destruct (Z.lt_ge_cases (Z.of_nat i * W) (zlen v)) as [Hlt|Hge].
  - (* the source is not exhausted: a non-empty block *)
    assert (Hpi : pos r = Z.of_nat i * W) by lia. rewrite Hpi.
    destruct (zslice v (Z.of_nat i * W) (Z.of_nat i * W + W)) as [|x c] eqn:E; cbn [fst snd].
    + exfalso. apply zslice_nil_inv in E; [lia | exact Hi].
    + split; [|reflexivity]. rewrite <- E.
      pose proof (adv_static r (zslice v (Z.of_nat i * W) (Z.of_nat i * W + W)))
        as (Ha1 & _ & _ & Ha4 & Ha5 & Ha6).
      unfold InvF. rewrite Ha1, Ha4, Ha5, Ha6.
      split; [exact Hs|]. split; [exact Hl|]. split; [exact Hb|]. split; [exact Hh|].
      split; [apply adv_lim_ok; exact Hok|].
      split; [apply (adv_rec_ok' r (Z.of_nat i * W + W)); [exact Hok | exact Hrec |];
              rewrite Hv, Hpi; reflexivity|].
      unfold adv. cbn [pos]. rewrite zlen_zslice by exact Hi. lia.
  - (* exhausted: None, state unchanged *)
    assert (Hpn : pos r = zlen v) by lia. rewrite Hpn.
    rewrite (zslice_nil_ge v (zlen v)) by lia.
    rewrite (zslice_nil_ge v (Z.of_nat i * W)) by lia.
    cbn [fst snd]. split; [|reflexivity].
    unfold InvF. repeat (split; [assumption|]). lia.
Qed.

Lemma fixed_reads k : forall i r,
  InvF i r ->
  InvF (i + k) (fst (reads r k)) /\
  snd (reads r k) = map (fun j => fixed_block v W (Z.of_nat j)) (seq i k).
Proof.
  induction k as [|k IH]; intros i r Hinv.
  - rewrite Nat.add_0_r. cbn [reads fst snd seq map]. split; [exact Hinv | reflexivity].
  - cbn [reads seq map]. destruct (fixed_step i r Hinv) as [H1 H2].
    destruct (read r) as [r1 b]. cbn [fst snd] in H1, H2.
    destruct (IH (S i) r1 H1) as [H3 H4].
    destruct (reads r1 k) as [r2 bs]. cbn [fst snd] in *.
    rewrite Nat.add_succ_r. split; [exact H3|]. rewrite H2, H4. reflexivity.
Qed.

(** Any state that looks like a freshly opened (or freshly rewound) reader. *)
Lemma InvF_init r :
  src r = data -> limit r = mx -> bsize r = W -> hop r = None ->
  pos r = 0 -> nread r = 0 -> (rdata r = None -> cache r = []) -> InvF 0 r.
Proof.
  intros Hs Hl Hb Hh Hp Hn Hc. unfold InvF.
  repeat (split; [assumption|]).
  split; [unfold lim_ok; rewrite Hp; split; [lia | intros; exact Hn]|].
  split.
  - unfold rec_ok. intros _ Hd. rewrite Hp, (Hc Hd). reflexivity.
  - rewrite Hp. pose proof (zlen_nonneg v). lia.
Qed.

End Fixed.

(* ------------------------------------------------------------------ *)
(** * Overlapping reader *)

Section Overlap.
Context {A : Type}.
Context (data : list A) (mx : option Z) (W H : Z) (HH : 1 <= H) (HHW : H <= W).
Local Notation v := (vis data mx).

(** Block [i], with the existence condition in elementary form. *)
Definition ob (i : nat) : option (list A) :=
  match i with
  | O => match zslice v 0 W with [] => None | b => Some b end
  | S i' => if W + Z.of_nat i' * H <? zlen v
            then Some (zslice v (Z.of_nat (S i') * H) (Z.of_nat (S i') * H + W))
            else None
  end.

Definition StO (r : rd A) : Prop :=
  src r = data /\ limit r = mx /\ bsize r = W /\ hop r = Some H.

Lemma StO_same r r' : same_static r r' -> StO r -> StO r'.
Proof.
  unfold same_static, StO. intros (Ha & _ & _ & Hd & He & Hf) (H1 & H2 & H3 & H4).
  repeat split; congruence.
Qed.

(** State after [i] reads. *)
Definition InvO (i : nat) (r : rd A) : Prop :=
  StO r /\ lim_ok r /\ rec_ok r /\
  match i with
  | O => gen r = GInit /\ pos r = 0
  | S i' =>
      pos r = Z.min (zlen v) (W + Z.of_nat i' * H) /\
      if zlen v =? 0 then gen r = GDone
      else exists c, gen r = GRun c /\
                     (pos r < zlen v -> c = zslice v (Z.of_nat (S i') * H) (pos r))
  end.

Lemma overlap_step i r :
  InvO i r -> InvO (S i) (fst (read r)) /\ snd (read r) = ob i.
Proof.
  intros (Hst & Hok & Hrec & Hg).
  pose proof Hst as (Hs & Hl & Hb & Hh).
  assert (Hv : rvis r = v) by (unfold rvis; rewrite Hs, Hl; reflexivity).
  pose proof (zlen_nonneg v) as Hn.
  unfold read. rewrite Hh.
  destruct i as [|i'].
  - (* first read: a whole block *)
    destruct Hg as [Hg Hp]. rewrite Hg, Hb. rewrite lim_read_spec by exact Hok.
    rewrite Hv, Hp. cbn [ob]. rewrite Z.add_0_l.
    destruct (zslice v 0 W) as [|x c] eqn:E; cbn [fst snd].
    + apply zslice_nil_inv in E; [|lia]. assert (Hz : zlen v = 0) by lia.
      split; [|reflexivity]. unfold InvO.
      split; [eapply StO_same; [apply set_gen_static | exact Hst]|].
      split; [apply set_gen_lim_ok; exact Hok|].
      split; [apply set_gen_rec_ok; exact Hrec|].
      unfold set_gen. cbn [pos gen].
      destruct (zlen v =? 0) eqn:Ez; [|lia]. split; [lia | reflexivity].
    + apply zslice_cons_inv in E as HE; [|lia]. rewrite <- E.
      split; [|reflexivity]. unfold InvO.
      split; [eapply StO_same; [|exact Hst];
              eapply same_static_trans; [apply adv_static | apply set_gen_static]|].
      split; [apply set_gen_lim_ok, adv_lim_ok; exact Hok|].
      split; [apply set_gen_rec_ok; apply (adv_rec_ok' r W); [exact Hok | exact Hrec |];
              rewrite Hv, Hp; reflexivity|].
      unfold set_gen, adv. cbn [pos gen]. rewrite Hp.
      rewrite zlen_zslice by lia.
      split; [lia|].
      destruct (zlen v =? 0) eqn:Ez; [lia|].
      eexists. split; [reflexivity|]. intros Hlt.
      rewrite skipn_zslice by lia. f_equal; lia.
  - (* later reads: hop samples appended to the kept tail *)
    destruct Hg as [Hp Hg].
    assert (Hi : 0 <= Z.of_nat i' * H) by nia.
    destruct (zlen v =? 0) eqn:Ez.
    + rewrite Hg. cbn [fst snd]. split.
      * unfold InvO. repeat (split; [assumption|]). rewrite Ez. split; [lia | exact Hg].
      * cbn [ob]. destruct (W + Z.of_nat i' * H <? zlen v) eqn:Ec; [lia | reflexivity].
    + destruct Hg as (c & Hg & Hc). rewrite Hg. rewrite lim_read_spec by exact Hok.
      rewrite Hv. destruct Hok as [Hpos Hnr].
      destruct (zslice v (pos r) (pos r + H)) as [|x cn] eqn:E; cbn [fst snd].
      * (* exhausted *)
        apply zslice_nil_inv in E; [|exact Hpos].
        split.
        -- unfold InvO. split; [exact Hst|]. split; [split; assumption|].
           split; [exact Hrec|]. rewrite Ez. split; [lia|].
           exists c. split; [exact Hg|]. intros Hlt. lia.
        -- cbn [ob]. destruct (W + Z.of_nat i' * H <? zlen v) eqn:Ec; [lia | reflexivity].
      * apply zslice_cons_inv in E as HE; [|exact Hpos]. rewrite <- E.
        assert (Hpi : pos r = W + Z.of_nat i' * H) by lia.
        assert (Happ : c ++ zslice v (pos r) (pos r + H)
                       = zslice v (Z.of_nat (S i') * H) (Z.of_nat (S i') * H + W)).
        { rewrite (Hc ltac:(lia)). rewrite zslice_app_adj by lia. f_equal. lia. }
        rewrite Happ.
        split.
        -- unfold InvO.
           split; [eapply StO_same; [|exact Hst];
                   eapply same_static_trans; [apply adv_static | apply set_gen_static]|].
           split; [apply set_gen_lim_ok, adv_lim_ok; split; assumption|].
           split; [apply set_gen_rec_ok; apply (adv_rec_ok' r (pos r + H));
                   [split; assumption | exact Hrec | rewrite Hv; reflexivity]|].
           unfold set_gen, adv. cbn [pos gen].
           rewrite zlen_zslice by exact Hpos.
           split; [lia|]. rewrite Ez.
           eexists. split; [reflexivity|]. intros Hlt.
           rewrite skipn_zslice by lia. f_equal; lia.
        -- cbn [ob]. destruct (W + Z.of_nat i' * H <? zlen v) eqn:Ec; [reflexivity | lia].
Qed.

Lemma overlap_reads k : forall i r,
  InvO i r ->
  InvO (i + k) (fst (reads r k)) /\ snd (reads r k) = map ob (seq i k).
Proof.
  induction k as [|k IH]; intros i r Hinv.
  - rewrite Nat.add_0_r. cbn [reads fst snd seq map]. split; [exact Hinv | reflexivity].
  - cbn [reads seq map]. destruct (overlap_step i r Hinv) as [H1 H2].
    destruct (read r) as [r1 b]. cbn [fst snd] in H1, H2.
    destruct (IH (S i) r1 H1) as [H3 H4].
    destruct (reads r1 k) as [r2 bs]. cbn [fst snd] in *.
    rewrite Nat.add_succ_r. split; [exact H3|]. rewrite H2, H4. reflexivity.
Qed.

Lemma InvO_init r :
  src r = data -> limit r = mx -> bsize r = W -> hop r = Some H ->
  pos r = 0 -> nread r = 0 -> gen r = GInit -> (rdata r = None -> cache r = []) -> InvO 0 r.
Proof.
  intros Hs Hl Hb Hh Hp Hn Hg Hc. unfold InvO, StO.
  split; [repeat split; assumption|].
  split; [unfold lim_ok; rewrite Hp; split; [lia | intros; exact Hn]|].
  split.
  - unfold rec_ok. intros _ Hd. rewrite Hp, (Hc Hd). reflexivity.
  - split; assumption.
Qed.

End Overlap.

(* ------------------------------------------------------------------ *)
(** * The block count [nb_overlap] in elementary form *)

Lemma nb_overlap_lt n W H i :
  1 <= H -> 0 <= n -> 0 <= i ->
  (i <? nb_overlap n W H) = (0 <? n) && ((i =? 0) || (W + (i - 1) * H <? n)).
Proof.
  intros HH Hn Hi. unfold nb_overlap.
  destruct (n =? 0) eqn:En.
  - destruct (i <? 0) eqn:E1; [lia|]. destruct (0 <? n) eqn:E2; [lia | reflexivity].
  - destruct (0 <? n) eqn:E2; [|lia]. cbn [andb].
    set (x := Z.max 0 (n - W) + H - 1).
    assert (Hx : 0 <= x) by (unfold x; lia).
    pose proof (Z.div_mod x H ltac:(lia)) as Hdm.
    pose proof (Z.mod_pos_bound x H ltac:(lia)) as Hmb.
    set (q := x / H) in *. set (m := x mod H) in *.
    destruct (i =? 0) eqn:E0.
    + cbn [orb]. assert (0 <= q) by nia. destruct (i <? 1 + q) eqn:E1; [reflexivity | lia].
    + cbn [orb].
      destruct (i <? 1 + q) eqn:E1; destruct (W + (i - 1) * H <? n) eqn:E3;
        try reflexivity; exfalso.
      * (* i <= q but W + (i-1)H >= n *)
        assert (H * i <= H * q) by nia. unfold x in Hdm. nia.
      * (* i > q but W + (i-1)H < n *)
        assert (H * (q + 1) <= H * i) by nia. unfold x in Hdm. nia.
Qed.

Section OverlapClosed.
Context {A : Type}.
Context (v : list A) (W H : Z) (HH : 1 <= H) (HHW : H <= W).

Lemma overlap_block_some k :
  0 <= k ->
  (k <? nb_overlap (zlen v) W H) = true <-> 0 < zlen v /\ (k = 0 \/ W + (k - 1) * H < zlen v).
Proof.
  intros Hk. rewrite nb_overlap_lt by (try apply zlen_nonneg; lia).
  rewrite andb_true_iff, orb_true_iff. lia.
Qed.

End OverlapClosed.

Lemma ob_eq {A} (data : list A) mx W H i :
  1 <= H -> H <= W ->
  ob data mx W H i = overlap_block (vis data mx) W H (Z.of_nat i).
Proof.
  intros HH HHW. unfold overlap_block.
  pose proof (zlen_nonneg (vis data mx)) as Hn.
  pose proof (overlap_block_some (vis data mx) W H HH (Z.of_nat i) ltac:(lia)) as Hiff.
  destruct i as [|i'].
  - cbn [ob]. change (Z.of_nat 0) with 0 in *. rewrite Z.mul_0_l, Z.add_0_l.
    destruct (0 <? nb_overlap (zlen (vis data mx)) W H) eqn:E.
    + destruct (zslice (vis data mx) 0 W) as [|x c] eqn:Es; [|reflexivity].
      apply zslice_nil_inv in Es; lia.
    + rewrite zslice_nil_ge; [reflexivity | lia |].
      destruct (Z.eq_dec (zlen (vis data mx)) 0) as [Hz|Hz]; [lia|].
      assert (false = true) by (apply Hiff; lia). discriminate.
  - cbn [ob].
    replace (Z.of_nat (S i') - 1) with (Z.of_nat i') in Hiff by lia.
    destruct (W + Z.of_nat i' * H <? zlen (vis data mx)) eqn:Ec;
      destruct (Z.of_nat (S i') <? nb_overlap (zlen (vis data mx)) W H) eqn:E; try reflexivity.
    + assert (false = true) by (apply Hiff; lia). discriminate.
    + destruct Hiff as [Hiff _]. specialize (Hiff eq_refl). lia.
Qed.

(* ------------------------------------------------------------------ *)
(** * C10 *)

(** C10, fixed-size reader: the k-th read is the k-th chunk of W samples of the
    visible data, None afterwards, forever. *)
Theorem C10_fixed : forall S (data : list S) W rec mx k, 1 <= W ->
  snd (reads (mk_reader data W None rec mx) k)
  = map (fun i => fixed_block (vis data mx) W (Z.of_nat i)) (seq 0 k).
Proof.
  intros S data W rec mx k HW.
  apply (fixed_reads data mx W HW k 0 (mk_reader data W None rec mx)).
  apply InvF_init; reflexivity.
Qed.

(** C10, overlapping reader, 1 <= H <= W (H = W: hop_dur < block_dur with the same number of samples): block k starts at sample k*H, has W
    samples except possibly the last, then None forever. *)
Theorem C10_overlap : forall S (data : list S) W H rec mx k, 1 <= H -> H <= W ->
  snd (reads (mk_reader data W (Some H) rec mx) k)
  = map (fun i => overlap_block (vis data mx) W H (Z.of_nat i)) (seq 0 k).
Proof.
  intros S data W H rec mx k HH HHW.
  destruct (overlap_reads data mx W H HH HHW k 0 (mk_reader data W (Some H) rec mx)) as [_ Hb].
  { apply InvO_init; reflexivity. }
  rewrite Hb. apply map_ext. intros i. apply ob_eq; assumption.
Qed.

Theorem C10_overlap_full : forall S (v : list S) W H k,
  1 <= H -> H <= W -> 0 <= k -> k + 1 < nb_overlap (zlen v) W H ->
  zlen (zslice v (k * H) (k * H + W)) = W.
Proof.
  intros S v W H k HH HHW Hk Hlt.
  assert (Hb : (k + 1 <? nb_overlap (zlen v) W H) = true) by lia.
  apply overlap_block_some in Hb; [|exact HH|lia].
  assert (0 <= k * H) by nia.
  rewrite zlen_zslice by lia.
  replace (k + 1 - 1) with k in Hb by lia. lia.
Qed.

Theorem C10_overlap_last_nonempty : forall S (v : list S) W H k,
  1 <= H -> H <= W -> 0 <= k < nb_overlap (zlen v) W H ->
  0 < zlen (zslice v (k * H) (k * H + W)).
Proof.
  intros S v W H k HH HHW [Hk Hlt].
  assert (Hb : (k <? nb_overlap (zlen v) W H) = true) by lia.
  apply overlap_block_some in Hb; [|exact HH|lia].
  assert (0 <= k * H) by nia.
  rewrite zlen_zslice by lia.
  destruct Hb as [Hn [Hk0|Hk1]].
  - subst k. lia.
  - lia.
Qed.

(** C10 limit: the underlying source is never asked for / advanced beyond max_samples. *)
Theorem C10_limit : forall S (data : list S) W H rec m k,
  1 <= W -> (forall h, H = Some h -> 0 <= h) ->
  pos (fst (reads (mk_reader data W H rec (Some m)) k)) <= Z.max 0 m.
Proof.
  intros S data W H rec m k _ _.
  pose proof (reads_bound (mk_reader data W H rec (Some m)) k (mk_reader_bound _ _ _ _ _)) as [_ Hb].
  pose proof (reads_static (mk_reader data W H rec (Some m)) k) as (Hs & _ & _ & Hl & _).
  unfold rvis in Hb. rewrite Hs, Hl in Hb. unfold mk_reader in *. cbn [src limit] in Hb.
  pose proof (zlen_vis_limit data m). lia.
Qed.

(** The non-None blocks of a fixed-size reader concatenate to the visible data. *)
Definition some_blocks {S} (l : list (option (list S))) : list (list S) :=
  flat_map (fun o => match o with Some b => [b] | None => [] end) l.

Lemma fixed_blocks_concat {A} (v : list A) W k : forall a,
  1 <= W ->
  concat (some_blocks (map (fun i => fixed_block v W (Z.of_nat i)) (seq a k)))
  = zslice v (Z.of_nat a * W) (Z.of_nat (a + k) * W).
Proof.
  induction k as [|k IH]; intros a HW.
  - rewrite Nat.add_0_r. cbn [seq map some_blocks flat_map concat].
    symmetry. apply zslice_nil_le. lia.
  - cbn [seq map]. unfold some_blocks in *. cbn [flat_map]. rewrite concat_app, (IH (S a) HW).
    assert (Hh : concat (match fixed_block v W (Z.of_nat a) with Some b => [b] | None => [] end)
                 = zslice v (Z.of_nat a * W) (Z.of_nat a * W + W)).
    { unfold fixed_block.
      destruct (zslice v (Z.of_nat a * W) (Z.of_nat a * W + W)) as [|x c]; cbn [concat].
      - reflexivity.
      - apply app_nil_r. }
    rewrite Hh.
    replace (Z.of_nat (S a) * W) with (Z.of_nat a * W + W) by lia.
    replace (Z.of_nat (S a + k) * W) with (Z.of_nat (a + S k) * W) by (f_equal; lia).
    apply zslice_app_adj; nia.
Qed.

Corollary C10_fixed_concat : forall S (data : list S) W rec mx k,
  1 <= W -> (zlen (vis data mx) <= Z.of_nat k * W) ->
  concat (flat_map (fun o => match o with Some b => [b] | None => [] end)
                   (snd (reads (mk_reader data W None rec mx) k)))
  = vis data mx.
Proof.
  intros S data W rec mx k HW Hk. rewrite C10_fixed by exact HW.
  fold (some_blocks (map (fun i => fixed_block (vis data mx) W (Z.of_nat i)) (seq 0 k))).
  rewrite fixed_blocks_concat by exact HW.
  change (Z.of_nat 0) with 0. rewrite Z.mul_0_l, Nat.add_0_l.
  apply zslice_all. exact Hk.
Qed.

(* ------------------------------------------------------------------ *)
(** * Both kinds of reader at once, from any fresh state *)

Section Fresh.
Context {A : Type}.

(** A freshly opened, or freshly rewound, reader over [data]. *)
Definition fresh (data : list A) (mx : option Z) (W : Z) (H : option Z) (r : rd A) : Prop :=
  src r = data /\ limit r = mx /\ bsize r = W /\ hop r = H /\
  pos r = 0 /\ nread r = 0 /\ gen r = GInit /\ (rdata r = None -> cache r = []).

(** Closed form of block [i]. *)
Definition cblock (data : list A) (mx : option Z) (W : Z) (H : option Z) (i : nat)
  : option (list A) :=
  match H with
  | None => fixed_block (vis data mx) W (Z.of_nat i)
  | Some h => ob data mx W h i
  end.

Lemma cblock_closed data mx W H i :
  (forall h, H = Some h -> 1 <= h < W) ->
  cblock data mx W H i =
  match H with
  | None => fixed_block (vis data mx) W (Z.of_nat i)
  | Some h => overlap_block (vis data mx) W h (Z.of_nat i)
  end.
Proof.
  intros HH. unfold cblock. destruct H as [h|]; [|reflexivity].
  specialize (HH h eq_refl). apply ob_eq; lia.
Qed.

Lemma fresh_reads data mx W H r k :
  1 <= W -> (forall h, H = Some h -> 1 <= h < W) ->
  fresh data mx W H r ->
  snd (reads r k) = map (cblock data mx W H) (seq 0 k) /\
  lim_ok (fst (reads r k)) /\ rec_ok (fst (reads r k)) /\
  pos (fst (reads r k)) = Z.min (zlen (vis data mx)) (consumed W H k).
Proof.
  intros HW HH (Hs & Hl & Hb & Hh & Hp & Hn & Hg & Hc).
  destruct H as [h|].
  - specialize (HH h eq_refl).
    destruct (overlap_reads data mx W h ltac:(lia) ltac:(lia) k 0 r) as [Hinv Hbl].
    { apply InvO_init; assumption. }
    split; [exact Hbl|]. rewrite Nat.add_0_l in Hinv.
    destruct Hinv as (_ & Hok & Hrec & Hdyn).
    split; [exact Hok|]. split; [exact Hrec|].
    unfold consumed. pose proof (zlen_nonneg (vis data mx)).
    destruct k as [|k'].
    + destruct Hdyn as [_ Hp0]. rewrite Hp0. change (Z.of_nat 0 =? 0) with true. cbv iota. lia.
    + destruct Hdyn as [Hp1 _]. rewrite Hp1.
      destruct (Z.of_nat (S k') =? 0) eqn:E; [lia|].
      replace (Z.of_nat (S k') - 1) with (Z.of_nat k') by lia. reflexivity.
  - destruct (fixed_reads data mx W HW k 0 r) as [Hinv Hbl].
    { apply InvF_init; assumption. }
    split; [exact Hbl|]. rewrite Nat.add_0_l in Hinv.
    destruct Hinv as (_ & _ & _ & _ & Hok & Hrec & Hp1).
    split; [exact Hok|]. split; [exact Hrec|]. exact Hp1.
Qed.

Lemma mk_reader_fresh data W H rec mx : fresh data mx W H (mk_reader data W H rec mx).
Proof. unfold fresh, mk_reader. cbn [src limit bsize hop pos nread gen rdata cache]. repeat split. Qed.

(** Blocks with index < k lie within the samples consumed by k reads. *)
Lemma cblock_prefix data mx W H k i :
  1 <= W -> (forall h, H = Some h -> 1 <= h < W) -> (i < k)%nat ->
  cblock (firstn (Z.to_nat (Z.min (zlen (vis data mx)) (consumed W H k))) data) mx W H i
  = cblock data mx W H i.
Proof.
  intros HW HH Hik. unfold cblock, consumed.
  pose proof (zlen_nonneg (vis data mx)) as Hn.
  destruct H as [h|].
  - specialize (HH h eq_refl).
    destruct (Z.of_nat k =? 0) eqn:Ek; [lia|].
    assert (Hkh : 0 <= (Z.of_nat k - 1) * h) by nia.
    unfold ob. rewrite vis_firstn.
    set (v := vis data mx) in *.
    set (p := Z.min (zlen v) (W + (Z.of_nat k - 1) * h)).
    assert (Hzl : zlen (firstn (Z.to_nat p) v) = p) by (rewrite zlen_firstn; lia).
    destruct i as [|i'].
    + rewrite zslice_firstn by lia.
      rewrite <- (zslice_clip v 0 (Z.min W p)), <- (zslice_clip v 0 W) by lia.
      replace (Z.min (Z.min W p) (zlen v)) with (Z.min W (zlen v)) by lia. reflexivity.
    + rewrite Hzl.
      assert (Hi : 0 <= Z.of_nat i' * h) by nia.
      assert (Hih : Z.of_nat i' * h + h <= (Z.of_nat k - 1) * h) by nia.
      destruct (W + Z.of_nat i' * h <? p) eqn:E1;
        destruct (W + Z.of_nat i' * h <? zlen v) eqn:E2; try reflexivity; try lia.
      f_equal. rewrite zslice_firstn by lia.
      rewrite <- (zslice_clip v _ (Z.min _ p)), <- (zslice_clip v _ (Z.of_nat (S i') * h + W)) by lia.
      f_equal. lia.
  - rewrite vis_firstn. set (v := vis data mx) in *.
    unfold fixed_block.
    assert (Hi : 0 <= Z.of_nat i * W) by nia.
    assert (Hiw : Z.of_nat i * W + W <= Z.of_nat k * W) by nia.
    rewrite zslice_firstn by lia.
    rewrite <- (zslice_clip v _ (Z.min _ _)), <- (zslice_clip v _ (Z.of_nat i * W + W)) by lia.
    replace (Z.min (Z.min (Z.of_nat i * W + W) (Z.min (zlen v) (Z.of_nat k * W))) (zlen v))
      with (Z.min (Z.of_nat i * W + W) (zlen v)) by lia.
    reflexivity.
Qed.

Lemma py_slice_limit (d : list A) m : zlen d <= Z.max 0 m -> py_slice d None (Some m) = d.
Proof.
  intros Hd. pose proof (zlen_nonneg d) as Hn. unfold py_slice, norm_idx.
  destruct (m <? 0) eqn:E.
  - assert (d = []) by (apply zlen_zero_nil; lia). subst d.
    unfold zslice. rewrite skipn_nil, firstn_nil. reflexivity.
  - rewrite Z.min_r by lia. apply zslice_all. lia.
Qed.

End Fresh.

(* ------------------------------------------------------------------ *)
(** * C19: the recorder *)

(** Closed form of the number of source samples consumed by k reads (also after
    reads past the end: the cursor then stays at the end of the visible data). *)
Theorem C19_consumed : forall S (data : list S) W H rec mx k,
  1 <= W -> (forall h, H = Some h -> 1 <= h < W) ->
  pos (fst (reads (mk_reader data W H rec mx) k))
  = Z.min (zlen (vis data mx)) (consumed W H k).
Proof.
  intros S data W H rec mx k HW HH.
  apply (fresh_reads data mx W H (mk_reader data W H rec mx) k HW HH).
  apply mk_reader_fresh.
Qed.

Theorem C19_data : forall S (data : list S) W H mx k r1 blocks,
  1 <= W -> (forall h, H = Some h -> 1 <= h < W) ->
  reads (mk_reader data W H true mx) k = (r1, blocks) ->
  let d := firstn (Z.to_nat (pos r1)) data in
  exists r2, rewind r1 = Ok r2
    /\ rdata r2 = Some d
    /\ get_data r2 = Ok d
    /\ pos r1 <= zlen (vis data mx)
    /\ pos r1 = Z.min (zlen (vis data mx)) (consumed W H k)
    /\ r2 = mkRd d 0 true [] (Some d) mx 0 W H GInit.
Proof.
  intros S data W H mx k r1 blocks HW HH Hreads d.
  pose proof (fresh_reads data mx W H _ k HW HH (mk_reader_fresh data W H true mx))
    as (_ & Hok & Hrec & Hpos).
  pose proof (reads_static (mk_reader data W H true mx) k) as (Hs & Hr & Hd & Hl & Hb & Hh).
  rewrite Hreads in *. cbn [fst] in *.
  unfold mk_reader in Hs, Hr, Hd, Hl, Hb, Hh. cbn [src recording rdata limit bsize hop] in *.
  assert (Hcache : cache r1 = d).
  { rewrite (Hrec Hr Hd), Hs. apply zslice_0. }
  assert (Hle : pos r1 <= zlen (vis data mx)) by lia.
  assert (Hrw : rewind r1 = Ok (mkRd d 0 true [] (Some d) mx 0 W H GInit)).
  { unfold rewind. rewrite Hr, Hd, Hcache, Hl, Hb, Hh. reflexivity. }
  eexists. split; [exact Hrw|]. cbn [rdata].
  split; [reflexivity|]. split.
  - unfold get_data. cbn [recording rdata limit negb].
    destruct mx as [m|]; [|reflexivity].
    rewrite py_slice_limit; [reflexivity|].
    pose proof (zlen_vis_limit data m). unfold d. rewrite zlen_firstn. lia.
  - split; [exact Hle|]. split; [exact Hpos | reflexivity].
Qed.

(** After the rewind, any number of reads replays the C10 block sequence of the
    recorded data. *)
Theorem C19_replay_closed : forall S (data : list S) W H mx k r1 blocks r2,
  1 <= W -> (forall h, H = Some h -> 1 <= h < W) ->
  reads (mk_reader data W H true mx) k = (r1, blocks) -> rewind r1 = Ok r2 ->
  forall j,
  snd (reads r2 j)
  = snd (reads (mk_reader (firstn (Z.to_nat (pos r1)) data) W H true mx) j).
Proof.
  intros S data W H mx k r1 blocks r2 HW HH Hreads Hrw j.
  destruct (C19_data S data W H mx k r1 blocks HW HH Hreads)
    as (r2' & Hrw' & _ & _ & _ & _ & Hr2).
  rewrite Hrw in Hrw'. injection Hrw' as <-.
  set (d := firstn (Z.to_nat (pos r1)) data) in *.
  assert (Hf : fresh d mx W H r2).
  { rewrite Hr2. unfold fresh. cbn [src limit bsize hop pos nread gen rdata cache].
    repeat split. }
  destruct (fresh_reads d mx W H r2 j HW HH Hf) as [E1 _].
  destruct (fresh_reads d mx W H _ j HW HH (mk_reader_fresh d W H true mx)) as [E2 _].
  rewrite E1, E2. reflexivity.
Qed.

(** Replay: after the rewind, reading again returns the identical block
    sequence for the k blocks read before. *)
Theorem C19_replay : forall S (data : list S) W H mx k r1 blocks r2,
  1 <= W -> (forall h, H = Some h -> 1 <= h < W) ->
  reads (mk_reader data W H true mx) k = (r1, blocks) -> rewind r1 = Ok r2 ->
  snd (reads r2 k) = blocks.
Proof.
  intros S data W H mx k r1 blocks r2 HW HH Hreads Hrw.
  rewrite (C19_replay_closed S data W H mx k r1 blocks r2 HW HH Hreads Hrw k).
  destruct (fresh_reads (firstn (Z.to_nat (pos r1)) data) mx W H _ k HW HH
              (mk_reader_fresh (firstn (Z.to_nat (pos r1)) data) W H true mx)) as [E1 _].
  destruct (fresh_reads data mx W H _ k HW HH (mk_reader_fresh data W H true mx))
    as (E2 & _ & _ & Hpos).
  rewrite Hreads in E2, Hpos. cbn [fst snd] in E2, Hpos.
  rewrite E1, E2, Hpos. apply map_ext_in. intros i Hi.
  apply in_seq in Hi. apply cblock_prefix; [exact HW | exact HH | lia].
Qed.

(** Further rewinds keep the same data, whatever was read in between. *)
Theorem C19_rewind_again : forall S (r2 : rd S) d j r3,
  recording r2 = true -> rdata r2 = Some d -> src r2 = d ->
  fst (reads r2 j) = r3 ->
  exists r4, rewind r3 = Ok r4 /\ rdata r4 = Some d /\ src r4 = d /\ pos r4 = 0
             /\ gen r4 = GInit /\ nread r4 = 0.
Proof.
  intros S r2 d j r3 Hr Hd Hs Hreads.
  pose proof (reads_static r2 j) as (_ & Hr' & Hd' & _).
  rewrite Hreads in Hr', Hd'. rewrite Hr in Hr'. rewrite Hd in Hd'.
  unfold rewind. rewrite Hr', Hd'. cbn [negb].
  eexists. split; [reflexivity|]. cbn [rdata src pos gen nread]. repeat split.
Qed.

(** Guards. *)
Theorem C19_guard_unrewound : forall S (data : list S) W H mx k,
  get_data (fst (reads (mk_reader data W H true mx) k)) = Err RuntimeError.
Proof.
  intros S data W H mx k.
  pose proof (reads_static (mk_reader data W H true mx) k) as (_ & Hr & Hd & _).
  unfold get_data. rewrite Hr, Hd. reflexivity.
Qed.

Theorem C19_guard_nonrecording : forall S (data : list S) W H mx k,
  get_data (fst (reads (mk_reader data W H false mx) k)) = Err AttributeError
  /\ rewind (fst (reads (mk_reader data W H false mx) k)) = Err AttributeError.
Proof.
  intros S data W H mx k.
  pose proof (reads_static (mk_reader data W H false mx) k) as (_ & Hr & _).
  unfold get_data, rewind. rewrite Hr. split; reflexivity.
Qed.

(* ------------------------------------------------------------------ *)
(** * The non-None blocks of the fixed-size reader are [chunks W] of the visible data *)

Lemma chunks_fuel_nil {A} f n : chunks_fuel f n (@nil A) = [].
Proof. destruct f; reflexivity. Qed.

Lemma fixed_block_nat {A} (v : list A) W (a : nat) :
  1 <= W ->
  fixed_block v W (Z.of_nat a)
  = match firstn (Z.to_nat W) (skipn (a * Z.to_nat W) v) with [] => None | b => Some b end.
Proof.
  intros HW. unfold fixed_block, zslice.
  replace (Z.to_nat (Z.of_nat a * W + W - Z.of_nat a * W)) with (Z.to_nat W) by lia.
  rewrite Z2Nat.inj_mul, Nat2Z.id by lia. reflexivity.
Qed.

Lemma fixed_blocks_chunks {A} (v : list A) W k : forall a f,
  1 <= W ->
  (length (skipn (a * Z.to_nat W) v) <= f)%nat ->
  (length (skipn (a * Z.to_nat W) v) <= k * Z.to_nat W)%nat ->
  some_blocks (map (fun i => fixed_block v W (Z.of_nat i)) (seq a k))
  = chunks_fuel f (Z.to_nat W) (skipn (a * Z.to_nat W) v).
Proof.
  induction k as [|k IH]; intros a f HW Hf Hk.
  - cbn [seq map some_blocks flat_map].
    destruct (skipn (a * Z.to_nat W) v) as [|x t]; [|cbn [length] in Hk; lia].
    symmetry. apply chunks_fuel_nil.
  - cbn [seq map]. unfold some_blocks in *. cbn [flat_map].
    rewrite fixed_block_nat by exact HW.
    assert (Hsk : skipn (S a * Z.to_nat W) v = skipn (Z.to_nat W) (skipn (a * Z.to_nat W) v)).
    { rewrite skipn_skipn'. f_equal; lia. }
    destruct (skipn (a * Z.to_nat W) v) as [|x t] eqn:El.
    + rewrite firstn_nil. cbn [app]. rewrite chunks_fuel_nil.
      rewrite (IH (S a) f HW); rewrite Hsk, skipn_nil; [apply chunks_fuel_nil | |]; cbn [length]; lia.
    + destruct f as [|f']; [cbn [length] in Hf; lia|].
      cbn [chunks_fuel].
      destruct (Z.to_nat W) as [|n'] eqn:En; [lia|]. rewrite <- En in *.
      assert (Hne : firstn (Z.to_nat W) (x :: t) <> []).
      { rewrite En. cbn [firstn]. discriminate. }
      destruct (firstn (Z.to_nat W) (x :: t)) as [|y u] eqn:Ef; [congruence|].
      cbn [app]. f_equal.
      rewrite (IH (S a) f' HW); rewrite Hsk; [reflexivity | |];
        rewrite skipn_length; cbn [length] in *; lia.
Qed.

(** The non-None blocks are exactly [chunks W (vis data mx)]. *)
Corollary C10_fixed_chunks : forall S (data : list S) W rec mx k,
  1 <= W -> (zlen (vis data mx) <= Z.of_nat k * W) ->
  flat_map (fun o => match o with Some b => [b] | None => [] end)
           (snd (reads (mk_reader data W None rec mx) k))
  = chunks (Z.to_nat W) (vis data mx).
Proof.
  intros S data W rec mx k HW Hk. rewrite C10_fixed by exact HW.
  fold (some_blocks (map (fun i => fixed_block (vis data mx) W (Z.of_nat i)) (seq 0 k))).
  unfold chunks.
  rewrite (fixed_blocks_chunks (vis data mx) W k 0 (length (vis data mx)) HW);
    rewrite Nat.mul_0_l, skipn_O; [reflexivity | lia |].
  unfold zlen in Hk. nia.
Qed.

(* ------------------------------------------------------------------ *)
(** * Non-vacuity: concrete instances *)

Definition ex_data : list Z := [1;2;3;4;5;6;7;8;9;10].

(** Overlapping reader, W = 4, H = 2, max_read = 7 samples: three blocks, the
    last one short, then None forever. *)
Example ex_overlap_blocks :
  snd (reads (mk_reader ex_data 4 (Some 2) false (Some 7)) 5)
  = [Some [1;2;3;4]; Some [3;4;5;6]; Some [5;6;7]; None; None]
  /\ map (fun i => overlap_block (vis ex_data (Some 7)) 4 2 (Z.of_nat i)) (seq 0 5)
     = [Some [1;2;3;4]; Some [3;4;5;6]; Some [5;6;7]; None; None]
  /\ nb_overlap (zlen (vis ex_data (Some 7))) 4 2 = 3.
Proof. vm_compute. repeat split. Qed.

(** Fixed-size reader, W = 4, max_read = 7 samples. *)
Example ex_fixed_blocks :
  snd (reads (mk_reader ex_data 4 None false (Some 7)) 4)
  = [Some [1;2;3;4]; Some [5;6;7]; None; None]
  /\ map (fun i => fixed_block (vis ex_data (Some 7)) 4 (Z.of_nat i)) (seq 0 4)
     = [Some [1;2;3;4]; Some [5;6;7]; None; None]
  /\ chunks (Z.to_nat 4) (vis ex_data (Some 7)) = [[1;2;3;4]; [5;6;7]]
  /\ zlen (vis ex_data (Some 7)) <= Z.of_nat 4 * 4.
Proof. vm_compute. repeat split. discriminate. Qed.

(** The hypotheses of C10_overlap_full / C10_overlap_last_nonempty are satisfiable. *)
Example ex_overlap_full_hyps :
  1 <= 2 /\ 2 < 4 /\ 0 <= 1 /\ 1 + 1 < nb_overlap (zlen (vis ex_data (Some 7))) 4 2
  /\ zlen (zslice (vis ex_data (Some 7)) (1 * 2) (1 * 2 + 4)) = 4
  /\ zlen (zslice (vis ex_data (Some 7)) (2 * 2) (2 * 2 + 4)) = 3.
Proof. vm_compute. repeat split; discriminate. Qed.

(** The cursor stops at the limit. *)
Example ex_limit :
  pos (fst (reads (mk_reader ex_data 4 (Some 2) false (Some 7)) 5)) = 7
  /\ pos (fst (reads (mk_reader ex_data 4 None false (Some 7)) 9)) = 7.
Proof. vm_compute. split; reflexivity. Qed.

(** Record two overlapping blocks (6 source samples consumed), rewind, replay. *)
Definition ex_r1 : rd Z := fst (reads (mk_reader ex_data 4 (Some 2) true (Some 7)) 2).
Definition ex_r2 : rd Z :=
  mkRd [1;2;3;4;5;6] 0 true [] (Some [1;2;3;4;5;6]) (Some 7) 0 4 (Some 2) GInit.

Example ex_record_rewind_replay :
  snd (reads (mk_reader ex_data 4 (Some 2) true (Some 7)) 2) = [Some [1;2;3;4]; Some [3;4;5;6]]
  /\ pos ex_r1 = 6 /\ consumed 4 (Some 2) 2 = 6
  /\ get_data ex_r1 = Err RuntimeError
  /\ rewind ex_r1 = Ok ex_r2
  /\ get_data ex_r2 = Ok [1;2;3;4;5;6]
  /\ snd (reads ex_r2 2) = [Some [1;2;3;4]; Some [3;4;5;6]]
  /\ snd (reads ex_r2 4) = [Some [1;2;3;4]; Some [3;4;5;6]; None; None]
  /\ rewind (fst (reads ex_r2 3)) = Ok ex_r2.
Proof. vm_compute. repeat split. Qed.

(** Reads past the end: the whole source is recorded exactly once. *)
Definition ex_r1' : rd Z := fst (reads (mk_reader ex_data 4 (Some 2) true None) 7).

Example ex_record_past_end :
  snd (reads (mk_reader ex_data 4 (Some 2) true None) 7)
  = [Some [1;2;3;4]; Some [3;4;5;6]; Some [5;6;7;8]; Some [7;8;9;10]; None; None; None]
  /\ pos ex_r1' = 10 /\ Z.min (zlen (vis ex_data None)) (consumed 4 (Some 2) 7) = 10
  /\ rewind ex_r1' = Ok (mkRd ex_data 0 true [] (Some ex_data) None 0 4 (Some 2) GInit)
  /\ get_data (mkRd ex_data 0 true [] (Some ex_data) None 0 4 (Some 2) GInit) = Ok ex_data.
Proof. vm_compute. repeat split. Qed.

(** Guards on a non-recording reader. *)
Example ex_guards :
  get_data (fst (reads (mk_reader ex_data 4 None false None) 1)) = Err AttributeError
  /\ rewind (fst (reads (mk_reader ex_data 4 None false None) 1)) = Err AttributeError.
Proof. vm_compute. split; reflexivity. Qed.

(* ------------------------------------------------------------------ *)

Print Assumptions C10_fixed.
Print Assumptions C10_fixed_concat.
Print Assumptions C10_fixed_chunks.
Print Assumptions C10_overlap.
Print Assumptions C10_overlap_full.
Print Assumptions C10_overlap_last_nonempty.
Print Assumptions C10_limit.
Print Assumptions C19_consumed.
Print Assumptions C19_data.
Print Assumptions C19_replay.
Print Assumptions C19_replay_closed.
Print Assumptions C19_rewind_again.
Print Assumptions C19_guard_unrewound.
Print Assumptions C19_guard_nonrecording.
