(** Proofs about the AudioReader model [IO/Reader.v]:
    C10 (framing: fixed-size and overlapping blocks, max_read limit) and
    C19 (recorder: data, rewind, replay, guards). *)
From Coq Require Import ZArith List Bool Lia ZifyBool.
From AV Require Import Base.PyList Tok.Model IO.Reader.
Import ListNotations.
Open Scope Z_scope.

(* ------------------------------------------------------------------ *)
(** * Definitions used in the statements *)

(** The visible data: what the limiter lets through. [Z.to_nat] of a negative is 0. *)
Definition vis {S} (data : list S) (mx : option Z) : list S :=
  match mx with None => data | Some m => firstn (Z.to_nat m) data end.

(** Closed form of the k-th read (k = 0,1,2,...) of a fixed-size reader. *)
Definition fixed_block {S} (v : list S) (W : Z) (k : Z) : option (list S) :=
  match zslice v (k * W) (k * W + W) with [] => None | b => Some b end.

(** Number of blocks of an overlapping reader: 1 + ceil(max 0 (n-W) / H). *)
Definition nb_overlap (n W H : Z) : Z :=
  if n =? 0 then 0 else 1 + (Z.max 0 (n - W) + H - 1) / H.

Definition overlap_block {S} (v : list S) (W H : Z) (k : Z) : option (list S) :=
  if k <? nb_overlap (zlen v) W H then Some (zslice v (k * H) (k * H + W)) else None.

(** Number of source samples consumed by k reads if the data were unbounded. *)
Definition consumed (W : Z) (H : option Z) (k : nat) : Z :=
  match H with
  | None => Z.of_nat k * W
  | Some h => if Z.of_nat k =? 0 then 0 else W + (Z.of_nat k - 1) * h
  end.

(* ------------------------------------------------------------------ *)
(** * List facts about [zslice] *)

Section ListFacts.
Context {A : Type}.
Implicit Types l : list A.

Lemma zslice_nil_ge l a b : 0 <= a -> zlen l <= a -> zslice l a b = [].
Proof.
  intros Ha Hl. apply zlen_zero_nil. rewrite zlen_zslice by exact Ha. lia.
Qed.

Lemma zslice_nil_le l a b : b <= a -> zslice l a b = [].
Proof.
  intros Hb. unfold zslice. replace (Z.to_nat (b - a)) with 0%nat by lia. reflexivity.
Qed.

Lemma zslice_0 l p : zslice l 0 p = firstn (Z.to_nat p) l.
Proof.
  unfold zslice. rewrite Z.sub_0_r. reflexivity.
Qed.

Lemma zslice_firstn l m a b :
  0 <= a -> zslice (firstn (Z.to_nat m) l) a b = zslice l a (Z.min b m).
Proof.
  intros Ha. unfold zslice. rewrite skipn_firstn_comm, firstn_firstn.
  f_equal. lia.
Qed.

Lemma zslice_clip l a b : 0 <= a -> zslice l a (Z.min b (zlen l)) = zslice l a b.
Proof.
  intros Ha. destruct (Z.le_gt_cases b (zlen l)) as [Hle|Hgt].
  - rewrite Z.min_l by exact Hle. reflexivity.
  - rewrite Z.min_r by lia. unfold zslice.
    rewrite !firstn_all2; [reflexivity | |]; rewrite skipn_length; unfold zlen in *; lia.
Qed.

Lemma firstn_app_skipn l (n m : nat) :
  firstn n l ++ firstn m (skipn n l) = firstn (n + m) l.
Proof.
  rewrite firstn_skipn_comm.
  replace (firstn n l) with (firstn n (firstn (n + m) l)).
  - apply firstn_skipn.
  - rewrite firstn_firstn. f_equal. lia.
Qed.

Lemma zslice_app_adj l a b c :
  0 <= a <= b -> b <= c -> zslice l a b ++ zslice l b c = zslice l a c.
Proof.
  intros Hab Hbc. unfold zslice.
  replace (Z.to_nat b) with (Z.to_nat (b - a) + Z.to_nat a)%nat by lia.
  rewrite <- skipn_skipn, firstn_app_skipn. f_equal. lia.
Qed.

Lemma skipn_zslice l a b h :
  0 <= a -> 0 <= h -> skipn (Z.to_nat h) (zslice l a b) = zslice l (a + h) b.
Proof.
  intros Ha Hh. unfold zslice. rewrite skipn_firstn_comm, skipn_skipn.
  f_equal; [lia | f_equal; lia].
Qed.

(** A slice is determined by its start and its own length. *)
Lemma zslice_self_len l a b :
  0 <= a -> zslice l a b = zslice l a (a + zlen (zslice l a b)).
Proof.
  intros Ha. rewrite zlen_zslice by exact Ha.
  destruct (Z.le_gt_cases b a) as [Hba|Hba].
  { rewrite (zslice_nil_le l a b) by exact Hba. symmetry. apply zslice_nil_le. lia. }
  destruct (Z.le_gt_cases (zlen l) a) as [Hla|Hla].
  { rewrite !zslice_nil_ge by lia. reflexivity. }
  destruct (Z.le_gt_cases b (zlen l)) as [Hbl|Hbl].
  - f_equal. lia.
  - rewrite <- (zslice_clip l a b) by exact Ha. f_equal. lia.
Qed.

Lemma zslice_all l b : zlen l <= b -> zslice l 0 b = l.
Proof.
  intros Hb. rewrite zslice_0. apply firstn_all2. unfold zlen in Hb. lia.
Qed.

Lemma vis_firstn l mx p :
  vis (firstn p l) mx = firstn p (vis l mx).
Proof.
  destruct mx as [m|]; [|reflexivity]. unfold vis.
  rewrite !firstn_firstn. f_equal. lia.
Qed.

Lemma zlen_vis_le l mx : zlen (vis l mx) <= zlen l.
Proof.
  destruct mx as [m|]; unfold vis; [rewrite zlen_firstn|]; lia.
Qed.

Lemma zlen_vis_limit l m : zlen (vis l (Some m)) <= Z.max 0 m.
Proof.
  unfold vis. rewrite zlen_firstn. lia.
Qed.

(** A slice of the visible data is a slice of the source. *)
Lemma zslice_vis_src l mx a b :
  0 <= a -> exists q, zslice (vis l mx) a b = zslice l a q.
Proof.
  intros Ha. destruct mx as [m|]; unfold vis.
  - eexists. apply zslice_firstn. exact Ha.
  - eexists. reflexivity.
Qed.

End ListFacts.
