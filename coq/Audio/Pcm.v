(** PCM decoding as auditok.signal.to_array does it: signed little-endian
    integers of 1, 2 or 4 bytes, channels de-interleaved.  Bytes are Z in
    [0, 256). Definitions only. *)
From Coq Require Import ZArith List Bool.
From AV Require Import Base.PyList.
Import ListNotations.
Open Scope Z_scope.

(** unsigned little-endian value of a byte list *)
Fixpoint le_unsigned (bs : list Z) : Z :=
  match bs with
  | [] => 0
  | b :: rest => b + 256 * le_unsigned rest
  end.

(** two's complement interpretation on [w] bytes *)
Definition le_signed (bs : list Z) : Z :=
  let u := le_unsigned bs in
  let m := 256 ^ zlen bs in
  if 2 * u <? m then u else u - m.

(** little-endian two's complement encoding of [x] on [w] bytes *)
Fixpoint le_bytes (w : nat) (u : Z) : list Z :=
  match w with
  | O => []
  | S k => (u mod 256) :: le_bytes k (u / 256)
  end.

Definition le_encode (w : nat) (x : Z) : list Z :=
  le_bytes w (x mod 256 ^ Z.of_nat w).

(** All samples in file order: sample i of channel c is at index i*ch + c. *)
Definition decode_all (w : nat) (data : list Z) : list Z :=
  map le_signed (chunks w data).

(** Every [ch]-th element starting at [c]. *)
Definition channel (ch c : nat) (xs : list Z) : list Z :=
  map (fun fr => nth c fr 0) (chunks ch xs).

(** to_array(data, w, ch): shape (ch, n); element [c][i]. *)
Definition to_array (w ch : nat) (data : list Z) : list (list Z) :=
  map (fun c => channel ch c (decode_all w data)) (seq 0 ch).
