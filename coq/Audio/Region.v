(** Model of auditok.core.AudioRegion's data operations (definitions only).
    Bytes are an abstract type [B] except where zero bytes are generated. *)
From Coq Require Import ZArith List Bool.
From AV Require Import Base.PyList Base.PyFloat Tok.Model.
Import ListNotations.
Open Scope Z_scope.

Section Region.
Context {B : Type}.

Record region := mkRegion {
  rdata : list B;
  rate : Z;       (* sampling_rate *)
  width : Z;      (* sample_width *)
  nch : Z         (* channels *)
}.

Definition bps (r : region) : Z := width r * nch r.

(** io.check_audio_data: floor-divide then multiply back (Python // on ints;
    sample_width * channels > 0 for every region that can be built from a
    source, and the constructor is also run on user-supplied values, so the
    model keeps the computation as written; division by zero raises in Python
    and is excluded by [0 < bps] in the theorems). *)
Definition well_formed (d : list B) (w ch : Z) : bool :=
  (zlen d / (w * ch)) * (w * ch) =? zlen d.

(** AudioRegion(data, sr, sw, ch) *)
Definition make (d : list B) (sr w ch : Z) : result region :=
  if well_formed d w ch then Ok (mkRegion d sr w ch) else Err AudioParameterError.

(** len(region) *)
Definition rlen (r : region) : Z := zlen (rdata r) / bps r.

(** region[a:b] on samples, exactly as __getitem__ computes byte offsets:
    the start is normalised by hand, the stop is NOT (the byte offset of a
    negative stop is left to Python's slice, which is right only because the
    data length is a multiple of the sample size). *)
Definition getitem (r : region) (a b : option Z) : region :=
  let start_sample := match a with Some x => x | None => 0 end in
  let len_samples := zlen (rdata r) / bps r in
  let start_sample := if start_sample <? 0 then Z.max (start_sample + len_samples) 0
                      else start_sample in
  let onset := start_sample * bps r in
  let offset := match b with Some y => Some (y * bps r) | None => None end in
  mkRegion (py_slice (rdata r) (Some onset) offset) (rate r) (width r) (nch r).

(** The region as a sequence of multi-channel samples. *)
Definition samples (r : region) : list (list B) :=
  chunks (Z.to_nat (bps r)) (rdata r).

Definition same_params (r1 r2 : region) : bool :=
  (rate r1 =? rate r2) && (width r1 =? width r2) && (nch r1 =? nch r2).

(** r1 + r2 *)
Definition add (r1 r2 : region) : result region :=
  if same_params r1 r2 then make (rdata r1 ++ rdata r2) (rate r1) (width r1) (nch r1)
  else Err AudioParameterError.

(** r * n (bytes * n is empty for n <= 0) *)
Definition mul (r : region) (n : Z) : result region :=
  make (repeat_list (rdata r) (Z.to_nat n)) (rate r) (width r) (nch r).

(** sep.join(others): parameters are checked lazily, one region at a time,
    the first mismatch aborts. *)
Definition join (sep : region) (others : list region) : result region :=
  if forallb (same_params sep) others
  then make (intercalate (rdata sep) (map rdata others)) (rate sep) (width sep) (nch sep)
  else Err AudioParameterError.

(** region / n : the while loop of __truediv__, with fuel. *)
Fixpoint div_loop (fuel : nat) (r : region) (len q rest onset : Z) : result (list region) :=
  if onset <? len then
    match fuel with
    | O => Err OutOfFuel
    | S f =>
        let extra := if 0 <? rest then 1 else 0 in
        let rest' := if 0 <? rest then rest - 1 else rest in
        let offset := extra + onset + q in
        match div_loop f r len q rest' offset with
        | Ok l => Ok (getitem r (Some onset) (Some offset) :: l)
        | Err e => Err e
        end
    end
  else Ok [].

Definition div (r : region) (n : Z) : result (list region) :=
  if n <=? 0 then Err TypeError
  else div_loop (S (Z.to_nat (rlen r))) r (rlen r) (rlen r / n) (rlen r mod n) 0.

End Region.

Arguments region B : clear implicits.

(** make_silence(duration, sr, sw, ch): round(duration * sr) * sw * ch zero
    bytes ([duration] a float, [sr] an int converted to float by Python's multiplication). *)
Definition silence_size (d : f64) (sr w ch : Z) : option Z :=
  match py_round (fmul d (of_Z sr)) with
  | Some n => Some (n * w * ch)
  | None => None
  end.

Definition make_silence (d : f64) (sr w ch : Z) : result (region Z) :=
  match silence_size d sr w ch with
  | Some size => make (repeat 0 (Z.to_nat size)) sr w ch
  | None => Err ValueError     (* OverflowError / ValueError of round(inf/nan) *)
  end.

(** Region equality (__eq__) on byte values. *)
Definition list_eqb (a b : list Z) : bool :=
  (Nat.eqb (length a) (length b)) && forallb (fun xy => fst xy =? snd xy) (combine a b).

Definition region_eqb (r1 r2 : region Z) : bool :=
  list_eqb (rdata r1) (rdata r2) && same_params r1 r2.

(** Seconds / milliseconds views: region.sec[a:b], region.ms[a:b].
    int * float: Python converts the int to float then multiplies. *)
Definition sec_bounds (sr : Z) (a : option f64) (b : option f64) : option (Z * option Z) :=
  (* a missing start is the int 0: int(0 * sr) = 0, no float involved *)
  match (match a with Some x => py_int (fmul x (of_Z sr)) | None => Some (0 * sr) end) with
  | None => None
  | Some sa =>
      match b with
      | None => Some (sa, None)
      | Some y => match py_round (fmul y (of_Z sr)) with
                  | Some sb => Some (sa, Some sb)
                  | None => None
                  end
      end
  end.

Definition sec_getitem {B} (r : region B) (a b : option f64) : option (region B) :=
  match sec_bounds (rate r) a b with
  | Some (sa, sb) => Some (getitem r (Some sa) sb)
  | None => None
  end.

(** ms view: start_ms / 1000, stop_ms / 1000 (int / int true division), then
    the seconds view. *)
Definition ms_to_sec (ms : Z) : f64 := fdiv (of_Z ms) (of_Z 1000).

Definition ms_getitem {B} (r : region B) (a b : option Z) : option (region B) :=
  sec_getitem r (Some (ms_to_sec (match a with Some x => x | None => 0 end)))
              (option_map ms_to_sec b).
