(** C07: the integer decision procedure [active_frac] of [Audio/Energy.v] is
    exactly the real-number statement 10*log10(S/N) >= p/q; monotonicity in the
    threshold; channel-selector semantics of [is_valid].

    Only the theorems that mention [R] depend on the classical real numbers of
    the standard library; everything else is closed under the global context. *)
From Coq Require Import ZArith List Bool Lia ZifyBool Reals Lra.
From AV Require Import Base.PyList Audio.Pcm Tok.Model Audio.Energy.
Import ListNotations.
Open Scope Z_scope.

(* ------------------------------------------------------------------ *)
(** * Real-number side *)

(** 10*log10(S/N), with log10 x := ln x / ln 10 *)
Definition db (S N : Z) : R := (10 * (ln (IZR S / IZR N) / ln 10))%R.

Lemma ln10_pos : (0 < ln 10)%R.
Proof. rewrite <- ln_1. apply ln_increasing; lra. Qed.

Lemma ln_le_iff (x y : R) : (0 < x)%R -> (0 < y)%R -> (x <= y <-> ln x <= ln y)%R.
Proof.
  intros Hx Hy. split; intros H.
  - destruct H as [H|H]; [left; now apply ln_increasing | right; now rewrite H].
  - destruct H as [H|H]; [left; now apply ln_lt_inv | right; now apply ln_inv].
Qed.

Lemma IZR_pos (x : Z) : 0 < x -> (0 < IZR x)%R.
Proof. intros H. now apply IZR_lt. Qed.

(** ln (x^e) = e * ln x on positive integers *)
Lemma ln_IZR_pow (x e : Z) : 0 < x -> 0 <= e ->
  ln (IZR (x ^ e)) = (IZR e * ln (IZR x))%R.
Proof.
  intros Hx He. rewrite <- (Z2Nat.id e) at 1 by assumption.
  rewrite <- pow_IZR, ln_pow by now apply IZR_pos.
  now rewrite INR_IZR_INZ, Z2Nat.id.
Qed.

Lemma ln_IZR_mul (x y : Z) : 0 < x -> 0 < y ->
  ln (IZR (x * y)) = (ln (IZR x) + ln (IZR y))%R.
Proof. intros Hx Hy. rewrite mult_IZR. apply ln_mult; now apply IZR_pos. Qed.

Lemma ln_IZR_div (S N : Z) : 0 < S -> 0 < N ->
  ln (IZR S / IZR N) = (ln (IZR S) - ln (IZR N))%R.
Proof.
  intros HS HN. unfold Rdiv.
  rewrite ln_mult, ln_Rinv; try lra; try now apply IZR_pos.
  apply Rinv_0_lt_compat. now apply IZR_pos.
Qed.

Lemma IZR_max_split (p : Z) : (IZR (Z.max 0 p) - IZR (Z.max 0 (- p)) = IZR p)%R.
Proof.
  rewrite <- minus_IZR. f_equal. lia.
Qed.

(** The main bridge: for S, N, q > 0 the integer test is the real inequality. *)
Theorem C07_spec : forall S N p q : Z, 0 < S -> 0 < N -> 0 < q ->
  active_frac S N p q = true <-> (db S N >= IZR p / IZR q)%R.
Proof.
  intros S N p q HS HN Hq. unfold active_frac.
  destruct (S =? 0) eqn:E0; [lia|]. clear E0.
  set (e := 10 * q). assert (He : 0 < e) by (unfold e; lia).
  set (a := Z.max 0 p). set (b := Z.max 0 (- p)).
  assert (Ha : 0 <= a) by (unfold a; lia). assert (Hb : 0 <= b) by (unfold b; lia).
  assert (HNe : 0 < N ^ e) by (apply Z.pow_pos_nonneg; lia).
  assert (HSe : 0 < S ^ e) by (apply Z.pow_pos_nonneg; lia).
  assert (H10a : 0 < 10 ^ a) by (apply Z.pow_pos_nonneg; lia).
  assert (H10b : 0 < 10 ^ b) by (apply Z.pow_pos_nonneg; lia).
  rewrite Z.leb_le.
  assert (HL : 0 < N ^ e * 10 ^ a) by lia.
  assert (HR : 0 < S ^ e * 10 ^ b) by lia.
  (* to the reals, then take logarithms *)
  transitivity (IZR (N ^ e * 10 ^ a) <= IZR (S ^ e * 10 ^ b))%R.
  { split; [apply IZR_le | apply le_IZR]. }
  rewrite (ln_le_iff _ _ (IZR_pos _ HL) (IZR_pos _ HR)).
  rewrite !ln_IZR_mul by assumption.
  rewrite !ln_IZR_pow by lia.
  pose proof (IZR_max_split p) as Hp. fold a b in Hp.
  unfold db. rewrite ln_IZR_div by assumption.
  pose proof ln10_pos as H10. pose proof (IZR_pos q Hq) as HqR.
  assert (HeR : IZR e = (10 * IZR q)%R) by (unfold e; now rewrite mult_IZR).
  rewrite HeR.
  set (lS := ln (IZR S)) in *. set (lN := ln (IZR N)) in *. set (l10 := ln 10) in *.
  set (pa := IZR a) in *. set (pb := IZR b) in *.
  set (X := (10 * ((lS - lN) / l10) - IZR p / IZR q)%R).
  assert (Heq : (10 * IZR q * lS + pb * l10 - (10 * IZR q * lN + pa * l10)
                 = X * (IZR q * l10))%R).
  { unfold X. rewrite <- Hp. field. split; lra. }
  assert (Hden : (0 < IZR q * l10)%R) by now apply Rmult_lt_0_compat.
  assert (HX : (10 * ((lS - lN) / l10) = X + IZR p / IZR q)%R) by (unfold X; lra).
  rewrite HX. clearbody X. set (D := (IZR q * l10)%R) in *. clearbody D.
  split; intros H.
  - assert (0 <= X * D)%R by lra.
    destruct (Rle_or_lt 0 X) as [HX0|HX0]; [lra|].
    assert (0 < (- X) * D)%R by (apply Rmult_lt_0_compat; lra). lra.
  - assert (0 <= X)%R by lra.
    assert (0 <= X * D)%R by (apply Rmult_le_pos; lra). lra.
Qed.

(** Digital silence is floored at -200 dB. *)
Theorem C07_silence : forall N p q, 0 < q ->
  active_frac 0 N p q = true <-> (IZR p / IZR q <= -200)%R.
Proof.
  intros N p q Hq. unfold active_frac. cbn [Z.eqb]. rewrite Z.leb_le.
  pose proof (IZR_pos q Hq) as HqR.
  split; intros H.
  - apply IZR_le in H. rewrite mult_IZR in H.
    apply Rmult_le_reg_r with (r := IZR q); [assumption|].
    unfold Rdiv. rewrite Rmult_assoc, Rinv_l by lra. lra.
  - apply le_IZR. rewrite mult_IZR.
    apply Rmult_le_compat_r with (r := IZR q) in H; [|lra].
    unfold Rdiv in H. rewrite Rmult_assoc, Rinv_l in H by lra. lra.
Qed.

(** The floor never matters for a non-silent window of realistic length. *)
Theorem C07_floor_irrelevant : forall S N, 0 < S -> 0 < N < 10 ^ 20 -> (db S N > -200)%R.
Proof.
  intros S N HS [HN HN20]. unfold db. rewrite ln_IZR_div by assumption.
  pose proof ln10_pos as H10.
  assert (H1 : (0 <= ln (IZR S))%R).
  { rewrite <- ln_1. apply (proj1 (ln_le_iff 1 (IZR S) Rlt_0_1 (IZR_pos _ HS))). apply IZR_le. lia. }
  assert (H2 : (ln (IZR N) < 20 * ln 10)%R).
  { replace (20 * ln 10)%R with (ln (IZR (10 ^ 20))).
    - apply ln_increasing; [now apply IZR_pos | now apply IZR_lt].
    - rewrite ln_IZR_pow by lia. reflexivity. }
  apply Rlt_gt.
  replace (-200)%R with (10 * ((- (20 * ln 10)) / ln 10))%R by (field; lra).
  apply Rmult_lt_compat_l; [lra|].
  apply Rmult_lt_compat_r; [now apply Rinv_0_lt_compat | lra].
Qed.

(* ------------------------------------------------------------------ *)
(** * Integer side: monotonicity in the threshold (no real numbers) *)

(** X*10^a2 <= Y*10^b2 and a1 - b1 <= a2 - b2 give X*10^a1 <= Y*10^b1. *)
Lemma pow10_shift (X Y a1 b1 a2 b2 : Z) :
  0 <= X -> 0 <= a1 -> 0 <= b1 -> 0 <= a2 -> 0 <= b2 ->
  a1 + b2 <= a2 + b1 ->
  X * 10 ^ a2 <= Y * 10 ^ b2 -> X * 10 ^ a1 <= Y * 10 ^ b1.
Proof.
  intros HX Ha1 Hb1 Ha2 Hb2 Hle H.
  assert (P : forall z, 0 <= z -> 0 < 10 ^ z) by (intros; apply Z.pow_pos_nonneg; lia).
  pose proof (P _ Ha1); pose proof (P _ Hb1); pose proof (P _ Ha2); pose proof (P _ Hb2).
  apply Z.mul_le_mono_pos_r with (p := 10 ^ b2); [assumption|].
  rewrite <- !Z.mul_assoc, <- !Z.pow_add_r by assumption.
  apply Z.le_trans with (X * 10 ^ (a2 + b1)).
  - apply Z.mul_le_mono_nonneg_l; [assumption|]. apply Z.pow_le_mono_r; lia.
  - rewrite (Z.add_comm b1 b2), !Z.pow_add_r, !Z.mul_assoc by assumption.
    apply Z.mul_le_mono_nonneg_r; lia.
Qed.

(** x <= y from x^k <= y^k *)
Lemma pow_le_inv (x y k : Z) : 0 <= x -> 0 <= y -> 0 < k -> x ^ k <= y ^ k -> x <= y.
Proof.
  intros Hx Hy Hk H. destruct (Z.le_gt_cases x y) as [L|G]; [assumption|].
  assert (y ^ k < x ^ k) by (apply Z.pow_lt_mono_l; lia). lia.
Qed.

(** (S/N)^(10 q2) >= 10^(a2-b2) and (a1-b1)/q1 <= (a2-b2)/q2 give
    (S/N)^(10 q1) >= 10^(a1-b1): raise to the power q1, shift, take q2-th roots. *)
Lemma frac_pow_mono (S N q1 q2 a1 b1 a2 b2 : Z) :
  0 <= S -> 0 <= N -> 0 < q1 -> 0 < q2 ->
  0 <= a1 -> 0 <= b1 -> 0 <= a2 -> 0 <= b2 ->
  (a1 - b1) * q2 <= (a2 - b2) * q1 ->
  N ^ (10 * q2) * 10 ^ a2 <= S ^ (10 * q2) * 10 ^ b2 ->
  N ^ (10 * q1) * 10 ^ a1 <= S ^ (10 * q1) * 10 ^ b1.
Proof.
  intros HS HN Hq1 Hq2 Ha1 Hb1 Ha2 Hb2 Hle H.
  assert (P : forall x z, 0 <= x -> 0 <= z -> 0 <= x ^ z) by (intros; now apply Z.pow_nonneg).
  assert (P10 : forall z, 0 <= z -> 0 <= 10 ^ z) by (intros; apply Z.pow_nonneg; lia).
  assert (Hq1' : 0 <= 10 * q1) by lia. assert (Hq2' : 0 <= 10 * q2) by lia.
  assert (Hq1'' : 0 <= q1) by lia. assert (Hq2'' : 0 <= q2) by lia.
  apply (pow_le_inv _ _ q2); [ | | assumption | ].
  { apply Z.mul_nonneg_nonneg; [now apply P | now apply P10]. }
  { apply Z.mul_nonneg_nonneg; [now apply P | now apply P10]. }
  assert (H' : (N ^ (10 * q2) * 10 ^ a2) ^ q1 <= (S ^ (10 * q2) * 10 ^ b2) ^ q1).
  { apply Z.pow_le_mono_l. split; [|assumption].
    apply Z.mul_nonneg_nonneg; [now apply P | now apply P10]. }
  rewrite !Z.pow_mul_l, <- !Z.pow_mul_r in H' by assumption.
  rewrite !Z.pow_mul_l, <- !Z.pow_mul_r by assumption.
  replace (10 * q2 * q1) with (10 * q1 * q2) in H' by ring.
  rewrite !Z.mul_sub_distr_r in Hle.
  revert H'. apply pow10_shift; try (now apply Z.mul_nonneg_nonneg); [|lia].
  apply P; [assumption|]. now apply Z.mul_nonneg_nonneg.
Qed.

(** Also with N = 0 (then the test is vacuously true for S > 0). *)
Lemma active_frac_monotone_nonneg : forall S N p1 q1 p2 q2,
  0 <= S -> 0 <= N -> 0 < q1 -> 0 < q2 -> p1 * q2 <= p2 * q1 ->
  active_frac S N p2 q2 = true -> active_frac S N p1 q1 = true.
Proof.
  intros S N p1 q1 p2 q2 HS HN Hq1 Hq2 Hle. unfold active_frac.
  destruct (S =? 0) eqn:E0; rewrite !Z.leb_le; intros H.
  - assert (p1 * q2 <= -200 * q1 * q2).
    { apply Z.le_trans with (p2 * q1); [assumption|].
      replace (-200 * q1 * q2) with (-200 * q2 * q1) by ring.
      apply Z.mul_le_mono_nonneg_r; lia. }
    apply Z.mul_le_mono_pos_r with (p := q2); assumption.
  - revert H. apply frac_pow_mono; try assumption; try apply Z.le_max_l.
    replace (Z.max 0 p1 - Z.max 0 (- p1)) with p1 by lia.
    replace (Z.max 0 p2 - Z.max 0 (- p2)) with p2 by lia. assumption.
Qed.

(** Raising the threshold can only turn active windows inactive. *)
Theorem C07_monotone_frac : forall S N p1 q1 p2 q2,
  0 <= S -> 0 < N -> 0 < q1 -> 0 < q2 -> p1 * q2 <= p2 * q1 ->
  active_frac S N p2 q2 = true -> active_frac S N p1 q1 = true.
Proof.
  intros S N p1 q1 p2 q2 HS HN. apply active_frac_monotone_nonneg; lia.
Qed.

Lemma sumsq_nonneg (x : list Z) : 0 <= sumsq x.
Proof. induction x as [|v x IH]; cbn [sumsq fold_right]; [lia|]. fold (sumsq x). nia. Qed.

Lemma active_chan_monotone x p1 q1 p2 q2 :
  0 < q1 -> 0 < q2 -> p1 * q2 <= p2 * q1 ->
  active_chan x p2 q2 = true -> active_chan x p1 q1 = true.
Proof.
  intros Hq1 Hq2 Hle. unfold active_chan.
  apply active_frac_monotone_nonneg; try assumption; [apply sumsq_nonneg | apply zlen_nonneg].
Qed.

Lemma active_mix_monotone chans p1 q1 p2 q2 :
  0 < q1 -> 0 < q2 -> p1 * q2 <= p2 * q1 ->
  active_mix chans p2 q2 = true -> active_mix chans p1 q1 = true.
Proof.
  intros Hq1 Hq2 Hle. unfold active_mix.
  apply active_frac_monotone_nonneg; try assumption; [apply sumsq_nonneg |].
  pose proof (zlen_nonneg chans). nia.
Qed.

Lemma existsb_monotone {A} (f g : A -> bool) (l : list A) :
  (forall x, f x = true -> g x = true) -> existsb f l = true -> existsb g l = true.
Proof.
  intros Hfg. rewrite !existsb_exists. intros [x [Hin Hx]]. exists x; auto.
Qed.

(** No side condition on the window is needed: an empty channel has S = 0, and a
    zero denominator with S > 0 makes the integer test true for every threshold. *)
Theorem C07_monotone : forall w ch s p1 q1 p2 q2 data,
  0 < q1 -> 0 < q2 -> p1 * q2 <= p2 * q1 ->
  is_valid w ch s p2 q2 data = Ok true -> is_valid w ch s p1 q1 data = Ok true.
Proof.
  intros w ch s p1 q1 p2 q2 data Hq1 Hq2 Hle. unfold is_valid.
  assert (Hex : forall l, Ok (existsb (fun x => active_chan x p2 q2) l) = Ok true ->
                          Ok (existsb (fun x => active_chan x p1 q1) l) = Ok true).
  { intros l H. inversion H as [H']. rewrite H'. f_equal.
    revert H'. apply existsb_monotone. intros x. now apply active_chan_monotone. }
  destruct (Nat.eqb ch 1); [apply Hex|].
  destruct s as [| |i|]; [apply Hex | | | discriminate].
  - intros H. inversion H as [H']. rewrite H'. f_equal. revert H'. now apply active_mix_monotone.
  - destruct ((_ <? 0) || _); [discriminate|].
    intros H. inversion H as [H']. rewrite H'. f_equal. revert H'. now apply active_chan_monotone.
Qed.

(** The bridge at the level of one channel: a non-silent channel is active iff
    10*log10(mean square) >= p/q. *)
Corollary C07_spec_chan : forall x p q, 0 < q -> 0 < sumsq x ->
  active_chan x p q = true <-> (db (sumsq x) (zlen x) >= IZR p / IZR q)%R.
Proof.
  intros x p q Hq HS. unfold active_chan. apply C07_spec; try assumption.
  destruct x as [|v x]; [cbn in HS; lia|]. rewrite zlen_cons. pose proof (zlen_nonneg x). lia.
Qed.

(* ------------------------------------------------------------------ *)
(** * Channel selector *)

(** "any": max over channels >= T  <=>  some channel >= T *)
Theorem C07_any : forall w ch p q data, (ch <> 1)%nat ->
  is_valid w ch SAny p q data = Ok (existsb (fun x => active_chan x p q) (to_array w ch data)).
Proof.
  intros w ch p q data Hch. unfold is_valid.
  destruct (Nat.eqb ch 1); reflexivity.
Qed.

Theorem C07_selector_errors : forall w ch s p q data, (ch <> 1)%nat ->
  (is_valid w ch s p q data = Err ValueError <->
   (s = SBad \/ exists i, s = SIdx i /\ ~ (- Z.of_nat ch <= i < Z.of_nat ch))).
Proof.
  intros w ch s p q data Hch. unfold is_valid.
  destruct (Nat.eqb ch 1) eqn:E1; [apply Nat.eqb_eq in E1; contradiction|].
  destruct s as [| |i|].
  - split; [discriminate|]. intros [H|[i [H _]]]; discriminate.
  - split; [discriminate|]. intros [H|[i [H _]]]; discriminate.
  - destruct (i <? 0) eqn:Ei.
    + destruct ((i + Z.of_nat ch <? 0) || (Z.of_nat ch <=? i + Z.of_nat ch)) eqn:E.
      * split; [|reflexivity]. intros _. right. exists i. split; [reflexivity|]. lia.
      * split; [discriminate|]. intros [H|[j [H Hj]]]; [discriminate|].
        inversion H; subst j. lia.
    + destruct ((i <? 0) || (Z.of_nat ch <=? i)) eqn:E.
      * split; [|reflexivity]. intros _. right. exists i. split; [reflexivity|]. lia.
      * split; [discriminate|]. intros [H|[j [H Hj]]]; [discriminate|].
        inversion H; subst j. lia.
  - split; [|reflexivity]. intros _. now left.
Qed.

Theorem C07_mono_ignores_selector : forall w s s' p q data,
  is_valid w 1 s p q data = is_valid w 1 s' p q data.
Proof. intros. reflexivity. Qed.

(** A negative index counts from the last channel. *)
Theorem C07_neg_index : forall w ch i p q data, (ch <> 1)%nat -> - Z.of_nat ch <= i < 0 ->
  is_valid w ch (SIdx i) p q data = is_valid w ch (SIdx (i + Z.of_nat ch)) p q data.
Proof.
  intros w ch i p q data Hch Hi. unfold is_valid.
  destruct (Nat.eqb ch 1); [reflexivity|].
  destruct (i <? 0) eqn:E1; [|lia]. cbv beta iota zeta.
  destruct (i + Z.of_nat ch <? 0) eqn:E2; [lia|]. cbv beta iota zeta. rewrite E2. reflexivity.
Qed.

(* ------------------------------------------------------------------ *)
(** * Non-vacuity *)

(** exact tie: S/N = 10^4 is exactly 40 dB; 40/1 is reached, 401/10 is not *)
Example tie_40dB : active_frac 10000 1 40 1 = true /\ active_frac 10000 1 401 10 = false
                   /\ active_frac 30000 3 40 1 = true /\ active_frac 29999 3 40 1 = false.
Proof. vm_compute. repeat split. Qed.

(** negative thresholds: S/N = 1/100 is exactly -20 dB *)
Example tie_minus20dB : active_frac 1 100 (-20) 1 = true /\ active_frac 1 100 (-199) 10 = false
                        /\ active_frac 1 100 (-201) 10 = true.
Proof. vm_compute. repeat split. Qed.

Example silence_floor : active_frac 0 160 (-200) 1 = true /\ active_frac 0 160 (-1999) 10 = false.
Proof. vm_compute. repeat split. Qed.

(** N = 0 with S > 0 (unreachable from [is_valid]) is "active" for every threshold *)
Example zero_den : active_frac 5 0 1000 1 = true.
Proof. vm_compute. reflexivity. Qed.

(** a 2-channel, 16-bit window of 2 samples: channel 0 = [100; -100], channel 1 = [0; 0] *)
Definition ex_data : list Z := [100; 0; 0; 0; 156; 255; 0; 0].
Example ex_to_array : to_array 2 2 ex_data = [[100; -100]; [0; 0]].
Proof. vm_compute. reflexivity. Qed.

Example ex_is_valid :
  is_valid 2 2 SAny 40 1 ex_data = Ok true            (* channel 0 is at 40 dB exactly *)
  /\ is_valid 2 2 SAny 401 10 ex_data = Ok false
  /\ is_valid 2 2 (SIdx 1) 40 1 ex_data = Ok false   (* channel 1 is silent *)
  /\ is_valid 2 2 (SIdx (-2)) 40 1 ex_data = Ok true (* -2 is channel 0 *)
  /\ is_valid 2 2 (SIdx 2) 40 1 ex_data = Err ValueError
  /\ is_valid 2 2 (SIdx (-3)) 40 1 ex_data = Err ValueError
  /\ is_valid 2 2 SBad 40 1 ex_data = Err ValueError
  /\ is_valid 2 2 SMix 33 1 ex_data = Ok true         (* mix = [50; -50]: 33.98 dB *)
  /\ is_valid 2 2 SMix 34 1 ex_data = Ok false.
Proof. vm_compute. repeat split. Qed.

(** the hypotheses of C07_monotone are satisfiable with a non-trivial conclusion *)
Example ex_monotone : is_valid 2 2 SAny 399 10 ex_data = Ok true.
Proof.
  apply (C07_monotone 2 2 SAny 399 10 40 1 ex_data); [lia | lia | lia |].
  vm_compute. reflexivity.
Qed.

(** C07_spec instantiated at the tie *)
Example ex_spec_tie : (db 10000 1 >= 40 / 1)%R.
Proof. apply (C07_spec 10000 1 40 1); [lia | lia | lia |]. vm_compute. reflexivity. Qed.

Example ex_floor : (db 1 (10 ^ 20 - 1) > -200)%R.
Proof. apply C07_floor_irrelevant; [lia|]. split; [reflexivity | reflexivity]. Qed.

Print Assumptions C07_spec.
Print Assumptions C07_spec_chan.
Print Assumptions C07_silence.
Print Assumptions C07_floor_irrelevant.
Print Assumptions C07_monotone_frac.
Print Assumptions active_frac_monotone_nonneg.
Print Assumptions C07_monotone.
Print Assumptions C07_any.
Print Assumptions C07_selector_errors.
Print Assumptions C07_mono_ignores_selector.
Print Assumptions C07_neg_index.
