(** The dispatch of util.make_channel_selector on its `selected` argument, as a
    function: which of the three kinds of selection is built, with which
    (normalised) channel index, or ValueError.  py2coq translates the Python
    dispatch on every run (TieSelector.v); [is_valid_via_resolve] shows that
    the energy decision of Audio/Energy.v is this dispatch followed by the
    selection it names. *)
From Coq Require Import ZArith List Bool Lia.
From AV Require Import Base.PyList Tok.Model Audio.Pcm Audio.Energy.
Import ListNotations.
Open Scope Z_scope.

Inductive rsel := RAll | RMix | RIdx (i : Z).

(** channels = 1: everything is accepted and all (one) channels are returned, whatever `selected` is *)
Definition resolve_selector (channels : Z) (s : sel) : result rsel :=
  if channels =? 1 then Ok RAll
  else match s with
       | SAny => Ok RAll
       | SMix => Ok RMix
       | SIdx i =>
           let i' := if i <? 0 then i + channels else i in
           if (i' <? 0) || (channels <=? i') then Err ValueError else Ok (RIdx i')
       | SBad => Err ValueError
       end.

Theorem is_valid_via_resolve (w ch : nat) (s : sel) (p q : Z) (data : list Z) :
  is_valid w ch s p q data =
  match resolve_selector (Z.of_nat ch) s with
  | Err e => Err e
  | Ok RAll => Ok (existsb (fun x => active_chan x p q) (to_array w ch data))
  | Ok RMix => Ok (active_mix (to_array w ch data) p q)
  | Ok (RIdx i) => Ok (active_chan (nth (Z.to_nat i) (to_array w ch data) []) p q)
  end.
Proof.
  unfold is_valid, resolve_selector.
  destruct (Nat.eqb ch 1) eqn:E.
  - apply Nat.eqb_eq in E. subst ch. reflexivity.
  - assert (H : (Z.of_nat ch =? 1) = false).
    { apply Z.eqb_neq. apply Nat.eqb_neq in E. lia. }
    rewrite H. destruct s as [| |i|]; try reflexivity.
    destruct ((if i <? 0 then i + Z.of_nat ch else i) <? 0) eqn:E1; cbn [orb]; [reflexivity|].
    destruct (Z.of_nat ch <=? (if i <? 0 then i + Z.of_nat ch else i)); reflexivity.
Qed.

(** accepted indices are exactly [-channels, channels) *)
Theorem resolve_index_range (channels i : Z) : 1 < channels ->
  (exists j, resolve_selector channels (SIdx i) = Ok (RIdx j) /\ 0 <= j < channels /\ (j = i \/ j = i + channels))
  <-> - channels <= i < channels.
Proof.
  intros Hc. unfold resolve_selector.
  replace (channels =? 1) with false by (symmetry; apply Z.eqb_neq; lia).
  destruct (i <? 0) eqn:Ei.
  - apply Z.ltb_lt in Ei.
    destruct (i + channels <? 0) eqn:E1; cbn [orb].
    + apply Z.ltb_lt in E1. split; [intros (j & H & _); discriminate | lia].
    + apply Z.ltb_ge in E1. destruct (channels <=? i + channels) eqn:E2.
      * apply Z.leb_le in E2. lia.
      * apply Z.leb_gt in E2. split; [lia|]. intros _. exists (i + channels). repeat split; try lia.
  - apply Z.ltb_ge in Ei. replace (i <? 0) with false by (symmetry; apply Z.ltb_ge; lia). cbn [orb].
    destruct (channels <=? i) eqn:E2.
    + apply Z.leb_le in E2. split; [intros (j & H & _); discriminate | lia].
    + apply Z.leb_gt in E2. split; [lia|]. intros _. exists i. repeat split; try lia.
Qed.
