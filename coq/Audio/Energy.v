(** auditok.util.AudioEnergyValidator as an EXACT integer decision procedure
    (no floating point, no logarithm): a window is active iff
    10*log10(mean square) >= T, decided on integers for a rational threshold
    T = p/q.  Definitions only; the equivalence with the real-number statement
    is proved in EnergyProofs.v. *)
From Coq Require Import ZArith List Bool.
From AV Require Import Base.PyList Audio.Pcm Tok.Model.
Import ListNotations.
Open Scope Z_scope.

Definition sumsq (x : list Z) : Z := fold_right (fun v acc => v * v + acc) 0 x.

(** Mean square = S/N (S >= 0, N > 0), threshold p/q (q > 0).
    S = 0: digital silence, floored at -200 dB.
    Otherwise 10*log10(S/N) >= p/q  <=>  (S/N)^(10q) >= 10^p. *)
Definition active_frac (S N p q : Z) : bool :=
  if S =? 0 then p <=? -200 * q
  else N ^ (10 * q) * 10 ^ (Z.max 0 p) <=? S ^ (10 * q) * 10 ^ (Z.max 0 (- p)).

(** One channel of integer samples. *)
Definition active_chan (x : list Z) (p q : Z) : bool :=
  active_frac (sumsq x) (zlen x) p q.

(** Per-sample sums over channels (the mean is sum/ch: numerators kept). *)
Fixpoint col_sums (chans : list (list Z)) (n : nat) : list Z :=
  match chans with
  | [] => repeat 0 n
  | c :: rest => map (fun ab => fst ab + snd ab) (combine c (col_sums rest n))
  end.

Definition active_mix (chans : list (list Z)) (p q : Z) : bool :=
  let n := match chans with c :: _ => length c | [] => O end in
  let k := zlen chans in
  active_frac (sumsq (col_sums chans n)) (k * k * Z.of_nat n) p q.

Inductive sel := SAny | SMix | SIdx (i : Z) | SBad.

(** is_valid(window) for threshold p/q; [Err ValueError] = the constructor
    rejects the selector. Single-channel audio ignores the selector before
    validating it. *)
Definition is_valid (w ch : nat) (s : sel) (p q : Z) (data : list Z) : result bool :=
  let chans := to_array w ch data in
  if Nat.eqb ch 1 then Ok (existsb (fun x => active_chan x p q) chans)
  else match s with
       | SAny => Ok (existsb (fun x => active_chan x p q) chans)      (* max over channels >= T *)
       | SMix => Ok (active_mix chans p q)
       | SIdx i =>
           let i' := if i <? 0 then i + Z.of_nat ch else i in
           if (i' <? 0) || (Z.of_nat ch <=? i') then Err ValueError
           else Ok (active_chan (nth (Z.to_nat i') chans []) p q)
       | SBad => Err ValueError
       end.
