(** C16 (slicing) and C17 (algebra) of auditok's AudioRegion, proved on the
    byte-level model [Audio/Region.v]. *)
From Coq Require Import ZArith List Bool Lia ZifyBool Arith Wf_nat.
From AV Require Import Base.PyList Base.PyFloat Tok.Model Audio.Region.
Import ListNotations.
Open Scope Z_scope.

(* ------------------------------------------------------------------ *)
(** * General list facts: firstn / skipn / zslice *)

Lemma firstn_firstn_skipn {A} : forall x y (l : list A),
  firstn x l ++ firstn y (skipn x l) = firstn (x + y) l.
Proof.
  induction x as [|x IH]; intros y l; [reflexivity|].
  destruct l as [|h l]; [simpl; now rewrite firstn_nil|].
  cbn [firstn skipn Nat.add app]. now rewrite IH.
Qed.

Lemma skipn_skipn' {A} : forall x y (l : list A),
  skipn x (skipn y l) = skipn (y + x) l.
Proof.
  intros x y; revert x. induction y as [|y IH]; intros x l; [reflexivity|].
  destruct l as [|h l]; [simpl; now rewrite skipn_nil|].
  cbn [skipn Nat.add]. apply IH.
Qed.

Lemma Forall_skipn' {A} (P : A -> Prop) : forall k l, Forall P l -> Forall P (skipn k l).
Proof.
  induction k as [|k IH]; intros l Hl; [exact Hl|].
  destruct l as [|h l]; [constructor|]. inversion Hl; subst. cbn [skipn]. now apply IH.
Qed.

Lemma Forall_firstn' {A} (P : A -> Prop) : forall k l, Forall P l -> Forall P (firstn k l).
Proof.
  induction k as [|k IH]; intros l Hl; [constructor|].
  destruct l as [|h l]; [constructor|]. inversion Hl; subst. cbn [firstn].
  constructor; [assumption | now apply IH].
Qed.

Lemma Forall_zslice {A} (P : A -> Prop) (l : list A) a b :
  Forall P l -> Forall P (zslice l a b).
Proof. intros Hl; unfold zslice. now apply Forall_firstn', Forall_skipn'. Qed.

(** Consecutive slices concatenate. *)
Lemma zslice_app {A} (l : list A) a b c :
  0 <= a <= b -> b <= c -> zslice l a b ++ zslice l b c = zslice l a c.
Proof.
  intros Hab Hbc. unfold zslice.
  replace (Z.to_nat b) with (Z.to_nat a + Z.to_nat (b - a))%nat by lia.
  rewrite <- skipn_skipn'.
  replace (Z.to_nat (c - a)) with (Z.to_nat (b - a) + Z.to_nat (c - b))%nat by lia.
  apply firstn_firstn_skipn.
Qed.

Lemma zslice_empty {A} (l : list A) a : zslice l a a = [].
Proof. unfold zslice. now rewrite Z.sub_diag. Qed.

Lemma zslice_full {A} (l : list A) : zslice l 0 (zlen l) = l.
Proof.
  unfold zslice, zlen. rewrite Z.sub_0_r, Nat2Z.id. cbn [Z.to_nat skipn]. apply firstn_all.
Qed.

(** Lists of blocks that all have [n] elements. *)
Lemma concat_firstn_full {A} n (ls : list (list A)) :
  Forall (fun ch => length ch = n) ls ->
  forall c, concat (firstn c ls) = firstn (c * n) (concat ls).
Proof.
  induction 1 as [|x ls Hx Hls IH]; intros c.
  - cbn [concat]. now rewrite !firstn_nil.
  - destruct c as [|c]; [reflexivity|].
    cbn [firstn concat]. rewrite IH.
    replace (S c * n)%nat with (length x + c * n)%nat by lia.
    now rewrite firstn_app_2.
Qed.

Lemma concat_skipn_full {A} n (ls : list (list A)) :
  Forall (fun ch => length ch = n) ls ->
  forall c, concat (skipn c ls) = skipn (c * n) (concat ls).
Proof.
  induction 1 as [|x ls Hx Hls IH]; intros c.
  - cbn [concat]. now rewrite !skipn_nil.
  - destruct c as [|c]; [reflexivity|].
    cbn [skipn concat]. rewrite IH.
    replace (S c * n)%nat with (length x + c * n)%nat by lia.
    rewrite skipn_app.
    rewrite (skipn_all2 x) by lia. cbn [app].
    f_equal. lia.
Qed.

Lemma zlen_concat_full {A} n (ls : list (list A)) :
  Forall (fun ch => length ch = n) ls -> zlen (concat ls) = zlen ls * Z.of_nat n.
Proof.
  induction 1 as [|x ls Hx Hls IH]; [reflexivity|].
  cbn [concat]. rewrite zlen_app, zlen_cons, IH. unfold zlen at 1. rewrite Hx. lia.
Qed.

(* ------------------------------------------------------------------ *)
(** * chunks *)

Lemma chunks_fuel_indep {A} : forall f1 f2 n (l : list A), (0 < n)%nat ->
  (length l <= f1)%nat -> (length l <= f2)%nat ->
  chunks_fuel f1 n l = chunks_fuel f2 n l.
Proof.
  induction f1 as [|f1 IH]; intros f2 n l Hn H1 H2.
  - destruct l; [|simpl in H1; lia]. destruct f2; reflexivity.
  - destruct l as [|x l].
    + destruct f2; reflexivity.
    + destruct f2 as [|f2]; [simpl in H2; lia|].
      cbn [chunks_fuel]. f_equal.
      apply IH; [assumption | |]; rewrite skipn_length; cbn [length] in *; lia.
Qed.

Lemma chunks_nil {A} n : chunks n (@nil A) = [].
Proof. reflexivity. Qed.

Lemma chunks_cons_unfold {A} n (x : A) l : (0 < n)%nat ->
  chunks n (x :: l) = firstn n (x :: l) :: chunks n (skipn n (x :: l)).
Proof.
  intros Hn. unfold chunks. cbn [length chunks_fuel]. f_equal.
  apply chunks_fuel_indep; [assumption | | lia].
  rewrite skipn_length. cbn [length]; lia.
Qed.

(** [chunks n (x ++ y) = x :: chunks n y] for a full first block. *)
Lemma chunks_app_block {A} n (x y : list A) : (0 < n)%nat -> length x = n ->
  chunks n (x ++ y) = x :: chunks n y.
Proof.
  intros Hn Hx. destruct x as [|h x]; [simpl in Hx; lia|].
  cbn [app]. rewrite chunks_cons_unfold by assumption.
  change (h :: x ++ y) with ((h :: x) ++ y). rewrite <- Hx.
  now rewrite firstn_app_length, skipn_app_length.
Qed.

Lemma chunks_exact {A} n (Hn : (0 < n)%nat) : forall q (l : list A),
  length l = (q * n)%nat ->
  length (chunks n l) = q /\ Forall (fun ch => length ch = n) (chunks n l).
Proof.
  induction q as [|q IH]; intros l Hl.
  - destruct l; [|simpl in Hl; lia]. split; [reflexivity|constructor].
  - destruct l as [|x l]; [simpl in Hl; lia|].
    rewrite chunks_cons_unfold by assumption.
    destruct (IH (skipn n (x :: l))) as [H1 H2].
    { rewrite skipn_length. lia. }
    split; [simpl; lia|]. constructor; [|assumption]. rewrite firstn_length. lia.
Qed.

Lemma divide_length_nat {A} n (l : list A) : (0 < n)%nat -> (Z.of_nat n | zlen l) ->
  exists q, length l = (q * n)%nat /\ Z.of_nat q = zlen l / Z.of_nat n.
Proof.
  intros Hn [k Hk]. unfold zlen in *.
  assert (0 <= k) by nia.
  exists (Z.to_nat k). split.
  - apply Nat2Z.inj. rewrite Nat2Z.inj_mul, Z2Nat.id by assumption. exact Hk.
  - rewrite Hk, Z.div_mul by lia. lia.
Qed.

Lemma chunks_concat : forall A n (l : list A), (0 < n)%nat -> concat (chunks n l) = l.
Proof.
  intros A n l Hn. remember (length l) as k eqn:Hk.
  revert l Hk. induction k as [k IH] using lt_wf_ind. intros l Hk.
  destruct l as [|x l]; [reflexivity|].
  rewrite chunks_cons_unfold by assumption. cbn [concat].
  rewrite (IH (length (skipn n (x :: l)))); [apply firstn_skipn | | reflexivity].
  rewrite skipn_length. subst k. cbn [length]; lia.
Qed.

Lemma chunks_length : forall A n (l : list A), (0 < n)%nat -> (Z.of_nat n | zlen l) ->
  zlen (chunks n l) = zlen l / Z.of_nat n.
Proof.
  intros A n l Hn Hd. destruct (divide_length_nat n l Hn Hd) as [q [Hq Hq']].
  destruct (chunks_exact n Hn q l Hq) as [H1 _]. unfold zlen at 1. now rewrite H1.
Qed.

(** every chunk has n elements when n divides the length *)
Lemma chunks_all_full : forall A n (l : list A), (0 < n)%nat -> (Z.of_nat n | zlen l) ->
  Forall (fun ch => length ch = n) (chunks n l).
Proof.
  intros A n l Hn Hd. destruct (divide_length_nat n l Hn Hd) as [q [Hq _]].
  now destruct (chunks_exact n Hn q l Hq).
Qed.

(** slicing the chunk list = slicing the flat list at multiples of n *)
Lemma concat_zslice_chunks : forall A n (l : list A) a b, (0 < n)%nat ->
  (Z.of_nat n | zlen l) -> 0 <= a ->
  concat (zslice (chunks n l) a b) = zslice l (a * Z.of_nat n) (b * Z.of_nat n).
Proof.
  intros A n l a b Hn Hd Ha.
  pose proof (chunks_all_full A n l Hn Hd) as Hf.
  unfold zslice.
  rewrite (concat_firstn_full n) by now apply Forall_skipn'.
  rewrite (concat_skipn_full n) by assumption.
  rewrite chunks_concat by assumption.
  f_equal; [|f_equal].
  - destruct (Z.le_gt_cases a b) as [Hab|Hab].
    + apply Nat2Z.inj. rewrite Nat2Z.inj_mul, !Z2Nat.id by nia. ring.
    + replace (Z.to_nat (b - a)) with 0%nat by lia.
      replace (Z.to_nat (b * Z.of_nat n - a * Z.of_nat n)) with 0%nat by nia.
      reflexivity.
  - apply Nat2Z.inj. rewrite Nat2Z.inj_mul, !Z2Nat.id by nia. ring.
Qed.

(* ------------------------------------------------------------------ *)
(** * Index normalisation scales with the sample size *)

(** THE key fact behind [__getitem__]: normalising a byte offset against a
    byte length that is a multiple of the sample size is normalising the
    sample index against the sample count. *)
Lemma norm_idx_scale N k i : 0 <= N -> 0 < k ->
  norm_idx (N * k) (i * k) = norm_idx N i * k.
Proof.
  intros HN Hk. unfold norm_idx.
  destruct (i <? 0) eqn:E1; destruct (i * k <? 0) eqn:E2; try nia.
Qed.

(** The hand-normalised start of [__getitem__], then clamped by the byte slice. *)
Lemma norm_idx_scale_start N k i : 0 <= N -> 0 < k ->
  norm_idx (N * k) ((if i <? 0 then Z.max (i + N) 0 else i) * k) = norm_idx N i * k.
Proof.
  intros HN Hk. unfold norm_idx.
  destruct (i <? 0) eqn:E1.
  - destruct (Z.max (i + N) 0 * k <? 0) eqn:E2; nia.
  - destruct (i * k <? 0) eqn:E2; nia.
Qed.

(* ------------------------------------------------------------------ *)
(** * Regions *)

Definition wf {B} (r : region B) : Prop := 0 < bps r /\ (bps r | zlen (rdata r)).

Lemma wf_len {B} (r : region B) : wf r ->
  zlen (rdata r) = rlen r * bps r /\ 0 <= rlen r.
Proof.
  intros [Hk [c Hc]]. unfold rlen. rewrite Hc, Z.div_mul by lia.
  split; [reflexivity|]. pose proof (zlen_nonneg (rdata r)). nia.
Qed.

Definition lo_idx (N : Z) (a : option Z) : Z :=
  match a with None => 0 | Some i => norm_idx N i end.
Definition hi_idx (N : Z) (b : option Z) : Z :=
  match b with None => N | Some i => norm_idx N i end.

Lemma lo_idx_range N a : 0 <= N -> 0 <= lo_idx N a <= N.
Proof. intros HN; destruct a; cbn [lo_idx]; [now apply norm_idx_range | lia]. Qed.

Lemma hi_idx_range N b : 0 <= N -> 0 <= hi_idx N b <= N.
Proof. intros HN; destruct b; cbn [hi_idx]; [now apply norm_idx_range | lia]. Qed.

(** The bytes of [r[a:b]] are the byte slice at the normalised sample bounds. *)
Lemma getitem_data {B} (r : region B) a b : wf r ->
  rdata (getitem r a b)
  = zslice (rdata r) (lo_idx (rlen r) a * bps r) (hi_idx (rlen r) b * bps r).
Proof.
  intros Hwf. destruct (wf_len r Hwf) as [HL HN]. destruct Hwf as [Hk Hd].
  unfold getitem. cbn [rdata]. fold (rlen r). unfold py_slice.
  rewrite HL. f_equal.
  - rewrite norm_idx_scale_start by assumption.
    destruct a as [x|]; cbn [lo_idx]; [reflexivity|].
    unfold norm_idx. destruct (0 <? 0) eqn:E; lia.
  - destruct b as [y|]; cbn [hi_idx]; [|reflexivity].
    now apply norm_idx_scale.
Qed.

Lemma getitem_params {B} (r : region B) a b :
  rate (getitem r a b) = rate r /\ width (getitem r a b) = width r
  /\ nch (getitem r a b) = nch r.
Proof. unfold getitem; cbn [rate width nch]; auto. Qed.

Lemma getitem_bps {B} (r : region B) a b : bps (getitem r a b) = bps r.
Proof. reflexivity. Qed.

Theorem C16_len : forall B (r : region B), wf r -> rlen r = zlen (samples r).
Proof.
  intros B r [Hk Hd]. unfold samples, rlen.
  rewrite chunks_length; rewrite ?Z2Nat.id; try lia; assumption.
Qed.

Lemma samples_full {B} (r : region B) : wf r ->
  Forall (fun ch => length ch = Z.to_nat (bps r)) (samples r).
Proof.
  intros [Hk Hd]. unfold samples. apply chunks_all_full; [lia|].
  rewrite Z2Nat.id by lia. assumption.
Qed.

(** C16: region[a:b] IS Python slicing of the sample sequence, for ALL a b. *)
Theorem C16_slice : forall B (r : region B) (a b : option Z), wf r ->
  rdata (getitem r a b) = concat (py_slice (samples r) a b)
  /\ rate (getitem r a b) = rate r /\ width (getitem r a b) = width r
  /\ nch (getitem r a b) = nch r.
Proof.
  intros B r a b Hwf. split; [|apply getitem_params].
  rewrite getitem_data by assumption.
  destruct (wf_len r Hwf) as [HL HN].
  unfold py_slice. rewrite <- (C16_len B r Hwf).
  fold (lo_idx (rlen r) a). fold (hi_idx (rlen r) b).
  destruct Hwf as [Hk Hd]. unfold samples.
  rewrite concat_zslice_chunks.
  - now rewrite Z2Nat.id by lia.
  - lia.
  - rewrite Z2Nat.id by lia. assumption.
  - now apply lo_idx_range.
Qed.

Theorem C16_wf : forall B (r : region B) a b, wf r -> wf (getitem r a b).
Proof.
  intros B r a b Hwf. destruct (C16_slice B r a b Hwf) as [Hd _].
  pose proof (samples_full r Hwf) as Hf.
  destruct Hwf as [Hk _]. split; [now rewrite getitem_bps|].
  rewrite getitem_bps, Hd.
  rewrite (zlen_concat_full (Z.to_nat (bps r))).
  - rewrite Z2Nat.id by lia. apply Z.divide_factor_r.
  - unfold py_slice. now apply Forall_zslice.
Qed.

(** A slice with in-range bounds. *)
Lemma getitem_range {B} (r : region B) a b : wf r -> 0 <= a <= b -> b <= rlen r ->
  rdata (getitem r (Some a) (Some b)) = zslice (rdata r) (a * bps r) (b * bps r)
  /\ rlen (getitem r (Some a) (Some b)) = b - a.
Proof.
  intros Hwf Hab Hb.
  assert (Hd : rdata (getitem r (Some a) (Some b))
               = zslice (rdata r) (a * bps r) (b * bps r)).
  { rewrite getitem_data by assumption. cbn [lo_idx hi_idx]. unfold norm_idx.
    destruct (a <? 0) eqn:Ea; [lia|]. destruct (b <? 0) eqn:Eb; [lia|].
    now rewrite !Z.min_l by lia. }
  split; [exact Hd|].
  destruct (wf_len r Hwf) as [HL HN]. destruct Hwf as [Hk _].
  unfold rlen at 1. rewrite getitem_bps, Hd, zlen_zslice by nia.
  rewrite HL.
  replace (Z.max 0 (Z.min (b * bps r - a * bps r) (rlen r * bps r - a * bps r)))
    with ((b - a) * bps r) by nia.
  apply Z.div_mul. lia.
Qed.

Theorem C16_millis : forall B (r : region B) a b,
  ms_getitem r a b
  = sec_getitem r (Some (ms_to_sec (match a with Some x => x | None => 0 end)))
                  (option_map ms_to_sec b).
Proof. reflexivity. Qed.

(* ------------------------------------------------------------------ *)
(** * C17: construction, concatenation, repetition, join, equality *)

Lemma well_formed_iff {B} (d : list B) w ch : 0 < w * ch ->
  well_formed d w ch = true <-> (w * ch | zlen d).
Proof.
  intros Hk. unfold well_formed. rewrite Z.eqb_eq. split.
  - intros H. exists (zlen d / (w * ch)). lia.
  - intros [c Hc]. rewrite Hc, Z.div_mul by lia. reflexivity.
Qed.

Lemma make_ok {B} (d : list B) sr w ch : 0 < w * ch -> (w * ch | zlen d) ->
  make d sr w ch = Ok (mkRegion d sr w ch).
Proof.
  intros Hk Hd. unfold make.
  now rewrite (proj2 (well_formed_iff d w ch Hk) Hd).
Qed.

Theorem C17_make : forall B (d : list B) sr w ch, 0 < w * ch ->
  (make d sr w ch = Ok (mkRegion d sr w ch) <-> (w * ch | zlen d))
  /\ (~ (w * ch | zlen d) -> make d sr w ch = Err AudioParameterError).
Proof.
  intros B d sr w ch Hk. unfold make.
  pose proof (well_formed_iff d w ch Hk) as Hiff.
  destruct (well_formed d w ch) eqn:E.
  - split; [split; [intros _; now apply Hiff | reflexivity]|].
    intros Hn. exfalso. apply Hn. now apply Hiff.
  - split; [split; [discriminate|]|reflexivity].
    intros Hd. apply Hiff in Hd. discriminate.
Qed.

Lemma same_params_iff {B} (r1 r2 : region B) :
  same_params r1 r2 = true <-> rate r1 = rate r2 /\ width r1 = width r2 /\ nch r1 = nch r2.
Proof. unfold same_params. rewrite !andb_true_iff, !Z.eqb_eq. tauto. Qed.

Lemma same_params_bps {B} (r1 r2 : region B) : same_params r1 r2 = true -> bps r2 = bps r1.
Proof. intros H. apply same_params_iff in H. unfold bps. destruct H as [_ [-> ->]]. reflexivity. Qed.

Theorem C17_add : forall B (r1 r2 : region B), wf r1 -> wf r2 -> same_params r1 r2 = true ->
  add r1 r2 = Ok (mkRegion (rdata r1 ++ rdata r2) (rate r1) (width r1) (nch r1)).
Proof.
  intros B r1 r2 [Hk1 Hd1] [Hk2 Hd2] Hs. unfold add. rewrite Hs.
  rewrite (same_params_bps _ _ Hs) in Hd2.
  apply make_ok; [exact Hk1|]. rewrite zlen_app. now apply Z.divide_add_r.
Qed.

Theorem C17_add_mismatch : forall B (r1 r2 : region B), same_params r1 r2 = false ->
  add r1 r2 = Err AudioParameterError.
Proof. intros B r1 r2 Hs. unfold add. now rewrite Hs. Qed.

Lemma zlen_repeat_list {A} (l : list A) n : zlen (repeat_list l n) = Z.of_nat n * zlen l.
Proof.
  induction n as [|n IH]; [reflexivity|].
  cbn [repeat_list]. rewrite zlen_app, IH. lia.
Qed.

Theorem C17_mul : forall B (r : region B) n, wf r ->
  mul r n = Ok (mkRegion (repeat_list (rdata r) (Z.to_nat n)) (rate r) (width r) (nch r)).
Proof.
  intros B r n [Hk Hd]. unfold mul. apply make_ok; [exact Hk|].
  rewrite zlen_repeat_list. now apply Z.divide_mul_r.
Qed.

Lemma divide_intercalate {A} k (sep : list A) ls : (k | zlen sep) ->
  Forall (fun l => (k | zlen l)) ls -> (k | zlen (intercalate sep ls)).
Proof.
  intros Hsep. induction 1 as [|x ls Hx Hls IH].
  - cbn [intercalate]. rewrite zlen_nil. apply Z.divide_0_r.
  - destruct ls as [|y ls]; [exact Hx|].
    change (intercalate sep (x :: y :: ls)) with (x ++ sep ++ intercalate sep (y :: ls)).
    rewrite !zlen_app. repeat apply Z.divide_add_r; assumption.
Qed.

Theorem C17_join : forall B (sep : region B) others, wf sep -> Forall wf others ->
  forallb (same_params sep) others = true ->
  join sep others = Ok (mkRegion (intercalate (rdata sep) (map rdata others))
                                 (rate sep) (width sep) (nch sep)).
Proof.
  intros B sep others [Hk Hd] Hwf Hs. unfold join. rewrite Hs.
  apply make_ok; [exact Hk|]. apply divide_intercalate; [exact Hd|].
  rewrite forallb_forall in Hs. rewrite Forall_forall in Hwf.
  apply Forall_forall. intros l Hl. apply in_map_iff in Hl.
  destruct Hl as [o [<- Ho]].
  destruct (Hwf o Ho) as [_ Hdo]. rewrite (same_params_bps _ _ (Hs o Ho)) in Hdo.
  exact Hdo.
Qed.

Theorem C17_join_mismatch : forall B (sep : region B) others,
  forallb (same_params sep) others = false -> join sep others = Err AudioParameterError.
Proof. intros B sep others Hs. unfold join. now rewrite Hs. Qed.

Lemma zlen_repeat {A} (x : A) n : zlen (repeat x n) = Z.of_nat n.
Proof. unfold zlen. now rewrite repeat_length. Qed.

(** The float-free core of [make_silence]: [n * w * ch] zero bytes always form a
    region.  ([C17_silence] below mentions Flocq's [Bmult] in its statement, and
    that constant carries validity proofs done with the axioms of the Reals.) *)
Lemma silence_make_ok : forall sr w ch n, 0 < w -> 0 < ch -> 0 <= n ->
  make (repeat 0 (Z.to_nat (n * w * ch))) sr w ch
  = Ok (mkRegion (repeat 0 (Z.to_nat (n * w * ch))) sr w ch).
Proof.
  intros sr w ch n Hw Hch Hn.
  apply make_ok; [nia|]. rewrite zlen_repeat, Z2Nat.id by nia.
  exists n. ring.
Qed.

Theorem C17_silence : forall d sr w ch n, 0 < w -> 0 < ch ->
  py_round (fmul d (of_Z sr)) = Some n -> 0 <= n ->
  make_silence d sr w ch = Ok (mkRegion (repeat 0 (Z.to_nat (n * w * ch))) sr w ch).
Proof.
  intros d sr w ch n Hw Hch Hr Hn. unfold make_silence, silence_size. rewrite Hr.
  now apply silence_make_ok.
Qed.

Lemma list_eqb_iff : forall a b : list Z, list_eqb a b = true <-> a = b.
Proof.
  unfold list_eqb. induction a as [|x a IH]; intros [|y b].
  - split; reflexivity.
  - split; discriminate.
  - split; discriminate.
  - cbn [length Nat.eqb combine forallb fst snd].
    specialize (IH b). rewrite andb_true_iff in IH.
    rewrite !andb_true_iff, Z.eqb_eq. split.
    + intros [Hl [Hxy Hf]]. subst y. f_equal. apply IH. now split.
    + intros H. injection H as -> ->. split; [|split]; try reflexivity; now apply IH.
Qed.

Theorem C17_eq : forall r1 r2 : region Z, region_eqb r1 r2 = true <->
  (rdata r1 = rdata r2 /\ rate r1 = rate r2 /\ width r1 = width r2 /\ nch r1 = nch r2).
Proof.
  intros r1 r2. unfold region_eqb.
  rewrite andb_true_iff, list_eqb_iff, same_params_iff. tauto.
Qed.

(* ------------------------------------------------------------------ *)
(** * float -> int conversions on exact dyadic values *)

Lemma pow2_pos e : e < 0 -> 0 < 2 ^ (- e).
Proof. intros He. apply Z.pow_pos_nonneg; lia. Qed.

Theorem dy_trunc_spec : forall m e, e < 0 -> let d := 2 ^ (- e) in
  (0 <= m -> dy_trunc m e * d <= m < (dy_trunc m e + 1) * d)
  /\ (m <= 0 -> (dy_trunc m e - 1) * d < m <= dy_trunc m e * d).
Proof.
  intros m e He d. pose proof (pow2_pos e He) as Hd. fold d in Hd.
  unfold dy_trunc, dy_ceil, dy_floor.
  destruct (0 <=? e) eqn:Ee; [lia|]. fold d.
  pose proof (Z.div_mod m d ltac:(lia)) as Hm.
  pose proof (Z.mod_pos_bound m d Hd) as Hr.
  pose proof (Z.div_mod (- m) d ltac:(lia)) as Hm'.
  pose proof (Z.mod_pos_bound (- m) d Hd) as Hr'.
  destruct (0 <=? m) eqn:Em; split; intros Hs; try nia.
  assert (m = 0) by lia. subst m. rewrite Z.div_0_l by lia. lia.
Qed.

Theorem dy_round_spec : forall m e, e < 0 -> let d := 2 ^ (- e) in
  2 * Z.abs (dy_round m e * d - m) <= d
  /\ (2 * Z.abs (dy_round m e * d - m) = d -> Z.even (dy_round m e) = true).
Proof.
  intros m e He d. pose proof (pow2_pos e He) as Hd. fold d in Hd.
  unfold dy_round. destruct (0 <=? e) eqn:Ee; [lia|]. fold d.
  pose proof (Z.div_mod m d ltac:(lia)) as Hm.
  pose proof (Z.mod_pos_bound m d Hd) as Hr.
  set (q := m / d) in *. set (r := m mod d) in *.
  destruct (2 * r <? d) eqn:E1; [split; nia|].
  destruct (d <? 2 * r) eqn:E2; [split; nia|].
  destruct (Z.even q) eqn:E3.
  - split; [nia|]. intros _. exact E3.
  - split; [nia|]. intros _.
    replace (q + 1) with (Z.succ q) by lia. rewrite Z.even_succ, <- Z.negb_even, E3.
    reflexivity.
Qed.

Theorem dy_int_exact : forall m e, 0 <= e ->
  dy_trunc m e = m * 2 ^ e /\ dy_round m e = m * 2 ^ e.
Proof.
  intros m e He. unfold dy_trunc, dy_round, dy_ceil, dy_floor.
  destruct (0 <=? e) eqn:Ee; [|lia].
  destruct (0 <=? m); split; try reflexivity. ring.
Qed.

(* ------------------------------------------------------------------ *)
(** * C17: division into n nearly equal pieces *)

Lemma div_loop_eq {B} fuel (r : region B) len q rest onset :
  div_loop fuel r len q rest onset =
  if onset <? len then
    match fuel with
    | O => Err OutOfFuel
    | S f =>
        let extra := if 0 <? rest then 1 else 0 in
        let rest' := if 0 <? rest then rest - 1 else rest in
        let offset := extra + onset + q in
        match div_loop f r len q rest' offset with
        | Ok l => Ok (getitem r (Some onset) (Some offset) :: l)
        | Err e => Err e
        end
    end
  else Ok [].
Proof. destruct fuel; reflexivity. Qed.

Definition piece_ok {B} (r : region B) (q : Z) (p : region B) : Prop :=
  wf p /\ rate p = rate r /\ width p = width r /\ nch p = nch r
  /\ (rlen p = q \/ rlen p = q + 1).

(** Loop invariant with [j] iterations to go: the remaining [len - onset]
    samples are [j] blocks of [q] plus [rest] extras, one extra per block while
    they last; when [q = 0] the loop stops exactly when the extras run out. *)
Lemma div_loop_spec {B} (r : region B) q : wf r -> 0 <= q ->
  forall (j fuel : nat) onset rest,
  0 <= onset -> rlen r - onset = Z.of_nat j * q + rest ->
  0 <= rest <= Z.of_nat j -> (q = 0 -> rest = Z.of_nat j) -> (j <= fuel)%nat ->
  exists pieces, div_loop fuel r (rlen r) q rest onset = Ok pieces
    /\ length pieces = j
    /\ concat (map rdata pieces)
       = zslice (rdata r) (onset * bps r) (rlen r * bps r)
    /\ Forall (piece_ok r q) pieces.
Proof.
  intros Hwf Hq. induction j as [|j IH]; intros fuel onset rest Hon Hlen Hrest Hq0 Hfuel.
  - exists []. rewrite div_loop_eq.
    assert (Hrest0 : rest = 0) by lia.
    assert (Heq : onset = rlen r) by lia.
    destruct (onset <? rlen r) eqn:E; [lia|].
    split; [reflexivity|]. split; [reflexivity|]. split; [|constructor].
    rewrite Heq, zslice_empty. reflexivity.
  - rewrite div_loop_eq.
    assert (Hlt : onset < rlen r) by nia.
    destruct (onset <? rlen r) eqn:E; [|lia].
    destruct fuel as [|fuel]; [lia|].
    cbv zeta.
    set (extra := if 0 <? rest then 1 else 0).
    set (rest' := if 0 <? rest then rest - 1 else rest).
    assert (Hex : 0 <= extra <= 1 /\ rest' = rest - extra /\ extra <= rest
                  /\ (rest = 0 -> extra = 0) /\ (0 < rest -> extra = 1)).
    { unfold extra, rest'. destruct (0 <? rest) eqn:Er; lia. }
    clearbody extra rest'.
    destruct (IH fuel (extra + onset + q) rest') as [l [Hl [Hlen' [Hcat Hall]]]];
      try nia.
    rewrite Hl. eexists. split; [reflexivity|].
    destruct (getitem_range r onset (extra + onset + q) Hwf) as [Hd Hrl]; try nia.
    split; [cbn [length]; lia|]. split.
    + cbn [map concat]. rewrite Hcat, Hd.
      destruct Hwf as [Hk _]. apply zslice_app; nia.
    + constructor; [|exact Hall].
      unfold piece_ok. split; [now apply C16_wf|].
      destruct (getitem_params r (Some onset) (Some (extra + onset + q))) as [H1 [H2 H3]].
      repeat split; try assumption. lia.
Qed.

(** division: for a non-empty well-formed region and n >= 1 *)
Theorem C17_div : forall B (r : region B) n, wf r -> 0 < rlen r -> 1 <= n ->
  exists pieces, div r n = Ok pieces
    /\ zlen pieces = Z.min n (rlen r)
    /\ concat (map rdata pieces) = rdata r
    /\ Forall (fun p => wf p /\ rate p = rate r /\ width p = width r /\ nch p = nch r
                        /\ (rlen p = rlen r / n \/ rlen p = rlen r / n + 1)) pieces.
Proof.
  intros B r n Hwf Hpos Hn. unfold div.
  destruct (n <=? 0) eqn:En; [lia|].
  pose proof (Z.div_mod (rlen r) n ltac:(lia)) as Hdm.
  pose proof (Z.mod_pos_bound (rlen r) n ltac:(lia)) as Hmb.
  assert (Hq : 0 <= rlen r / n) by (apply Z.div_pos; lia).
  assert (Hcase : (rlen r < n /\ rlen r / n = 0 /\ rlen r mod n = rlen r)
                  \/ (n <= rlen r /\ 0 < rlen r / n)).
  { destruct (Z.lt_ge_cases (rlen r) n) as [Hlt|Hge].
    - left. rewrite Z.div_small, Z.mod_small by lia. lia.
    - right. split; [lia|]. apply Z.div_str_pos. lia. }
  destruct (div_loop_spec r (rlen r / n) Hwf Hq
              (Z.to_nat (Z.min n (rlen r))) (S (Z.to_nat (rlen r))) 0 (rlen r mod n))
    as [pieces [Hp [Hlen [Hcat Hall]]]]; try lia.
  - destruct Hcase as [[H1 [H2 H3]]|[H1 H2]].
    + rewrite H2, H3. lia.
    + rewrite Z2Nat.id, Z.min_l by lia. lia.
  - exists pieces. split; [exact Hp|]. split; [unfold zlen; lia|]. split.
    + rewrite Hcat. destruct (wf_len r Hwf) as [HL _].
      rewrite <- HL. cbn [Z.mul]. apply zslice_full.
    + exact Hall.
Qed.

(** lengths differ by at most one sample *)
Corollary C17_div_balanced : forall B (r : region B) n pieces, wf r -> 0 < rlen r ->
  1 <= n -> div r n = Ok pieces ->
  forall p q, In p pieces -> In q pieces -> Z.abs (rlen p - rlen q) <= 1.
Proof.
  intros B r n pieces Hwf Hpos Hn Hdiv p q Hp Hq.
  destruct (C17_div B r n Hwf Hpos Hn) as [pieces' [Hd' [_ [_ Hall]]]].
  rewrite Hdiv in Hd'. injection Hd' as <-.
  rewrite Forall_forall in Hall.
  destruct (Hall p Hp) as [_ [_ [_ [_ Hlp]]]].
  destruct (Hall q Hq) as [_ [_ [_ [_ Hlq]]]].
  lia.
Qed.

Theorem C17_div_type_error : forall B (r : region B) n, n <= 0 -> div r n = Err TypeError.
Proof. intros B r n Hn. unfold div. destruct (n <=? 0) eqn:E; [reflexivity | lia]. Qed.

(* ------------------------------------------------------------------ *)
(** * Non-vacuity: concrete instances *)

(** 5 samples, 2 channels, 2 bytes per channel sample: bytes 0..19. *)
Definition ex5 : region Z := mkRegion (map Z.of_nat (seq 0 20)) 1000 2 2.

Example ex5_wf : wf ex5.
Proof. split; [reflexivity | exists 5; reflexivity]. Qed.

Example ex5_len : rlen ex5 = 5 /\ zlen (samples ex5) = 5.
Proof. split; vm_compute; reflexivity. Qed.

Example ex5_neg_start : rdata (getitem ex5 (Some (-2)) None) = [12;13;14;15;16;17;18;19].
Proof. vm_compute; reflexivity. Qed.

Example ex5_neg_stop :
  rdata (getitem ex5 (Some 1) (Some (-1))) = [4;5;6;7;8;9;10;11;12;13;14;15]
  /\ concat (py_slice (samples ex5) (Some 1) (Some (-1))) = [4;5;6;7;8;9;10;11;12;13;14;15].
Proof. split; vm_compute; reflexivity. Qed.

Example ex5_out_of_range :
  rdata (getitem ex5 (Some (-100)) (Some 100)) = rdata ex5
  /\ rdata (getitem ex5 (Some 7) (Some 9)) = []
  /\ rdata (getitem ex5 (Some 4) (Some 2)) = []
  /\ rdata (getitem ex5 None (Some (-100))) = []
  /\ concat (py_slice (samples ex5) (Some (-100)) (Some 100)) = rdata ex5.
Proof. repeat split; vm_compute; reflexivity. Qed.

(** ms view at 1000 Hz: [1 ms, 3 ms) is samples 1 and 2. *)
Example ex5_ms :
  option_map rdata (ms_getitem ex5 (Some 1) (Some 3)) = Some [4;5;6;7;8;9;10;11].
Proof. vm_compute; reflexivity. Qed.

Example ex_dy :
  dy_round 5 (-1) = 2 /\ dy_round 7 (-1) = 4 /\ dy_round (-5) (-1) = -2
  /\ dy_trunc 7 (-1) = 3 /\ dy_trunc (-7) (-1) = -3 /\ dy_round 11 (-2) = 3
  /\ dy_trunc 3 2 = 12.
Proof. repeat split; vm_compute; reflexivity. Qed.

Example ex5_add :
  add ex5 ex5 = Ok (mkRegion (rdata ex5 ++ rdata ex5) 1000 2 2)
  /\ same_params ex5 ex5 = true
  /\ add ex5 (mkRegion [] 8000 2 2) = Err AudioParameterError.
Proof. repeat split; vm_compute; reflexivity. Qed.

Example ex5_mul :
  mul ex5 2 = Ok (mkRegion (rdata ex5 ++ rdata ex5) 1000 2 2)
  /\ mul ex5 (-3) = Ok (mkRegion [] 1000 2 2).
Proof. split; vm_compute; reflexivity. Qed.

Definition exsep : region Z := mkRegion [0;0;0;0] 1000 2 2.

Example ex5_join :
  Forall wf [ex5; exsep; ex5] /\ forallb (same_params exsep) [ex5; exsep; ex5] = true
  /\ join exsep [ex5; exsep; ex5]
     = Ok (mkRegion (rdata ex5 ++ [0;0;0;0] ++ [0;0;0;0] ++ [0;0;0;0] ++ rdata ex5) 1000 2 2).
Proof.
  split; [|split; vm_compute; reflexivity].
  assert (Hsep : wf exsep) by (split; [reflexivity | exists 1; reflexivity]).
  pose proof ex5_wf. repeat (apply Forall_cons; [assumption|]). apply Forall_nil.
Qed.

Example ex_make :
  make [1;2;3;4] 8000 2 1 = Ok (mkRegion [1;2;3;4] 8000 2 1)
  /\ make [1;2;3] 8000 2 1 = Err AudioParameterError /\ ~ (2 * 1 | zlen [1;2;3]).
Proof.
  split; [reflexivity|]. split; [reflexivity|].
  intros [c Hc]. change (zlen [1;2;3]) with 3 in Hc. lia.
Qed.

(** make_silence(0.5, 16000, 2, 1): 8000 samples. *)
Example ex_silence :
  py_round (fmul (ms_to_sec 500) (of_Z 16000)) = Some 8000
  /\ make_silence (ms_to_sec 500) 16000 2 1
     = Ok (mkRegion (repeat 0 (Z.to_nat (8000 * 2 * 1))) 16000 2 1).
Proof.
  assert (H : py_round (fmul (ms_to_sec 500) (of_Z 16000)) = Some 8000)
    by (vm_compute; reflexivity).
  split; [exact H|].
  exact (C17_silence (ms_to_sec 500) 16000 2 1 8000 eq_refl eq_refl H ltac:(lia)).
Qed.

Example ex_eq :
  region_eqb ex5 ex5 = true /\ region_eqb ex5 exsep = false
  /\ region_eqb exsep (mkRegion [0;0;0;0] 8000 2 2) = false.
Proof. repeat split; vm_compute; reflexivity. Qed.

(** 7 samples of 2 bytes, divided by 3: pieces of 3, 2 and 2 samples. *)
Definition ex7 : region Z := mkRegion (map Z.of_nat (seq 0 14)) 8000 1 2.

Example ex7_wf : wf ex7 /\ 0 < rlen ex7.
Proof. split; [split; [reflexivity | exists 7; reflexivity] | reflexivity]. Qed.

Example ex7_div3 :
  div ex7 3 = Ok [mkRegion [0;1;2;3;4;5] 8000 1 2; mkRegion [6;7;8;9] 8000 1 2;
                  mkRegion [10;11;12;13] 8000 1 2]
  /\ match div ex7 3 with Ok l => map rlen l | Err _ => [] end = [3;2;2].
Proof. split; vm_compute; reflexivity. Qed.

(** More parts than samples: one sample each, [min n len] pieces. *)
Example ex7_div10 :
  match div ex7 10 with Ok l => map rlen l | Err _ => [] end = [1;1;1;1;1;1;1]
  /\ div ex7 0 = Err TypeError.
Proof. split; vm_compute; reflexivity. Qed.

(* ------------------------------------------------------------------ *)
Print Assumptions chunks_concat.
Print Assumptions chunks_length.
Print Assumptions chunks_all_full.
Print Assumptions concat_zslice_chunks.
Print Assumptions C16_slice.
Print Assumptions C16_wf.
Print Assumptions C16_len.
Print Assumptions C16_millis.
Print Assumptions dy_trunc_spec.
Print Assumptions dy_round_spec.
Print Assumptions dy_int_exact.
Print Assumptions C17_add.
Print Assumptions C17_add_mismatch.
Print Assumptions C17_mul.
Print Assumptions C17_join.
Print Assumptions C17_join_mismatch.
Print Assumptions C17_make.
Print Assumptions C17_silence.
Print Assumptions C17_div.
Print Assumptions C17_div_balanced.
Print Assumptions C17_div_type_error.
Print Assumptions C17_eq.
(* The Reals axioms listed for C16_millis and C17_silence come from the
   constants in their STATEMENTS (Flocq's Bdiv / Bmult inside ms_to_sec / fmul),
   not from the proofs: the definitions alone already depend on them, and the
   float-free core of C17_silence is closed. *)
Print Assumptions ms_to_sec.
Print Assumptions fmul.
Print Assumptions silence_make_ok.
