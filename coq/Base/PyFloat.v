(** Python floats: IEEE-754 binary64 with round-to-nearest-even, as Flocq's
    [binary_float 53 1024] (computable by vm_compute, extractable).  The
    float->int conversions Python offers are defined directly on the
    (sign, mantissa, exponent) triple with Z arithmetic. *)
From Coq Require Import ZArith Bool Lia.
From Flocq Require Import Core.Core IEEE754.BinarySingleNaN.
Open Scope Z_scope.

Definition prec := 53.
Definition emax := 1024.

Lemma prec_gt_0_ : Prec_gt_0 prec.
Proof. reflexivity. Qed.
Lemma prec_lt_emax_ : Prec_lt_emax prec emax.
Proof. reflexivity. Qed.
#[global] Existing Instance prec_gt_0_.
#[global] Existing Instance prec_lt_emax_.

Definition f64 := binary_float prec emax.

(** The double nearest to m * 2^e (ties to even). *)
Definition of_me (m e : Z) : f64 := binary_normalize prec emax prec_gt_0_ prec_lt_emax_ mode_NE m e false.

(** Python int -> float conversion (correctly rounded; exact below 2^53). *)
Definition of_Z (z : Z) : f64 := of_me z 0.

Definition fmul (x y : f64) : f64 := Bmult mode_NE x y.
Definition fdiv (x y : f64) : f64 := Bdiv mode_NE x y.
Definition fadd (x y : f64) : f64 := Bplus mode_NE x y.
Definition fsub (x y : f64) : f64 := Bminus mode_NE x y.

(** Exact value as (signed mantissa, exponent); None for inf / nan. *)
Definition to_me (x : f64) : option (Z * Z) :=
  match x with
  | B754_zero _ => Some (0, 0)
  | B754_finite s m e _ => Some (cond_Zopp s (Zpos m), e)
  | _ => None
  end.

Definition fcmp (x y : f64) : option comparison := Bcompare x y.
Definition flt (x y : f64) : bool := match fcmp x y with Some Lt => true | _ => false end.
Definition fle (x y : f64) : bool := match fcmp x y with Some Lt | Some Eq => true | _ => false end.
Definition feq (x y : f64) : bool := match fcmp x y with Some Eq => true | _ => false end.

Definition fzero : f64 := B754_zero false.

(* ---- conversions to int, on the exact dyadic value m * 2^e -------------- *)

(** floor of m * 2^e *)
Definition dy_floor (m e : Z) : Z :=
  if 0 <=? e then m * 2 ^ e else m / 2 ^ (- e).

Definition dy_ceil (m e : Z) : Z := - dy_floor (- m) e.

(** truncation toward zero: Python int(x) *)
Definition dy_trunc (m e : Z) : Z :=
  if 0 <=? m then dy_floor m e else dy_ceil m e.

(** round half to even: Python round(x) *)
Definition dy_round (m e : Z) : Z :=
  if 0 <=? e then m * 2 ^ e
  else
    let d := 2 ^ (- e) in
    let q := m / d in
    let r := m mod d in               (* 0 <= r < d *)
    if 2 * r <? d then q
    else if d <? 2 * r then q + 1
    else if Z.even q then q else q + 1.

Definition on_me (f : Z -> Z -> Z) (x : f64) : option Z :=
  match to_me x with Some (m, e) => Some (f m e) | None => None end.

(** int(x), round(x), math.floor(x), math.ceil(x); None = Python raises
    (OverflowError / ValueError on inf / nan). *)
Definition py_int := on_me dy_trunc.
Definition py_round := on_me dy_round.
Definition py_floor := on_me dy_floor.
Definition py_ceil := on_me dy_ceil.
