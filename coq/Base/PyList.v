(** Python sequence semantics used by every model: lengths in Z, slicing with
    CPython's index normalisation (PySlice_AdjustIndices, step 1), chunking. *)
From Coq Require Import ZArith List Bool Lia.
Import ListNotations.
Open Scope Z_scope.

Definition zlen {A} (l : list A) : Z := Z.of_nat (length l).

(** CPython: a negative index is shifted by the length then clamped at 0; a
    non-negative one is clamped at the length. *)
Definition norm_idx (n i : Z) : Z :=
  if i <? 0 then Z.max (i + n) 0 else Z.min i n.

Definition zslice {A} (l : list A) (a b : Z) : list A :=
  firstn (Z.to_nat (b - a)) (skipn (Z.to_nat a) l).

Definition py_slice {A} (l : list A) (lo hi : option Z) : list A :=
  let n := zlen l in
  let a := match lo with None => 0 | Some i => norm_idx n i end in
  let b := match hi with None => n | Some i => norm_idx n i end in
  zslice l a b.

(** [l[i]] for an in-range non-negative index. *)
Definition znth_opt {A} (l : list A) (i : Z) : option A :=
  if i <? 0 then None else nth_error l (Z.to_nat i).

Fixpoint chunks_fuel {A} (fuel n : nat) (l : list A) : list (list A) :=
  match fuel with
  | O => []
  | S f => match l with
           | [] => []
           | _ => firstn n l :: chunks_fuel f n (skipn n l)
           end
  end.

(** Successive blocks of [n] elements, the last one possibly shorter
    ([n >= 1]; with [n = 0] the fuel runs out, callers exclude it). *)
Definition chunks {A} (n : nat) (l : list A) : list (list A) :=
  chunks_fuel (length l) n l.

Fixpoint intercalate {A} (sep : list A) (ls : list (list A)) : list A :=
  match ls with
  | [] => []
  | [x] => x
  | x :: rest => x ++ sep ++ intercalate sep rest
  end.

Fixpoint repeat_list {A} (l : list A) (n : nat) : list A :=
  match n with O => [] | S k => l ++ repeat_list l k end.

(* ------------------------------------------------------------------ *)

Lemma zlen_nil {A} : zlen (@nil A) = 0.
Proof. reflexivity. Qed.

Lemma zlen_cons {A} (x : A) l : zlen (x :: l) = zlen l + 1.
Proof. unfold zlen; simpl length; lia. Qed.

Lemma zlen_app {A} (l1 l2 : list A) : zlen (l1 ++ l2) = zlen l1 + zlen l2.
Proof. unfold zlen; rewrite app_length; lia. Qed.

Lemma zlen_nonneg {A} (l : list A) : 0 <= zlen l.
Proof. unfold zlen; lia. Qed.

Lemma zlen_zero_nil {A} (l : list A) : zlen l = 0 -> l = [].
Proof. destruct l; [reflexivity | rewrite zlen_cons; pose proof (zlen_nonneg l); lia]. Qed.

Lemma zlen_firstn {A} (l : list A) n :
  zlen (firstn n l) = Z.min (Z.of_nat n) (zlen l).
Proof. unfold zlen; rewrite firstn_length; lia. Qed.

Lemma zlen_skipn {A} (l : list A) n :
  zlen (skipn n l) = Z.max 0 (zlen l - Z.of_nat n).
Proof. unfold zlen; rewrite skipn_length; lia. Qed.

Lemma zlen_map {A B} (f : A -> B) l : zlen (map f l) = zlen l.
Proof. unfold zlen; now rewrite map_length. Qed.

Lemma zlen_zslice {A} (l : list A) a b :
  0 <= a -> zlen (zslice l a b) = Z.max 0 (Z.min (b - a) (zlen l - a)).
Proof.
  intros Ha; unfold zslice; rewrite zlen_firstn, zlen_skipn; lia.
Qed.

Lemma norm_idx_range n i : 0 <= n -> 0 <= norm_idx n i <= n.
Proof. unfold norm_idx; destruct (i <? 0) eqn:E; lia. Qed.

(** The slice the tokenizer uses to drop [k] trailing frames. *)
Lemma py_slice_drop_tail {A} (l : list A) k :
  0 < k <= zlen l ->
  py_slice l (Some 0) (Some (- k)) = firstn (Z.to_nat (zlen l - k)) l.
Proof.
  intros Hk; unfold py_slice, zslice, norm_idx.
  replace (0 <? 0) with false by reflexivity.
  destruct (- k <? 0) eqn:E; [|lia].
  rewrite Z.min_l by apply zlen_nonneg.
  rewrite Z.max_l by lia. simpl skipn.
  f_equal. lia.
Qed.

Lemma py_slice_all {A} (l : list A) : py_slice l None None = l.
Proof.
  unfold py_slice, zslice; simpl. rewrite Z.sub_0_r.
  unfold zlen; rewrite Nat2Z.id. apply firstn_all.
Qed.

Lemma zslice_app_exact {A} (l1 l2 l3 : list A) :
  zslice (l1 ++ l2 ++ l3) (zlen l1) (zlen l1 + zlen l2) = l2.
Proof.
  unfold zslice, zlen.
  replace (Z.to_nat (Z.of_nat (length l1))) with (length l1) by lia.
  replace (Z.to_nat (_ + _ - _)) with (length l2) by lia.
  rewrite skipn_app, skipn_all, Nat.sub_diag; simpl.
  rewrite firstn_app, Nat.sub_diag, firstn_all; simpl. apply app_nil_r.
Qed.

Lemma py_slice_app_exact {A} (l1 l2 l3 : list A) :
  py_slice (l1 ++ l2 ++ l3) (Some (zlen l1)) (Some (zlen l1 + zlen l2)) = l2.
Proof.
  unfold py_slice, norm_idx.
  pose proof (zlen_nonneg l1); pose proof (zlen_nonneg l2); pose proof (zlen_nonneg l3).
  destruct (zlen l1 <? 0) eqn:E1; [lia|].
  destruct (zlen l1 + zlen l2 <? 0) eqn:E2; [lia|].
  rewrite !zlen_app.
  rewrite !Z.min_l by lia.
  apply zslice_app_exact.
Qed.

Lemma firstn_app_length {A} (l1 l2 : list A) : firstn (length l1) (l1 ++ l2) = l1.
Proof. rewrite firstn_app, Nat.sub_diag, firstn_all; simpl. apply app_nil_r. Qed.

Lemma skipn_app_length {A} (l1 l2 : list A) : skipn (length l1) (l1 ++ l2) = l2.
Proof. rewrite skipn_app, skipn_all, Nat.sub_diag; reflexivity. Qed.
