(** Universal value type for the executable API shared by the OCaml driver and
    the vm_compute cross-check: integers and nested lists. *)
From Coq Require Import ZArith List Bool.
From AV Require Import Base.PyList Base.PyFloat Tok.Model.
Import ListNotations.
Open Scope Z_scope.

Inductive tree := Leaf (z : Z) | Node (l : list tree).

Definition tZ (t : tree) : Z := match t with Leaf z => z | Node _ => 0 end.
Definition tL (t : tree) : list tree := match t with Node l => l | Leaf _ => [] end.
Definition tB (t : tree) : bool := negb (tZ t =? 0).
Definition tN (t : tree) : nat := Z.to_nat (tZ t).
Definition tZs (t : tree) : list Z := map tZ (tL t).
Definition tBs (t : tree) : list bool := map tB (tL t).
Definition tOpt {T} (f : tree -> T) (t : tree) : option T :=
  match t with Node [x] => Some (f x) | _ => None end.
Definition tF (t : tree) : f64 :=
  match t with Node [Leaf m; Leaf e] => of_me m e | _ => fzero end.
Definition arg (t : tree) (i : nat) : tree := nth i (tL t) (Leaf 0).

Definition eZ (z : Z) : tree := Leaf z.
Definition eB (b : bool) : tree := Leaf (if b then 1 else 0).
Definition eL {T} (f : T -> tree) (l : list T) : tree := Node (map f l).
Definition eZs (l : list Z) : tree := eL eZ l.
Definition eOpt {T} (f : T -> tree) (o : option T) : tree :=
  match o with Some x => Node [f x] | None => Node [] end.
Definition eF (x : f64) : tree :=
  match to_me x with Some (m, e) => Node [Leaf m; Leaf e] | None => Node [] end.

Definition err_code (e : err) : Z :=
  match e with
  | ValueError => 1 | TypeError => 2 | IndexError => 3 | AudioIOError => 4
  | AudioParameterError => 5 | RuntimeError => 6 | AttributeError => 7
  | TimeFormatError => 8 | TooSmallBlockDuration => 9 | OutOfFuel => 99
  end.

(** Ok v -> [0, v] ; Err e -> [1, code] *)
Definition eRes {T} (f : T -> tree) (r : result T) : tree :=
  match r with Ok v => Node [Leaf 0; f v] | Err e => Node [Leaf 1; Leaf (err_code e)] end.
