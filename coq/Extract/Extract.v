(** Extraction of the API to OCaml. ExtrOcamlBasic only: bool, option, unit,
    list, prod, sumbool map to OCaml's own types; Z, positive, nat stay the
    extracted inductive types; no Extract Constant. *)
Require Extraction.
Require Import ExtrOcamlBasic.
From AV Require Import Extract.Api.
Extraction Language OCaml.
Extraction "api.ml" Api.dispatch.
