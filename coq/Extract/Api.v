(** The executable face of the models: one function [dispatch op args] from
    trees to trees, extracted to OCaml (volume) and evaluated by vm_compute
    (cross-check of the extraction). Each op decodes its arguments, runs the
    model definition unchanged, and encodes the result. *)
From Coq Require Import ZArith List Bool.
From AV Require Import Base.PyList Base.PyFloat Tok.Model Tok.Spec Tok.OnlineSpec
  Audio.Region IO.Source IO.Load IO.Reader Audio.Pcm IO.Wav Audio.Energy Split.Duration Cli.Format
  Conc.Workers Conc.Monitor Split.Split Extract.Tree.
Import ListNotations.
Open Scope Z_scope.

(* ------------------------------------------------------------ tokenizer *)

Definition eTok (t : token Z) : tree := Node [Leaf (tok_start t); Leaf (tok_end t); eZs (tok_data t)].

(** frames are their own stream positions 0..n-1 *)
Definition number (vs : list bool) : list (Z * bool) :=
  combine (map Z.of_nat (seq 0 (length vs))) vs.

Definition with_cfg {T} (a : tree) (k : config -> result T) : result T :=
  match validate (tZ (arg a 0)) (tZ (arg a 1)) (tZ (arg a 2)) (tZ (arg a 3)) (tZ (arg a 4)) (tZ (arg a 5)) with
  | Ok c => k c
  | Err e => Err e
  end.

(* 1: [mn mx ms imin ims mode verdicts] -> tokens *)
Definition api_tokenize (a : tree) : tree :=
  eRes (eL eTok) (with_cfg a (fun c => Ok (tokenize c (number (tBs (arg a 6)))))).

(* 2: same input -> tokens with the read count at hand-over *)
Definition api_run_idx (a : tree) : tree :=
  eRes (eL (fun tr : token Z * Z => Node [eTok (fst tr); Leaf (snd tr)]))
       (with_cfg a (fun c => Ok (run_idx c (reinit init_st) (number (tBs (arg a 6)))))).

(* 3: same input -> greedy segmentation of the verdicts *)
Definition api_segment (a : tree) : tree :=
  eRes (eL (fun p : Z * Z => Node [Leaf (fst p); Leaf (snd p)]))
       (with_cfg a (fun c => Ok (segment c (tBs (arg a 6))))).

(* 4: [cfg..., verdicts1, verdicts2] -> tokens of stream 2 on a tokenizer that first consumed stream 1 *)
Definition api_tokenize_reuse (a : tree) : tree :=
  eRes (eL eTok) (with_cfg a (fun c =>
    let s1 := fst (run c (reinit init_st) (number (tBs (arg a 6)))) in
    Ok (tokenize_from c s1 (number (tBs (arg a 7)))))).

(* 5: [cfg..., [verdicts, verdicts, ...]] -> list of token lists (one config, many streams) *)
Definition api_tokenize_many (a : tree) : tree :=
  eRes (eL (eL eTok)) (with_cfg a (fun c => Ok (map (fun vs => tokenize c (number (tBs vs))) (tL (arg a 6))))).

(* 6: [[mn mx ms imin ims mode], ...] -> 0 if the constructor accepts, else the error code *)
Definition api_validate_many (a : tree) : tree :=
  eL (fun t => match validate (tZ (arg t 0)) (tZ (arg t 1)) (tZ (arg t 2)) (tZ (arg t 3)) (tZ (arg t 4)) (tZ (arg t 5)) with
               | Ok _ => Leaf 0 | Err e => Leaf (err_code e) end) (tL a).

(* 7: [cfg..., [verdicts...]] -> list of run_idx results *)
Definition api_run_idx_many (a : tree) : tree :=
  eRes (eL (eL (fun tr : token Z * Z => Node [eTok (fst tr); Leaf (snd tr)])))
       (with_cfg a (fun c => Ok (map (fun vs => run_idx c (reinit init_st) (number (tBs vs))) (tL (arg a 6))))).

(* 8: [cfg..., [verdicts...]] -> list of segmentations *)
Definition api_segment_many (a : tree) : tree :=
  eRes (eL (eL (fun p : Z * Z => Node [Leaf (fst p); Leaf (snd p)])))
       (with_cfg a (fun c => Ok (map (fun vs => segment c (tBs vs)) (tL (arg a 6))))).


(* ------------------------------------------------------------ regions *)

Definition dRegion (t : tree) : region Z :=
  mkRegion (tZs (arg t 0)) (tZ (arg t 1)) (tZ (arg t 2)) (tZ (arg t 3)).
Definition eRegion (r : region Z) : tree :=
  Node [eZs (Region.rdata r); Leaf (Region.rate r); Leaf (Region.width r); Leaf (Region.nch r)].

(* 10: [region, aOpt, bOpt] -> region *)
Definition api_getitem (a : tree) : tree :=
  eRegion (getitem (dRegion (arg a 0)) (tOpt tZ (arg a 1)) (tOpt tZ (arg a 2))).
(* 11: [region, aOptF, bOptF] -> option region (seconds view) *)
Definition api_sec_getitem (a : tree) : tree :=
  eOpt eRegion (sec_getitem (dRegion (arg a 0)) (tOpt tF (arg a 1)) (tOpt tF (arg a 2))).
(* 12: [region, aOpt, bOpt] -> option region (milliseconds view) *)
Definition api_ms_getitem (a : tree) : tree :=
  eOpt eRegion (ms_getitem (dRegion (arg a 0)) (tOpt tZ (arg a 1)) (tOpt tZ (arg a 2))).

(* region expressions: [0,i] pool  [1,e1,e2] add  [2,e,n] mul  [3,sep,[es]] join
   [4,e,n,k] k-th piece of e/n  [5,durF,sr,w,ch] make_silence  [6,e,aOpt,bOpt] slice
   [7,data,sr,w,ch] construct *)
Fixpoint eval_rexp (fuel : nat) (pool : list (region Z)) (e : tree) : result (region Z) :=
  match fuel with
  | O => Err OutOfFuel
  | S f =>
      let ev := eval_rexp f pool in
      match tZ (arg e 0) with
      | 0 => match nth_error pool (tN (arg e 1)) with Some r => Ok r | None => Err IndexError end
      | 1 => bind (ev (arg e 1)) (fun r1 => bind (ev (arg e 2)) (fun r2 => add r1 r2))
      | 2 => bind (ev (arg e 1)) (fun r => mul r (tZ (arg e 2)))
      | 3 => bind (ev (arg e 1)) (fun sep =>
               bind (fold_right (fun x acc => bind (ev x) (fun r => bind acc (fun l => Ok (r :: l))))
                                (Ok []) (tL (arg e 2)))
                    (fun others => join sep others))
      | 4 => bind (ev (arg e 1)) (fun r =>
               bind (div r (tZ (arg e 2))) (fun ps =>
                 match nth_error ps (tN (arg e 3)) with Some x => Ok x | None => Err IndexError end))
      | 5 => make_silence (tF (arg e 1)) (tZ (arg e 2)) (tZ (arg e 3)) (tZ (arg e 4))
      | 6 => bind (ev (arg e 1)) (fun r => Ok (getitem r (tOpt tZ (arg e 2)) (tOpt tZ (arg e 3))))
      | 7 => make (tZs (arg e 1)) (tZ (arg e 2)) (tZ (arg e 3)) (tZ (arg e 4))
      | _ => Err TypeError
      end
  end.

(* 13: [[pool regions], exp] -> result region *)
Definition api_rexp (a : tree) : tree :=
  eRes eRegion (eval_rexp 64 (map dRegion (tL (arg a 0))) (arg a 1)).
(* 14: [region, n] -> result (list region) *)
Definition api_div (a : tree) : tree :=
  eRes (eL eRegion) (div (dRegion (arg a 0)) (tZ (arg a 1))).
(* 15: [r1, r2] -> bool *)
Definition api_region_eq (a : tree) : tree :=
  eB (region_eqb (dRegion (arg a 0)) (dRegion (arg a 1))).

(* ------------------------------------------------------------ sources *)

Definition dOp (t : tree) : op :=
  match tZ (arg t 0) with
  | 0 => Open | 1 => Close | 2 => Rewind
  | 3 => Read (tOpt tZ (arg t 1))
  | 4 => GetPos | 5 => GetPosS | 6 => GetPosMs
  | 7 => SetPos (tZ (arg t 1))
  | 8 => SetPosS (tF (arg t 1))
  | _ => SetPosMs (tZ (arg t 1))
  end.
Definition eOut (o : @out Z) : tree :=
  match o with
  | OUnit => Node [Leaf 0]
  | ONone => Node [Leaf 1]
  | OData d => Node [Leaf 2; eZs d]
  | OInt z => Node [Leaf 3; Leaf z]
  | OFloat x => Node [Leaf 4; eF x]
  | OErr e => Node [Leaf 5; Leaf (err_code e)]
  end.
Definition dAudio (t : tree) : audio Z := mkAudio (tZs (arg t 0)) (tZ (arg t 1)) (tZ (arg t 2)).

(* 20: [[bytes, rate, bps], [ops]] -> outs of a buffer source *)
Definition api_bsteps (a : tree) : tree :=
  eL eOut (snd (bsteps (dAudio (arg a 0)) init_b (map dOp (tL (arg a 1))))).

Fixpoint fsteps (restart : bool) (au : audio Z) (s : fstate) (ops : list op) : list (@out Z) :=
  match ops with
  | [] => []
  | o :: r => let '(s1, x) := fstep restart au s o in x :: fsteps restart au s1 r
  end.
(* 21: [restart, [bytes, rate, bps], [ops]] -> outs of a file-like source *)
Definition api_fsteps (a : tree) : tree :=
  eL eOut (fsteps (tB (arg a 0)) (dAudio (arg a 1)) init_f (map dOp (tL (arg a 2)))).

(* ------------------------------------------------------------ reader *)

Definition dRop (t : tree) : rop := match tZ t with 0 => RRead | 1 => RRewind | _ => RData end.
Definition eRout (o : @rout Z) : tree :=
  match o with
  | RBlock b => Node [Leaf 0; eOpt eZs b]
  | RUnit => Node [Leaf 1]
  | RBytes d => Node [Leaf 2; eZs d]
  | RErr e => Node [Leaf 3; Leaf (err_code e)]
  end.
(* 30: [samples, W, HOpt, record, mxOpt, [rops]] -> routs *)
Definition api_reader (a : tree) : tree :=
  eL eRout (snd (rsteps (mk_reader (tZs (arg a 0)) (tZ (arg a 1)) (tOpt tZ (arg a 2)) (tB (arg a 3)) (tOpt tZ (arg a 4)))
                        (map dRop (tL (arg a 5))))).
(* 31: [rate, blockF, hopOptF, maxOptF] -> result [W, HOpt, mxOpt] *)
Definition api_reader_params (a : tree) : tree :=
  eRes (fun r : Z * option Z * option Z => Node [Leaf (fst (fst r)); eOpt eZ (snd (fst r)); eOpt eZ (snd r)])
       (reader_params (tZ (arg a 0)) (tF (arg a 1)) (tOpt tF (arg a 2)) (tOpt tF (arg a 3))).

(* ------------------------------------------------------------ durations *)

Definition dEps (t : tree) : option f64 :=
  match tZ t with 1 => Some eps_pos | 2 => Some eps_neg | _ => None end.
(* 40: [dF, wF, rnd(0 floor,1 ceil), eps(0,1,2)] -> result Z *)
Definition api_nbw (a : tree) : tree :=
  eRes eZ (nbw (tF (arg a 0)) (tF (arg a 1)) (if tB (arg a 2) then RCeil else RFloor) (dEps (arg a 3))).
Definition e4 (r : Z * Z * Z * Z) : tree :=
  let '(mn, mx, ms, W) := r in Node [Leaf mn; Leaf mx; Leaf ms; Leaf W].
(* 41: [minF, maxF, silF, awF, rate] *)
Definition api_split_params (a : tree) : tree :=
  eRes e4 (split_params (tF (arg a 0)) (tF (arg a 1)) (tF (arg a 2)) (tF (arg a 3)) (tZ (arg a 4))).
(* 42: [minF, maxF, silF, W, rate] *)
Definition api_split_params_reader (a : tree) : tree :=
  eRes e4 (split_params_reader (tF (arg a 0)) (tF (arg a 1)) (tF (arg a 2)) (tZ (arg a 3)) (tZ (arg a 4))).

(* ------------------------------------------------------------ formatter *)

(* 50: [fmt chars, xF] -> result chars ; 51: [fmt chars] -> 0 / error code *)
Definition api_format_time (a : tree) : tree := eRes eZs (format_time (tZs (arg a 0)) (tF (arg a 1))).
Definition api_formatter_ok (a : tree) : tree := eRes (fun _ => Leaf 0) (formatter_ok (tZs (arg a 0))).

(* ------------------------------------------------------------ pcm / wav / energy *)

Definition dSel (t : tree) : sel :=
  match tZ (arg t 0) with 0 => SAny | 1 => SMix | 2 => SIdx (tZ (arg t 1)) | _ => SBad end.
(* 60: [w, ch, sel, p, q, data] -> result bool *)
Definition api_is_valid (a : tree) : tree :=
  eRes eB (is_valid (tN (arg a 0)) (tN (arg a 1)) (dSel (arg a 2)) (tZ (arg a 3)) (tZ (arg a 4)) (tZs (arg a 5))).
(* 61: [w, ch, data] -> channels *)
Definition api_to_array (a : tree) : tree := eL eZs (to_array (tN (arg a 0)) (tN (arg a 1)) (tZs (arg a 2))).
(* 62: [rate, w, ch, data] -> file bytes ; 63: file bytes -> option [rate, w, ch, data] *)
Definition api_wav_encode (a : tree) : tree :=
  eZs (wav_encode (mkWav (tZ (arg a 0)) (tZ (arg a 1)) (tZ (arg a 2)) (tZs (arg a 3)))).
Definition api_wav_decode (a : tree) : tree :=
  eOpt (fun x => Node [Leaf (wrate x); Leaf (wwidth x); Leaf (wch x); eZs (wdata x)]) (wav_decode (tZs a)).


(* ------------------------------------------------------------ split *)

Definition eSplitRegion (rate w ch W : Z) (r : list Z * Z * Z) : tree :=
  let '(d, s, e) := r in
  Node [eZs d; Leaf s; Leaf e; eF (region_start s W rate); eF (region_end s W rate (zlen d) w ch);
        eF (region_duration (zlen d) rate w ch)].

(* 70: [data, rate, w, ch, minF, maxF, silF, awF, strict, drop, sel, p, q, mxOpt] -> result regions *)
Definition api_split_energy (a : tree) : tree :=
  let rate := tZ (arg a 1) in let w := tZ (arg a 2) in let ch := tZ (arg a 3) in
  let W := match py_int (fmul (tF (arg a 7)) (of_Z rate)) with Some x => x | None => 0 end in
  eRes (eL (eSplitRegion rate w ch W))
       (split_energy (tZs (arg a 0)) rate w ch (tF (arg a 4)) (tF (arg a 5)) (tF (arg a 6)) (tF (arg a 7))
                     (tB (arg a 8)) (tB (arg a 9)) (dSel (arg a 10)) (tZ (arg a 11)) (tZ (arg a 12)) (tOpt tZ (arg a 13))).

(* 71: [data, rate, w, ch, minF, maxF, silF, awF, strict, drop, verdicts, mxOpt] -> result regions *)
Definition api_split_custom (a : tree) : tree :=
  let rate := tZ (arg a 1) in let w := tZ (arg a 2) in let ch := tZ (arg a 3) in
  let W := match py_int (fmul (tF (arg a 7)) (of_Z rate)) with Some x => x | None => 0 end in
  eRes (eL (eSplitRegion rate w ch W))
       (split_custom (tZs (arg a 0)) rate w ch (tF (arg a 4)) (tF (arg a 5)) (tF (arg a 6)) (tF (arg a 7))
                     (tB (arg a 8)) (tB (arg a 9)) (tBs (arg a 10)) (tOpt tZ (arg a 11))).

(* 64: [data, rate, bytes per sample, skip option F, max_read option F] -> result data   (core._read_offline) *)
Definition api_read_offline (a : tree) : tree :=
  eRes eZs (read_offline (mkAudio (tZs (arg a 0)) (tZ (arg a 1)) (tZ (arg a 2))) (tOpt tF (arg a 3)) (tOpt tF (arg a 4))).

(* 72: [tF, rate] -> option round(t*rate)  (max_read in samples) *)
Definition api_round_mul (a : tree) : tree := eOpt eZ (py_round (fmul (tF (arg a 0)) (of_Z (tZ (arg a 1))))).

(* ------------------------------------------------------------ workers (trace monitor) *)

Definition dEvent (t : tree) : event (A:=Z) :=
  match tZ (arg t 0) with
  | 0 => ETokPoll (tB (arg t 1))
  | 1 => ETokRead (tOpt tZ (arg t 1))
  | 2 => ETokPutObs (tN (arg t 1)) (tZ (arg t 2))
  | 3 => ETokPutSavStop
  | 4 => ETokJoinSav
  | 5 => ETokExit
  | 6 => EObsGet (tN (arg t 1)) (tZ (arg t 2))
  | 7 => EObsExit (tN (arg t 1))
  | 8 => ESavGet (tZ (arg t 1))
  | 9 => ESavDrain (tZ (arg t 1))
  | 10 => ESavExit
  | 11 => EMainStop (tB (arg t 1))
  | 12 => EMainJoinTok
  | 13 => EMainPutObs (tN (arg t 1))
  | 14 => EMainJoinObs (tN (arg t 1))
  | 15 => EMainPutSavStop
  | 16 => EMainJoinSav
  | _ => EMainDone
  end.

Definition eDet (m : Z * token Z) : tree := Node [Leaf (fst m); Leaf (tok_start (snd m)); Leaf (tok_end (snd m))].
Definition eChoice (ch : choice) : tree :=
  match ch with
  | CTok => Node [Leaf 0]
  | CObs j t => Node [Leaf 1; Leaf (Z.of_nat j); eB t]
  | CSav t => Node [Leaf 2; eB t]
  | CMain s => Node [Leaf 3; eB s]
  end.
Definition tpc_code (p : tpc Z) : Z :=
  match p with TPoll => 0 | TRead => 1 | TNotify _ _ _ => 2 | TStopNotify _ => 3 | TClose => 4 | TJoinSav => 5 | TExit => 6 end.
Definition mpc_code (p : mpc) : Z :=
  match p with MIdle => 0 | MJoinTok => 1 | MStopObs _ => 2 | MJoinObs _ => 3 | MCloseReader => 4 | MJoinSav => 5 | MDone => 6 end.

Definition eSys (y : sys Z) : tree :=
  Node [Leaf (tpc_code (tpcv y)); Leaf (mpc_code (mpcv y)); Leaf (nread y);
        eL eDet (dets y);
        eL (fun o : obs Z => Node [eL eDet (processed o); eB (match opcv o with OExit => true | ORun => false end);
                                    Leaf (zlen (oinbox o))]) (observers y);
        eOpt (fun v : saver Z => Node [eZs (written v); eB (closed_file v);
                                       eB (match spcv v with SExit => true | _ => false end); eZs (scache v)]) (sav y);
        eB (all_workers_exited y); eB (all_exited y)].

(* every event's LAST element is the observed length of the worker's detections list after the turn *)
(* 80: [mn mx ms imin ims mode verdicts bszs nobs with_saver cache_size events]
       -> result [accepted, sys, schedule] *)
Definition api_monitor (a : tree) : tree :=
  eRes (fun r : nat * sys Z * list choice =>
          let '(n, y, l) := r in Node [Leaf (Z.of_nat n); eSys y; eL eChoice l])
       (with_cfg a (fun c =>
          let bszs := tZs (arg a 7) in
          let bsz := fun i : Z => nth (Z.to_nat i) bszs 0 in
          Ok (monitor_obs c bsz (tZ (arg a 10)) Z.eqb
                      (init_sys (number (tBs (arg a 6))) (tN (arg a 8)) (tB (arg a 9)) init_st)
                      (map (fun t => (dEvent t, tZ (arg t (length (tL t) - 1)))) (tL (arg a 11)))))).

(* 81: [cfg..., verdicts, bszs, nobs, with_saver, cache_size, schedule(as printed by 80)] -> sys (exec of a schedule) *)
Definition dChoice (t : tree) : choice :=
  match tZ (arg t 0) with
  | 0 => CTok
  | 1 => CObs (tN (arg t 1)) (tB (arg t 2))
  | 2 => CSav (tB (arg t 1))
  | _ => CMain (tB (arg t 1))
  end.
Definition api_exec (a : tree) : tree :=
  eRes eSys
       (with_cfg a (fun c =>
          let bszs := tZs (arg a 7) in
          let bsz := fun i : Z => nth (Z.to_nat i) bszs 0 in
          Ok (exec c bsz (tZ (arg a 10))
                   (init_sys (number (tBs (arg a 6))) (tN (arg a 8)) (tB (arg a 9)) init_st)
                   (map dChoice (tL (arg a 11)))))).

Definition dispatch (op : Z) (a : tree) : tree :=
  match op with
  | 1 => api_tokenize a
  | 2 => api_run_idx a
  | 3 => api_segment a
  | 4 => api_tokenize_reuse a
  | 5 => api_tokenize_many a
  | 6 => api_validate_many a
  | 7 => api_run_idx_many a
  | 8 => api_segment_many a
  | 10 => api_getitem a
  | 11 => api_sec_getitem a
  | 12 => api_ms_getitem a
  | 13 => api_rexp a
  | 14 => api_div a
  | 15 => api_region_eq a
  | 20 => api_bsteps a
  | 21 => api_fsteps a
  | 30 => api_reader a
  | 31 => api_reader_params a
  | 40 => api_nbw a
  | 41 => api_split_params a
  | 42 => api_split_params_reader a
  | 50 => api_format_time a
  | 51 => api_formatter_ok a
  | 60 => api_is_valid a
  | 61 => api_to_array a
  | 62 => api_wav_encode a
  | 63 => api_wav_decode a
  | 64 => api_read_offline a
  | 70 => api_split_energy a
  | 71 => api_split_custom a
  | 72 => api_round_mul a
  | 80 => api_monitor a
  | 81 => api_exec a
  | _ => Node [Leaf 1; Leaf (-1)]
  end.
