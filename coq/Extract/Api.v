(** The executable face of the models: one function [dispatch op args] from
    trees to trees, extracted to OCaml (volume) and evaluated by vm_compute
    (cross-check of the extraction). Each op decodes its arguments, runs the
    model definition unchanged, and encodes the result. *)
From Coq Require Import ZArith List Bool.
From AV Require Import Base.PyList Base.PyFloat Tok.Model Tok.Spec Tok.OnlineSpec
  Audio.Region IO.Source IO.Reader Audio.Pcm IO.Wav Audio.Energy Split.Duration Cli.Format
  Conc.Workers Extract.Tree.
Import ListNotations.
Open Scope Z_scope.

(* ------------------------------------------------------------ tokenizer *)

Definition eTok (t : token Z) : tree := Node [Leaf (tok_start t); Leaf (tok_end t); eZs (tok_data t)].

(** frames are their own stream positions 0..n-1 *)
Definition number (vs : list bool) : list (Z * bool) :=
  combine (map Z.of_nat (seq 0 (length vs))) vs.

Definition with_cfg {T} (a : tree) (k : config -> result T) : result T :=
  match validate (tZ (arg a 0)) (tZ (arg a 1)) (tZ (arg a 2)) (tZ (arg a 3)) (tZ (arg a 4)) (tZ (arg a 5)) with
  | Ok c => k c
  | Err e => Err e
  end.

(* 1: [mn mx ms imin ims mode verdicts] -> tokens *)
Definition api_tokenize (a : tree) : tree :=
  eRes (eL eTok) (with_cfg a (fun c => Ok (tokenize c (number (tBs (arg a 6)))))).

(* 2: same input -> tokens with the read count at hand-over *)
Definition api_run_idx (a : tree) : tree :=
  eRes (eL (fun tr : token Z * Z => Node [eTok (fst tr); Leaf (snd tr)]))
       (with_cfg a (fun c => Ok (run_idx c (reinit init_st) (number (tBs (arg a 6)))))).

(* 3: same input -> greedy segmentation of the verdicts *)
Definition api_segment (a : tree) : tree :=
  eRes (eL (fun p : Z * Z => Node [Leaf (fst p); Leaf (snd p)]))
       (with_cfg a (fun c => Ok (segment c (tBs (arg a 6))))).

(* 4: [cfg..., verdicts1, verdicts2] -> tokens of stream 2 on a tokenizer that first consumed stream 1 *)
Definition api_tokenize_reuse (a : tree) : tree :=
  eRes (eL eTok) (with_cfg a (fun c =>
    let s1 := fst (run c (reinit init_st) (number (tBs (arg a 6)))) in
    Ok (tokenize_from c s1 (number (tBs (arg a 7)))))).

(* 5: [cfg..., [verdicts, verdicts, ...]] -> list of token lists (one config, many streams) *)
Definition api_tokenize_many (a : tree) : tree :=
  eRes (eL (eL eTok)) (with_cfg a (fun c => Ok (map (fun vs => tokenize c (number (tBs vs))) (tL (arg a 6))))).

(* 6: [[mn mx ms imin ims mode], ...] -> 0 if the constructor accepts, else the error code *)
Definition api_validate_many (a : tree) : tree :=
  eL (fun t => match validate (tZ (arg t 0)) (tZ (arg t 1)) (tZ (arg t 2)) (tZ (arg t 3)) (tZ (arg t 4)) (tZ (arg t 5)) with
               | Ok _ => Leaf 0 | Err e => Leaf (err_code e) end) (tL a).

(* 7: [cfg..., [verdicts...]] -> list of run_idx results *)
Definition api_run_idx_many (a : tree) : tree :=
  eRes (eL (eL (fun tr : token Z * Z => Node [eTok (fst tr); Leaf (snd tr)])))
       (with_cfg a (fun c => Ok (map (fun vs => run_idx c (reinit init_st) (number (tBs vs))) (tL (arg a 6))))).

(* 8: [cfg..., [verdicts...]] -> list of segmentations *)
Definition api_segment_many (a : tree) : tree :=
  eRes (eL (eL (fun p : Z * Z => Node [Leaf (fst p); Leaf (snd p)])))
       (with_cfg a (fun c => Ok (map (fun vs => segment c (tBs vs)) (tL (arg a 6))))).

Definition dispatch (op : Z) (a : tree) : tree :=
  match op with
  | 1 => api_tokenize a
  | 2 => api_run_idx a
  | 3 => api_segment a
  | 4 => api_tokenize_reuse a
  | 5 => api_tokenize_many a
  | 6 => api_validate_many a
  | 7 => api_run_idx_many a
  | 8 => api_segment_many a
  | _ => Node [Leaf 1; Leaf (-1)]
  end.
