"""Table extraction for C15 (fail-closed AST scans, no execution of the code):
 * every parser.add_argument / group.add_argument call of auditok/cmdline.py
   -> (flags, dest, type, default, action)
 * the three dictionaries built by cmdline_util.make_kwargs
   -> (group, keyword, namespace attribute)
Emitted as Gallina (CliGen.v); CliTie.v checks them against the documented
tables of coq/Cli/Options.v by reflexivity and re-derives C15_table over the
generated tables."""
import ast
import os


class ExtractionError(Exception):
    pass


def _const(node, what):
    if isinstance(node, ast.Constant):
        return node.value
    if isinstance(node, ast.Name):
        return "name:" + node.id
    raise ExtractionError("%s is not a literal (line %d)" % (what, node.lineno))


def options(cmdline_py):
    tree = ast.parse(open(cmdline_py).read())
    out = []
    for node in ast.walk(tree):
        if isinstance(node, ast.Call) and isinstance(node.func, ast.Attribute) and node.func.attr == "add_argument":
            flags = []
            for a in node.args:
                v = _const(a, "option flag")
                if not isinstance(v, str):
                    raise ExtractionError("non-string flag at line %d" % node.lineno)
                flags.append(v)
            kw = {}
            for k in node.keywords:
                if k.arg is None:
                    raise ExtractionError("**kwargs in add_argument (line %d)" % node.lineno)
                if k.arg in ("help", "metavar", "version"):
                    continue
                if k.arg not in ("dest", "type", "default", "action", "nargs"):
                    raise ExtractionError("unsupported add_argument keyword %r (line %d)" % (k.arg, node.lineno))
                kw[k.arg] = _const(k.value, k.arg)
            dest = kw.get("dest")
            if dest is None:
                longs = [f for f in flags if f.startswith("--")]
                if not longs:
                    raise ExtractionError("option without dest or long flag (line %d)" % node.lineno)
                dest = longs[0][2:].replace("-", "_")
            typ = kw.get("type", "")
            if isinstance(typ, str) and typ.startswith("name:"):
                typ = typ[5:]
            out.append({"line": node.lineno, "flags": flags, "dest": dest, "type": typ or "",
                        "default": repr(kw["default"]) if "default" in kw else "<none>", "action": kw.get("action", "") or "",
                        "nargs": kw.get("nargs", "") or ""})
    out.sort(key=lambda o: o["line"])
    return out


def kwargs_tables(cmdline_util_py):
    tree = ast.parse(open(cmdline_util_py).read())
    fn = [n for n in tree.body if isinstance(n, ast.FunctionDef) and n.name == "make_kwargs"]
    if len(fn) != 1:
        raise ExtractionError("make_kwargs not found")
    fn = fn[0]
    argname = fn.args.args[0].arg
    dicts = {}
    for st in ast.walk(fn):
        if isinstance(st, ast.Assign) and len(st.targets) == 1 and isinstance(st.targets[0], ast.Name) and isinstance(st.value, ast.Dict):
            rows = []
            for k, v in zip(st.value.keys, st.value.values):
                key = _const(k, "dict key")
                if isinstance(v, ast.Attribute) and isinstance(v.value, ast.Name) and v.value.id == argname:
                    rows.append((key, v.attr))
                elif isinstance(v, ast.Name):
                    rows.append((key, "local:" + v.id))
                else:
                    raise ExtractionError("make_kwargs: value of %r is neither %s.<attr> nor a local (line %d)" % (key, argname, v.lineno))
            dicts[st.targets[0].id] = rows
    # the return statement fixes which dictionary is which group
    ret = [n for n in ast.walk(fn) if isinstance(n, ast.Return)]
    if len(ret) != 1 or not isinstance(ret[0].value, ast.Call) or len(ret[0].value.args) != 3:
        raise ExtractionError("make_kwargs: unexpected return")
    names = []
    for a in ret[0].value.args:
        if not isinstance(a, ast.Name) or a.id not in dicts:
            raise ExtractionError("make_kwargs: return argument is not one of the dictionaries")
        names.append(a.id)
    # locals derived from the namespace (use_channel = int(args_ns.use_channel) or the string; record = plot/save_image)
    local_src = {}
    for st in ast.walk(fn):
        if isinstance(st, ast.Assign) and len(st.targets) == 1 and isinstance(st.targets[0], ast.Name) and not isinstance(st.value, ast.Dict):
            attrs = sorted({n.attr for n in ast.walk(st.value) if isinstance(n, ast.Attribute) and isinstance(n.value, ast.Name) and n.value.id == argname})
            local_src.setdefault(st.targets[0].id, set()).update(attrs)
    rows = []
    for group, name in zip(("io", "split", "miscellaneous"), names):
        for key, src in dicts[name]:
            if src.startswith("local:"):
                srcs = sorted(local_src.get(src[6:], []))
                src = "local:" + src[6:] + "<-" + ",".join(srcs)
            rows.append((group, key, src))
    return rows


def coq_str(s):
    return '"' + str(s).replace('"', '""') + '"'


def emit(repo):
    opts = options(os.path.join(repo, "auditok", "cmdline.py"))
    rows = kwargs_tables(os.path.join(repo, "auditok", "cmdline_util.py"))
    L = ["(* generated from auditok/cmdline.py and auditok/cmdline_util.py - do not edit *)",
         "From Coq Require Import String List.", "From AV Require Import Cli.Options.", "Import ListNotations.", "Open Scope string_scope.", "",
         "Definition options : list opt := ["]
    L.append(";\n".join("  mkOpt [%s] %s %s %s %s %s" % ("; ".join(coq_str(f) for f in o["flags"]), coq_str(o["dest"]), coq_str(o["type"]),
                                                          coq_str(o["default"]), coq_str(o["action"]), coq_str(o["nargs"])) for o in opts))
    L.append("].")
    L.append("")
    L.append("Definition kwargs : list (string * string * string) := [")
    L.append(";\n".join("  (%s, %s, %s)" % (coq_str(g), coq_str(k), coq_str(s)) for g, k, s in rows))
    L.append("].")
    return "\n".join(L) + "\n", opts, rows
