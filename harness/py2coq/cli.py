"""Table extraction for C15 (fail-closed AST scans, no execution of the code):
 * every parser.add_argument / group.add_argument call of auditok/cmdline.py
   -> (flags, dest, type, default, action)
 * the three dictionaries built by cmdline_util.make_kwargs
   -> (group, keyword, namespace attribute)
Emitted as Gallina (CliGen.v); CliTie.v checks them against the documented
tables of coq/Cli/Options.v by reflexivity and re-derives C15_table over the
generated tables."""
import ast
import os


class ExtractionError(Exception):
    pass


MODULE_LITERALS = {}      # module-level names bound to literals (constants hoisted out of the add_argument calls)


def _const(node, what):
    if isinstance(node, ast.Constant):
        return node.value
    if isinstance(node, ast.Name) and node.id in MODULE_LITERALS:
        return MODULE_LITERALS[node.id]
    if isinstance(node, ast.Name):
        return "name:" + node.id
    raise ExtractionError("%s is not a literal (line %d)" % (what, node.lineno))


def _wrappers(tree):
    """module-level helpers whose body is one add_argument call passing their own parameters through:
    name -> (the inner call, name of the *args parameter, parameter names)"""
    out = {}
    for fn in tree.body:
        if not isinstance(fn, ast.FunctionDef):
            continue
        body = [x for x in fn.body if not (isinstance(x, ast.Expr) and isinstance(x.value, ast.Constant))]
        if len(body) == 1 and isinstance(body[0], ast.Expr) and isinstance(body[0].value, ast.Call) \
                and isinstance(body[0].value.func, ast.Attribute) and body[0].value.func.attr == "add_argument":
            out[fn.name] = (body[0].value, fn.args.vararg.arg if fn.args.vararg else None,
                            [a.arg for a in fn.args.args] + [a.arg for a in fn.args.kwonlyargs])
    return out


def _expand(node, wrappers):
    """the add_argument call a statement amounts to: itself, or the body of a wrapper with the arguments substituted"""
    if isinstance(node.func, ast.Attribute) and node.func.attr == "add_argument":
        if any(isinstance(a, ast.Starred) for a in node.args):
            return None                     # the call inside a wrapper: seen through its call sites
        return node
    if isinstance(node.func, ast.Name) and node.func.id in wrappers:
        inner, vararg, params = wrappers[node.func.id]
        given = {k.arg: k.value for k in node.keywords}
        npos = len([p for p in params if p not in given])
        # positional parameters first (the container), the rest feed *args
        pos_params = [p for p in params if p not in given][:len(node.args)]
        extra = node.args[len(pos_params):] if vararg else []
        for p_, a in zip(pos_params, node.args):
            given[p_] = a
        args = []
        for a in inner.args:
            if isinstance(a, ast.Starred) and isinstance(a.value, ast.Name) and a.value.id == vararg:
                args.extend(extra)
            elif isinstance(a, ast.Name) and a.id in given:
                args.append(given[a.id])
            else:
                args.append(a)
        kws = []
        for k in inner.keywords:
            val = given[k.value.id] if isinstance(k.value, ast.Name) and k.value.id in given else k.value
            kws.append(ast.keyword(arg=k.arg, value=val))
        new = ast.Call(func=inner.func, args=args, keywords=kws)
        ast.copy_location(new, node)
        new.lineno = node.lineno
        return ast.fix_missing_locations(new) if False else new
    return None


def options(cmdline_py):
    tree = ast.parse(open(cmdline_py).read())
    wrappers = _wrappers(tree)
    MODULE_LITERALS.clear()
    for n in tree.body:
        if isinstance(n, ast.Assign) and len(n.targets) == 1 and isinstance(n.targets[0], ast.Name) and isinstance(n.value, ast.Constant):
            MODULE_LITERALS[n.targets[0].id] = n.value.value
        elif isinstance(n, ast.AnnAssign) and isinstance(n.target, ast.Name) and isinstance(n.value, ast.Constant):
            MODULE_LITERALS[n.target.id] = n.value.value
    out = []
    for raw in ast.walk(tree):
        if not isinstance(raw, ast.Call):
            continue
        node = _expand(raw, wrappers)
        if node is not None:
            flags = []
            for a in node.args:
                v = _const(a, "option flag")
                if not isinstance(v, str):
                    raise ExtractionError("non-string flag at line %d" % node.lineno)
                flags.append(v)
            kw = {}
            for k in node.keywords:
                if k.arg is None:
                    raise ExtractionError("**kwargs in add_argument (line %d)" % node.lineno)
                if k.arg in ("help", "metavar", "version"):
                    continue
                if k.arg not in ("dest", "type", "default", "action", "nargs"):
                    raise ExtractionError("unsupported add_argument keyword %r (line %d)" % (k.arg, node.lineno))
                kw[k.arg] = _const(k.value, k.arg)
            dest = kw.get("dest")
            if dest is None:
                longs = [f for f in flags if f.startswith("--")]
                if not longs:
                    raise ExtractionError("option without dest or long flag (line %d)" % node.lineno)
                dest = longs[0][2:].replace("-", "_")
            typ = kw.get("type", "")
            if isinstance(typ, str) and typ.startswith("name:"):
                typ = typ[5:]
            out.append({"line": node.lineno, "flags": flags, "dest": dest, "type": typ or "",
                        "default": repr(kw["default"]) if "default" in kw else {"store_true": "False", "store_false": "True"}.get(kw.get("action"), "<none>"), "action": kw.get("action", "") or "",
                        "nargs": kw.get("nargs", "") or ""})
    out.sort(key=lambda o: o["dest"])      # the order of declaration (and of --help) is not part of the tables
    return out


def kwargs_tables(cmdline_util_py):
    tree = ast.parse(open(cmdline_util_py).read())
    fn = [n for n in tree.body if isinstance(n, ast.FunctionDef) and n.name == "make_kwargs"]
    if len(fn) != 1:
        raise ExtractionError("make_kwargs not found")
    fn = fn[0]
    argname = fn.args.args[0].arg
    dicts = {}
    for st in ast.walk(fn):
        if isinstance(st, ast.Assign) and len(st.targets) == 1 and isinstance(st.targets[0], ast.Name) and isinstance(st.value, ast.Dict):
            rows = []
            for k, v in zip(st.value.keys, st.value.values):
                key = _const(k, "dict key")
                if isinstance(v, ast.Attribute) and isinstance(v.value, ast.Name) and v.value.id == argname:
                    rows.append((key, v.attr))
                elif isinstance(v, ast.Name):
                    rows.append((key, "local:" + v.id))
                else:
                    raise ExtractionError("make_kwargs: value of %r is neither %s.<attr> nor a local (line %d)" % (key, argname, v.lineno))
            dicts[st.targets[0].id] = rows
    # the return statement fixes which dictionary is which group
    ret = [n for n in ast.walk(fn) if isinstance(n, ast.Return)]
    if len(ret) != 1 or not isinstance(ret[0].value, ast.Call):
        raise ExtractionError("make_kwargs: unexpected return")
    rargs = list(ret[0].value.args)
    if not rargs and sorted(k.arg or "" for k in ret[0].value.keywords) == ["io", "miscellaneous", "split"]:
        by = {k.arg: k.value for k in ret[0].value.keywords}
        rargs = [by["io"], by["split"], by["miscellaneous"]]
    if len(rargs) != 3:
        raise ExtractionError("make_kwargs: unexpected return")
    names = []
    for a in rargs:
        if not isinstance(a, ast.Name) or a.id not in dicts:
            raise ExtractionError("make_kwargs: return argument is not one of the dictionaries")
        names.append(a.id)
    # locals derived from the namespace (use_channel = int(args_ns.use_channel) or the string; record = plot/save_image)
    local_src = {}
    helpers = {f.name: f for f in tree.body if isinstance(f, ast.FunctionDef)}

    def attrs_of(expr, pname):
        found = {n.attr for n in ast.walk(expr) if isinstance(n, ast.Attribute) and isinstance(n.value, ast.Name) and n.value.id == pname}
        # a helper called with the namespace: the attributes it reads
        for c in ast.walk(expr):
            if isinstance(c, ast.Call) and isinstance(c.func, ast.Name) and c.func.id in helpers and c.func.id != fn.name:
                h = helpers[c.func.id]
                for i, a in enumerate(c.args):
                    if isinstance(a, ast.Name) and a.id == pname and i < len(h.args.args):
                        for b in h.body:
                            found |= attrs_of(b, h.args.args[i].arg)
        return found
    def visit(stmts, guards):
        for st in stmts:
            if isinstance(st, ast.Assign) and len(st.targets) == 1 and isinstance(st.targets[0], ast.Name) and not isinstance(st.value, ast.Dict):
                got = set(attrs_of(st.value, argname))
                for g in guards:            # the tests under which the local gets this value
                    got |= attrs_of(g, argname)
                local_src.setdefault(st.targets[0].id, set()).update(got)
            elif isinstance(st, ast.If):
                visit(st.body, guards + [st.test]); visit(st.orelse, guards + [st.test])
            elif isinstance(st, ast.Try):
                visit(st.body, guards); visit(st.orelse, guards); visit(st.finalbody, guards)
                for h in st.handlers:
                    visit(h.body, guards)
            elif isinstance(st, (ast.With, ast.For, ast.While)):
                visit(st.body, guards)
    visit(fn.body, [])
    rows = []
    for group, name in zip(("io", "split", "miscellaneous"), names):
        for key, src in dicts[name]:
            if src.startswith("local:"):
                srcs = sorted(local_src.get(src[6:], []))
                src = "local:" + src[6:] + "<-" + ",".join(srcs)
            rows.append((group, key, src))
    return rows


def coq_str(s):
    return '"' + str(s).replace('"', '""') + '"'


def emit(repo):
    opts = options(os.path.join(repo, "auditok", "cmdline.py"))
    rows = kwargs_tables(os.path.join(repo, "auditok", "cmdline_util.py"))
    L = ["(* generated from auditok/cmdline.py and auditok/cmdline_util.py - do not edit *)",
         "From Coq Require Import String List.", "From AV Require Import Cli.Options.", "Import ListNotations.", "Open Scope string_scope.", "",
         "Definition options : list opt := ["]
    L.append(";\n".join("  mkOpt [%s] %s %s %s %s %s" % ("; ".join(coq_str(f) for f in o["flags"]), coq_str(o["dest"]), coq_str(o["type"]),
                                                          coq_str(o["default"]), coq_str(o["action"]), coq_str(o["nargs"])) for o in opts))
    L.append("].")
    L.append("")
    L.append("Definition kwargs : list (string * string * string) := [")
    L.append(";\n".join("  (%s, %s, %s)" % (coq_str(g), coq_str(k), coq_str(s)) for g, k, s in rows))
    L.append("].")
    return "\n".join(L) + "\n", opts, rows
