(** Tie: the arithmetic of AudioReader.__init__ and of the constructors of the wrapper classes it instantiates
    (_Limiter: round(max_read * sr); _FixedSizeAudioReader: the sign check, int(block_dur * sr), the one-sample check;
    _OverlapAudioReader: the hop check, then the same, then int(hop_dur * sr); the choice between the two on
    hop_dur is None or hop_dur == block_dur), sliced and translated from /repo's util.py in this run (GenReader.v),
    against IO/Reader.v reader_params -- for all float inputs. *)
From Coq Require Import ZArith List Bool.
From Flocq Require Import IEEE754.BinarySingleNaN.
From AV Require Import Base.PyList Base.PyFloat Tok.Model IO.Reader IO.Layers IO.Layers2.
From AVGen Require Import TieTac GenReader.
Import ListNotations.
Open Scope Z_scope.

Lemma of_Z_0 : of_Z 0 = fzero.
Proof. reflexivity. Qed.

#[local] Opaque fdiv fadd fmul fsub flt fle feq of_me of_Z py_floor py_ceil py_int py_round.

Lemma tie_reader_params block_dur hop_dur max_read sr :
  reader_params_gen block_dur hop_dur max_read sr = reader_params sr block_dur hop_dur max_read.
Proof.
  unfold reader_params_gen, reader_params. rewrite ?of_Z_0. cbv zeta.
  destruct hop_dur as [h|], max_read as [t|]; cbn [negb andb]; timeout 200 walk.
Qed.

(** the read methods of the wrappers, given what the layer below answers to the one request they make *)
Lemma tie_lim_read S (inner : Z -> option (list S)) mx nr n : lim_read_gen inner mx nr n = lim_layer mx nr n inner.
Proof. unfold lim_read_gen, lim_layer. cbv zeta. destruct (Z.min (mx - nr) n <=? 0); [reflexivity|]. destruct (inner _); reflexivity. Qed.

Lemma tie_rec_read S (inner : Z -> option (list S)) cache n : rec_read_gen inner cache n = rec_layer cache n inner.
Proof. unfold rec_read_gen, rec_layer. cbv zeta. destruct (inner n); reflexivity. Qed.

Lemma tie_fixed_read S (inner : Z -> option (list S)) W : fixed_read_gen inner W = fixed_layer W inner.
Proof. unfold fixed_read_gen, fixed_layer. destruct (inner W); reflexivity. Qed.

(** the two kinds of resumption of the generator _iter_blocks_with_overlap *)
Lemma tie_ov_first S (inner : Z -> option (list S)) W H : ov_first_gen inner W H = ov_first W H inner.
Proof. unfold ov_first_gen, ov_first. cbv zeta. destruct (inner W); reflexivity. Qed.

Lemma tie_ov_next S (inner : Z -> option (list S)) W H c : ov_next_gen inner W H c = ov_next H c inner.
Proof. unfold ov_next_gen, ov_next, nonempty. cbv zeta. destruct (inner H) as [[|x blk]|]; reflexivity. Qed.

(** _Limiter.data: the recorded data cut at the sample budget *)
Lemma tie_lim_data S mx (d : list S) : lim_data_gen mx d = lim_data mx d.
Proof. reflexivity. Qed.

Print Assumptions tie_reader_params.
Print Assumptions tie_lim_read.
Print Assumptions tie_ov_next.
