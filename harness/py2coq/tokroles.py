"""Role inference for the private attributes of StreamTokenizer: a refactoring may rename `_data`, `_silence_length`, ... ;
the translator needs to know which attribute plays which part of the model's state.  The mapping is found by *running* the class of
the tree under test on fixed streams and matching, for every role, the sequence of values the attribute takes at each read of
the source against the sequence recorded for that role (TRACES below, recorded from the pinned source with its own names).
A wrong guess cannot make a tie lemma true: the mapping only tells the translator which name to read as which field; the
equality with the model is then proved (or not) by Coq as before."""
import copy
import importlib
import os
import sys

ROLES = ["_state", "_data", "_contiguous_token", "_init_count", "_silence_length", "_start_frame", "_current_frame",
         "_strict_min_length", "_drop_trailing_silence"]
STREAMS = [([0, 1, 1, 0, 1, 1, 1, 1, 1, 0, 0, 1, 0, 1, 1, 0, 0, 0, 1, 1, 0, 1, 0, 0, 1, 1, 1], (2, 4, 1, 2, 1, 0)),
           ([1, 1, 1, 1, 1, 1, 0, 0, 0, 1, 0, 0, 1, 1, 1, 0, 1, 1], (1, 3, 2, 0, 0, 2)),
           ([0, 0, 1, 0, 1, 1, 0, 0, 0, 0, 1, 1, 1, 1, 1, 1, 1, 0, 0, 1], (3, 5, 2, 3, 2, 4)),
           ([1, 0, 1, 1, 1, 1, 0, 1, 1, 1, 1, 0, 0, 0, 1], (2, 4, 2, 1, 0, 6))]


def snapshots(cls):
    """{attribute: [value at each read of each stream]}"""
    out = {}
    for verdicts, (mn, mx, ms, imin, ims, mode) in STREAMS:
        tk = cls(lambda x: x[1] == 1, mn, mx, ms, init_min=imin, init_max_silence=ims, mode=mode)

        class Src:
            def __init__(self):
                self.i = -1

            def read(self):
                for k, v in vars(tk).items():
                    if isinstance(v, (int, bool, list)) or v is None:
                        out.setdefault(k, []).append(copy.deepcopy(v))
                self.i += 1
                return (self.i, verdicts[self.i]) if self.i < len(verdicts) else None
        n0 = {k: len(v) for k, v in out.items()}
        for _ in tk.tokenize(Src(), generator=True):
            pass
        # attributes created late are padded so that positions stay aligned
        n = max(len(v) for v in out.values()) if out else 0
        for k in list(out):
            if len(out[k]) < n:
                out[k] = [None] * (n - len(out[k])) + out[k] if k not in n0 else out[k] + [None] * (n - len(out[k]))
    return out


def norm(role, seq):
    if role == "_state":
        # the numbering of the four states is the class's own business: compare up to renaming of the values
        if any(isinstance(x, list) for x in seq):
            return None
        ren = {}
        return [ren.setdefault(x, len(ren)) for x in seq]
    if role == "_data":
        if not all(x is None or isinstance(x, list) for x in seq):
            return None
        return [None if x is None else [f[0] if isinstance(f, tuple) else f for f in x] for x in seq]
    if role in ("_contiguous_token", "_strict_min_length", "_drop_trailing_silence"):
        if not all(isinstance(x, bool) or x is None for x in seq):
            return None
        return [bool(x) for x in seq]
    if any(isinstance(x, list) for x in seq):
        return None
    return list(seq)


def infer(repo, traces):
    """returns {actual attribute name: role name} for the roles whose canonical name is absent from the class, or raises ValueError"""
    sys.path.insert(0, repo)
    try:
        for m in [m for m in sys.modules if m == "auditok" or m.startswith("auditok.")]:
            del sys.modules[m]
        core = importlib.import_module("auditok.core")
        snaps = snapshots(core.StreamTokenizer)
    finally:
        sys.path.remove(repo)
        for m in [m for m in sys.modules if m == "auditok" or m.startswith("auditok.")]:
            del sys.modules[m]
    mapping = {}
    for role in ROLES:
        want = traces[role]
        if role in snaps and norm(role, snaps[role]) == want:
            continue
        cands = [a for a, seq in snaps.items() if a not in ROLES and norm(role, seq) == want]
        if len(cands) != 1:
            raise ValueError("role %s: %d candidate attributes %r" % (role, len(cands), cands))
        mapping[cands[0]] = role
    return mapping


if __name__ == "__main__":
    # record the reference traces from a tree whose attributes carry the canonical names
    import json
    repo = sys.argv[1] if len(sys.argv) > 1 else "/repo"
    sys.path.insert(0, repo)
    from auditok.core import StreamTokenizer
    s = snapshots(StreamTokenizer)
    json.dump({r: norm(r, s[r]) for r in ROLES}, open(os.path.join(os.path.dirname(os.path.abspath(__file__)), "tok_roles.json"), "w"))
    print({r: len(s[r]) for r in ROLES})
