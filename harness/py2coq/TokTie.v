(** Tie lemmas: the model generated from /repo's current core.py computes the
    same functions as the hand-written AV.Tok.Model, for ALL inputs.  The tactic
    decides semantic equality (case split on the automaton state and on every
    test, then reflexivity or a linear-arithmetic contradiction), so harmless
    rewrites of the Python still check while any behavioural change fails. *)
From Coq Require Import ZArith List Bool Lia ZifyBool.
From AV Require Import Base.PyList Tok.Model.
From AVGen Require TokGen.
Import ListNotations.
Open Scope Z_scope.

Ltac split_ifs :=
  repeat match goal with
  | |- context [if ?b then _ else _] =>
      let E := fresh "E" in destruct b eqn:E; cbn [negb andb orb] in *
  end.

Ltac close_leaf :=
  try reflexivity;
  try (exfalso; lia);
  try (f_equal; f_equal; lia);
  try (repeat f_equal; lia).

Ltac unfold_setters :=
  unfold set_state, set_data, set_contig, set_init_count, set_sil, set_start, set_cur in *;
  cbn [state data contig init_count sil start cur
       min_length max_length max_sil init_min init_max_sil strict drop] in *.

Section Tie.
Context {A : Type}.

Lemma tie_reinit (s : st A) : TokGen.reinit s = reinit s.
Proof. destruct s; reflexivity. Qed.

Lemma tie_eod (c : config) (s : st A) (t : bool) : TokGen.eod c s t = eod c s t.
Proof.
  destruct s as [sa d cg ic sl sta cu]; destruct c as [mn mx ms im ims str dr].
  unfold TokGen.eod, eod; unfold_setters.
  destruct t, dr, str, cg; cbn [negb andb orb]; split_ifs; unfold_setters; close_leaf.
Qed.

Lemma tie_process (c : config) (s : st A) (f : A) (v : bool) :
  TokGen.process c s f v = process c s f v.
Proof.
  destruct s as [sa d cg ic sl sta cu]; destruct c as [mn mx ms im ims str dr].
  unfold TokGen.process, process; unfold_setters.
  destruct sa, v; cbn [astate_eqb]; unfold_setters;
    rewrite <- ?tie_eod;
    split_ifs; unfold_setters; close_leaf.
Qed.

Lemma tie_post_process (c : config) (s : st A) :
  TokGen.post_process c s = post_process c s.
Proof.
  destruct s as [sa d cg ic sl sta cu].
  unfold TokGen.post_process, post_process; unfold_setters.
  destruct sa; cbn [astate_eqb orb]; rewrite <- ?tie_eod; split_ifs; close_leaf.
Qed.

Lemma tie_iter_step (c : config) (s : st A) fr :
  TokGen.iter_step c s fr = iter_step c s fr.
Proof.
  unfold TokGen.iter_step, iter_step.
  destruct fr as [[f v]|]; rewrite ?tie_process, ?tie_post_process;
    match goal with |- context [let '(_, _) := ?p in _] => destruct p end; reflexivity.
Qed.

End Tie.

Lemma tie_validate mn mx ms imin ims mode :
  TokGen.validate mn mx ms imin ims mode = validate mn mx ms imin ims mode.
Proof.
  unfold TokGen.validate, validate; cbv zeta.
  change (Z.lor 2 4) with 6.
  split_ifs; close_leaf.
Qed.

(** Folding the generated step over a stream: the generated tokenizer. *)
Section GenRun.
Context {A : Type}.

Fixpoint gen_run (c : config) (s : st A) (fs : list (A * bool)) : st A * list (token A) :=
  match fs with
  | [] => let '(s1, out, _) := TokGen.iter_step c s None in (s1, out)
  | fv :: rest =>
      let '(s1, out, _) := TokGen.iter_step c s (Some fv) in
      let '(s2, outs) := gen_run c s1 rest in
      (s2, out ++ outs)
  end.

Definition gen_tokenize_from (c : config) (s_old : st A) fs : list (token A) :=
  snd (gen_run c (TokGen.reinit s_old) fs).

Lemma tie_run c s fs : gen_run c s fs = run c s fs.
Proof.
  revert s; induction fs as [|fv rest IH]; intros s; cbn [gen_run run];
    rewrite tie_iter_step; [reflexivity|].
  destruct (iter_step c s (Some fv)) as [[s1 out] b]. rewrite IH. reflexivity.
Qed.

Theorem tie_tokenize c s_old fs : gen_tokenize_from c s_old fs = tokenize_from c s_old fs.
Proof. unfold gen_tokenize_from, tokenize_from. now rewrite tie_run, tie_reinit. Qed.

End GenRun.

Print Assumptions tie_tokenize.
Print Assumptions tie_validate.
