(** Tie: core._duration_to_nb_windows, core._EPSILON and the way split() calls
    the conversion, as translated from /repo in this run (GenDur.v), against
    Split/Duration.v. *)
From Coq Require Import ZArith List Bool String.
From Flocq Require Import IEEE754.BinarySingleNaN.
From AV Require Import Base.PyList Base.PyFloat Tok.Model Split.Duration.
From AVGen Require Import TieTac GenDur.
Import ListNotations.
Open Scope string_scope.
Open Scope Z_scope.

Lemma of_Z_0 : of_Z 0 = fzero.
Proof. reflexivity. Qed.

Lemma tie_epsilon : EPSILON = eps_pos /\ to_me (Bopp EPSILON) = to_me eps_neg.
Proof. split; reflexivity. Qed.

Lemma tie_nbw_floor d w e : nbw_gen d w py_floor e = nbw d w RFloor (Some e).
Proof. unfold nbw_gen, nbw. rewrite ?of_Z_0. cbv zeta. split_all; close_leaf. Qed.

Lemma tie_nbw_ceil d w e : nbw_gen d w py_ceil e = nbw d w RCeil (Some e).
Proof. unfold nbw_gen, nbw. rewrite ?of_Z_0. cbv zeta. split_all; close_leaf. Qed.

(** split() derives min_length with ceil and -epsilon, max_length and max_continuous_silence with floor and +epsilon
    (what Duration.split_params assumes) *)
Lemma tie_split_calls : split_calls =
  [("max_continuous_silence", ("max_silence", "analysis_window", "math.floor", "_EPSILON"));
   ("max_length", ("max_dur", "analysis_window", "math.floor", "_EPSILON"));
   ("min_length", ("min_dur", "analysis_window", "math.ceil", "-_EPSILON"))].
Proof. reflexivity. Qed.

Print Assumptions tie_nbw_floor.
