(** Tie: AudioRegion._check_other_parameters, __add__, __mul__, __eq__, __len__ as
    translated from /repo in this run (GenAlgebra.v) against Audio/Region.v. *)
From Coq Require Import ZArith List Bool Lia ZifyBool.
From AV Require Import Base.PyList Base.PyFloat Tok.Model Audio.Region.
From AVGen Require Import TieTac GenAlgebra.
Import ListNotations.
Open Scope Z_scope.

Lemma tie_check_params (r1 r2 : region Z) :
  check_params_gen r1 r2 = if same_params r1 r2 then Ok tt else Err AudioParameterError.
Proof. unfold check_params_gen, same_params. walk. Qed.

Lemma tie_add (r1 r2 : region Z) : add_gen r1 r2 = add r1 r2.
Proof. unfold add_gen, add, same_params. cbv zeta. walk. Qed.

Lemma tie_mul (r1 : region Z) n : mul_gen r1 n = mul r1 n.
Proof. reflexivity. Qed.

Lemma tie_eq (r1 r2 : region Z) : eq_gen r1 r2 = region_eqb r1 r2.
Proof. unfold eq_gen, region_eqb, same_params. destruct (list_eqb (rdata r1) (rdata r2)); walk_bool. Qed.

Lemma tie_len (r1 : region Z) : len_gen r1 = rlen r1.
Proof. reflexivity. Qed.
