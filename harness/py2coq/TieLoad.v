(** Tie: core._read_offline (the eager path of load() / AudioRegion.load()) as translated from /repo in this run
    (GenLoad.v) = IO/Load.v read_offline, for all audio and all float durations.  The source object is the buffer
    machine of IO/Source.v (get_audio_source on bytes; file containers are tied to the same machine by C11 / C09). *)
From Coq Require Import ZArith List Bool.
From Flocq Require Import IEEE754.BinarySingleNaN.
From AV Require Import Base.PyList Base.PyFloat Tok.Model IO.Source IO.Load.
From AVGen Require Import TieTac GenLoad.
Import ListNotations.
Open Scope Z_scope.

Lemma of_Z_0 : of_Z 0 = fzero.
Proof. reflexivity. Qed.

#[local] Opaque fdiv fadd fmul fsub flt fle feq of_me of_Z py_floor py_ceil py_int py_round.

Ltac finish :=
  repeat match goal with
         | |- context [bstep ?a ?s (Read ?n)] =>
             let s' := fresh "s" in let o := fresh "o" in
             destruct (bstep a s (Read n)) as [s' o]; cbn [fst snd]; try (destruct o)
         end; reflexivity.

Lemma tie_read_offline B (a : audio B) skip max_read : read_offline_gen a skip max_read = read_offline a skip max_read.
Proof.
  unfold read_offline_gen, read_offline, offline_requests, offline_data. rewrite ?of_Z_0.
  change (fst (bstep a init_b Open)) with (mkB 0 true).
  destruct skip as [t|], max_read as [m|]; cbv zeta;
    repeat match goal with
           | |- context [if flt ?x ?y then _ else _] => destruct (flt x y)
           | |- context [match py_round ?x with _ => _ end] => destruct (py_round x)
           end; cbv zeta; cbn [fst snd]; finish.
Qed.

Print Assumptions tie_read_offline.
