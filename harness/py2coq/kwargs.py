"""Symbolic evaluation of cmdline_util.make_kwargs for its two decisions (see coq/Cli/Guards.v): every optional option is
either absent (None) or given (an opaque value on which only `is None` / `is not None` may be tested -- a truth test is
rejected, since a given value may be 0 or the empty string); flags are True / False.  Fail closed."""
import ast
import itertools
import os

from .pure import TranslationError

GIVEN = ("given",)


def bad(node, msg):
    raise TranslationError("cmdline_util.py line %s: %s" % (getattr(node, "lineno", "?"), msg))


class Raised(Exception):
    def __init__(self, name):
        self.name = name


def ev(e, env, ns):
    if isinstance(e, ast.Constant):
        return e.value
    if isinstance(e, ast.Name):
        if e.id in env:
            return env[e.id]
        bad(e, "unknown name %s" % e.id)
    if isinstance(e, ast.Attribute) and isinstance(e.value, ast.Name) and e.value.id == ns["#name"]:
        if e.attr in ns:
            return ns[e.attr]
        return ("other", e.attr)
    if isinstance(e, ast.Compare) and len(e.ops) == 1 and isinstance(e.ops[0], (ast.Is, ast.IsNot)):
        a = ev(e.left, env, ns)
        if not (isinstance(e.comparators[0], ast.Constant) and e.comparators[0].value is None):
            bad(e, "identity test against something else than None")
        if a is None or a == GIVEN:
            r = a is None
            return r if isinstance(e.ops[0], ast.Is) else not r
        bad(e, "None test on %r" % (a,))
    if isinstance(e, ast.UnaryOp) and isinstance(e.op, ast.Not):
        return not truth(ev(e.operand, env, ns), e)
    if isinstance(e, ast.BoolOp):
        r = None
        for x in e.values:
            r = truth(ev(x, env, ns), e)
            if r != isinstance(e.op, ast.And):
                return r
        return r
    if isinstance(e, ast.IfExp):
        return ev(e.body if truth(ev(e.test, env, ns), e) else e.orelse, env, ns)
    if isinstance(e, ast.Call) and isinstance(e.func, ast.Name) and e.func.id == "int":
        return ("other", "int")
    if isinstance(e, ast.Dict):
        return ("dict", {ast.literal_eval(k): ev(v, env, ns) for k, v in zip(e.keys, e.values)})
    if isinstance(e, ast.Call):
        return ("other", "call")
    bad(e, "expression %s" % type(e).__name__)


def truth(v, node):
    if isinstance(v, bool):
        return v
    if v is None:
        return False
    bad(node, "truth value of an option that is given (it may be 0 or empty): %r" % (v,))


def run(stmts, env, ns):
    for st in stmts:
        if isinstance(st, ast.Expr) and isinstance(st.value, ast.Constant):
            continue
        if isinstance(st, ast.Assign) and len(st.targets) == 1 and isinstance(st.targets[0], ast.Name):
            env[st.targets[0].id] = ev(st.value, env, ns)
            continue
        if isinstance(st, ast.If):
            out = run(st.body if truth(ev(st.test, env, ns), st) else st.orelse, env, ns)
            if out is not None:
                return out
            continue
        if isinstance(st, ast.Try):
            # try: x = int(...) except (ValueError, TypeError): x = ...   -- no decision of interest inside
            for s in st.body:
                if isinstance(s, ast.Assign) and len(s.targets) == 1 and isinstance(s.targets[0], ast.Name):
                    env[s.targets[0].id] = ("other", "try")
                else:
                    bad(s, "statement inside try")
            continue
        if isinstance(st, ast.Raise):
            raise Raised(ast.unparse(st.exc.func) if isinstance(st.exc, ast.Call) else ast.unparse(st.exc))
        if isinstance(st, ast.Return):
            return ("return", env)
        bad(st, "statement %s" % type(st).__name__)
    return None


def emit(repo):
    cu = ast.parse(open(os.path.join(repo, "auditok", "cmdline_util.py")).read())
    fn = next((n for n in cu.body if isinstance(n, ast.FunctionDef) and n.name == "make_kwargs"), None)
    if fn is None or len(fn.args.args) != 1:
        raise TranslationError("make_kwargs(args_ns) not found")
    nsname = fn.args.args[0].arg
    # the io dictionary: where `record` ends up
    def outcome(join, save, plot, image):
        ns = {"#name": nsname, "join_detections": GIVEN if join else None, "save_stream": GIVEN if save else None,
              "plot": plot, "save_image": GIVEN if image else None}
        env = {}
        try:
            out = run(list(fn.body), env, ns)
        except Raised as r:
            if r.name != "ArgumentError":
                bad(fn, "raises %s" % r.name)
            return ("error", None)
        if out is None:
            bad(fn, "make_kwargs falls off its end")
        recs = [v[1]["record"] for v in env.values() if isinstance(v, tuple) and v[0] == "dict" and "record" in v[1]]
        if len(recs) != 1 or not isinstance(recs[0], bool):
            bad(fn, "the record flag of the reader keywords was not found as a boolean (%r)" % (recs,))
        return ("ok", recs[0])
    guard = []
    for j, s in itertools.product((False, True), repeat=2):
        outs = {outcome(j, s, p, i)[0] for p, i in itertools.product((False, True), repeat=2)}
        if len(outs) != 1:
            raise TranslationError("the -j / -O guard depends on the plot options")
        guard.append(outs.pop() == "error")
    record = []
    for s, p, i in itertools.product((False, True), repeat=3):
        vals = {outcome(j, s, p, i) for j in (False, True)} - {("error", None)}
        if len(vals) != 1:
            raise TranslationError("the record flag depends on -j")
        record.append(vals.pop()[1])
    b = lambda x: "true" if x else "false"
    return "\n".join(["(* generated from /repo/auditok/cmdline_util.py (make_kwargs) by py2coq/kwargs.py -- do not edit *)",
                      "From Coq Require Import Bool List.", "Import ListNotations.", "",
                      "Definition join_guard_table_gen : list bool := [%s]." % "; ".join(map(b, guard)),
                      "Definition record_table_gen : list bool := [%s]." % "; ".join(map(b, record)), ""])


if __name__ == "__main__":
    import sys
    print(emit(sys.argv[1] if len(sys.argv) > 1 else "/repo"))
