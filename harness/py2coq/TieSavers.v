(** Tie: StreamSaverWorker._write_cached_data, _process_message, one turn of the
    drain loop of _post_process, and AudioEventsJoinerWorker._write_audio_event,
    as translated from /repo's workers.py in this run (GenSavers.v), against
    Conc/Savers.v -- for all cache sizes, block sizes and states. *)
From Coq Require Import ZArith List Bool Lia ZifyBool.
From AV Require Import Base.PyList Tok.Model Conc.Workers Conc.Savers.
From AVGen Require Import TieTac GenSavers.
Import ListNotations.
Open Scope Z_scope.

Ltac tie_simpl ::= cbv beta iota zeta delta [negb andb orb wcache wtotal wfile wclosed fst snd nonempty].

Section Tie.
Context {A : Type}.
Variable bsz : A -> Z.
Variable cache_size : Z.

Lemma tie_w_flush (s : wstate A) : w_flush_gen s = w_flush s.
Proof. destruct s as [c t f cl]. unfold w_flush_gen, w_flush. tie_simpl. destruct c; reflexivity. Qed.

Lemma tie_w_process (s : wstate A) d : w_process_gen bsz cache_size s d = w_process bsz cache_size s d.
Proof.
  destruct s as [c t f cl]. unfold w_process_gen, w_process, w_flush. tie_simpl.
  destruct (cache_size <=? t + bsz d); [|reflexivity]. destruct (c ++ [d]) eqn:E; reflexivity.
Qed.

Lemma tie_w_drain (s : wstate A) m : w_drain_gen bsz s m = w_drain bsz s m.
Proof.
  destruct s as [c t f cl]. unfold w_drain_gen, w_drain, w_flush. destruct m as [[d|]|]; tie_simpl; try reflexivity.
  destruct c; reflexivity.
Qed.

Lemma tie_j_write (sil : A) (s : bool * list A) d : j_write_gen sil s d = j_write sil s d.
Proof.
  destruct s as [fl f]. unfold j_write_gen, j_write. tie_simpl. destruct fl; tie_simpl; rewrite <- ?app_assoc; reflexivity.
Qed.

End Tie.

Print Assumptions tie_w_process.
Print Assumptions tie_j_write.
