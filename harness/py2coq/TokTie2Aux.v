(** Tie (second, tolerant translation), intermediate methods: _process_end_of_detection, _process, _post_process as
    translated one by one = the model's eod, process, post_process.  Compiled only when the class still has these
    three methods; the tie that counts (one turn of the generator, TokTie2.v) does not depend on it. *)
From Coq Require Import ZArith List Bool Lia ZifyBool.
From AV Require Import Base.PyList Tok.Model.
From AVGen Require Import TieTac TokGen2.
Import ListNotations.
Open Scope Z_scope.

Ltac tie_simpl ::=
  cbv beta iota delta [negb andb orb astate_eqb state data contig init_count sil start cur
                       min_length max_length max_sil init_min init_max_sil strict drop
                       set_state set_data set_contig set_init_count set_sil set_start set_cur].

Section Tie.
Context {A : Type}.

Ltac simp := cbv beta iota zeta delta [negb andb orb astate_eqb state data contig init_count sil start cur
                       min_length max_length max_sil init_min init_max_sil strict drop
                       set_state set_data set_contig set_init_count set_sil set_start set_cur].

Lemma tie2_eod (c : config) (s : st A) (t : bool) : eod2 c s t = eod c s t.
Proof.
  destruct s as [sa d cg ic sl sta cu]; destruct c as [mn mx ms im ims str dr].
  unfold eod2, eod, nonempty. destruct t, dr, str, cg; simp; walk.
Qed.

Lemma tie2_process (c : config) (s : st A) (f : A) (v : bool) : process2 c s f v = process c s f v.
Proof.
  destruct s as [sa d cg ic sl sta cu]; destruct c as [mn mx ms im ims str dr].
  unfold process2, process, eod, nonempty. destruct sa, v, dr, str, cg; simp; walk.
Qed.

Lemma tie2_post_process (c : config) (s : st A) : post_process2 c s = post_process c s.
Proof.
  destruct s as [sa d cg ic sl sta cu]; destruct c as [mn mx ms im ims str dr].
  unfold post_process2, post_process, eod, nonempty. destruct sa, dr, str, cg; simp; walk.
Qed.

End Tie.

Print Assumptions tie2_process.
