(** Tie: the dispatch of util.make_channel_selector on `selected`, executed symbolically from /repo's util.py in this run
    (GenSelector.v: None and "any"; "mix", "avg", "average"; an integer; unsupported values), = Audio/Selector.v
    resolve_selector, for every number of channels and every index. *)
From Coq Require Import ZArith List Bool Lia.
From AV Require Import Base.PyList Tok.Model Audio.Energy Audio.Selector.
From AVGen Require Import GenSelector.
Open Scope Z_scope.

Lemma tie_selector channels s : selector_gen channels s = resolve_selector channels s.
Proof.
  unfold selector_gen, resolve_selector.
  destruct s as [| |i|]; destruct (channels =? 1) eqn:E1; cbn [orb]; try reflexivity.
  all: destruct (i <? 0) eqn:E2; cbn [orb]; rewrite ?E2; cbn [orb]; try reflexivity.
Qed.

Print Assumptions tie_selector.
