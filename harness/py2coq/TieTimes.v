(** Tie: the arithmetic that gives a region of split() its start, duration and end, as translated from /repo in this run
    (GenTimes.v): _make_audio_region's start with the frame duration AudioReader.block_dur that split() passes (checked on
    the call's argument list), AudioRegion.__post_init__'s duration and end -- = Split/Split.v region_start / region_duration /
    region_end, for all integers. *)
From Coq Require Import ZArith List Bool String.
From AV Require Import Base.PyList Base.PyFloat Tok.Model Split.Split.
From AVGen Require Import GenTimes.
Import ListNotations.
Open Scope Z_scope.

Lemma tie_region_start s W rate : start_gen s (block_dur_gen W rate) = region_start s W rate.
Proof. reflexivity. Qed.

Lemma tie_region_duration nbytes rate w ch : duration_gen nbytes rate w ch = region_duration nbytes rate w ch.
Proof. reflexivity. Qed.

Lemma tie_region_end s W rate nbytes w ch :
  end_gen (start_gen s (block_dur_gen W rate)) (duration_gen nbytes rate w ch) = region_end s W rate nbytes w ch.
Proof. reflexivity. Qed.

(** split() hands each token's frames and first-window index to _make_audio_region together with the reader's block duration and
    audio parameters *)
Lemma tie_make_region_args :
  make_region_args_gen = ["token[0]"; "token[1]"; "source.block_dur"; "source.sr"; "source.sw"; "source.ch"]%string.
Proof. reflexivity. Qed.

Print Assumptions tie_region_end.
