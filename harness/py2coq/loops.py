"""Translation of the control skeleton of auditok/workers.py (see coq/Conc/Loops.v):

  * one turn of Worker.run's loop, Worker._stop_requested and TokenizerWorker.read as case tables over what the
    inbox answers (nothing / the stop marker / a message), obtained by symbolic execution of the method bodies with
    self._get_message / self._stop_requested inlined through the class hierarchy;
  * the methods that sequence queue operations, joins and closes, as action lists (local names alpha-normalised).

Fail closed: a construct outside the small subset handled here raises TranslationError."""
import ast
import os
import re

from .pure import TranslationError

WORKER_CLASSES = ["Worker", "StreamSaverWorker", "AudioEventsJoinerWorker", "RegionSaverWorker", "PlayerWorker", "CommandLineWorker", "PrintWorker"]


def bad(node, msg):
    raise TranslationError("workers.py line %s: %s" % (getattr(node, "lineno", "?"), msg))


class Raise(Exception):
    def __init__(self, name):
        self.name = name


class LoopAgain(Exception):
    """the turn of `while True:` ended without leaving the loop"""


NONE = ("none",); STOP = ("stop",); MSG = ("msg",)


class Ctx:
    def __init__(self, classes, cls, answer):
        self.classes = classes; self.cls = cls; self.answer = answer
        self.accesses = 0; self.effects = []; self.depth = 0


def resolve(classes, cls, name):
    """method lookup along the (single-inheritance, same-module) base chain"""
    seen = set()
    c = cls
    while c is not None and c.name not in seen:
        seen.add(c.name)
        for m in c.body:
            if isinstance(m, ast.FunctionDef) and m.name == name:
                return m
        nxt = None
        for b in c.bases:
            if isinstance(b, ast.Name) and b.id in classes:
                nxt = classes[b.id]
                break
        c = nxt
    return None


def ev(e, env, cx):
    if isinstance(e, ast.Constant):
        if e.value is None:
            return NONE
        if e.value is True or e.value is False:
            return ("bool", e.value)
        bad(e, "constant %r" % (e.value,))
    if isinstance(e, ast.Name):
        if e.id == "_STOP_PROCESSING":
            return STOP
        if e.id in env:
            return env[e.id]
        bad(e, "unknown name %s" % e.id)
    if isinstance(e, ast.UnaryOp) and isinstance(e.op, ast.Not):
        return ("bool", not truth(ev(e.operand, env, cx), e))
    if isinstance(e, ast.BoolOp):
        vals = None
        for x in e.values:
            t = truth(ev(x, env, cx), e)
            if isinstance(e.op, ast.And) and not t:
                return ("bool", False)
            if isinstance(e.op, ast.Or) and t:
                return ("bool", True)
        return ("bool", isinstance(e.op, ast.And))
    if isinstance(e, ast.Compare) and len(e.ops) == 1:
        a = ev(e.left, env, cx); b = ev(e.comparators[0], env, cx)
        op = e.ops[0]
        if isinstance(op, (ast.Is, ast.IsNot)):
            if NONE not in (a, b):
                bad(e, "identity test not against None")
            other = b if a == NONE else a
            if other[0] == "sym":
                bad(e, "None test on an unknown value")
            r = other == NONE
            return ("bool", r if isinstance(op, ast.Is) else not r)
        if isinstance(op, (ast.Eq, ast.NotEq)):
            if STOP not in (a, b):
                bad(e, "comparison not against the stop marker")
            other = b if a == STOP else a
            if other[0] not in ("none", "stop", "msg"):
                bad(e, "stop marker compared with an unknown value")
            r = other == STOP          # a message is never the stop marker (trusted base: the marker is a private string)
            return ("bool", r if isinstance(op, ast.Eq) else not r)
        bad(e, "comparison")
    if isinstance(e, ast.Call):
        src = ast.unparse(e.func)
        if src in ("self._inbox.get", "self._inbox.get_nowait"):
            if src.endswith("get"):
                kws = {k.arg for k in e.keywords}
                # get(timeout=...) or get(True, t): must carry a timeout, otherwise the loop can block for ever
                if not ("timeout" in kws or len(e.args) == 2):
                    bad(e, "inbox.get without a timeout")
            cx.accesses += 1
            if cx.accesses > 1:
                bad(e, "more than one inbox access in one turn")
            if cx.answer == NONE:
                raise Raise("Empty")
            return cx.answer
        if src == "self._reader.read" and not e.args:
            cx.effects.append(("read",))
            return ("sym", "reader_read")
        if isinstance(e.func, ast.Attribute) and isinstance(e.func.value, ast.Name) and e.func.value.id == "self":
            name = e.func.attr
            if name == "_process_message":
                if len(e.args) != 1:
                    bad(e, "_process_message arity")
                cx.effects.append(("process", ev(e.args[0], env, cx)))
                return NONE
            if name == "_post_process" and not e.args:
                cx.effects.append(("post",))
                return NONE
            m = resolve(cx.classes, cx.cls, name)
            if m is not None and not e.keywords and len(m.args.args) == len(e.args) + 1 and not m.decorator_list:
                # any other method of the class itself is followed into (helpers a refactoring may introduce)
                cx.depth += 1
                if cx.depth > 5:
                    bad(e, "recursion")
                env2 = {a.arg: ev(x, env, cx) for a, x in zip(m.args.args[1:], e.args)}
                out = run(m.body, env2, cx)
                cx.depth -= 1
                if out[0] == "return":
                    return out[1]
                if out[0] == "fall":
                    return NONE
                bad(e, "method %s ends with %s" % (name, out[0]))
        bad(e, "call %s" % src)
    bad(e, "expression %s" % type(e).__name__)


def truth(v, node):
    if v[0] == "bool":
        return v[1]
    if v == NONE:
        return False
    if v == STOP:
        return True
    bad(node, "truth value of %s is not determined" % (v,))


def run(stmts, env, cx):
    """-> ('fall', env) | ('return', v) | ('break',) | ('continue',)"""
    for st in stmts:
        if isinstance(st, ast.Expr) and isinstance(st.value, ast.Constant):
            continue
        if isinstance(st, ast.Pass):
            continue
        if isinstance(st, ast.Assign) and len(st.targets) == 1 and isinstance(st.targets[0], ast.Name):
            env = dict(env); env[st.targets[0].id] = ev(st.value, env, cx)
            continue
        if isinstance(st, ast.Expr):
            ev(st.value, env, cx)
            continue
        if isinstance(st, ast.Return):
            return ("return", NONE if st.value is None else ev(st.value, env, cx))
        if isinstance(st, ast.Break):
            return ("break",)
        if isinstance(st, ast.Continue):
            return ("continue",)
        if isinstance(st, ast.If):
            out = run(st.body if truth(ev(st.test, env, cx), st) else st.orelse, env, cx)
            if out[0] != "fall":
                return out
            env = out[1]
            continue
        if isinstance(st, ast.While) and isinstance(st.test, ast.Constant) and st.test.value is True and not st.orelse:
            out = run(st.body, env, cx)
            if out[0] in ("fall", "continue"):
                raise LoopAgain()
            if out[0] == "break":
                continue
            return out
        if isinstance(st, ast.Try):
            if st.finalbody:
                bad(st, "try/finally")
            try:
                out = run(st.body, env, cx)
                if out[0] == "fall" and st.orelse:
                    out = run(st.orelse, out[1], cx)
            except Raise as r:
                h = [x for x in st.handlers if x.type is not None and r.name in ast.unparse(x.type)] or [x for x in st.handlers if x.type is None]
                if not h:
                    raise
                out = run(h[0].body, env, cx)
            if out[0] != "fall":
                return out
            env = out[1]
            continue
        bad(st, "statement %s" % type(st).__name__)
    return ("fall", env)


ANS = [("ANone", NONE), ("AStop", STOP), ("AMsg m", MSG)]


def turn_table(classes, cname):
    cls = classes.get(cname)
    if cls is None:
        raise TranslationError("class %s not found in workers.py" % cname)
    m = resolve(classes, cls, "run")
    if m is None:
        raise TranslationError("%s.run not found" % cname)
    rows = []
    for coq, ans in ANS:
        cx = Ctx(classes, cls, ans)
        again = False
        try:
            out = run(m.body, {}, cx)
        except LoopAgain:
            again = True
        except Raise as r:
            bad(m, "uncaught %s in a turn" % r.name)
        if cx.accesses != 1:
            bad(m, "a turn of %s.run makes %d inbox accesses" % (cname, cx.accesses))
        if not again:
            # the loop was left and run() came to its end: exactly the post-processing must have happened on the way
            if cx.effects != [("post",)]:
                bad(m, "%s.run leaves its loop with the effects %s (expected: _post_process only)" % (cname, cx.effects))
            rows.append((coq, "TLeave"))
        elif not cx.effects:
            rows.append((coq, "TContinue"))
        elif cx.effects == [("process", MSG)]:
            rows.append((coq, "TProcess m"))
        else:
            bad(m, "a turn has the effects %s" % (cx.effects,))
    return rows


def bool_table(classes, cname, mname):
    cls = classes[cname]
    m = resolve(classes, cls, mname)
    if m is None:
        raise TranslationError("%s.%s not found" % (cname, mname))
    rows = []
    for coq, ans in ANS:
        cx = Ctx(classes, cls, ans)
        try:
            out = run(m.body, {}, cx)
        except Raise as r:
            bad(m, "uncaught %s" % r.name)
        if cx.accesses != 1 or cx.effects:
            bad(m, "%s: %d inbox accesses, effects %s" % (mname, cx.accesses, cx.effects))
        v = out[1] if out[0] == "return" else NONE
        rows.append((coq.replace(" m", " _"), "true" if truth(v, m) else "false"))
    return rows


def read_table(classes):
    cls = classes.get("TokenizerWorker")
    if cls is None:
        raise TranslationError("class TokenizerWorker not found")
    m = resolve(classes, cls, "read")
    rows = []
    for coq, ans in ANS:
        cx = Ctx(classes, cls, ans)
        try:
            out = run(m.body, {}, cx)
        except Raise as r:
            bad(m, "uncaught %s" % r.name)
        if cx.accesses != 1:
            bad(m, "TokenizerWorker.read makes %d accesses to its inbox" % cx.accesses)
        v = out[1] if out[0] == "return" else NONE
        if v == NONE and not cx.effects:
            rows.append((coq.replace(" m", " _"), "None"))
        elif v == ("sym", "reader_read") and cx.effects == [("read",)]:
            rows.append((coq.replace(" m", " _"), "r"))
        else:
            bad(m, "TokenizerWorker.read returns %s with effects %s" % (v, cx.effects))
    return rows


# ---------------------------------------------------------------- programs

def local_names(fn):
    """names bound inside the method (not its parameters)"""
    params = {a.arg for a in fn.args.args}
    return {n.id for n in ast.walk(fn) if isinstance(n, ast.Name) and isinstance(n.ctx, ast.Store) and n.id not in params}


def alpha(text, names):
    """rename the local names to x1, x2, ... in order of first occurrence in the emitted program"""
    order = []
    for m in re.finditer(r"[A-Za-z_][A-Za-z_0-9]*", text):
        if m.group(0) in names and m.group(0) not in order:
            order.append(m.group(0))
    ren = {n: "x%d" % (i + 1) for i, n in enumerate(order)}
    return re.sub(r"(?<![A-Za-z_0-9.])[A-Za-z_][A-Za-z_0-9]*", lambda m: ren.get(m.group(0), m.group(0)), text)


PURE_CALLS = {"_Detection", "timedelta", "datetime.now", "len", "str", "int", "float"}


def is_pure(e):
    for n in ast.walk(e):
        if isinstance(n, ast.Call) and ast.unparse(n.func) not in PURE_CALLS and not ast.unparse(n.func).endswith((".format", ".strftime")) \
                and ast.unparse(n.func).split(".")[-1].lstrip("_") not in ("Detection", "timedelta", "now"):
            return False
        if isinstance(n, (ast.Await, ast.Yield, ast.YieldFrom, ast.NamedExpr)):
            return False
    return True


def q(s):
    return '"%s"' % s.replace('"', "'")


def arg_text(e, defs):
    """a local bound once to a call-free-or-constructor expression is shown by its definition"""
    if isinstance(e, ast.Name) and e.id in defs:
        return ast.unparse(defs[e.id])
    return ast.unparse(e)


def single_defs(fn):
    seen = {}
    for n in ast.walk(fn):
        if isinstance(n, ast.Assign) and len(n.targets) == 1 and isinstance(n.targets[0], ast.Name):
            seen.setdefault(n.targets[0].id, []).append(n.value)
        elif isinstance(n, (ast.For, ast.AugAssign, ast.With, ast.NamedExpr)):
            for t in ast.walk(getattr(n, "target", n)):
                if isinstance(t, ast.Name) and isinstance(t.ctx, ast.Store):
                    seen.setdefault(t.id, []).append(None)
    return {k: v[0] for k, v in seen.items() if len(v) == 1 and v[0] is not None and is_pure(v[0]) and isinstance(v[0], ast.Call)}


def acts(stmts, defs=None):
    defs = defs or {}
    out = []
    for st in stmts:
        if isinstance(st, ast.Expr) and isinstance(st.value, ast.Constant):
            continue
        if isinstance(st, ast.Pass):
            continue
        if isinstance(st, ast.Assign) and len(st.targets) == 1:
            src = ast.unparse(st.value)
            if isinstance(st.targets[0], ast.Name) and isinstance(st.value, ast.Call) and ast.unparse(st.value.func).endswith(".read") and not st.value.args:
                out.append("ReadFrom %s" % q(ast.unparse(st.value.func.value)))
                continue
            if is_pure(st.value):
                continue            # local computation: no queue operation, join or close
            bad(st, "assignment with a call: %s" % src)
        if isinstance(st, ast.If):
            a, b = acts(st.body, defs), acts(st.orelse, defs)
            t = st.test
            if not a and not b and is_pure(t):
                continue            # both branches without queue operation, join or close (logging, local computation)
            neg = False
            if isinstance(t, ast.UnaryOp) and isinstance(t.op, ast.Not):
                neg, t = True, t.operand
            if isinstance(t, ast.Compare) and len(t.ops) == 1 and isinstance(t.ops[0], (ast.Is, ast.IsNot)) and isinstance(t.left, ast.Name) \
                    and isinstance(t.comparators[0], ast.Constant) and t.comparators[0].value is None:
                none_case, some_case = (a, b) if isinstance(t.ops[0], ast.Is) != neg else (b, a)
                out.append("IfNone %s [%s] [%s]" % (q(t.left.id), "; ".join(none_case), "; ".join(some_case)))
                continue
            bad(st, "conditional %s" % ast.unparse(st.test))
        if isinstance(st, ast.For) and not st.orelse:
            out.append("ForEach %s %s [%s]" % (q(ast.unparse(st.target)), q(ast.unparse(st.iter)), "; ".join(acts(st.body, defs))))
            continue
        if isinstance(st, ast.Return):
            out.append("Return %s" % q("" if st.value is None else ast.unparse(st.value)))
            continue
        if isinstance(st, ast.Expr) and isinstance(st.value, ast.Call):
            c = st.value
            f = c.func
            if isinstance(f, ast.Attribute):
                tgt = ast.unparse(f.value)
                if f.attr == "send" and len(c.args) == 1 and isinstance(c.args[0], ast.IfExp):
                    # x.send(a if t else b)  ==  if t: x.send(a) else: x.send(b)
                    ie = c.args[0]
                    mk = lambda v: ast.Expr(ast.Call(func=f, args=[v], keywords=[]))
                    out.extend(acts([ast.If(test=ie.test, body=[mk(ie.body)], orelse=[mk(ie.orelse)])], defs)); continue
                if f.attr == "send" and len(c.args) == 1:
                    out.append("Send %s %s" % (q(tgt), q(arg_text(c.args[0], defs)))); continue
                if f.attr == "join" and not c.args and not c.keywords:
                    out.append("Join %s" % q(tgt)); continue
                if f.attr == "join":
                    bad(st, "join with a timeout")
                if f.attr == "close" and not c.args:
                    out.append("Close %s" % q(tgt)); continue
                if f.attr == "open" and not c.args:
                    out.append("Open_ %s" % q(tgt)); continue
                if f.attr == "append" and len(c.args) == 1 and tgt.startswith("self."):
                    out.append("Append %s %s" % (q(tgt[5:]), q(arg_text(c.args[0], defs)))); continue
            if ast.unparse(f) in ("self._log", "self._logger.info", "self._logger.debug"):
                continue
            out.append("Call %s" % q(ast.unparse(c)))
            continue
        if isinstance(st, ast.Assign) or isinstance(st, ast.AugAssign):
            if is_pure(st.value):
                continue
        bad(st, "statement %s" % type(st).__name__)
    return out


PROGRAMS = [("prog_tok_run", "TokenizerWorker", "run"), ("prog_notify", "TokenizerWorker", "_notify_observers"),
            ("prog_stop_all", "TokenizerWorker", "stop_all"), ("prog_start_all", "TokenizerWorker", "start_all"),
            ("prog_stop", "Worker", "stop"), ("prog_saver_read", "StreamSaverWorker", "read"), ("prog_saver_close", "StreamSaverWorker", "close")]


KEEP = {"_notify_observers", "stop", "start", "send", "join", "stop_all", "start_all", "close", "open", "read", "run", "_log",
        "_process_message", "_post_process"}


class Subst(ast.NodeTransformer):
    def __init__(self, mp):
        self.mp = mp

    def visit_Name(self, n):
        if n.id in self.mp:
            r = self.mp[n.id]
            return ast.copy_location(ast.Name(id=r, ctx=n.ctx) if isinstance(r, str) else r, n)
        return n


def elim_returns(stmts):
    """body of a helper called as a statement: `return` means `go on after the call`"""
    for i, st in enumerate(stmts):
        if isinstance(st, ast.Return):
            if st.value is not None and not is_pure(st.value):
                bad(st, "helper returns the value of a call")
            return stmts[:i]
        if isinstance(st, ast.If) and any(isinstance(n, ast.Return) for x in st.body + st.orelse for n in ast.walk(x)):
            rest = elim_returns(stmts[i + 1:])
            body_ret = st.body and isinstance(st.body[-1], ast.Return)
            else_ret = st.orelse and isinstance(st.orelse[-1], ast.Return)
            body = elim_returns(st.body) + ([] if body_ret else rest)
            orelse = elim_returns(st.orelse) + ([] if else_ret else rest)
            return stmts[:i] + [ast.If(test=st.test, body=body or [ast.Pass()], orelse=orelse)]
        if any(isinstance(n, ast.Return) for n in ast.walk(st)):
            bad(st, "return inside a loop or a try of a helper")
    return stmts


def expand(classes, cls, stmts, depth, counter):
    """helper methods of the class called as statements are followed into"""
    out = []
    for st in stmts:
        if isinstance(st, ast.Expr) and isinstance(st.value, ast.Call) and isinstance(st.value.func, ast.Attribute) \
                and isinstance(st.value.func.value, ast.Name) and st.value.func.value.id == "self" and st.value.func.attr not in KEEP:
            h = resolve(classes, cls, st.value.func.attr)
            c = st.value
            if h is not None and not c.keywords and len(h.args.args) == len(c.args) + 1 and not h.decorator_list and depth < 4 \
                    and all(isinstance(a, (ast.Name, ast.Attribute, ast.Constant, ast.Tuple)) for a in c.args):
                counter[0] += 1
                mp = {a.arg: x for a, x in zip(h.args.args[1:], c.args)}
                for n in local_names(h):
                    mp[n] = "%s__%d" % (n, counter[0])
                body = [Subst(mp).visit(ast.parse(ast.unparse(x)).body[0]) for x in h.body]
                out.extend(expand(classes, cls, elim_returns(body), depth + 1, counter))
                continue
        for fld in ("body", "orelse"):
            if isinstance(st, (ast.If, ast.For)) and getattr(st, fld, None):
                setattr(st, fld, expand(classes, cls, getattr(st, fld), depth, counter))
        out.append(st)
    return out


def program(classes, cname, mname):
    cls = classes.get(cname)
    if cls is None:
        raise TranslationError("class %s not found" % cname)
    m = resolve(classes, cls, mname)
    if m is None:
        raise TranslationError("%s.%s not found" % (cname, mname))
    m = ast.parse(ast.unparse(m)).body[0]
    m.body = expand(classes, cls, m.body, 0, [0])
    ast.fix_missing_locations(m)
    return alpha("; ".join(acts(m.body, single_defs(m))), local_names(m))


# ---------------------------------------------------------------- format-call tables (print worker, region saver)

def format_table(classes, cname, mname, fmt_attr, skip=()):
    """the keyword arguments of the one call self.<fmt_attr>.format(...) reached from <cname>.<mname>(self, message), with locals
    replaced by their definitions (message[0], message[1] for `a, b = message`) and helper methods of the class followed into
    when they consist of assignments and one return"""
    cls = classes.get(cname)
    if cls is None:
        raise TranslationError("class %s not found" % cname)
    m = resolve(classes, cls, mname)
    if m is None or [a.arg for a in m.args.args][:1] != ["self"] or len(m.args.args) != 2:
        raise TranslationError("%s.%s(self, message) not found" % (cname, mname))

    class Sub(ast.NodeTransformer):
        def __init__(self, mp):
            self.mp = mp

        def visit_Name(self, n):
            if isinstance(n.ctx, ast.Load) and n.id in self.mp:
                return ast.copy_location(ast.parse(self.mp[n.id], mode="eval").body, n)
            return n

    def subst(e, mp):
        return ast.unparse(Sub(mp).visit(ast.parse(ast.unparse(e), mode="eval").body))

    found = []

    def walk_fn(fn, mp, depth):
        mp = dict(mp)
        for st in fn.body:
            if isinstance(st, ast.Expr) and isinstance(st.value, ast.Constant):
                continue
            for c in [x for x in ast.walk(st) if isinstance(x, ast.Call)]:
                if isinstance(c.func, ast.Attribute) and c.func.attr == "format" and ast.unparse(c.func.value) == "self." + fmt_attr:
                    if c.args:
                        bad(c, "positional arguments in the format call")
                    found.append(sorted("%s=%s" % (k.arg, subst(k.value, mp)) for k in c.keywords if k.arg not in skip))
                elif isinstance(c.func, ast.Attribute) and isinstance(c.func.value, ast.Name) and c.func.value.id == "self" and depth < 2:
                    h = resolve(classes, cls, c.func.attr)
                    if h is not None and c.func.attr not in KEEP and not c.keywords and len(h.args.args) == len(c.args) + 1 and any(
                            isinstance(x, ast.Call) and isinstance(x.func, ast.Attribute) and x.func.attr == "format" for x in ast.walk(h)):
                        walk_fn(h, {a.arg: "(%s)" % subst(x, mp) if not isinstance(x, ast.Name) else subst(x, mp) for a, x in zip(h.args.args[1:], c.args)}, depth + 1)
            if isinstance(st, ast.Assign) and len(st.targets) == 1:
                t = st.targets[0]
                if isinstance(t, ast.Tuple) and all(isinstance(x, ast.Name) for x in t.elts) and isinstance(st.value, ast.Name):
                    src = mp.get(st.value.id, st.value.id)
                    for i, x in enumerate(t.elts):
                        mp[x.id] = "%s[%d]" % (src, i)
                elif isinstance(t, ast.Name) and not any(isinstance(x, ast.Call) and ast.unparse(x.func).endswith(".format") for x in ast.walk(st.value)):
                    mp[t.id] = "(%s)" % subst(st.value, mp) if not isinstance(st.value, (ast.Name, ast.Attribute, ast.Subscript)) else subst(st.value, mp)
    walk_fn(m, {m.args.args[1].arg: "message"}, 0)
    if len(found) != 1:
        raise TranslationError("%s.%s: %d calls of self.%s.format found" % (cname, mname, len(found), fmt_attr))
    return found[0]


def emit(repo):
    wk = ast.parse(open(os.path.join(repo, "auditok", "workers.py")).read())
    classes = {n.name: n for n in wk.body if isinstance(n, ast.ClassDef)}
    out = ["(* generated from /repo/auditok/workers.py by py2coq/loops.py -- do not edit *)",
           "From Coq Require Import ZArith List Bool String.",
           "From AV Require Import Base.PyList Tok.Model Conc.Workers Conc.Loops.",
           "Import ListNotations.", ""]
    for c in WORKER_CLASSES:
        rows = turn_table(classes, c)
        out.append("Definition run_turn_gen_%s {M} (a : answer M) : turn M :=\n  match a with %s end." % (c, " | ".join("%s => %s" % r for r in rows)))
    rows = bool_table(classes, "TokenizerWorker", "_stop_requested")
    out.append("Definition stop_requested_gen {M} (a : answer M) : bool :=\n  match a with %s end." % " | ".join("%s => %s" % r for r in rows))
    rows = read_table(classes)
    out.append("Definition tok_read_gen {M B} (a : answer M) (r : option B) : option B :=\n  match a with %s end." % " | ".join("%s => %s" % r for r in rows))
    out.append("Open Scope string_scope.")
    for name, c, m in PROGRAMS:
        out.append("Definition %s_gen : list act := [%s]." % (name, program(classes, c, m)))
    out.append("Definition print_fields_gen : list String.string := [%s]." % "; ".join(q(x) for x in format_table(classes, "PrintWorker", "_process_message", "_print_format", skip=("timestamp",))))
    out.append("Definition save_fields_gen : list String.string := [%s]." % "; ".join(q(x) for x in format_table(classes, "RegionSaverWorker", "_process_message", "_filename_format")))
    # StreamSaverWorker / joiner writers use the base class loop: no override of run or _get_message between them and Worker
    return "\n".join(out) + "\n"


if __name__ == "__main__":
    import sys
    print(emit(sys.argv[1] if len(sys.argv) > 1 else "/repo"))
