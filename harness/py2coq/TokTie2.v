(** Tie (second, tolerant translation): the automaton methods of StreamTokenizer
    as translated by the generic engine from /repo's core.py in this run
    (TokGen2.v) compute the same functions as the hand-written AV.Tok.Model,
    for ALL configurations, states, frames and verdicts. *)
From Coq Require Import ZArith List Bool Lia ZifyBool.
From AV Require Import Base.PyList Tok.Model.
From AVGen Require Import TieTac TokGen2.
Import ListNotations.
Open Scope Z_scope.

Ltac unfold_setters :=
  unfold set_state, set_data, set_contig, set_init_count, set_sil, set_start, set_cur in *;
  cbn [state data contig init_count sil start cur
       min_length max_length max_sil init_min init_max_sil strict drop astate_eqb] in *.

Ltac tie_simpl ::=
  cbv beta iota delta [negb andb orb astate_eqb state data contig init_count sil start cur
                       min_length max_length max_sil init_min init_max_sil strict drop
                       set_state set_data set_contig set_init_count set_sil set_start set_cur].

Section Tie.
Context {A : Type}.

Lemma tie2_reinit (s : st A) : reinit2 s = reinit s.
Proof. destruct s; reflexivity. Qed.

Ltac simp := cbv beta iota zeta delta [negb andb orb astate_eqb state data contig init_count sil start cur
                       min_length max_length max_sil init_min init_max_sil strict drop
                       set_state set_data set_contig set_init_count set_sil set_start set_cur].

Lemma tie2_iter_step (c : config) (s : st A) fr : iter_step2 c s fr = iter_step c s fr.
Proof.
  destruct s as [sa d cg ic sl sta cu]; destruct c as [mn mx ms im ims str dr].
  unfold iter_step2, iter_step, process, post_process, eod, opt_list, nonempty.
  destruct fr as [[f v]|]; [destruct sa, v, dr, str, cg | destruct sa, dr, str, cg]; simp; walk.
Qed.

(** a whole stream: the frames, then the flush *)
Fixpoint run2 (c : config) (s : st A) (fs : list (A * bool)) : st A * list (token A) :=
  match fs with
  | [] => let '(s1, out, _) := iter_step2 c s None in (s1, out)
  | fv :: rest =>
      let '(s1, out, _) := iter_step2 c s (Some fv) in
      let '(s2, outs) := run2 c s1 rest in
      (s2, out ++ outs)
  end.

Lemma tie2_run (c : config) (fs : list (A * bool)) : forall s, run2 c s fs = run c s fs.
Proof.
  induction fs as [|fv rest IH]; intros s; cbn [run2 run]; rewrite tie2_iter_step; [reflexivity|].
  destruct (iter_step c s (Some fv)) as [[s1 out] b]. rewrite IH. reflexivity.
Qed.

Lemma tie2_tokenize (c : config) (s_old : st A) fs :
  snd (run2 c (reinit2 s_old) fs) = tokenize_from c s_old fs.
Proof. unfold tokenize_from. rewrite tie2_reinit, tie2_run. reflexivity. Qed.

End Tie.

Lemma tie2_validate mn mx ms imin ims mode : validate2 mn mx ms imin ims mode = validate mn mx ms imin ims mode.
Proof.
  unfold validate2, validate. cbv zeta. change (Z.lor 2 4) with 6.
  walk.
Qed.


From Coq Require Import String.

(** tokenize(): what is done with the generator in each delivery mode (a callback is served token by token, as the generator
    produces them -- nothing is collected first) *)
Lemma tie2_delivery :
  delivery_modes2 =
  ["callback: each token is passed to callback(*token) as the generator produces it; returns None";
   "callback and generator: each token is passed to callback(*token) as the generator produces it; returns None";
   "generator: returns the generator"; "list: returns list(generator)"]%string.
Proof. reflexivity. Qed.

Print Assumptions tie2_iter_step.
Print Assumptions tie2_tokenize.
Print Assumptions tie2_validate.
