(** Tie: the arithmetic of the %h %m %s %i formatter (util.make_duration_formatter)
    as translated from /repo in this run against Cli/Format.v. *)
From Coq Require Import ZArith List Bool.
From Flocq Require Import IEEE754.BinarySingleNaN.
From AV Require Import Base.PyList Base.PyFloat Tok.Model Cli.Format.
From AVGen Require Import TieTac GenFmt.
Import ListNotations.
Open Scope Z_scope.

Lemma tie_fields x :
  fields_gen x = match millis x with Some M => Ok (fields M) | None => Err ValueError end.
Proof. unfold fields_gen, millis, fields. cbv zeta. split_all; close_leaf. Qed.
