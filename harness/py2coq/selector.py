"""Translation of the dispatch of util.make_channel_selector on its `selected` argument (see coq/Audio/Selector.v):
the function body is executed symbolically once per kind of value -- None, "any", "mix", "avg", "average", an unknown string,
a float, an integer i (symbolic) -- with `channels` symbolic; what is returned is classified as all channels / the mean of the
channels / channel number <expr>, or ValueError.  The kinds the model identifies (None and "any"; the three names of the
mean; every unsupported value) must give the same text.  Fail closed."""
import ast
import os

from .pure import TranslationError


def bad(node, msg):
    raise TranslationError("util.py line %s: %s" % (getattr(node, "lineno", "?"), msg))


class Sym:
    """an integer-valued Coq expression"""
    def __init__(self, text):
        self.text = text


class Cond:
    """a boolean Coq expression"""
    def __init__(self, text):
        self.text = text


ALL = ("fn", "all")


def ev(e, env):
    if isinstance(e, ast.Constant):
        return e.value
    if isinstance(e, ast.Name):
        if e.id in env:
            return env[e.id]
        if e.id == "int":
            return int
        bad(e, "unknown name %s" % e.id)
    if isinstance(e, ast.Tuple):
        return tuple(ev(x, env) for x in e.elts)
    if isinstance(e, ast.Call) and ast.unparse(e.func).split(".")[-1] == "partial" and e.args and ast.unparse(e.args[0]).split(".")[-1].lstrip("_") == "to_array":
        kws = {k.arg: ast.unparse(k.value) for k in e.keywords}
        if kws != {"sample_width": "sample_width", "channels": "channels"} or len(e.args) != 1:
            bad(e, "to_array must be bound to sample_width and channels")
        return ALL
    if isinstance(e, ast.Call) and isinstance(e.func, ast.Name) and e.func.id == "isinstance" and len(e.args) == 2:
        v = ev(e.args[0], env)
        if ast.unparse(e.args[1]) != "int":
            bad(e, "isinstance against %s" % ast.unparse(e.args[1]))
        return isinstance(v, Sym) or (isinstance(v, int) and not isinstance(v, bool))
    if isinstance(e, ast.Call) and isinstance(e.func, ast.Attribute) and e.func.attr == "format":
        return "<message>"
    if isinstance(e, ast.JoinedStr):
        return "<message>"
    if isinstance(e, ast.BinOp) and isinstance(e.op, ast.Add):
        a, b = ev(e.left, env), ev(e.right, env)
        if isinstance(a, str) and isinstance(b, str):
            return "<message>"
        if isinstance(a, Sym) or isinstance(b, Sym):
            ta = a.text if isinstance(a, Sym) else str(a)
            tb = b.text if isinstance(b, Sym) else str(b)
            return Sym("(%s + %s)" % (ta, tb))
        bad(e, "addition")
    if isinstance(e, ast.UnaryOp) and isinstance(e.op, ast.Not):
        v = truth(ev(e.operand, env), e)
        return Cond("(negb %s)" % v.text) if isinstance(v, Cond) else (not v)
    if isinstance(e, ast.UnaryOp) and isinstance(e.op, ast.USub):
        v = ev(e.operand, env)
        if isinstance(v, Sym):
            return Sym("(- %s)" % v.text)
        if isinstance(v, int):
            return -v
        bad(e, "negation")
    if isinstance(e, ast.BoolOp):
        vals = [truth(ev(x, env), e) for x in e.values]
        is_or = isinstance(e.op, ast.Or)
        out = []
        for v in vals:
            if isinstance(v, Cond):
                out.append(v)
            elif v == is_or:
                # a constant that decides the result; what comes before it still has to be kept only if symbolic (no side effects here)
                return Cond("(%s)" % (" || " if is_or else " && ").join([x.text for x in out] + ["true" if is_or else "false"])) if out else is_or
        if not out:
            return not is_or
        return out[0] if len(out) == 1 else Cond("(%s)" % (" || " if is_or else " && ").join(x.text for x in out))
    if isinstance(e, ast.Compare) and len(e.ops) == 1:
        a, b = ev(e.left, env), ev(e.comparators[0], env)
        op = e.ops[0]
        if isinstance(op, (ast.In, ast.NotIn)):
            if isinstance(a, Sym) or not isinstance(b, tuple) or any(isinstance(x, Sym) for x in b):
                if isinstance(a, Sym) and isinstance(b, tuple) and not any(isinstance(x, (int, float, Sym)) and not isinstance(x, bool) for x in b):
                    r = False          # an int is never None nor a string
                else:
                    bad(e, "membership test on symbolic values")
            else:
                r = any((a is x) if x is None or a is None else (type(a) == type(x) and a == x) for x in b)
            return r if isinstance(op, ast.In) else not r
        if isinstance(op, (ast.Is, ast.IsNot)):
            if b is not None:
                bad(e, "identity test against something else than None")
            r = a is None
            return r if isinstance(op, ast.Is) else not r
        sym = isinstance(a, Sym) or isinstance(b, Sym)
        if not sym:
            if isinstance(op, (ast.Eq, ast.NotEq)):
                r = (type(a) == type(b) and a == b)
                return r if isinstance(op, ast.Eq) else not r
            bad(e, "ordering of non-integers")
        ta = a.text if isinstance(a, Sym) else str(a) if isinstance(a, int) and not isinstance(a, bool) else None
        tb = b.text if isinstance(b, Sym) else str(b) if isinstance(b, int) and not isinstance(b, bool) else None
        if ta is None or tb is None:
            if isinstance(op, ast.Eq):
                return False
            if isinstance(op, ast.NotEq):
                return True
            bad(e, "integer compared with a non-integer")
        tab = {ast.Lt: "(%s <? %s)", ast.LtE: "(%s <=? %s)", ast.Eq: "(%s =? %s)"}
        if type(op) in tab:
            return Cond(tab[type(op)] % (ta, tb))
        if isinstance(op, ast.Gt):
            return Cond("(%s <? %s)" % (tb, ta))
        if isinstance(op, ast.GtE):
            return Cond("(%s <=? %s)" % (tb, ta))
        if isinstance(op, ast.NotEq):
            return Cond("(negb (%s =? %s))" % (ta, tb))
        bad(e, "comparison")
    if isinstance(e, ast.Lambda):
        if len(e.args.args) != 1:
            bad(e, "selector of another arity")
        x = e.args.args[0].arg
        body = e.body
        # to_array_(x)[k]
        if isinstance(body, ast.Subscript) and isinstance(body.value, ast.Call) and isinstance(body.value.func, ast.Name) \
                and env.get(body.value.func.id) == ALL and [ast.unparse(a) for a in body.value.args] == [x] and not body.value.keywords:
            k = ev(body.slice, env)
            if isinstance(k, Sym):
                return ("fn", "idx", k.text)
            if isinstance(k, int) and not isinstance(k, bool):
                return ("fn", "idx", str(k))
            bad(e, "channel subscript of type %s" % type(k).__name__)
        # to_array_(x).mean(axis=0)
        if isinstance(body, ast.Call) and isinstance(body.func, ast.Attribute) and body.func.attr == "mean" and isinstance(body.func.value, ast.Call) \
                and isinstance(body.func.value.func, ast.Name) and env.get(body.func.value.func.id) == ALL \
                and [ast.unparse(a) for a in body.func.value.args] == [x] and not body.args and [(k.arg, ast.unparse(k.value)) for k in body.keywords] == [("axis", "0")]:
            return ("fn", "mix")
        bad(e, "unrecognised selector %s" % ast.unparse(e))
    bad(e, "expression %s" % type(e).__name__)


def truth(v, node):
    if isinstance(v, (Cond, bool)):
        return v
    bad(node, "truth value of %r" % (v,))


def run(stmts, env):
    """-> Coq text of type result rsel"""
    for i, st in enumerate(stmts):
        if isinstance(st, ast.Expr) and isinstance(st.value, ast.Constant):
            continue
        if isinstance(st, ast.Assign) and len(st.targets) == 1 and isinstance(st.targets[0], ast.Name):
            env = dict(env); env[st.targets[0].id] = ev(st.value, env)
            continue
        if isinstance(st, ast.FunctionDef) and not st.decorator_list:
            # a named inner function with one parameter and one return: the same thing as the lambda it replaces
            body = [x for x in st.body if not (isinstance(x, ast.Expr) and isinstance(x.value, ast.Constant))]
            if len(st.args.args) == 1 and len(body) == 1 and isinstance(body[0], ast.Return) and body[0].value is not None:
                lam = ast.copy_location(ast.Lambda(args=st.args, body=body[0].value), st)
                env = dict(env); env[st.name] = ev(lam, env)
                continue
            bad(st, "inner function %s is not a one-parameter single return" % st.name)
        if isinstance(st, ast.AugAssign) and isinstance(st.target, ast.Name) and isinstance(st.op, ast.Add):
            cur = env.get(st.target.id)
            add = ev(st.value, env)
            env = dict(env)
            if isinstance(cur, str) and isinstance(add, str):
                env[st.target.id] = "<message>"
            elif isinstance(cur, Sym) or isinstance(add, Sym):
                env[st.target.id] = Sym("(%s + %s)" % (cur.text if isinstance(cur, Sym) else cur, add.text if isinstance(add, Sym) else add))
            else:
                bad(st, "augmented assignment")
            continue
        if isinstance(st, ast.If):
            c = truth(ev(st.test, env), st)
            rest = stmts[i + 1:]
            if isinstance(c, Cond):
                return "(if %s then %s else %s)" % (c.text, run(st.body + rest, env), run(st.orelse + rest, env))
            return run((st.body if c else st.orelse) + rest, env)
        if isinstance(st, ast.Return):
            v = ev(st.value, env) if st.value is not None else None
            if v == ALL:
                return "Ok RAll"
            if isinstance(v, tuple) and v[:2] == ("fn", "mix"):
                return "Ok RMix"
            if isinstance(v, tuple) and v[:2] == ("fn", "idx"):
                return "Ok (RIdx %s)" % v[2]
            bad(st, "returns %r" % (v,))
        if isinstance(st, ast.Raise):
            name = ast.unparse(st.exc.func) if isinstance(st.exc, ast.Call) else ast.unparse(st.exc)
            if name != "ValueError":
                bad(st, "raises %s" % name)
            return "Err ValueError"
        bad(st, "statement %s" % type(st).__name__)
    bad(stmts[-1] if stmts else None, "falls off the end")


def emit(repo):
    util = ast.parse(open(os.path.join(repo, "auditok", "util.py")).read())
    fn = next((n for n in util.body if isinstance(n, ast.FunctionDef) and n.name == "make_channel_selector"), None)
    if fn is None:
        raise TranslationError("make_channel_selector not found")
    params = [a.arg for a in fn.args.args]
    if params != ["sample_width", "channels", "selected"]:
        raise TranslationError("make_channel_selector signature changed: %r" % params)

    consts = {}
    for n in util.body:          # module-level literals (tuples of names hoisted out of the function)
        if isinstance(n, ast.Assign) and len(n.targets) == 1 and isinstance(n.targets[0], ast.Name):
            try:
                consts[n.targets[0].id] = ast.literal_eval(n.value)
            except Exception:
                pass

    def case(value):
        env = dict(consts)
        env.update({"sample_width": Sym("sample_width"), "channels": Sym("channels"), "selected": value})
        return run(list(fn.body), env)
    any_ = [case(None), case("any")]
    mix = [case("mix"), case("avg"), case("average")]
    badv = [case("zzz"), case(1.5), case("")]
    idx = case(Sym("i"))
    for name, group in (("None / 'any'", any_), ("'mix' / 'avg' / 'average'", mix), ("unsupported values", badv)):
        if len(set(group)) != 1:
            raise TranslationError("the values %s are not treated alike: %r" % (name, group))
    return "\n".join([
        "(* generated from /repo/auditok/util.py (make_channel_selector) by py2coq/selector.py -- do not edit *)",
        "From Coq Require Import ZArith List Bool.", "From AV Require Import Base.PyList Tok.Model Audio.Energy Audio.Selector.", "Open Scope Z_scope.", "",
        "Definition selector_gen (channels : Z) (s : sel) : result rsel :=",
        "  match s with", "  | SAny => %s" % any_[0], "  | SMix => %s" % mix[0], "  | SIdx i => %s" % idx, "  | SBad => %s" % badv[0], "  end.", ""])


if __name__ == "__main__":
    import sys
    print(emit(sys.argv[1] if len(sys.argv) > 1 else "/repo"))
