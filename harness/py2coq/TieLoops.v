(** Tie: the loop turn of Worker.run (for every worker class of the module), Worker._stop_requested,
    TokenizerWorker.read and the queue / join / close programs as translated from /repo's workers.py in this run
    (GenLoops.v) against Conc/Loops.v, whose theorems relate them to the interleaving model of Conc/Workers.v. *)
From Coq Require Import ZArith List Bool String.
From AV Require Import Base.PyList Tok.Model Conc.Workers Conc.Loops.
From AVGen Require Import GenLoops.
Import ListNotations.

Lemma tie_run_turn M (a : answer M) :
  run_turn_gen_Worker a = run_turn a /\ run_turn_gen_StreamSaverWorker a = run_turn a /\
  run_turn_gen_AudioEventsJoinerWorker a = run_turn a /\ run_turn_gen_RegionSaverWorker a = run_turn a /\
  run_turn_gen_PlayerWorker a = run_turn a /\ run_turn_gen_CommandLineWorker a = run_turn a /\
  run_turn_gen_PrintWorker a = run_turn a.
Proof. destruct a; repeat split; reflexivity. Qed.

Lemma tie_stop_requested M (a : answer M) : stop_requested_gen a = stop_requested a.
Proof. destruct a; reflexivity. Qed.

Lemma tie_tok_read M B (a : answer M) (r : option B) : tok_read_gen a r = tok_read a r.
Proof. destruct a; reflexivity. Qed.

Lemma tie_programs :
  prog_tok_run_gen = prog_tok_run /\ prog_notify_gen = prog_notify /\ prog_stop_all_gen = prog_stop_all /\
  prog_start_all_gen = prog_start_all /\ prog_stop_gen = prog_stop /\ prog_saver_read_gen = prog_saver_read /\
  prog_saver_close_gen = prog_saver_close.
Proof. repeat split; reflexivity. Qed.

Lemma tie_fields : print_fields_gen = print_fields /\ save_fields_gen = save_fields.
Proof. split; reflexivity. Qed.

Print Assumptions tie_run_turn.
Print Assumptions tie_programs.
