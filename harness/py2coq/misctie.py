"""Per-run translation ties for the small arithmetic functions (see misc.py):
translate one group from /repo's working tree, compile it, compile its tie
lemmas against the hand-written model.  Results are cached per content hash."""
import os
import shutil

from .. import common as C
from . import misc


def tie_group(group):
    """returns dict(ok, detail, obligations, sha)"""
    gen_file, tie_file, lemmas = misc.GROUPS[group]
    here = os.path.join(C.VERIF, "harness", "py2coq")
    srcs = [os.path.join(C.REPO, "auditok", f) for f in ("core.py", "io.py", "util.py", "workers.py", "signal.py", "cmdline_util.py")]
    models = [os.path.join(C.COQ, p) for p in ("Base/PyList.v", "Base/PyFloat.v", "Audio/Region.v", "IO/Source.v", "IO/Reader.v", "IO/Layers.v", "IO/Layers2.v", "IO/Load.v", "Audio/Energy.v", "Audio/Selector.v", "Cli/Guards.v", "Split/Duration.v", "Split/Split.v", "Cli/Format.v", "Conc/Workers.v", "Conc/Savers.v", "Conc/Loops.v")]
    sha = C.sha_files(srcs + models + [os.path.join(here, "misc.py"), os.path.join(here, "pure.py"), os.path.join(here, "loops.py"), os.path.join(here, "selector.py"), os.path.join(here, "kwargs.py"), os.path.join(here, "alias.py"), os.path.join(here, tie_file), os.path.join(here, "TieTac.v")])
    d = os.path.join(C.GEN, "misc_%s_%s" % (group, sha))
    res = {"sha": sha, "obligations": ["%s:%s" % (tie_file[:-2], l) for l in lemmas]}
    with C.BuildLock():
        marker = os.path.join(d, "RESULT")
        if os.path.exists(marker):
            txt = open(marker).read()
            res["ok"] = txt.startswith("OK"); res["detail"] = txt
            return res
        os.makedirs(d, exist_ok=True)
        try:
            gen = misc.emit_group(C.REPO, group)
        except misc.TranslationError as e:
            res["ok"] = False
            res["detail"] = "translator rejects the source of group '%s' (construct outside the supported subset): %s" % (group, e)
            open(marker, "w").write("FAIL " + res["detail"])
            return res
        open(os.path.join(d, gen_file), "w").write(gen)
        shutil.copy(os.path.join(here, tie_file), d)
        shutil.copy(os.path.join(here, "TieTac.v"), d)
        for f in ("TieTac.v", gen_file, tie_file):
            rc, out = C.sh(["coqc", "-Q", C.COQ, "AV", "-Q", ".", "AVGen"] + C.COQ_WARN + [f], cwd=d, timeout=900)
            if rc != 0:
                res["ok"] = False
                res["detail"] = "%s does not check against the definitions generated from /repo: %s" % (f, out[-1200:])
                open(marker, "w").write("FAIL " + res["detail"])
                return res
        res["ok"] = True
        res["detail"] = "OK generated = model for all inputs: %s (sha %s)" % (", ".join(lemmas), sha)
        open(marker, "w").write(res["detail"])
        C.prune_gen(24)
    return res
