"""Fail-closed translator for small arithmetic functions / methods of auditok
(Python ast -> Gallina).  It complements tok.py (the tokenizer class): index
arithmetic of AudioRegion slicing, the duration -> window-count conversion,
the buffer source's cursor methods, make_silence's size, the formatter's
field decomposition.

Supported subset (anything else raises TranslationError, never a guess):
  statements   assignment to a local or to self.<field> (declared state
               fields), augmented assignment, tuple unpacking of a tuple
               value, if / elif / else, return, raise <declared exception>,
               `for v in (a, b, ...)` over a literal tuple (unrolled),
               docstrings and string-building statements (dropped: they only
               feed error messages)
  expressions  int / float / bool / None literals, names, declared
               self.<attr> reads, + - * // % / (typed int or float, int
               operands of a float operation are converted like Python does),
               unary -, not, and / or (short-circuit, constant-folded),
               comparisons, `is None` / `is not None`, conditional
               expressions, max / min / len / int / round / math.floor /
               math.ceil / divmod, a call of a parameter declared as a
               rounding function, bytes slicing d[a:b], calls of sibling
               functions that are translated too, isinstance(...) (assumed
               True: ill-typed arguments are outside the translated fragment
               and are exercised by the correspondence runs instead)
Values that may be None are typed optZ / optF and the function is specialised
on None-ness first, so `x is None` is a constant in each branch.
Conversions that raise on inf/nan (int, round, floor, ceil of a float) become
a match whose None branch is the error the model uses (ValueError)."""
import ast


class TranslationError(Exception):
    pass


def bad(node, why):
    raise TranslationError("line %s: %s [%s]" % (getattr(node, "lineno", "?"), why, ast.dump(node)[:140]))


EXC = {"ValueError": "ValueError", "TypeError": "TypeError", "IndexError": "IndexError", "AudioIOError": "AudioIOError",
       "AudioParameterError": "AudioParameterError", "RuntimeError": "RuntimeError", "TimeFormatError": "TimeFormatError",
       "TooSmallBlockDuration": "TooSmallBlockDuration"}


def zlit(n):
    return str(n) if n >= 0 else "(%d)" % n


def flit(x):
    import math
    if x == 0:
        return "fzero"
    m, e = math.frexp(x)
    return "(of_me %s %s)" % (zlit(int(m * (1 << 53))), zlit(e - 53))


class V:
    """a translated value: coq text + type; `const` holds a Python constant when known (for folding)"""
    def __init__(self, text, ty, const=None, has_const=False):
        self.text, self.ty, self.const, self.has_const = text, ty, const, has_const


TRUE = V("true", "bool", True, True)
FALSE = V("false", "bool", False, True)
NONE = V("None", "none", None, True)


class Spec:
    """what the translator is told about one function"""
    def __init__(self, coq_name, params, ret, self_attrs=None, state=None, consts=None, siblings=None, returns=None, skip_params=()):
        self.coq_name = coq_name
        self.params = params            # [(python name, type)]  types: Z F bool optZ optF bytes round_fn slice_Z slice_F
        self.ret = ret                  # callable(V or tuple of V, env) -> coq text of the final result (Ok ...)
        self.self_attrs = self_attrs or {}   # attr -> (coq text, type)
        self.state = state or []        # [(attr, coq getter text, type)] fields of self that may be assigned
        self.consts = consts or {}      # module-level names -> V
        self.siblings = siblings or {}  # python callee name -> (coq function name, arg order, result types tuple)
        self.returns = returns
        self.skip_params = skip_params


class Pure:
    BUILTIN_CALLS = ("int", "round", "max", "min", "len", "isinstance", "divmod", "slice", "AudioRegion", "super", "float", "str", "bool")

    def __init__(self, fn_node, spec, module_consts=None, module=None, cls=None):
        self.fn = fn_node
        self.spec = spec
        self.fresh = 0
        self.module_consts = module_consts or {}
        self.module = module        # ast.Module the function lives in: helper functions are inlined from it
        self.cls = cls              # ast.ClassDef of a method: helper methods are inlined from it
        self.depth = 0

    # ------------------------------------------------------------ helpers defined next to the translated function
    def resolve(self, call):
        """FunctionDef of a helper called as name(...) (module level) or self.name(...) (same class), else None"""
        f = call.func
        if isinstance(f, ast.Name) and self.module is not None and f.id not in self.BUILTIN_CALLS and f.id not in EXC:
            c = [n for n in self.module.body if isinstance(n, ast.FunctionDef) and n.name == f.id]
            return c[0] if len(c) == 1 else None
        if isinstance(f, ast.Attribute) and isinstance(f.value, ast.Name) and f.value.id == "self" and self.cls is not None:
            c = [n for n in self.cls.body if isinstance(n, ast.FunctionDef) and n.name == f.attr
                 and (not n.decorator_list or [ast.unparse(d) for d in n.decorator_list] == ["staticmethod"])]
            return c[0] if len(c) == 1 else None
        return None

    @staticmethod
    def body_of(fn):
        b = list(fn.body)
        if b and isinstance(b[0], ast.Expr) and isinstance(b[0].value, ast.Constant) and isinstance(b[0].value.value, str):
            b = b[1:]
        return b

    def callee_env(self, fn, call, env, binds):
        params = [a.arg for a in fn.args.args if a.arg != "self"]
        if len(call.args) > len(params) or fn.args.vararg or fn.args.kwarg or fn.args.kwonlyargs \
                or any(k.arg is None or k.arg not in params[len(call.args):] for k in call.keywords) or len({k.arg for k in call.keywords}) != len(call.keywords):
            bad(call, "unsupported way of calling helper %s" % fn.name)
        vals = [self.expr(a, env, binds) for a in call.args]
        kw = {k.arg: k.value for k in call.keywords}
        ndef = len(fn.args.defaults)
        for i in range(len(vals), len(params)):
            if params[i] in kw:
                vals.append(self.expr(kw[params[i]], env, binds))     # keyword arguments are evaluated after the positional ones, in call order
                continue
            j = i - (len(params) - ndef)
            if j < 0:
                bad(call, "missing argument for helper %s" % fn.name)
            vals.append(self.expr(fn.args.defaults[j], {}, binds))
        cenv = {k: v for k, v in env.items() if k.startswith("self.")}
        for p_, v in zip(params, vals):
            cenv[p_] = v
            for suffix in (".start", ".stop"):
                # slice-typed arguments carry their bounds along
                pass
        for a, p_ in zip(call.args, params):
            if isinstance(a, ast.Name) and a.id in env and env[a.id].ty.startswith("slice_"):
                cenv[p_ + ".start"] = env[a.id + ".start"]
                cenv[p_ + ".stop"] = env[a.id + ".stop"]
        return cenv

    def inline_stmt(self, fn, call, env, node, kont):
        """translate the body of helper `fn` in place; kont(value, env_with_updated_self_fields) continues the caller"""
        if self.depth > 5:
            bad(call, "helper calls nested too deeply")
        binds = []
        cenv = self.callee_env(fn, call, env, binds)
        saved = self.spec.ret
        outer = self

        def merged(cenv2):
            e = dict(env)
            for k_, v_ in cenv2.items():
                if k_.startswith("self.") or k_.startswith("#"):
                    e[k_] = v_          # fields of self, and the translator's own per-run state (keys starting with #)
            return e

        def callee_ret(tr, v, cenv2, n):
            outer.spec.ret = saved
            outer.depth -= 1
            try:
                if v.ty == "error":
                    return saved(tr, v, merged(cenv2), n)
                return kont(v, merged(cenv2))
            finally:
                outer.depth += 1
                outer.spec.ret = callee_ret
        self.spec.ret = callee_ret
        self.depth += 1
        try:
            return self.wrap(binds, self.block(self.body_of(fn), cenv, lambda e2: callee_ret(self, NONE, e2, fn)))
        finally:
            self.depth -= 1
            self.spec.ret = saved

    def inline_expr(self, fn, call, env, binds):
        """helpers that are a single `return <expr>` are inlined inside expressions"""
        body = self.body_of(fn)
        if len(body) != 1 or not isinstance(body[0], ast.Return) or body[0].value is None:
            bad(call, "helper %s is not a single return expression (it can only be called as a statement: x = %s(...))" % (fn.name, fn.name))
        if self.depth > 5:
            bad(call, "helper calls nested too deeply")
        cenv = self.callee_env(fn, call, env, binds)
        self.depth += 1
        try:
            return self.expr(body[0].value, cenv, binds)
        finally:
            self.depth -= 1

    def new(self, base):
        self.fresh += 1
        return "%s_%d" % (base.strip("_") or "v", self.fresh)

    # ------------------------------------------------------------ expressions
    def expr(self, e, env, binds):
        """binds: list that receives (var, option-valued coq text) for partial conversions"""
        sp = self.spec
        if isinstance(e, ast.Constant):
            v = e.value
            if v is True:
                return TRUE
            if v is False:
                return FALSE
            if v is None:
                return NONE
            if isinstance(v, int):
                return V(zlit(v), "Z", v, True)
            if isinstance(v, float):
                return V(flit(v), "F", v, True)
            if isinstance(v, str):
                return V('""', "str")
            if isinstance(v, bytes) and v == b"":
                return V("[]", "bytes")
            bad(e, "unsupported constant")
        if isinstance(e, ast.JoinedStr):
            return V('""', "str")
        if isinstance(e, ast.Name):
            if e.id == "self":
                return V("self", "obj")
            if e.id in env:
                return env[e.id]
            if e.id in sp.consts:
                return sp.consts[e.id]
            if e.id in self.module_consts:
                return self.module_consts[e.id]
            if self.module is not None:
                # floor / ceil imported by name from math (possibly under an alias)
                for imp in self.module.body:
                    if isinstance(imp, ast.ImportFrom) and imp.module == "math":
                        for al in imp.names:
                            if (al.asname or al.name) == e.id and al.name in ("floor", "ceil"):
                                return V("py_" + al.name, "round_fn")
                # a module-level constant: numbers are inlined, anything else can only be message text
                defs = [n for n in self.module.body if isinstance(n, ast.Assign) and len(n.targets) == 1
                        and isinstance(n.targets[0], ast.Name) and n.targets[0].id == e.id]
                if len(defs) == 1:
                    val = defs[0].value
                    if isinstance(val, ast.Constant) and isinstance(val.value, (int, float)) and not isinstance(val.value, bool):
                        return self.expr(val, {}, binds)
                    if (isinstance(val, ast.Constant) and isinstance(val.value, bytes) and val.value == b"") or ast.unparse(val) == "bytes()":
                        return V("[]", "bytes")
                    if isinstance(val, (ast.Constant, ast.JoinedStr, ast.Call, ast.BinOp)) and not (isinstance(val, ast.Constant) and not isinstance(val.value, str)):
                        return V('""', "str")
            bad(e, "unknown name %s" % e.id)
        if isinstance(e, ast.Attribute):
            if isinstance(e.value, ast.Name) and e.value.id == "self":
                key = "self." + e.attr
                if key in env:
                    return env[key]
                if e.attr in sp.self_attrs:
                    t, ty = sp.self_attrs[e.attr]
                    return V(t, ty)
                bad(e, "read of undeclared attribute self.%s" % e.attr)
            if isinstance(e.value, ast.Name) and e.value.id in env and env[e.value.id].ty == "obj":
                tab = getattr(sp, "obj_attrs", {}).get(e.value.id, {})
                if e.attr in tab:
                    t, ty = tab[e.attr]
                    return V(t, ty)
                bad(e, "read of undeclared attribute %s.%s" % (e.value.id, e.attr))
            if isinstance(e.value, ast.Name) and e.value.id in env and env[e.value.id].ty.startswith("slice_"):
                base = env[e.value.id]
                if e.attr in ("start", "stop"):
                    return env[e.value.id + "." + e.attr]
                if e.attr == "step":
                    return NONE
            if isinstance(e.value, ast.Name) and e.value.id.lstrip("_") == "math" and e.attr in ("floor", "ceil"):
                return V("py_" + e.attr, "round_fn")        # math.floor under whatever name the math module was imported
            bad(e, "unsupported attribute access")
        if isinstance(e, ast.UnaryOp):
            x = self.expr(e.operand, env, binds)
            if isinstance(e.op, ast.Not):
                x = self.truthy(e, x)
                if x.has_const:
                    return FALSE if x.const else TRUE
                return V("(negb %s)" % x.text, "bool")
            if isinstance(e.op, ast.USub):
                if x.ty == "Z":
                    return V("(- %s)" % x.text, "Z", -x.const if x.has_const else None, x.has_const)
                if x.ty == "F":
                    if x.has_const:
                        return V(flit(-x.const), "F", -x.const, True)
                    return V("(Bopp %s)" % x.text, "F")
            bad(e, "unary operator")
        if isinstance(e, ast.BoolOp):
            is_and = isinstance(e.op, ast.And)
            acc = None
            for sub in e.values:
                x = self.truthy(sub, self.expr(sub, env, binds))
                if x.has_const:
                    if x.const == (not is_and):       # True in an or / False in an and: decides, rest is not evaluated
                        if acc is None:
                            return x
                        return V("(%s %s %s)" % (acc.text, "&&" if is_and else "||", x.text), "bool")
                    continue                           # neutral element
                acc = x if acc is None else V("(%s %s %s)" % (acc.text, "&&" if is_and else "||", x.text), "bool")
            if acc is None:
                return TRUE if is_and else FALSE
            return acc
        if isinstance(e, ast.Compare):
            if len(e.ops) != 1:
                bad(e, "chained comparison")
            op = e.ops[0]
            a = self.expr(e.left, env, binds)
            b = self.expr(e.comparators[0], env, binds)
            if isinstance(op, (ast.Is, ast.IsNot)) and a.ty == "obj" and b.ty == "obj":
                # two object-typed values: translated for DISTINCT objects (the identical case is the reflexive instance of the model)
                return FALSE if isinstance(op, ast.Is) else TRUE
            if isinstance(op, (ast.Is, ast.IsNot)):
                if b.ty != "none":
                    bad(e, "is / is not with something else than None")
                if a.ty == "none":
                    r = True
                elif a.ty in ("Z", "F", "bool", "bytes", "str", "tuple", "elem"):
                    r = False
                else:
                    bad(e, "None-ness of %s is not known here" % a.ty)
                if isinstance(op, ast.IsNot):
                    r = not r
                return TRUE if r else FALSE
            if a.ty == "bytes" and b.ty == "bytes" and isinstance(op, (ast.Eq, ast.NotEq)):
                t = "(list_eqb %s %s)" % (a.text, b.text)
                return V(t if isinstance(op, ast.Eq) else "(negb %s)" % t, "bool")
            a, b = self.coerce_pair(e, a, b)
            tab_z = {ast.Lt: "(%s <? %s)", ast.LtE: "(%s <=? %s)", ast.Gt: "(%s >? %s)", ast.GtE: "(%s >=? %s)", ast.Eq: "(%s =? %s)", ast.NotEq: "(negb (%s =? %s))"}
            tab_f = {ast.Lt: "(flt %s %s)", ast.LtE: "(fle %s %s)", ast.Gt: "(flt %s %s)", ast.GtE: "(fle %s %s)", ast.Eq: "(feq %s %s)", ast.NotEq: "(negb (feq %s %s))"}
            if a.ty == "Z":
                if isinstance(op, (ast.Gt, ast.GtE)):
                    # a > b is emitted as b < a: one normal form for the tie proofs
                    return V(tab_z[ast.Lt if isinstance(op, ast.Gt) else ast.LtE] % (b.text, a.text), "bool")
                return V(tab_z[type(op)] % (a.text, b.text), "bool")
            if a.ty == "F":
                if isinstance(op, (ast.Gt, ast.GtE)):
                    return V(tab_f[type(op)] % (b.text, a.text), "bool")
                return V(tab_f[type(op)] % (a.text, b.text), "bool")
            bad(e, "comparison of %s" % a.ty)
        if isinstance(e, ast.BinOp):
            a = self.expr(e.left, env, binds)
            b = self.expr(e.right, env, binds)
            if a.ty == "str" or b.ty == "str":
                return V('""', "str")
            if isinstance(e.op, ast.Div):
                a, b = self.to_f(a), self.to_f(b)
                return V("(fdiv %s %s)" % (a.text, b.text), "F")
            if a.ty == "bytes" and b.ty == "bytes" and isinstance(e.op, ast.Add):
                return V("(%s ++ %s)" % (a.text, b.text), "bytes")
            if a.ty == "bytes" and b.ty == "Z" and isinstance(e.op, ast.Mult):
                return V("(repeat_list %s (Z.to_nat %s))" % (a.text, b.text), "bytes")
            a, b = self.coerce_pair(e, a, b)
            if a.ty == "Z":
                tab = {ast.Add: "(%s + %s)", ast.Sub: "(%s - %s)", ast.Mult: "(%s * %s)", ast.FloorDiv: "(%s / %s)", ast.Mod: "(%s mod %s)"}
                if type(e.op) not in tab:
                    bad(e, "integer operator")
                return V(tab[type(e.op)] % (a.text, b.text), "Z")
            if a.ty == "F":
                tab = {ast.Add: "(fadd %s %s)", ast.Sub: "(fsub %s %s)", ast.Mult: "(fmul %s %s)"}
                if type(e.op) not in tab:
                    bad(e, "float operator")
                return V(tab[type(e.op)] % (a.text, b.text), "F")
            bad(e, "binary operator on %s" % a.ty)
        if isinstance(e, ast.IfExp):
            c = self.truthy(e.test, self.expr(e.test, env, binds))
            if c.has_const:
                return self.expr(e.body if c.const else e.orelse, env, binds)
            x = self.expr(e.body, env, binds)
            y = self.expr(e.orelse, env, binds)
            if x.ty != y.ty:
                if {x.ty, y.ty} == {"Z", "F"}:
                    x, y = self.to_f(x), self.to_f(y)
                else:
                    bad(e, "branches of a conditional expression have types %s / %s" % (x.ty, y.ty))
            return V("(if %s then %s else %s)" % (c.text, x.text, y.text), x.ty)
        if isinstance(e, ast.Tuple):
            vals = [self.expr(x, env, binds) for x in e.elts]
            return V(None, "tuple", vals, False)
        if isinstance(e, ast.Subscript):
            base = self.expr(e.value, env, binds)
            if base.ty == "region" and isinstance(e.slice, ast.Slice):
                lo = self.expr(e.slice.lower, env, binds) if e.slice.lower is not None else NONE
                hi = self.expr(e.slice.upper, env, binds) if e.slice.upper is not None else NONE
                return V(None, "region_slice", (lo, hi), False)
            if base.ty != "bytes" or not isinstance(e.slice, ast.Slice) or e.slice.step is not None:
                bad(e, "only bytes[a:b] is supported")
            # an omitted lower bound is 0 (the step is always omitted, i.e. positive)
            lo = self.expr(e.slice.lower, env, binds) if e.slice.lower is not None else V("0", "Z", 0, True)
            hi = self.expr(e.slice.upper, env, binds) if e.slice.upper is not None else NONE
            return V("(py_slice %s %s %s)" % (base.text, self.as_opt(e, lo), self.as_opt(e, hi)), "bytes")
        if isinstance(e, ast.Call):
            return self.call(e, env, binds)
        bad(e, "unsupported expression")

    def truthy(self, node, v):
        """Python truth value of v as a bool-typed V (bytes: non-empty; None: False)"""
        if v.ty == "bool":
            return v
        if v.ty == "bytes":
            return V("(nonempty %s)" % v.text, "bool")
        if v.ty == "none":
            return FALSE
        bad(node, "truth value of %s" % v.ty)

    def as_opt(self, node, v):
        if v.ty == "none":
            return "None"
        if v.ty == "Z":
            return "(Some %s)" % v.text
        if v.ty == "optZtext":
            return v.text
        bad(node, "slice bound of type %s" % v.ty)

    def to_f(self, v):
        if v.ty == "F":
            return v
        if v.ty == "Z":
            return V("(of_Z %s)" % v.text, "F")
        raise TranslationError("cannot convert %s to float" % v.ty)

    def coerce_pair(self, node, a, b):
        if a.ty == b.ty:
            return a, b
        if {a.ty, b.ty} == {"Z", "F"}:
            return self.to_f(a), self.to_f(b)
        bad(node, "operands of types %s and %s" % (a.ty, b.ty))

    def partial(self, fn, x, binds, base):
        var = self.new(base)
        binds.append((var, "(%s %s)" % (fn, x.text)))
        return V(var, "Z")

    def call(self, e, env, binds):
        f = e.func
        name = f.id if isinstance(f, ast.Name) else None
        if e.keywords:
            bad(e, "keyword arguments in a call")
        if name == "isinstance":
            return TRUE
        if name in EXC:
            return V("Err " + EXC[name], "exc")
        helper = self.resolve(e)
        if helper is not None and not (name is not None and name in self.spec.siblings):
            return self.inline_expr(helper, e, env, binds)
        if name in ("max", "min") and len(e.args) == 2:
            a = self.expr(e.args[0], env, binds); b = self.expr(e.args[1], env, binds)
            if a.ty != "Z" or b.ty != "Z":
                bad(e, "max/min on non-integers")
            return V("(Z.%s %s %s)" % (name, a.text, b.text), "Z")
        if name == "len" and len(e.args) == 1:
            a = self.expr(e.args[0], env, binds)
            if a.ty != "bytes":
                bad(e, "len of %s" % a.ty)
            return V("(zlen %s)" % a.text, "Z")
        if name in ("int", "round") and len(e.args) == 1:
            a = self.expr(e.args[0], env, binds)
            if a.ty == "Z":
                return a
            if a.ty == "F":
                return self.partial("py_int" if name == "int" else "py_round", a, binds, name)
            bad(e, "%s of %s" % (name, a.ty))
        if name == "divmod" and len(e.args) == 2:
            a = self.expr(e.args[0], env, binds); b = self.expr(e.args[1], env, binds)
            if a.ty != "Z" or b.ty != "Z":
                bad(e, "divmod on non-integers")
            return V(None, "tuple", [V("(%s / %s)" % (a.text, b.text), "Z"), V("(%s mod %s)" % (a.text, b.text), "Z")], False)
        if name == "slice" and len(e.args) == 2:
            lo = self.expr(e.args[0], env, binds); hi = self.expr(e.args[1], env, binds)
            return V(None, "slice_val", (lo, hi), False)
        if name is not None and name in env and env[name].ty == "round_fn" and len(e.args) == 1:
            a = self.expr(e.args[0], env, binds)
            if a.ty != "F":
                bad(e, "rounding function applied to %s" % a.ty)
            return self.partial(env[name].text, a, binds, "rounded")
        if isinstance(f, ast.Attribute) and isinstance(f.value, ast.Name) and f.value.id.lstrip("_") == "math" and f.attr in ("floor", "ceil") and len(e.args) == 1:
            a = self.expr(e.args[0], env, binds)
            if a.ty == "Z":
                return a
            return self.partial("py_" + f.attr, a, binds, f.attr)
        if name is not None and name in self.spec.siblings:
            coq, res_tys = self.spec.siblings[name]
            args = [self.expr(x, env, binds) for x in e.args]
            return V(None, "sibling", (coq, args, res_tys), False)
        if isinstance(f, ast.Attribute) and f.attr == "format":
            return V('""', "str")
        if isinstance(f, ast.Attribute) and f.attr == "__getitem__" and isinstance(f.value, ast.Call) and isinstance(f.value.func, ast.Name) and f.value.func.id == "super" and len(e.args) == 1:
            a = self.expr(e.args[0], env, binds)
            if a.ty != "slice_val":
                bad(e, "super().__getitem__ of something that is not a slice")
            return V(None, "region_slice", a.const, False)
        if name is not None and name == "AudioRegion" and len(e.args) == 4:
            args = [self.expr(x, env, binds) for x in e.args]
            return V(None, "new_region", args, False)
        bad(e, "unsupported call")

    # ------------------------------------------------------------ statements (continuation-passing)
    def wrap(self, binds, body):
        for var, oe in reversed(binds):
            body = "match %s with Some %s => %s | None => Err ValueError end" % (oe, var, body)
        return body

    def block(self, stmts, env, k):
        """translate stmts then continue with k(env) (fall-through)"""
        if not stmts:
            return k(env)
        st, rest = stmts[0], stmts[1:]
        cont = lambda env2: self.block(rest, env2, k)
        if isinstance(st, ast.Expr) and isinstance(st.value, (ast.Constant, ast.JoinedStr)):
            return cont(env)
        if isinstance(st, ast.Pass):
            return cont(env)
        # helpers called as statements are inlined from their own source
        call = None
        if isinstance(st, (ast.Assign, ast.Return, ast.Expr)) and isinstance(getattr(st, "value", None), ast.Call):
            call = st.value
        elif isinstance(st, ast.Raise) and isinstance(st.exc, ast.Call):
            call = st.exc
        helper = self.resolve(call) if call is not None else None
        if helper is not None and isinstance(call.func, ast.Name) and call.func.id in self.spec.siblings:
            helper = None
        if helper is not None and not (len(self.body_of(helper)) == 1 and isinstance(self.body_of(helper)[0], ast.Return) and not isinstance(st, (ast.Expr,))):
            if isinstance(st, ast.Assign) and len(st.targets) == 1:
                return self.inline_stmt(helper, call, env, st, lambda v, env2: self.assign(st.targets[0], v, env2, cont, st))
            if isinstance(st, ast.Return):
                return self.inline_stmt(helper, call, env, st, lambda v, env2: self.spec.ret(self, v, env2, st))
            if isinstance(st, ast.Expr):
                return self.inline_stmt(helper, call, env, st, lambda v, env2: cont(env2))
            if isinstance(st, ast.Raise):
                def raise_k(v, env2):
                    if v.ty != "exc":
                        bad(st, "raise of something that is not an exception")
                    return self.spec.ret(self, V(v.text, "error"), env2, st)
                return self.inline_stmt(helper, call, env, st, raise_k)
        if isinstance(st, ast.Assign) and len(st.targets) == 1:
            binds = []
            v = self.expr(st.value, env, binds)
            return self.wrap(binds, self.assign(st.targets[0], v, env, cont, st))
        if isinstance(st, ast.AugAssign):
            binds = []
            cur = self.expr(st.target, env, binds)
            fake = ast.BinOp(left=st.target, op=st.op, right=st.value)
            ast.copy_location(fake, st)
            v = self.expr(fake, env, binds)
            return self.wrap(binds, self.assign(st.target, v, env, cont, st))
        if isinstance(st, ast.If):
            binds = []
            c = self.truthy(st.test, self.expr(st.test, env, binds))
            if c.has_const:
                return self.wrap(binds, self.block((st.body if c.const else st.orelse) + rest, env, k))
            t = self.block(st.body + rest, dict(env), k)
            f = self.block(st.orelse + rest, dict(env), k)
            return self.wrap(binds, "(if %s then %s else %s)" % (c.text, t, f))
        if isinstance(st, ast.Return) and isinstance(st.value, ast.IfExp):
            # return a if t else b   ==   if t: return a / else: return b   (the branches may then have different types)
            ie = st.value
            mk = lambda v: ast.copy_location(ast.Return(value=v), st)
            new_if = ast.copy_location(ast.If(test=ie.test, body=[mk(ie.body)], orelse=[mk(ie.orelse)]), st)
            return self.block([new_if] + rest, env, k)
        if isinstance(st, ast.Return):
            binds = []
            v = self.expr(st.value, env, binds) if st.value is not None else NONE
            return self.wrap(binds, self.spec.ret(self, v, env, st))
        if isinstance(st, ast.Raise):
            exc = st.exc
            nm = exc.func.id if isinstance(exc, ast.Call) and isinstance(exc.func, ast.Name) else (exc.id if isinstance(exc, ast.Name) else None)
            if nm is None:
                # exceptions.ValueError-style spelling: the class through a module alias
                tgt = exc.func if isinstance(exc, ast.Call) else exc
                if isinstance(tgt, ast.Attribute) and isinstance(tgt.value, ast.Name) and tgt.attr in EXC:
                    nm = tgt.attr
            if nm not in EXC:
                binds = []
                v = self.expr(exc, env, binds)
                if v.ty != "exc":
                    bad(st, "raise of an undeclared exception")
                return self.wrap(binds, self.spec.ret(self, V(v.text, "error"), env, st))
            return self.spec.ret(self, V("Err " + EXC[nm], "error"), env, st)
        if isinstance(st, ast.For) and isinstance(st.iter, ast.Tuple) and isinstance(st.target, ast.Name) and not st.orelse:
            unrolled = []
            for elt in st.iter.elts:
                asg = ast.Assign(targets=[ast.Name(id=st.target.id, ctx=ast.Store())], value=elt)
                ast.copy_location(asg, st)
                ast.fix_missing_locations(asg)
                unrolled.append(asg)
                unrolled.extend(st.body)
            return self.block(unrolled + rest, env, k)
        bad(st, "unsupported statement")

    def assign(self, target, v, env, cont, node):
        env = dict(env)
        if isinstance(target, ast.Tuple):
            if v.ty == "tuple":
                vals = v.const
            elif v.ty == "sibling":
                coq, args, res_tys = v.const
                names = [self.new("r") for _ in res_tys]
                call = "(%s %s)" % (coq, " ".join(a.text if a.ty != "none" else "None" for a in args if a.ty != "str"))
                for t, nm, ty in zip(target.elts, names, res_tys):
                    if not isinstance(t, ast.Name):
                        bad(node, "tuple target")
                    self.bind_name(env, t.id, nm, ty)
                pat = "(" + ", ".join(names) + ")"
                return "match %s with Ok %s => %s | Err e_ => Err e_ end" % (call, pat, cont(env))
            else:
                bad(node, "unpacking of %s" % v.ty)
            if len(vals) != len(target.elts):
                bad(node, "tuple arity")
            if any(isinstance(t, ast.Attribute) for t in target.elts):
                # a, self.x = e1, e2: the right-hand sides are already evaluated (vals); bind them one after the other
                def chain(i, e):
                    if i == len(vals):
                        return cont(e)
                    return self.assign(target.elts[i], vals[i], e, lambda e2: chain(i + 1, e2), node)
                return chain(0, env)
            body_env = env
            lets = []
            for t, x in zip(target.elts, vals):
                if not isinstance(t, ast.Name):
                    bad(node, "tuple target")
                if x.ty == "str":
                    continue
                if x.ty in ("none",):
                    body_env[t.id] = NONE
                    continue
                nm = self.new(t.id)
                lets.append((nm, x.text))
                body_env[t.id] = V(nm, x.ty)
            body = cont(body_env)
            for nm, tx in reversed(lets):
                body = "(let %s := %s in %s)" % (nm, tx, body)
            return body
        if isinstance(target, ast.Name):
            key = target.id
        elif isinstance(target, ast.Attribute) and isinstance(target.value, ast.Name) and target.value.id == "self":
            if target.attr not in [a for a, _, _ in self.spec.state]:
                bad(node, "assignment to undeclared field self.%s" % target.attr)
            key = "self." + target.attr
        else:
            bad(node, "assignment target")
        if v.ty == "str":
            env[key] = v
            return cont(env)
        if v.ty == "none":
            env[key] = NONE
            return cont(env)
        if v.ty in ("slice_val", "region_slice", "tuple", "new_region", "exc"):
            env[key] = v
            return cont(env)
        if v.ty == "sibling":
            bad(node, "sibling call result must be unpacked")
        nm = self.new(key.replace("self.", ""))
        env[key] = V(nm, v.ty, v.const, v.has_const)      # a constant stays known through the local
        return "(let %s := %s in %s)" % (nm, v.text, cont(env))

    def bind_name(self, env, pyname, coqname, ty):
        if ty in ("optZ", "optF"):
            raise TranslationError("sibling results of option type must be specialised by the caller")
        env[pyname] = V(coqname, ty)

    # ------------------------------------------------------------ whole function
    def translate(self):
        """returns the Gallina definition text. Option-typed parameters are specialised on None-ness."""
        sp = self.spec
        pynames = [a.arg for a in self.fn.args.args if a.arg != "self" and a.arg not in sp.skip_params]
        declared = [p for p, _ in sp.params]
        if pynames != declared:
            raise TranslationError("%s: parameters %r differ from the declared %r" % (self.fn.name, pynames, declared))
        coq_params, opt_params = [], []
        env0 = {}
        for p, ty in sp.params:
            if ty in ("optZ", "optF"):
                opt_params.append((p, ty))
                coq_params.append("(%s : option %s)" % (p, "Z" if ty == "optZ" else "f64"))
            elif ty in ("slice_Z", "slice_F"):
                base = "Z" if ty == "slice_Z" else "f64"
                opt_params.append((p + ".start", "opt" + ("Z" if base == "Z" else "F")))
                opt_params.append((p + ".stop", "opt" + ("Z" if base == "Z" else "F")))
                coq_params.append("(%s_start %s_stop : option %s)" % (p, p, base))
                env0[p] = V(p, ty)
            elif ty == "round_fn":
                coq_params.append("(%s : f64 -> option Z)" % p)
                env0[p] = V(p, "round_fn")
            elif ty == "ignored":
                env0[p] = V('""', "str")
            elif ty == "obj":
                env0[p] = V(p, "obj")
            else:
                coq_params.append("(%s : %s)" % (p, {"Z": "Z", "F": "f64", "bool": "bool", "bytes": "list B", "block": "list S"}[ty]))
                env0[p] = V(p, ty)
        for attr, getter, ty in sp.state:
            env0["self." + attr] = V(getter, ty)

        def specialise(i, env):
            if i == len(opt_params):
                return self.block(list(self.fn.body), env, lambda env2: sp.ret(self, NONE, env2, self.fn))
            p, ty = opt_params[i]
            coqp = p.replace(".", "_")
            e_none = dict(env); e_none[p] = NONE
            inner = ty[3:]
            var = coqp + "_v"
            e_some = dict(env); e_some[p] = V(var, inner)
            return "match %s with None => %s | Some %s => %s end" % (coqp, specialise(i + 1, e_none), var, specialise(i + 1, e_some))
        body = specialise(0, env0)
        rt = (" : " + sp.ret_type) if getattr(sp, "ret_type", None) else ""
        return "Definition %s %s%s :=\n  %s.\n" % (sp.coq_name, " ".join(sp.extra_params + coq_params if hasattr(sp, "extra_params") else coq_params), rt, body)


def find_function(tree, qualname):
    parts = qualname.split(".")
    body = tree.body
    node = None
    for i, p in enumerate(parts):
        cands = [n for n in body if isinstance(n, (ast.FunctionDef, ast.ClassDef)) and n.name == p]
        if i == len(parts) - 1 and len(cands) > 1:
            # property getter + setter share a name: the caller disambiguates with "@setter" / "@getter"
            raise TranslationError("%s defined %d times" % (qualname, len(cands)))
        if len(cands) != 1:
            raise TranslationError("%s not found exactly once (%d)" % (qualname, len(cands)))
        node = cands[0]
        body = node.body
    return node


def find_property(tree, cls, name, kind):
    c = [n for n in tree.body if isinstance(n, ast.ClassDef) and n.name == cls]
    if len(c) != 1:
        raise TranslationError("class %s not found exactly once" % cls)
    out = []
    for n in c[0].body:
        if isinstance(n, ast.FunctionDef) and n.name == name:
            decs = [ast.unparse(d) for d in n.decorator_list]
            # @property / @name.getter / @Base.name.getter    and    @name.setter / @Base.name.setter
            if kind == "getter" and len(decs) == 1 and (decs[0] == "property" or decs[0] == "%s.getter" % name or decs[0].endswith(".%s.getter" % name)):
                out.append(n)
            if kind == "setter" and len(decs) == 1 and (decs[0] == "%s.setter" % name or decs[0].endswith(".%s.setter" % name)):
                out.append(n)
    if len(out) != 1:
        raise TranslationError("%s.%s (%s) not found exactly once" % (cls, name, kind))
    return out[0]
