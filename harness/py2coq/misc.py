"""Second translation tie: small arithmetic functions outside the tokenizer,
translated from /repo on every run (MiscGen.v) and proved equal to the
hand-written models for all inputs (MiscTie.v):

  core._duration_to_nb_windows                 = Split.Duration.nbw
  core._check_convert_index + AudioRegion.__getitem__   = Audio.Region.getitem
  core._SecondsView.__getitem__                = Audio.Region.sec_bounds
  core._MillisView.__getitem__                 = Audio.Region.ms_to_sec on both bounds
  core.make_silence                            = Audio.Region.make_silence
  io.BufferAudioSource.read / position (get, set) / position_ms (get)  = IO.Source.bstep
  util.make_duration_formatter (the %h%m%s%i formatter's arithmetic)  = Cli.Format.millis + fields
"""
import ast
import os
import re

from .pure import Pure, Spec, V, NONE, TranslationError, bad, find_function, find_property


def _opt(v, node):
    if v.ty == "none":
        return "None"
    if v.ty in ("Z", "F"):
        return "(Some %s)" % v.text
    bad(node, "expected an optional number, got %s" % v.ty)


# ---- return conventions -------------------------------------------------------

def ret_result_Z(tr, v, env, node):
    if v.ty == "error":
        return v.text
    if v.ty == "Z":
        return "Ok %s" % v.text
    bad(node, "function should return an int, returns %s" % v.ty)


def ret_pair_opt(tr, v, env, node):
    """(start, stop) with stop possibly None -> Ok (start, option stop)"""
    if v.ty == "error":
        return v.text
    vals = v.const if v.ty in ("tuple", "region_slice") else None
    if vals is None or len(vals) != 2:
        bad(node, "expected a pair of bounds")
    lo, hi = vals
    if lo.ty not in ("Z", "F"):
        bad(node, "lower bound of type %s" % lo.ty)
    return "Ok (%s, %s)" % (lo.text, _opt(hi, node))


def ret_region(tr, v, env, node):
    if v.ty == "error":
        return v.text
    if v.ty != "new_region":
        bad(node, "expected AudioRegion(...)")
    d, sr, sw, ch = v.const
    if d.ty != "bytes" or any(x.ty != "Z" for x in (sr, sw, ch)):
        bad(node, "AudioRegion arguments")
    return "Ok (mkRegion %s %s %s %s)" % (d.text, sr.text, sw.text, ch.text)


def ret_make_region(tr, v, env, node):
    if v.ty == "error":
        return v.text
    if v.ty != "new_region":
        bad(node, "expected AudioRegion(...)")
    d, sr, sw, ch = v.const
    return "make %s %s %s %s" % (d.text, sr.text, sw.text, ch.text)


def _bstate(env):
    return "(mkB %s (is_open s))" % env["self._current_position_bytes"].text


def ret_buf_read(tr, v, env, node):
    if v.ty == "error":
        return "(%s, OErr %s)" % (_bstate(env), v.text[4:])
    if v.ty == "none":
        return "(%s, ONone)" % _bstate(env)
    if v.ty == "bytes":
        return "(%s, OData %s)" % (_bstate(env), v.text)
    bad(node, "read returns %s" % v.ty)


def ret_buf_unit(tr, v, env, node):
    if v.ty == "error":
        return "(%s, OErr %s)" % (_bstate(env), v.text[4:])
    if v.ty == "none":
        return "(%s, OUnit)" % _bstate(env)
    bad(node, "setter returns %s" % v.ty)


def ret_buf_int(tr, v, env, node):
    if v.ty == "Z":
        return "(%s, OInt %s)" % (_bstate(env), v.text)
    bad(node, "getter returns %s" % v.ty)


BUF_ATTRS = {"_is_open": ("(is_open s)", "bool"), "_sample_size_all_channels": ("(abps a)", "Z"), "_data": ("(abytes a)", "bytes"),
             "data": ("(abytes a)", "bytes"), "sampling_rate": ("(arate a)", "Z")}
BUF_STATE = [("_current_position_bytes", "(pos s)", "Z")]


class FmtPure(Pure):
    """the %h%m%s%i formatter: `return fmt.format(hrs=..., mins=..., secs=..., millis=...)` yields the four fields"""
    def block(self, stmts, env, k):
        if stmts and isinstance(stmts[0], ast.Return) and isinstance(stmts[0].value, ast.Call) and isinstance(stmts[0].value.func, ast.Attribute) \
                and stmts[0].value.func.attr == "format" and stmts[0].value.keywords and not stmts[0].value.args:
            kws = {kw.arg: kw.value for kw in stmts[0].value.keywords}
            if sorted(kws) != ["hrs", "millis", "mins", "secs"]:
                bad(stmts[0], "formatter fields")
            binds = []
            vals = [self.expr(kws[n], env, binds) for n in ("hrs", "mins", "secs", "millis")]
            if any(x.ty != "Z" for x in vals):
                bad(stmts[0], "formatter fields are not integers")
            return self.wrap(binds, "Ok (%s, %s, %s, %s)" % tuple(x.text for x in vals))
        return super().block(stmts, env, k)


class InlinePure(Pure):
    """inlines calls of _check_convert_index (translated from its own source) at tuple-unpacking assignments"""
    def __init__(self, fn_node, spec, callee, module=None, cls=None):
        super().__init__(fn_node, spec, module=module, cls=cls)
        self.callee = callee
        spec.siblings = dict(spec.siblings); spec.siblings[callee.name] = None

    def expr(self, e, env, binds):
        if isinstance(e, ast.Name) and e.id in ("int", "float", "slice", "str") and e.id not in env:
            return V('""', "str")
        if isinstance(e, ast.Tuple) and all(isinstance(x, ast.Name) and x.id in ("int", "float") for x in e.elts):
            return V('""', "str")
        if isinstance(e, ast.Attribute) and isinstance(e.value, ast.Attribute) and isinstance(e.value.value, ast.Name) and e.value.value.id == "self":
            key = e.value.attr + "." + e.attr
            if key in self.spec.self_attrs:
                t, ty = self.spec.self_attrs[key]
                return V(t, ty)
        if isinstance(e, ast.Attribute) and isinstance(e.value, ast.Name) and e.value.id == "self" and self.spec.self_attrs.get(e.attr, (None, None))[1] == "region":
            return V("self_region", "region")
        return super().expr(e, env, binds)

    def assign(self, target, v, env, cont, node):
        return super().assign(target, v, env, cont, node)

    def block(self, stmts, env, k):
        # return self._region[<helper returning a slice object>(...)]
        if stmts and isinstance(stmts[0], ast.Return) and isinstance(stmts[0].value, ast.Subscript) and isinstance(stmts[0].value.slice, ast.Call):
            st = stmts[0]
            base = self.expr(st.value.value, env, [])
            helper = self.resolve(st.value.slice)
            if base.ty == "region" and helper is not None:
                def kont(v, env2):
                    if v.ty != "slice_val":
                        bad(st, "the region is indexed with something that is not a slice")
                    return self.spec.ret(self, V(None, "region_slice", v.const, False), env2, st)
                return self.inline_stmt(helper, st.value.slice, env, st, kont)
        if stmts and isinstance(stmts[0], ast.Assign) and isinstance(stmts[0].targets[0], ast.Tuple) and isinstance(stmts[0].value, ast.Call) \
                and isinstance(stmts[0].value.func, ast.Name) and stmts[0].value.func.id == self.callee.name:
            st, rest = stmts[0], stmts[1:]
            call = st.value
            params = [a.arg for a in self.callee.args.args]
            if len(call.args) != len(params) or call.keywords:
                bad(st, "call of %s" % self.callee.name)
            cenv = {}
            for p, a in zip(params, call.args):
                if isinstance(a, ast.Name) and a.id in env and env[a.id].ty.startswith("slice_"):
                    cenv[p] = env[a.id]
                    cenv[p + ".start"] = env[a.id + ".start"]
                    cenv[p + ".stop"] = env[a.id + ".stop"]
                else:
                    cenv[p] = self.expr(a, env, [])
            targets = st.targets[0].elts
            outer = self

            saved_ret = self.spec.ret

            def callee_ret(tr, v, cenv2, n):
                if v.ty == "error":
                    return saved_ret(tr, v, env, n)
                if v.ty != "tuple" or len(v.const) != len(targets):
                    bad(n, "%s should return a %d-tuple" % (outer.callee.name, len(targets)))
                env2 = dict(env)
                for t, x in zip(targets, v.const):
                    if not isinstance(t, ast.Name):
                        bad(st, "tuple target")
                    env2[t.id] = x
                outer.spec.ret = saved_ret
                try:
                    return outer.block(rest, env2, k)
                finally:
                    outer.spec.ret = callee_ret
            self.spec.ret = callee_ret
            try:
                return self.block(list(self.callee.body), cenv, lambda e2: bad(st, "%s falls off its end" % self.callee.name))
            finally:
                self.spec.ret = saved_ret
        return super().block(stmts, env, k)


HEADER = ["(* generated from auditok/core.py, io.py, util.py - do not edit *)",
          "From Coq Require Import ZArith List Bool.",
          "From Flocq Require Import IEEE754.BinarySingleNaN.",
          "From AV Require Import Base.PyList Base.PyFloat Tok.Model Audio.Region IO.Source.",
          "Import ListNotations.", "Open Scope Z_scope.", "",
          "Definition nonempty {T} (l : list T) : bool := match l with [] => false | _ => true end.", ""]

GROUPS = {
    # group -> (generated file, tie file, tie lemmas)
    "split": ("GenSplit.v", "TieSplit.v", ["tie_split_params", "tie_split_params_reader"]),
    "savers": ("GenSavers.v", "TieSavers.v", ["tie_w_flush", "tie_w_process", "tie_w_drain", "tie_j_write"]),
    "fsrc": ("GenFsrc.v", "TieFsrc.v", ["tie_raw_read", "tie_wave_read", "tie_stdin_read"]),
    "algebra": ("GenAlgebra.v", "TieAlgebra.v", ["tie_check_params", "tie_add", "tie_mul", "tie_eq", "tie_len"]),
    "dur": ("GenDur.v", "TieDur.v", ["tie_epsilon", "tie_nbw_floor", "tie_nbw_ceil", "tie_split_calls"]),
    "region": ("GenRegion.v", "TieRegion.v", ["tie_getitem", "tie_sec_bounds", "tie_ms_bounds"]),
    "silence": ("GenSilence.v", "TieSilence.v", ["tie_make_silence"]),
    "buf": ("GenBuf.v", "TieBuf.v", ["tie_buf_read", "tie_buf_setpos", "tie_buf_getpos", "tie_buf_getpos_ms"]),
    "fmt": ("GenFmt.v", "TieFmt.v", ["tie_fields"]),
    "load": ("GenLoad.v", "TieLoad.v", ["tie_read_offline"]),
    "selector": ("GenSelector.v", "TieSelector.v", ["tie_selector"]),
    "alias": ("GenAlias.v", "TieAlias.v", ["tie_alias_sites", "tie_alias_pairs"]),
    "times": ("GenTimes.v", "TieTimes.v", ["tie_region_start", "tie_region_duration", "tie_region_end", "tie_make_region_args"]),
    "div": ("GenDiv.v", "TieDiv.v", ["tie_div_loop", "tie_div"]),
    "guards": ("GenGuards.v", "TieGuards.v", ["tie_join_guard", "tie_record_flag"]),
    "reader": ("GenReader.v", "TieReader.v", ["tie_reader_params", "tie_lim_read", "tie_rec_read", "tie_fixed_read", "tie_ov_first", "tie_ov_next", "tie_lim_data"]),
    "loops": ("GenLoops.v", "TieLoops.v", ["tie_run_turn", "tie_stop_requested", "tie_tok_read", "tie_programs", "tie_fields"]),
}


def find_fn_pkg(repo, name, first="core.py"):
    """a module-level function of the package, wherever a refactoring may have moved it: (FunctionDef, module ast)"""
    order = [first] + [f for f in ("core.py", "util.py", "io.py") if f != first]
    hits = []
    for f in order:
        path = os.path.join(repo, "auditok", f)
        if not os.path.exists(path):
            continue
        mod = ast.parse(open(path).read())
        for n in mod.body:
            if isinstance(n, ast.FunctionDef) and n.name == name:
                hits.append((n, mod))
    if len(hits) != 1:
        raise TranslationError("%s not found exactly once in the package (%d)" % (name, len(hits)))
    return hits[0]


def epsilon_name(core):
    """the module constant split() passes (with either sign) as fourth argument of _duration_to_nb_windows"""
    names = set()
    for n in ast.walk(core):
        if isinstance(n, ast.Call) and isinstance(n.func, ast.Name) and n.func.id == "_duration_to_nb_windows" and len(n.args) == 4:
            a = n.args[3]
            if isinstance(a, ast.UnaryOp) and isinstance(a.op, ast.USub):
                a = a.operand
            if isinstance(a, ast.Name):
                names.add(a.id)
    return names.pop() if len(names) == 1 else "_EPSILON"


def gen_dur(repo):
    core = ast.parse(open(os.path.join(repo, "auditok", "core.py")).read())
    out = list(HEADER)
    consts = {}
    for n in core.body:
        if isinstance(n, ast.Assign) and len(n.targets) == 1 and isinstance(n.targets[0], ast.Name) and isinstance(n.value, ast.Constant) \
                and isinstance(n.value.value, (int, float)) and not isinstance(n.value.value, bool):
            consts[n.targets[0].id] = n.value.value
    eps = epsilon_name(core)
    if eps not in consts:
        raise TranslationError("the rounding epsilon (core.%s) is not a literal constant" % eps)
    from .pure import flit
    out.append("Definition EPSILON : f64 := %s.   (* core.%s = %r *)\n" % (flit(consts[eps]), eps, consts[eps]))
    fn, fmod = find_fn_pkg(repo, "_duration_to_nb_windows")
    sp = Spec("nbw_gen", [("duration", "F"), ("analysis_window", "F"), ("round_fn", "round_fn"), ("epsilon", "F")], ret_result_Z)
    out.append(Pure(fn, sp, module=fmod).translate())
    # how split() calls it: (duration variable, rounding function, sign of the epsilon) per derived count
    calls = {}
    for n in ast.walk(core):        # split() itself, or helpers a refactoring may have moved the derivation into
        if isinstance(n, ast.Assign) and len(n.targets) == 1 and isinstance(n.targets[0], ast.Name) and isinstance(n.value, ast.Call) \
                and isinstance(n.value.func, ast.Name) and n.value.func.id == "_duration_to_nb_windows":
            a = n.value.args
            if len(a) != 4 or n.value.keywords:
                bad(n, "call of _duration_to_nb_windows in split()")
            if n.targets[0].id in calls:
                bad(n, "window count %s derived twice" % n.targets[0].id)
            rf = ast.unparse(a[2])
            rf_last = rf.split(".")[-1].lstrip("_")
            if rf_last in ("floor", "ceil"):
                rf = "math." + rf_last          # math.floor, _math.floor, floor, _floor: the same function under another spelling
            calls[n.targets[0].id] = (ast.unparse(a[0]), ast.unparse(a[1]), rf, ast.unparse(a[3]).replace(eps, "_EPSILON"))
    out.append("Definition split_calls : list (string * (string * string * string * string)) := [")
    rows = ['  ("%s", ("%s", "%s", "%s", "%s"))' % ((k,) + v) for k, v in sorted(calls.items())]
    out.append(";\n".join(rows))
    out.append("].\n")
    out.insert(1, "From Coq Require Import String.")
    return "\n".join(out).replace("Open Scope Z_scope.", "Open Scope string_scope.\nOpen Scope Z_scope.")


def gen_region(repo):
    core = ast.parse(open(os.path.join(repo, "auditok", "core.py")).read())
    out = list(HEADER)
    out.append("Section Bytes.\nContext {B : Type}.\n")
    cci = find_function(core, "_check_convert_index")
    fn = find_function(core, "AudioRegion.__getitem__")
    sp = Spec("getitem_gen", [("index", "slice_Z")], ret_region,
              self_attrs={"sample_width": ("sw", "Z"), "channels": ("ch", "Z"), "data": ("data", "bytes"), "sr": ("sr", "Z"), "sw": ("sw", "Z"), "ch": ("ch", "Z")})
    sp.extra_params = ["(data : list B)", "(sr sw ch : Z)"]
    region_cls = next(n for n in core.body if isinstance(n, ast.ClassDef) and n.name == "AudioRegion")
    out.append(InlinePure(fn, sp, cci, module=core, cls=region_cls).translate())
    out.append("End Bytes.\n")
    fn = find_function(core, "_SecondsView.__getitem__")
    sp = Spec("sec_bounds_gen", [("index", "slice_F")], ret_pair_opt, self_attrs={"_region.sampling_rate": ("sr", "Z"), "_region": ("", "region")})
    sp.extra_params = ["(sr : Z)"]
    out.append(InlinePure(fn, sp, cci, module=core, cls=next(n for n in core.body if isinstance(n, ast.ClassDef) and n.name == "_SecondsView")).translate())
    fn = find_function(core, "_MillisView.__getitem__")
    sp = Spec("ms_bounds_gen", [("index", "slice_Z")], ret_pair_opt, self_attrs={})
    out.append(InlinePure(fn, sp, cci, module=core, cls=next(n for n in core.body if isinstance(n, ast.ClassDef) and n.name == "_MillisView")).translate())
    return "\n".join(out)


def gen_silence(repo):
    core = ast.parse(open(os.path.join(repo, "auditok", "core.py")).read())
    out = list(HEADER)
    fn = find_function(core, "make_silence")

    class SilPure(Pure):
        def expr(self, e, env, binds):
            if isinstance(e, ast.BinOp) and isinstance(e.op, ast.Mult) and isinstance(e.left, ast.Constant) and isinstance(e.left.value, bytes) and len(e.left.value) == 1:
                n = self.expr(e.right, env, binds)
                if n.ty != "Z":
                    bad(e, "bytes * non-int")
                return V("(repeat %d (Z.to_nat %s))" % (e.left.value[0], n.text), "bytes")
            return super().expr(e, env, binds)
    sp = Spec("make_silence_gen", [("duration", "F"), ("sampling_rate", "Z"), ("sample_width", "Z"), ("channels", "Z")], ret_make_region)
    tr_ = SilPure(fn, sp)
    tr_.module = core
    out.append(tr_.translate())
    return "\n".join(out)


class BufPure(Pure):
    def block(self, stmts, env, k):
        # truthiness of a bytes value: `if data:`
        if stmts and isinstance(stmts[0], ast.If) and isinstance(stmts[0].test, ast.Name) and stmts[0].test.id in env and env[stmts[0].test.id].ty == "bytes":
            st, rest = stmts[0], stmts[1:]
            c = env[st.test.id]
            t = self.block(st.body + rest, dict(env), k)
            f = self.block(st.orelse + rest, dict(env), k)
            return "(if nonempty %s then %s else %s)" % (c.text, t, f)
        return super().block(stmts, env, k)


def gen_buf(repo):
    io_ = ast.parse(open(os.path.join(repo, "auditok", "io.py")).read())
    out = list(HEADER)
    out.append("Section Buf.\nContext {B : Type}.\n")
    for coq, node, params, ret in (
            ("buf_read_gen", find_function(io_, "BufferAudioSource.read"), [("size", "optZ")], ret_buf_read),
            ("buf_setpos_gen", find_property(io_, "BufferAudioSource", "position", "setter"), [("position", "Z")], ret_buf_unit),
            ("buf_getpos_gen", find_property(io_, "BufferAudioSource", "position", "getter"), [], ret_buf_int),
            ("buf_getpos_ms_gen", find_property(io_, "BufferAudioSource", "position_ms", "getter"), [], ret_buf_int)):
        sp = Spec(coq, params, ret, self_attrs=BUF_ATTRS, state=BUF_STATE)
        sp.extra_params = ["(a : audio B)", "(s : bstate)"]
        sp.ret_type = "bstate * @out B"
        out.append(BufPure(node, sp, module=io_, cls=next(n for n in io_.body if isinstance(n, ast.ClassDef) and n.name == "BufferAudioSource")).translate())
    out.append("End Buf.\n")
    return "\n".join(out)


def gen_fmt(repo):
    util = ast.parse(open(os.path.join(repo, "auditok", "util.py")).read())
    out = list(HEADER)
    mk = find_function(util, "make_duration_formatter")
    # the closure that renders the %h %m %s %i template: the one returning fmt.format(hrs=..., mins=..., secs=..., millis=...)
    cands = [n for n in ast.walk(mk) if isinstance(n, ast.FunctionDef) and n is not mk
             and any(isinstance(c, ast.Call) and isinstance(c.func, ast.Attribute) and c.func.attr == "format"
                     and sorted(k.arg or "" for k in c.keywords) == ["hrs", "millis", "mins", "secs"] for c in ast.walk(n))]
    if len(cands) != 1:
        raise TranslationError("the field formatter (returning fmt.format(hrs=, mins=, secs=, millis=)) was not found exactly once in make_duration_formatter")

    def ret_none(tr, v, env, node):
        bad(node, "unexpected return")
    sp = Spec("fields_gen", [("seconds", "F")], ret_none)
    out.append(FmtPure(cands[0], sp, module=util).translate())
    return "\n".join(out)


TRACKED = ("min_dur", "max_dur", "max_silence", "analysis_window", "min_length", "max_length", "max_continuous_silence")


class SplitPure(Pure):
    """inlines `x = _duration_to_nb_windows(d, w, round_fn, eps)` from the callee's own source"""
    def __init__(self, fn_node, spec, callee, consts, module=None):
        super().__init__(fn_node, spec, module_consts=consts, module=module)
        self.callee = callee
        spec.siblings = dict(spec.siblings); spec.siblings[callee.name] = None

    def block(self, stmts, env, k):
        if stmts and isinstance(stmts[0], ast.Assign) and isinstance(stmts[0].targets[0], ast.Name) and isinstance(stmts[0].value, ast.Call) \
                and isinstance(stmts[0].value.func, ast.Name) and stmts[0].value.func.id == self.callee.name:
            st, rest = stmts[0], stmts[1:]
            call = st.value
            params = [a.arg for a in self.callee.args.args]
            if len(call.args) != len(params) or call.keywords:
                bad(st, "call of %s" % self.callee.name)
            binds = []
            cenv = {p: self.expr(a, env, binds) for p, a in zip(params, call.args)}
            if binds:
                bad(st, "partial conversion in an argument")
            target = st.targets[0].id
            saved_ret = self.spec.ret
            outer = self

            def callee_ret(tr, v, cenv2, n):
                if v.ty == "error":
                    return saved_ret(tr, v, env, n)
                if v.ty != "Z":
                    bad(n, "%s should return an int" % outer.callee.name)
                nm = outer.new(target)
                env2 = dict(env); env2[target] = V(nm, "Z")
                outer.spec.ret = saved_ret
                try:
                    return "(let %s := %s in %s)" % (nm, v.text, outer.block(rest, env2, k))
                finally:
                    outer.spec.ret = callee_ret
            self.spec.ret = callee_ret
            try:
                return self.block(list(self.callee.body), cenv, lambda e2: bad(st, "%s falls off its end" % self.callee.name))
            finally:
                self.spec.ret = saved_ret
        return super().block(stmts, env, k)


def _mentions(node, names):
    return any(isinstance(n, ast.Name) and n.id in names for n in ast.walk(node))


def _assigns(node, names):
    for n in ast.walk(node):
        if isinstance(n, (ast.Assign, ast.AugAssign, ast.AnnAssign)):
            tg = n.targets if isinstance(n, ast.Assign) else [n.target]
            for t in tg:
                for m in ast.walk(t):
                    if isinstance(m, ast.Name) and m.id in names:
                        return True
    return False


class _Subst(ast.NodeTransformer):
    def __init__(self, mp):
        self.mp = mp

    def visit_Name(self, n):
        if n.id in self.mp:
            r = self.mp[n.id]
            return ast.copy_location(ast.Name(id=r, ctx=n.ctx) if isinstance(r, str) else ast.parse(ast.unparse(r), mode="eval").body, n)
        return n


def _returns_to_assign(stmts, targets):
    """body of a helper whose result is bound to `targets` (None: result dropped): every `return E` becomes `targets = E`
    and the statements after a conditional return move into the other branch"""
    def asg(val, at):
        if targets is None:
            return [] if val is None else [ast.copy_location(ast.Expr(value=val), at)]
        v = val if val is not None else ast.Constant(value=None)
        return [ast.copy_location(ast.Assign(targets=[ast.parse(targets).body[0].value], value=v, lineno=at.lineno), at)]
    has_ret = lambda xs: any(isinstance(n, ast.Return) for x in xs for n in ast.walk(x))
    for i, st in enumerate(stmts):
        if isinstance(st, ast.Return):
            return stmts[:i] + asg(st.value, st), True
        if isinstance(st, ast.If) and has_ret(st.body + st.orelse):
            rest = stmts[i + 1:]
            b, bdone = _returns_to_assign(st.body, targets)
            o, odone = _returns_to_assign(st.orelse, targets)
            r, rdone = _returns_to_assign(rest, targets)
            body = b + ([] if bdone else r)
            orelse = o + ([] if odone else r)
            new = ast.copy_location(ast.If(test=st.test, body=body or [ast.Pass()], orelse=orelse), st)
            return stmts[:i] + [new], (bdone or rdone) and (odone or rdone)
        if has_ret([st]):
            bad(st, "return inside a loop / try / with of a helper of split()")
    return stmts, False


def _split_tuple_assign(st):
    """a, b = x, y  ->  a = x; b = y   (when no target is read on the right-hand side); x = x disappears"""
    if isinstance(st, ast.Assign) and len(st.targets) == 1 and isinstance(st.targets[0], ast.Tuple) and isinstance(st.value, ast.Tuple) \
            and len(st.targets[0].elts) == len(st.value.elts) and all(isinstance(t, ast.Name) for t in st.targets[0].elts):
        tn = [t.id for t in st.targets[0].elts]
        ok = True
        for j, v in enumerate(st.value.elts):
            for n in ast.walk(v):
                if isinstance(n, ast.Name) and n.id in tn and not (isinstance(v, ast.Name) and v.id == tn[j]):
                    ok = False
        if ok:
            out = []
            for t, v in zip(st.targets[0].elts, st.value.elts):
                if isinstance(v, ast.Name) and v.id == t.id:
                    continue
                out.append(ast.copy_location(ast.Assign(targets=[ast.Name(id=t.id, ctx=ast.Store())], value=v, lineno=st.lineno), st))
            return out
    if isinstance(st, ast.Assign) and len(st.targets) == 1 and isinstance(st.targets[0], ast.Name) and isinstance(st.value, ast.Name) \
            and st.value.id == st.targets[0].id:
        return []
    return [st]


def flatten_helpers(module, fn, keep=(), depth=0):
    """module-level helpers called at statement level inside `fn` (h(..) / x = h(..) / a, b = h(..) / return h(..)) are replaced
    by their own bodies: parameters become the argument expressions, `return` becomes the assignment of the call's targets.
    A refactoring that cuts a function into helpers is undone this way before slicing."""
    helpers = {n.name: n for n in module.body if isinstance(n, ast.FunctionDef) and n.name != fn.name and n.name not in keep and not n.decorator_list}
    caller_names = {n.id for n in ast.walk(fn) if isinstance(n, ast.Name)} | {a.arg for a in fn.args.args}
    counter = [0]

    def inline(call, targets, at):
        h = helpers[call.func.id]
        params = [a.arg for a in h.args.args]
        if h.args.vararg or h.args.kwarg or h.args.kwonlyargs or len(call.args) + len(call.keywords) != len(params) or h.args.defaults:
            return None
        amap = dict(zip(params, call.args))
        for kw in call.keywords:
            if kw.arg not in params or kw.arg in list(amap)[:len(call.args)]:
                return None
            amap[kw.arg] = kw.value
        if not all(isinstance(a, (ast.Name, ast.Constant, ast.Attribute)) for a in amap.values()):
            return None
        # a parameter that the helper re-binds must be passed a plain name (the re-binding is then local to the slice, as the
        # slicer only follows the tracked names)
        rebound = {n.id for n in ast.walk(h) if isinstance(n, ast.Name) and isinstance(n.ctx, ast.Store)}
        mp = {}
        for p_, a in amap.items():
            if p_ in rebound and not isinstance(a, ast.Name):
                return None
            mp[p_] = a.id if isinstance(a, ast.Name) else a
        tnames = set() if targets is None else {n.id for n in ast.walk(ast.parse(targets)) if isinstance(n, ast.Name)}
        counter[0] += 1
        for loc in rebound - set(params):
            if loc in caller_names and loc not in tnames:
                mp[loc] = "%s__h%d" % (loc, counter[0])
        body = [x for x in h.body if not (isinstance(x, ast.Expr) and isinstance(x.value, ast.Constant))]
        body = [_Subst(mp).visit(ast.parse(ast.unparse(x)).body[0]) for x in body]
        body, _ = _returns_to_assign(body, targets)
        return body

    def hoist(stmts):
        """t = f(g(..), ..) with g one of the functions kept as calls  ->  t = g(..); t = f(t, ..)"""
        out = []
        for st in stmts:
            for fld in ("body", "orelse", "finalbody"):
                if getattr(st, fld, None) and isinstance(getattr(st, fld), list) and not isinstance(st, (ast.FunctionDef, ast.ClassDef)):
                    setattr(st, fld, hoist(getattr(st, fld)))
            if isinstance(st, ast.Assign) and len(st.targets) == 1 and isinstance(st.targets[0], ast.Name) and not (isinstance(st.value, ast.Call) and isinstance(st.value.func, ast.Name) and st.value.func.id in keep):
                t = st.targets[0].id
                inner = [n for n in ast.walk(st.value) if isinstance(n, ast.Call) and isinstance(n.func, ast.Name) and n.func.id in keep]
                others = [n for n in ast.walk(st.value) if isinstance(n, ast.Name) and n.id == t]
                if len(inner) == 1 and not others:
                    first = ast.copy_location(ast.Assign(targets=[ast.Name(id=t, ctx=ast.Store())], value=inner[0], lineno=st.lineno), st)

                    class Rep(ast.NodeTransformer):
                        def visit_Call(self, n):
                            if n is inner[0]:
                                return ast.copy_location(ast.Name(id=t, ctx=ast.Load()), n)
                            return self.generic_visit(n)
                    second = ast.copy_location(ast.Assign(targets=[ast.Name(id=t, ctx=ast.Store())], value=Rep().visit(st.value), lineno=st.lineno), st)
                    out.extend([first, second])
                    continue
            out.append(st)
        return out

    def walk(stmts, d):
        out = []
        for st in stmts:
            call, targets = None, None
            if isinstance(st, ast.Expr) and isinstance(st.value, ast.Call):
                call = st.value
            elif isinstance(st, ast.Assign) and len(st.targets) == 1 and isinstance(st.value, ast.Call):
                call, targets = st.value, ast.unparse(st.targets[0])
            if call is not None and isinstance(call.func, ast.Name) and call.func.id in helpers and d < 3:
                body = inline(call, targets, st)
                if body is not None:
                    for x in body:
                        ast.fix_missing_locations(x)
                    out.extend(walk(body, d + 1))
                    continue
            for fld in ("body", "orelse", "finalbody"):
                if getattr(st, fld, None) and isinstance(getattr(st, fld), list) and not isinstance(st, (ast.FunctionDef, ast.ClassDef)):
                    setattr(st, fld, walk(getattr(st, fld), d))
            out.extend(_split_tuple_assign(st))
        return out
    new = ast.parse(ast.unparse(fn)).body[0]
    new.body = hoist(walk(new.body, 0))
    return ast.fix_missing_locations(new)


def slice_split(core, reader_input):
    """The statements of split() that decide the window counts, in source order (a program slice on TRACKED).
    Kept: assignments to tracked names, `raise` statements, and the `if` statements around them (their tests may only
    mention tracked names). Skipped: statements that neither assign a tracked name nor raise (validator, mode, message
    strings, tokenizer, generators). The isinstance(input, AudioReader) test selects the branch; the construction of the
    AudioReader (non-reader inputs) is replaced by the block-size test it performs (modelled by hand:
    block = int(analysis_window * sampling_rate), ValueError when 0)."""
    fn = flatten_helpers(core, find_function(core, "split"), keep=("_duration_to_nb_windows", "_make_audio_region"))
    state = {"saw_reader": False}

    def reader_test(test):
        """+1: isinstance(input, AudioReader); -1: its negation; 0: something else"""
        neg = False
        if isinstance(test, ast.UnaryOp) and isinstance(test.op, ast.Not):
            neg, test = True, test.operand
        if isinstance(test, ast.Call) and isinstance(test.func, ast.Name) and test.func.id == "isinstance" and len(test.args) == 2 \
                and isinstance(test.args[0], ast.Name) and test.args[0].id == "input" and ast.unparse(test.args[1]).split(".")[-1] == "AudioReader":
            return -1 if neg else 1
        return 0

    def filt(stmts, in_reader_branch=None):
        out = []
        for st in stmts:
            if isinstance(st, ast.Expr) and isinstance(st.value, ast.Constant):
                continue
            if isinstance(st, ast.If) and reader_test(st.test):
                is_reader_body = reader_test(st.test) == 1
                rb, nb = (st.body, st.orelse) if is_reader_body else (st.orelse, st.body)
                out.extend(filt(rb, True) if reader_input else filt(nb, False))
                continue
            if isinstance(st, ast.Assign) and len(st.targets) == 1 and isinstance(st.targets[0], ast.Name) and st.targets[0].id == "analysis_window" \
                    and in_reader_branch is not None:
                src = ast.unparse(st.value)
                if in_reader_branch and not re.fullmatch(r"[A-Za-z_][A-Za-z_0-9]*\.block_dur", src):
                    bad(st, "analysis_window of an AudioReader input is not source.block_dur")
                if not in_reader_branch and "kwargs.get" not in src:
                    bad(st, "analysis_window is not taken from the keyword arguments")
                continue                    # the parameter of the generated function
            if isinstance(st, ast.Try) and "AudioReader(" in ast.unparse(st) and "block_dur=analysis_window" in ast.unparse(st).replace(" ", ""):
                if in_reader_branch is not False:
                    bad(st, "AudioReader constructed outside the non-reader branch")
                state["saw_reader"] = True
                out.extend(ast.parse("block_size = int(analysis_window * sampling_rate)\nif block_size == 0:\n    raise ValueError()").body)
                continue
            if isinstance(st, ast.If):
                body, orelse = filt(st.body, in_reader_branch), filt(st.orelse, in_reader_branch)
                if body or orelse:
                    for n in ast.walk(st.test):
                        if isinstance(n, ast.Name) and n.id not in TRACKED:
                            bad(st, "a test deciding the window counts mentions %s" % n.id)
                    new = ast.If(test=st.test, body=body or [ast.Pass()], orelse=orelse)
                    out.append(ast.fix_missing_locations(ast.copy_location(new, st)))
                continue
            if isinstance(st, ast.Raise):
                out.append(st); continue
            if isinstance(st, ast.Assign) and _assigns(st, TRACKED):
                out.append(st); continue
            if isinstance(st, ast.AugAssign) and _assigns(st, TRACKED):
                out.append(st); continue
            if _assigns(st, TRACKED):
                bad(st, "tracked name assigned inside an unsupported statement")
            # anything else does not touch the tracked names
        return out
    kept = filt(fn.body)
    # a raise that is not guarded by a kept test would make the slice raise unconditionally: only guarded raises are meaningful
    if any(isinstance(x, ast.Raise) for x in kept):
        bad(fn, "unconditional raise in split()")
    if not reader_input and not state["saw_reader"]:
        bad(fn, "construction of the AudioReader with block_dur=analysis_window not found")
    if reader_input:
        ret = "return (min_length, max_length, max_continuous_silence)"
        args = "min_dur, max_dur, max_silence, analysis_window"
    else:
        ret = "return (min_length, max_length, max_continuous_silence, block_size)"
        args = "min_dur, max_dur, max_silence, analysis_window, sampling_rate"
    f = ast.parse("def split_params_slice(%s):\n    pass" % args).body[0]
    f.body = kept + ast.parse(ret).body
    return ast.fix_missing_locations(f)


def ret_counts(tr, v, env, node):
    if v.ty == "error":
        return v.text
    if v.ty != "tuple" or any(x.ty != "Z" for x in v.const):
        bad(node, "expected a tuple of window counts")
    return "Ok (%s)" % ", ".join(x.text for x in v.const)


def gen_split(repo):
    core = ast.parse(open(os.path.join(repo, "auditok", "core.py")).read())
    out = list(HEADER)
    consts = {}
    from .pure import flit
    for n in core.body:
        if isinstance(n, ast.Assign) and len(n.targets) == 1 and isinstance(n.targets[0], ast.Name) and isinstance(n.value, ast.Constant) \
                and isinstance(n.value.value, float):
            consts[n.targets[0].id] = V(flit(n.value.value), "F", n.value.value, True)
    callee = find_fn_pkg(repo, "_duration_to_nb_windows")[0]
    f1 = slice_split(core, False)
    sp = Spec("split_params_gen", [("min_dur", "F"), ("max_dur", "F"), ("max_silence", "F"), ("analysis_window", "F"), ("sampling_rate", "Z")], ret_counts)
    out.append("(* slice of split() for inputs that are not an AudioReader:\n" + ast.unparse(f1) + "\n*)")
    out.append(SplitPure(f1, sp, callee, consts, module=core).translate())
    f2 = slice_split(core, True)
    sp = Spec("split_params_reader_gen", [("min_dur", "F"), ("max_dur", "F"), ("max_silence", "F"), ("analysis_window", "F")], ret_counts)
    out.append("(* slice of split() for an AudioReader input (analysis_window = source.block_dur):\n" + ast.unparse(f2) + "\n*)")
    out.append(SplitPure(f2, sp, callee, consts, module=core).translate())
    return "\n".join(out)


REG_SELF = {"sr": ("(rate r1)", "Z"), "sw": ("(width r1)", "Z"), "ch": ("(nch r1)", "Z"), "data": ("(rdata r1)", "bytes"),
            "sampling_rate": ("(rate r1)", "Z"), "sample_width": ("(width r1)", "Z"), "channels": ("(nch r1)", "Z")}
REG_OTHER = {k: (v[0].replace("r1", "r2"), v[1]) for k, v in REG_SELF.items()}


def ret_unit_or_err(tr, v, env, node):
    if v.ty == "error":
        return v.text
    if v.ty == "none":
        return "Ok tt"
    bad(node, "procedure returns %s" % v.ty)


def ret_bool(tr, v, env, node):
    if v.ty == "bool":
        return v.text
    bad(node, "predicate returns %s" % v.ty)


def ret_int(tr, v, env, node):
    if v.ty == "Z":
        return v.text
    bad(node, "returns %s" % v.ty)


def gen_algebra(repo):
    """AudioRegion._check_other_parameters, __add__, __mul__, __eq__, __len__"""
    core = ast.parse(open(os.path.join(repo, "auditok", "core.py")).read())
    cls = next(n for n in core.body if isinstance(n, ast.ClassDef) and n.name == "AudioRegion")
    meths = {}
    for n in cls.body:
        if isinstance(n, ast.FunctionDef) and not n.decorator_list:
            meths.setdefault(n.name, []).append(n)
    out = list(HEADER)
    for py, coq, params, ret, extra, rt in (
            ("_check_other_parameters", "check_params_gen", [("other", "obj")], ret_unit_or_err, ["(r1 r2 : region Z)"], "result unit"),
            ("__add__", "add_gen", [("other", "obj")], ret_make_region, ["(r1 r2 : region Z)"], "result (region Z)"),
            ("__mul__", "mul_gen", [("n", "Z")], ret_make_region, ["(r1 : region Z)"], "result (region Z)"),
            ("__eq__", "eq_gen", [("other", "obj")], ret_bool, ["(r1 r2 : region Z)"], "bool"),
            ("__len__", "len_gen", [], ret_int, ["(r1 : region Z)"], "Z")):
        if len(meths.get(py, [])) != 1:
            raise TranslationError("AudioRegion.%s not found exactly once" % py)
        sp = Spec(coq, params, ret, self_attrs=dict(REG_SELF))
        sp.obj_attrs = {"other": REG_OTHER}
        sp.extra_params = extra
        sp.ret_type = rt
        tr_ = Pure(meths[py][0], sp, module=core, cls=cls)
        text = tr_.translate()
        # the object-typed parameter is the second region of the signature, not a Coq parameter of its own
        out.append(text)
    return "\n".join(out)


class FilePure(Pure):
    """file-backed sources: the stream handle is abstracted as (open?, byte cursor); the stream primitives
    f.read(n) / wave.readframes(n) are given their documented meaning: at most n bytes / frames from the cursor, everything
    that is left for None / -1, and the cursor advances by what was returned (modelled by hand, named in the trusted base)"""
    def expr(self, e, env, binds):
        if isinstance(e, ast.Attribute) and isinstance(e.value, ast.Name) and e.value.id == "self" and e.attr in ("_audio_stream", "_stream"):
            return V("handle", "handle")
        if isinstance(e, ast.Compare) and len(e.ops) == 1 and isinstance(e.ops[0], (ast.Is, ast.IsNot)):
            a = self.expr(e.left, env, binds)
            if a.ty == "handle":
                b = self.expr(e.comparators[0], env, binds)
                if b.ty != "none":
                    bad(e, "stream handle compared with something else than None")
                t = "(negb %s)" % env["self.#open"].text if isinstance(e.ops[0], ast.Is) else env["self.#open"].text
                return V(t, "bool")
        return super().expr(e, env, binds)

    def block(self, stmts, env, k):
        st = stmts[0] if stmts else None
        call = None
        if isinstance(st, ast.Assign) and len(st.targets) == 1 and isinstance(st.targets[0], ast.Name) and isinstance(st.value, ast.Call):
            call = st.value
        elif isinstance(st, ast.Return) and isinstance(st.value, ast.Call):
            call = st.value
        if call is not None and isinstance(call.func, ast.Attribute) and call.func.attr in ("read", "readframes") \
                and isinstance(call.func.value, ast.Attribute) and isinstance(call.func.value.value, ast.Name) and call.func.value.value.id == "self" \
                and call.func.value.attr in ("_audio_stream", "_stream") and len(call.args) == 1 and not call.keywords:
            binds = []
            n = self.expr(call.args[0], env, binds)
            pos = env["self.#pos"].text
            rem = "(zlen (abytes a) - %s)" % pos
            unit = "1" if call.func.attr == "read" else "(abps a)"
            if n.ty == "none":
                want = rem
            elif n.ty == "Z" and n.has_const and n.const == -1 and call.func.attr == "readframes":
                want = rem
            elif n.ty == "Z":
                want = "(Z.min %s %s)" % (rem, n.text if unit == "1" else "(%s * %s)" % (n.text, unit))
            else:
                bad(st, "stream read with an argument of type %s" % n.ty)
            d = self.new("chunk")
            env2 = dict(env)
            np_ = self.new("pos")
            env2["self.#pos"] = V(np_, "Z")
            val = V(d, "bytes")
            if isinstance(st, ast.Assign):
                env2[st.targets[0].id] = val
                rest = self.block(stmts[1:], env2, k)
            else:
                rest = self.spec.ret(self, val, env2, st)
            return self.wrap(binds, "(let %s := (zslice (abytes a) %s (%s + %s)) in (let %s := (%s + zlen %s) in %s))" % (d, pos, pos, want, np_, pos, d, rest))
        return super().block(stmts, env, k)


def ret_file_read(tr, v, env, node):
    st = "(mkF %s %s)" % (env["self.#pos"].text, env["self.#open"].text)
    if v.ty == "error":
        return "(%s, OErr %s)" % (st, v.text[4:])
    if v.ty == "none":
        return "(%s, ONone)" % st
    if v.ty == "bytes":
        return "(%s, OData %s)" % (st, v.text)
    bad(node, "read returns %s" % v.ty)


def gen_fsrc(repo):
    """FileAudioSource.read with the _read_from_stream of the raw-file, wave-file and standard-input sources inlined"""
    io_ = ast.parse(open(os.path.join(repo, "auditok", "io.py")).read())
    base = next(n for n in io_.body if isinstance(n, ast.ClassDef) and n.name == "FileAudioSource")
    out = list(HEADER)
    out.append("Section File.\nContext {B : Type}.\n")
    for cname, coq in (("RawAudioSource", "raw_read_gen"), ("WaveAudioSource", "wave_read_gen"), ("StdinAudioSource", "stdin_read_gen")):
        sub = next(n for n in io_.body if isinstance(n, ast.ClassDef) and n.name == cname)
        # method resolution order: the subclass first, then FileAudioSource
        merged = ast.ClassDef(name=cname, bases=[], keywords=[], body=list(sub.body) + [m for m in base.body if isinstance(m, ast.FunctionDef)
                                                                                     and m.name not in {x.name for x in sub.body if isinstance(x, ast.FunctionDef)}], decorator_list=[])
        read = [m for m in merged.body if isinstance(m, ast.FunctionDef) and m.name == "read"]
        if len(read) != 1:
            raise TranslationError("%s.read not found exactly once" % cname)
        sp = Spec(coq, [("size", "Z" if cname == "StdinAudioSource" else "optZ")], ret_file_read, self_attrs={"_sample_size": ("(abps a)", "Z"), "_is_open": ("(fopen s)", "bool")},
                  state=[("#pos", "(fpos s)", "Z"), ("#open", "(fopen s)", "bool")])
        sp.extra_params = ["(a : audio B)", "(s : fstate)"]
        sp.ret_type = "fstate * @out B"
        out.append(FilePure(read[0], sp, module=io_, cls=merged).translate())
    out.append("End File.\n")
    return "\n".join(out)


class SaverPure(Pure):
    """file-writing workers: blocks are abstract elements with a size; the file is the list of blocks written.
    self._cache.append(x); b"".join(self._cache) (the cached blocks, in order); self._wfp.writeframes(x); self._wfp.close();
    len(block) = bsz block; one turn of `while True: try: m = self._inbox.get_nowait() ... except Empty: break`."""
    case_msg = None       # for the drain loop: ("empty",) | ("stop",) | ("data", V)

    def expr(self, e, env, binds):
        if isinstance(e, ast.Call) and isinstance(e.func, ast.Name) and e.func.id == "len" and len(e.args) == 1:
            a = self.expr(e.args[0], env, binds)
            if a.ty == "elem":
                return V("(bsz %s)" % a.text, "Z")
        if isinstance(e, ast.Call) and isinstance(e.func, ast.Attribute) and e.func.attr == "join" and isinstance(e.func.value, ast.Constant) \
                and e.func.value.value == b"" and len(e.args) == 1:
            a = self.expr(e.args[0], env, binds)
            if a.ty != "bytes":
                bad(e, "join of something that is not the block list")
            return V(a.text, "bytes")
        if isinstance(e, ast.List) and not e.elts:
            return V("[]", "bytes")
        if isinstance(e, ast.Name) and e.id == "_STOP_PROCESSING":
            return V("STOP", "stopmark")
        if isinstance(e, ast.Compare) and len(e.ops) == 1 and isinstance(e.ops[0], (ast.Eq, ast.NotEq)):
            a = self.expr(e.left, env, binds); b = self.expr(e.comparators[0], env, binds)
            if "stopmark" in (a.ty, b.ty):
                other = b if a.ty == "stopmark" else a
                if other.ty not in ("stopmark", "elem"):
                    bad(e, "stop marker compared with %s" % other.ty)
                r = (other.ty == "stopmark") == isinstance(e.ops[0], ast.Eq)
                return TRUE_ if r else FALSE_
        return super().expr(e, env, binds)

    def block(self, stmts, env, k):
        st = stmts[0] if stmts else None
        if isinstance(st, ast.Expr) and isinstance(st.value, ast.Call) and isinstance(st.value.func, ast.Attribute):
            f = st.value.func
            if f.attr == "append" and isinstance(f.value, ast.Attribute) and isinstance(f.value.value, ast.Name) and f.value.value.id == "self" \
                    and ("self." + f.value.attr) in env and env["self." + f.value.attr].ty == "bytes" and len(st.value.args) == 1:
                x = self.expr(st.value.args[0], env, [])
                if x.ty != "elem":
                    bad(st, "only blocks are cached")
                env = dict(env); nm = self.new("cache")
                cur = env["self." + f.value.attr]
                env["self." + f.value.attr] = V(nm, "bytes")
                return "(let %s := (%s ++ [%s]) in %s)" % (nm, cur.text, x.text, self.block(stmts[1:], env, k))
            if f.attr in ("writeframes", "writeframesraw") and ast.unparse(f.value) == "self._wfp" and len(st.value.args) == 1:
                x = self.expr(st.value.args[0], env, [])
                env = dict(env); nm = self.new("file")
                cur = env["self.#file"]
                if x.ty == "elem":
                    add = "[%s]" % x.text
                elif x.ty == "bytes":
                    add = x.text
                else:
                    bad(st, "writeframes of %s" % x.ty)
                env["self.#file"] = V(nm, "bytes")
                return "(let %s := (%s ++ %s) in %s)" % (nm, cur.text, add, self.block(stmts[1:], env, k))
            if f.attr == "close" and ast.unparse(f.value) == "self._wfp" and not st.value.args:
                env = dict(env); env["self.#closed"] = V("true", "bool", True, True)
                return self.block(stmts[1:], env, k)
        # one turn of the drain loop
        if isinstance(st, ast.While) and isinstance(st.test, ast.Constant) and st.test.value is True and not st.orelse \
                and len(st.body) == 1 and isinstance(st.body[0], ast.Try) and self.case_msg is not None:
            tr_ = st.body[0]
            if len(tr_.handlers) != 1 or ast.unparse(tr_.handlers[0].type).split(".")[-1] != "Empty" or tr_.orelse or tr_.finalbody:
                bad(st, "drain loop: expected try / except Empty")
            after = stmts[1:]
            if self.case_msg[0] == "empty":
                h = list(tr_.handlers[0].body)
                if not (len(h) == 1 and isinstance(h[0], ast.Break)):
                    bad(st, "drain loop: the Empty handler must leave the loop")
                return self.block(after, env, lambda e2: self.spec.ret(self, V("false", "flag"), e2, st))
            body = list(tr_.body)
            first = body[0]
            if not (isinstance(first, ast.Assign) and isinstance(first.targets[0], ast.Name) and ast.unparse(first.value) == "self._inbox.get_nowait()"):
                bad(st, "drain loop: the turn must start with <name> = self._inbox.get_nowait()")
            env = dict(env)
            env[first.targets[0].id] = V("STOP", "stopmark") if self.case_msg[0] == "stop" else self.case_msg[1]
            return self.block(body[1:], env, lambda e2: self.spec.ret(self, V("true", "flag"), e2, st))
        return super().block(stmts, env, k)


TRUE_ = V("true", "bool", True, True)
FALSE_ = V("false", "bool", False, True)
W_STATE = [("_cache", "(wcache s)", "bytes"), ("_total_cached", "(wtotal s)", "Z"), ("#file", "(wfile s)", "bytes"), ("#closed", "(wclosed s)", "bool")]


def _wstate(env):
    return "(mkW %s %s %s %s)" % tuple(env["self." + a].text for a, _, _ in W_STATE)


def ret_wstate(tr, v, env, node):
    if v.ty == "none":
        return _wstate(env)
    if v.ty == "flag":
        return "(%s, %s)" % (_wstate(env), v.text)
    bad(node, "writer method returns %s" % v.ty)


def gen_savers(repo):
    wk = ast.parse(open(os.path.join(repo, "auditok", "workers.py")).read())
    sav = next(n for n in wk.body if isinstance(n, ast.ClassDef) and n.name == "StreamSaverWorker")
    joi = next(n for n in wk.body if isinstance(n, ast.ClassDef) and n.name == "AudioEventsJoinerWorker")
    out = list(HEADER)
    out[3] = "From AV Require Import Base.PyList Base.PyFloat Tok.Model Conc.Workers Conc.Savers."
    out.append("Section Sav.\nContext {A : Type}.\nVariable bsz : A -> Z.\nVariable cache_size : Z.\n")

    def meth(cls, name):
        c = [n for n in cls.body if isinstance(n, ast.FunctionDef) and n.name == name and not n.decorator_list]
        if len(c) != 1:
            raise TranslationError("%s.%s not found exactly once" % (cls.name, name))
        return c[0]
    attrs = {"_cache_size": ("cache_size", "Z")}
    for py, coq, params in (("_write_cached_data", "w_flush_gen", []), ("_process_message", "w_process_gen", [("data", "elem")])):
        sp = Spec(coq, params, ret_wstate, self_attrs=attrs, state=W_STATE)
        tr_ = SaverPure(meth(sav, py), sp, module=wk, cls=sav)
        env = {p_: V(p_, "elem") for p_, _ in params}
        for a_, g_, t_ in W_STATE:
            env["self." + a_] = V(g_, t_)
        body = tr_.block(Pure.body_of(tr_.fn), env, lambda e2: ret_wstate(tr_, NONE, e2, tr_.fn))
        out.append("Definition %s (s : wstate A) %s: wstate A :=\n  %s.\n" % (coq, "".join("(%s : A) " % p_ for p_, _ in params), body))
    # drain loop of _post_process, one turn per kind of message
    cases = []
    for case in (("empty",), ("stop",), ("data", V("d", "elem"))):
        sp = Spec("w_drain_gen", [], ret_wstate, self_attrs=attrs, state=W_STATE)
        tr_ = SaverPure(meth(sav, "_post_process"), sp, module=wk, cls=sav)
        tr_.case_msg = case
        env = {}
        for a_, g_, t_ in W_STATE:
            env["self." + a_] = V(g_, t_)
        cases.append(tr_.block(Pure.body_of(tr_.fn), env, lambda e2: bad(tr_.fn, "_post_process must consist of the drain loop, the final write and the close")))
    out.append("Definition w_drain_gen (s : wstate A) (m : option (option A)) : wstate A * bool :=\n  match m with\n  | None => %s\n  | Some None => %s\n  | Some (Some d) => %s\n  end.\n" % tuple(cases))
    # the joiner
    J_STATE = [("_first_event", "(fst s)", "bool"), ("#file", "(snd s)", "bytes")]

    def ret_j(tr, v, env, node):
        if v.ty != "none":
            bad(node, "_write_audio_event returns a value")
        return "(%s, %s)" % (env["self._first_event"].text, env["self.#file"].text)
    sp = Spec("j_write_gen", [("data", "elem")], ret_j, self_attrs={"_silence_data": ("sil", "elem")}, state=J_STATE)
    tr_ = SaverPure(meth(joi, "_write_audio_event"), sp, module=wk, cls=joi)
    env = {"data": V("data", "elem")}
    for a_, g_, t_ in J_STATE:
        env["self." + a_] = V(g_, t_)
    body = tr_.block(Pure.body_of(tr_.fn), env, lambda e2: ret_j(tr_, NONE, e2, tr_.fn))
    out.append("Definition j_write_gen (sil : A) (s : bool * list A) (data : A) : bool * list A :=\n  %s.\n" % body)
    # the silence the joiner inserts is make_silence(silence_duration, sampling_rate, sample_width, channels).data (C17_silence: round(d*rate) zero samples)
    init = meth(joi, "__init__")
    found = False
    for n in ast.walk(init):
        if isinstance(n, ast.Assign) and len(n.targets) == 1 and ast.unparse(n.targets[0]) == "self._silence_data":
            v = n.value
            ok = isinstance(v, ast.Attribute) and v.attr == "data" and isinstance(v.value, ast.Call) \
                and ast.unparse(v.value.func).split(".")[-1] == "make_silence"
            if ok:
                call = v.value
                names = ["silence_duration", "sampling_rate", "sample_width", "channels"]
                kws = {"duration": 0, "sampling_rate": 1, "sample_width": 2, "channels": 3}
                got = [None] * 4
                for i, a in enumerate(call.args):
                    got[i] = ast.unparse(a)
                for k_ in call.keywords:
                    if k_.arg in kws:
                        got[kws[k_.arg]] = ast.unparse(k_.value)
                ok = got == names
            if not ok:
                bad(n, "the joiner's silence is not make_silence(silence_duration, sampling_rate, sample_width, channels).data")
            found = True
    if not found:
        raise TranslationError("AudioEventsJoinerWorker.__init__ does not set self._silence_data")
    first = [n for n in ast.walk(init) if isinstance(n, ast.Assign) and ast.unparse(n.targets[0]) == "self._first_event"]
    if len(first) != 1 or not (isinstance(first[0].value, ast.Constant) and first[0].value.value is True):
        raise TranslationError("AudioEventsJoinerWorker.__init__ must start with self._first_event = True")
    out.append("End Sav.\n")
    return "\n".join(out)


def gen_loops(repo):
    from . import loops
    return loops.emit(repo)


# ---------------------------------------------------------------- reader constructor arithmetic

READER_TRACKED = {"_block_size": "block_size", "_hop_size": "hop_size", "_max_samples": "max_samples"}


def slice_reader(util):
    """The statements of AudioReader.__init__ and of the constructors of the wrapper classes it instantiates that decide the block
    size, the hop size and the sample budget, as one function of (block_dur, hop_dur, max_read, sr): constructor calls
    `input = _Cls(input, ...)` are replaced by the body of _Cls.__init__ (and, through super().__init__, of its base classes),
    with `self.<tracked attribute>` as a local name and `self.sr` as the parameter sr; statements that neither assign a tracked
    attribute nor raise are dropped; tests may only mention the parameters and the tracked names."""
    classes = {n.name: n for n in util.body if isinstance(n, ast.ClassDef)}
    allowed = {"block_dur", "hop_dur", "max_read", "sr"} | set(READER_TRACKED.values())

    def init_of(cname):
        c = classes.get(cname)
        while c is not None:
            for m in c.body:
                if isinstance(m, ast.FunctionDef) and m.name == "__init__":
                    return c, m
            nxt = None
            for b in c.bases:
                if isinstance(b, ast.Name) and b.id in classes:
                    nxt = classes[b.id]
            c = nxt
        return None, None

    class SelfSubst(ast.NodeTransformer):
        def __init__(self, mp):
            self.mp = mp

        def visit_Attribute(self, n):
            if isinstance(n.value, ast.Name) and n.value.id == "self":
                if n.attr in READER_TRACKED:
                    return ast.copy_location(ast.Name(id=READER_TRACKED[n.attr], ctx=n.ctx), n)
                if n.attr in ("sr", "sampling_rate"):
                    return ast.copy_location(ast.Name(id="sr", ctx=ast.Load()), n)
            return self.generic_visit(n)

        def visit_Name(self, n):
            if n.id in self.mp:
                return ast.copy_location(ast.parse(ast.unparse(self.mp[n.id]), mode="eval").body, n)
            return n

    def ctor_body(cname, args, depth=0):
        if depth > 4:
            bad(util, "constructor chain too deep")
        cls, init = init_of(cname)
        if init is None:
            return []
        params = [a.arg for a in init.args.args][1:]
        if len(args) != len(params) or init.args.defaults or init.args.vararg or init.args.kwarg:
            bad(init, "constructor %s.__init__ called with another shape than its signature" % cname)
        mp = dict(zip(params, args))
        out = []
        for st in init.body:
            st = SelfSubst(mp).visit(ast.parse(ast.unparse(st)).body[0])
            # super().__init__(...)  /  Base.__init__(self, ...)
            if isinstance(st, ast.Expr) and isinstance(st.value, ast.Call) and ast.unparse(st.value.func) == "super().__init__":
                base = next((b.id for b in cls.bases if isinstance(b, ast.Name) and b.id in classes), None)
                if base is not None:
                    out.extend(ctor_body(base, st.value.args, depth + 1))
                continue
            out.append(st)
        return out

    def keep(stmts):
        out = []
        for st in stmts:
            if isinstance(st, ast.Expr) and isinstance(st.value, ast.Constant):
                continue
            if isinstance(st, ast.Assign) and len(st.targets) == 1 and isinstance(st.value, ast.Call) and isinstance(st.value.func, ast.Name) \
                    and st.value.func.id in classes and not st.value.keywords:
                out.extend(keep(ctor_body(st.value.func.id, st.value.args)))
                continue
            if isinstance(st, ast.If):
                b, o = keep(st.body), keep(st.orelse)
                if b or o:
                    for n in ast.walk(st.test):
                        if isinstance(n, ast.Name) and n.id not in allowed and n.id not in ("None",):
                            bad(st, "a test deciding the reader sizes mentions %s" % n.id)
                    out.append(ast.copy_location(ast.If(test=st.test, body=b or [ast.Pass()], orelse=o), st))
                continue
            if isinstance(st, ast.Raise):
                out.append(st); continue
            if isinstance(st, ast.Assign) and any(isinstance(n, ast.Name) and isinstance(n.ctx, ast.Store) and n.id in READER_TRACKED.values() for t in st.targets for n in ast.walk(t)):
                if not (len(st.targets) == 1 and isinstance(st.targets[0], ast.Name)):
                    bad(st, "tracked attribute assigned in an unsupported way")
                out.append(st); continue
            if any(isinstance(n, ast.Name) and isinstance(n.ctx, ast.Store) and n.id in READER_TRACKED.values() for n in ast.walk(st)):
                bad(st, "tracked attribute assigned inside an unsupported statement")
        return out
    rd = classes.get("AudioReader")
    if rd is None:
        raise TranslationError("class AudioReader not found")
    init = next((m for m in rd.body if isinstance(m, ast.FunctionDef) and m.name == "__init__"), None)
    if init is None:
        raise TranslationError("AudioReader.__init__ not found")
    body = keep([SelfSubst({}).visit(ast.parse(ast.unparse(x)).body[0]) for x in init.body])
    if any(isinstance(x, ast.Raise) for x in body):
        bad(init, "unconditional raise in AudioReader.__init__")
    f = ast.parse("def reader_params_slice(block_dur, hop_dur, max_read, sr):\n    hop_size = None\n    max_samples = None").body[0]
    f.body = f.body + body + ast.parse("return (block_size, hop_size, max_samples)").body
    return ast.fix_missing_locations(f)


def ret_reader_params(tr, v, env, node):
    if v.ty == "error":
        return v.text
    if v.ty != "tuple" or len(v.const) != 3 or v.const[0].ty != "Z" or any(x.ty not in ("Z", "none") for x in v.const[1:]):
        bad(node, "expected (block size, hop size or None, sample budget or None)")
    opt = lambda x: "None" if x.ty == "none" else "(Some %s)" % x.text
    return "Ok (%s, %s, %s)" % (v.const[0].text, opt(v.const[1]), opt(v.const[2]))


class ReaderPure(Pure):
    """methods of the reader wrappers: the layer below is an oracle `inner : Z -> option block` asked once per call
    (`self._audio_source.read(e)`); a block is a list of whole samples (C11), so `len(block) // self._bytes_per_sample`
    is its number of samples and nothing else may be done with its length; `self._cache.append(block)` extends the
    recorded data (the model keeps the cache concatenated)."""
    def expr(self, e, env, binds):
        if isinstance(e, ast.Attribute) and ast.unparse(e) == "self._audio_source.data":
            return V("d", "block")          # what the layer below exposes as recorded data (whole samples)
        if isinstance(e, ast.BinOp) and isinstance(e.op, ast.Mult) and sorted([ast.unparse(e.left), ast.unparse(e.right)]) == ["self._bytes_per_sample", "self._max_samples"]:
            return V("mx", "maxbytes")      # the sample budget expressed in bytes
        if isinstance(e, ast.Subscript) and isinstance(e.slice, ast.Slice) and e.slice.lower is None and e.slice.step is None and e.slice.upper is not None:
            a = self.expr(e.value, env, binds)
            if a.ty == "block":
                hi = self.expr(e.slice.upper, env, binds)
                if hi.ty != "maxbytes":
                    bad(e, "recorded data sliced by something else than the sample budget in bytes")
                return V("(py_slice %s None (Some mx))" % a.text, "block")
        if isinstance(e, ast.Compare) and len(e.ops) == 1 and isinstance(e.ops[0], (ast.Is, ast.IsNot)):
            a = self.expr(e.left, env, binds)
            if a.ty == "block":
                b = self.expr(e.comparators[0], env, binds)
                if b.ty != "none":
                    bad(e, "block compared by identity with something else than None")
                return FALSE_ if isinstance(e.ops[0], ast.Is) else TRUE_
        if isinstance(e, ast.BinOp) and isinstance(e.op, ast.FloorDiv) and isinstance(e.left, ast.Call) and isinstance(e.left.func, ast.Name) \
                and e.left.func.id == "len" and len(e.left.args) == 1 and ast.unparse(e.right) == "self._bytes_per_sample":
            a = self.expr(e.left.args[0], env, binds)
            if a.ty == "block":
                return V("(zlen %s)" % a.text, "Z")
        if isinstance(e, ast.Call) and isinstance(e.func, ast.Name) and e.func.id == "len" and len(e.args) == 1:
            a = self.expr(e.args[0], env, binds)
            if a.ty == "block":
                bad(e, "length of a block used otherwise than as len(block) // self._bytes_per_sample")
        return super().expr(e, env, binds)

    def block(self, stmts, env, k):
        st = stmts[0] if stmts else None
        call = None
        if isinstance(st, ast.Assign) and len(st.targets) == 1 and isinstance(st.targets[0], ast.Name) and isinstance(st.value, ast.Call):
            call = st.value
        elif isinstance(st, ast.Return) and isinstance(st.value, ast.Call):
            call = st.value
        if call is not None and ast.unparse(call.func) == "self._audio_source.read" and len(call.args) == 1 and not call.keywords:
            if self.asked:
                bad(st, "the layer below is asked more than once in one call")
            self.asked = True
            binds = []
            n = self.expr(call.args[0], env, binds)
            if n.ty != "Z":
                bad(st, "request of type %s to the layer below" % n.ty)
            nm = self.new("blk")

            def branch(val):
                if isinstance(st, ast.Assign):
                    env2 = dict(env); env2[st.targets[0].id] = val
                    return self.block(stmts[1:], env2, k)
                return self.spec.ret(self, val, env, st)
            saved = self.asked
            some = branch(V(nm, "block"))
            self.asked = saved
            none = branch(NONE)
            return self.wrap(binds, "(match (inner %s) with Some %s => %s | None => %s end)" % (n.text, nm, some, none))
        if isinstance(st, ast.Expr) and isinstance(st.value, ast.Call) and ast.unparse(st.value.func) == "self._cache.append" and len(st.value.args) == 1 \
                and "self._cache" in env:
            x = self.expr(st.value.args[0], env, [])
            if x.ty != "block":
                bad(st, "only blocks are recorded")
            env = dict(env); nm = self.new("cache")
            cur = env["self._cache"]
            env["self._cache"] = V(nm, "bytes")
            return "(let %s := (%s ++ %s) in %s)" % (nm, cur.text, x.text, self.block(stmts[1:], env, k))
        return super().block(stmts, env, k)

    asked = False


def ret_layer(state_attr):
    def ret(tr, v, env, node):
        st = env["self." + state_attr].text if state_attr else None
        if v.ty == "none":
            out = "None"
        elif v.ty == "block":
            out = "(Some %s)" % v.text
        else:
            bad(node, "a read returns %s" % v.ty)
        return "(%s, %s)" % (st, out) if st else out
    return ret


class OverlapPure(ReaderPure):
    """one resumption of the generator _OverlapAudioReader._iter_blocks_with_overlap: `yield v` ends the resumption with the
    value handed to read() and the generator's live state (the overlap cache); blocks are lists of whole samples, so
    block[self._hop_size * sw * ch:] drops the first hop SAMPLES and cache + block concatenates; the source is open
    (the `while not self.is_open(): yield AudioIOError` guard is not entered)."""
    phase = "first"      # "first": from the beginning to the first yield;  "next": one turn of the `while True:` loop

    def truthy(self, node, v):
        if v.ty == "block":
            return V("(nonempty %s)" % v.text, "bool")
        return super().truthy(node, v)

    def expr(self, e, env, binds):
        if isinstance(e, ast.Subscript) and isinstance(e.slice, ast.Slice) and e.slice.upper is None and e.slice.step is None and e.slice.lower is not None:
            a = self.expr(e.value, env, binds)
            if a.ty == "block":
                lo = self.expr(e.slice.lower, env, binds)
                if lo.ty != "hopbytes":
                    bad(e, "a block is sliced from something else than the hop size in bytes")
                return V("(skipn (Z.to_nat H) %s)" % a.text, "block")
        if isinstance(e, ast.BinOp) and isinstance(e.op, ast.Add):
            a = self.expr(e.left, env, binds)
            if a.ty == "block":
                b = self.expr(e.right, env, binds)
                if b.ty != "block":
                    bad(e, "block + %s" % b.ty)
                return V("(%s ++ %s)" % (a.text, b.text), "block")
        if isinstance(e, ast.BinOp) and isinstance(e.op, ast.Mult):
            # self._hop_size * self._audio_source.sw * self._audio_source.ch, in any order
            fs = []
            def flat(x):
                if isinstance(x, ast.BinOp) and isinstance(x.op, ast.Mult):
                    flat(x.left); flat(x.right)
                else:
                    fs.append(ast.unparse(x))
            flat(e)
            if sorted(fs) in (sorted(["self._hop_size", "self._audio_source.sw", "self._audio_source.ch"]), sorted(["self._hop_size", "self.sw", "self.ch"])):
                return V("H", "hopbytes")
        return super().expr(e, env, binds)

    def block(self, stmts, env, k):
        st = stmts[0] if stmts else None
        if isinstance(st, ast.While) and ast.unparse(st.test) == "not self.is_open()" and len(st.body) == 1 and isinstance(st.body[0], ast.Expr) \
                and isinstance(st.body[0].value, ast.Yield) and not st.orelse:
            return self.block(stmts[1:], env, k)          # open source: guard not entered
        if isinstance(st, ast.Expr) and isinstance(st.value, ast.Yield):
            v = NONE if st.value.value is None else self.expr(st.value.value, env, [])
            return self.spec.ret(self, v, env, st)      # the resumption ends here; what follows is the next resumption
        if isinstance(st, ast.While) and isinstance(st.test, ast.Constant) and st.test.value is True:
            bad(st, "the loop is reached without a yield before it")
        if isinstance(st, ast.Continue):
            bad(st, "continue before a yield in this turn")
        return super().block(stmts, env, k)


def ret_gen(tr, v, env, node):
    """(generator state after the resumption, value handed to read())"""
    if isinstance(node, ast.Return):
        if v.ty != "none":
            bad(node, "the generator returns a value")
        return "(GDone, None)"
    if isinstance(node, ast.FunctionDef):
        bad(node, "a resumption of the generator ends without a yield")
    cache = env.get("cache")
    if v.ty == "none":
        # `yield None`: the loop goes on with the same cache
        if cache is None or cache.ty != "block":
            bad(node, "yield None outside the loop")
        return "(GRun %s, None)" % cache.text
    if v.ty != "block":
        bad(node, "the generator yields %s" % v.ty)
    if cache is None or cache.ty != "block":
        bad(node, "no overlap cache at a yield")
    return "(GRun %s, Some %s)" % (cache.text, v.text)


def gen_overlap(util):
    cls = next((n for n in util.body if isinstance(n, ast.ClassDef) and n.name == "_OverlapAudioReader"), None)
    g = next((m for m in (cls.body if cls else []) if isinstance(m, ast.FunctionDef) and m.name == "_iter_blocks_with_overlap"), None)
    if g is None:
        raise TranslationError("_OverlapAudioReader._iter_blocks_with_overlap not found")
    body = [x for x in g.body if not (isinstance(x, ast.Expr) and isinstance(x.value, ast.Constant))]
    loops = [i for i, x in enumerate(body) if isinstance(x, ast.While) and isinstance(x.test, ast.Constant) and x.test.value is True]
    if len(loops) != 1 or loops[0] != len(body) - 1 or body[-1].orelse:
        bad(g, "expected the generator to end with exactly one `while True:` loop")
    pro, loop = body[:-1], body[-1]
    if not (pro and isinstance(pro[-1], ast.Expr) and isinstance(pro[-1].value, ast.Yield)):
        bad(g, "expected a yield right before the loop")
    # the loop may only read what the prologue leaves: the cache and the hop size in bytes
    out = []
    f1 = ast.parse("def ov_first(self):\n    pass").body[0]; f1.body = pro
    sp = Spec("ov_first_gen", [], ret_gen, self_attrs={"_block_size": ("W", "Z")})
    sp.extra_params = ["(W H : Z)"]; sp.ret_type = "@gstate S * option (list S)"
    out.append(OverlapPure(ast.fix_missing_locations(f1), sp, module=util, cls=cls).translate())
    # names the loop body reads before writing them
    hop_names = [t.id for x in pro if isinstance(x, ast.Assign) and len(x.targets) == 1 and isinstance(x.targets[0], ast.Name)
                 for t in [x.targets[0]] if "self._hop_size" in ast.unparse(x.value)]
    f2 = ast.parse("def ov_next(self, cache):\n    pass").body[0]
    f2.body = [x for x in pro if isinstance(x, ast.Assign) and len(x.targets) == 1 and isinstance(x.targets[0], ast.Name) and x.targets[0].id in hop_names] + list(loop.body)
    sp = Spec("ov_next_gen", [("cache", "block")], ret_gen, self_attrs={"_hop_size": ("H", "Z"), "_block_size": ("W", "Z")})
    sp.extra_params = ["(W H : Z)"]; sp.ret_type = "@gstate S * option (list S)"
    tr = OverlapPure(ast.fix_missing_locations(f2), sp, module=util, cls=cls)
    tr.phase = "next"
    out.append(tr.translate())
    return out


def gen_reader(repo):
    util = ast.parse(open(os.path.join(repo, "auditok", "util.py")).read())
    out = list(HEADER)
    out[3] = "From AV Require Import Base.PyList Base.PyFloat Tok.Model IO.Reader."
    f = slice_reader(util)
    sp = Spec("reader_params_gen", [("block_dur", "F"), ("hop_dur", "optF"), ("max_read", "optF"), ("sr", "Z")], ret_reader_params)
    out.append("(* slice of AudioReader.__init__ and the wrapper constructors:\n" + ast.unparse(f) + "\n*)")
    out.append(Pure(f, sp, module=util).translate())
    out[3] = "From AV Require Import Base.PyList Base.PyFloat Tok.Model IO.Reader IO.Layers IO.Layers2."
    out.append("Section Lay.\nContext {S : Type}.\nVariable inner : Z -> option (list S).\n")
    classes = {n.name: n for n in util.body if isinstance(n, ast.ClassDef)}

    def meth(cname, mname):
        c = classes.get(cname)
        m = [n for n in (c.body if c else []) if isinstance(n, ast.FunctionDef) and n.name == mname and not n.decorator_list]
        if len(m) != 1:
            raise TranslationError("%s.%s not found exactly once" % (cname, mname))
        return c, m[0]
    c, m = meth("_Limiter", "read")
    sp = Spec("lim_read_gen", [("size", "Z")], ret_layer("_read_samples"), self_attrs={"_max_samples": ("mx", "Z")}, state=[("_read_samples", "nr", "Z")])
    sp.extra_params = ["(mx nr : Z)"]
    sp.ret_type = "Z * option (list S)"
    out.append(ReaderPure(m, sp, module=util, cls=c).translate())
    c, m = meth("_Recorder", "_read_and_cache")
    sp = Spec("rec_read_gen", [("size", "Z")], ret_layer("_cache"), state=[("_cache", "cache", "bytes")])
    sp.extra_params = ["(cache : list S)"]
    sp.ret_type = "list S * option (list S)"
    out.append(ReaderPure(m, sp, module=util, cls=c).translate())
    c, m = meth("_FixedSizeAudioReader", "read")
    sp = Spec("fixed_read_gen", [], ret_layer(None), self_attrs={"_block_size": ("W", "Z")})
    sp.extra_params = ["(W : Z)"]
    sp.ret_type = "option (list S)"
    out.append(ReaderPure(m, sp, module=util, cls=c).translate())
    out.extend(gen_overlap(util))
    c = classes.get("_Limiter")
    dprop = [n for n in (c.body if c else []) if isinstance(n, ast.FunctionDef) and n.name == "data" and [ast.unparse(x) for x in n.decorator_list] == ["property"]]
    if len(dprop) != 1:
        raise TranslationError("_Limiter.data (property) not found exactly once")

    def ret_block(tr, v, env, node):
        if v.ty != "block":
            bad(node, "_Limiter.data returns %s" % v.ty)
        return v.text
    sp = Spec("lim_data_gen", [], ret_block)
    sp.extra_params = ["(mx : Z)", "(d : list S)"]
    sp.ret_type = "list S"
    out.append(ReaderPure(dprop[0], sp, module=util, cls=c).translate())
    out.append("End Lay.\n")
    return "\n".join(out)


# ---------------------------------------------------------------- _read_offline (load)

class LoadPure(Pure):
    """core._read_offline: the source object is the buffer machine of IO/Source.v (state threaded through open / read / close);
    `audio_source.read(e)` is one Read step, its result None or data; `audio_source.sampling_rate` is the rate of the audio."""
    def expr(self, e, env, binds):
        if isinstance(e, ast.Attribute) and isinstance(e.value, ast.Name) and env.get(e.value.id, NONE).ty == "src":
            if e.attr in ("sampling_rate", "sr"):
                return V("(arate a)", "Z")
            if e.attr in ("sample_width", "sw", "channels", "ch"):
                return V('""', "str")
        return super().expr(e, env, binds)

    def step(self, env, op):
        nm = self.new("st")
        cur = env["#s"].text
        env2 = dict(env); env2["#s"] = V(nm, "bstate")
        return env2, nm, "(bstep a %s %s)" % (cur, op)

    def block(self, stmts, env, k):
        st = stmts[0] if stmts else None
        if isinstance(st, ast.Assign) and len(st.targets) == 1 and isinstance(st.targets[0], ast.Name) and isinstance(st.value, ast.Call) \
                and ast.unparse(st.value.func).split(".")[-1] == "get_audio_source":
            env = dict(env); env[st.targets[0].id] = V("", "src"); env["#s"] = V("init_b", "bstate")
            return self.block(stmts[1:], env, k)
        call = None
        target = None
        if isinstance(st, ast.Expr) and isinstance(st.value, ast.Call):
            call = st.value
        elif isinstance(st, ast.Assign) and len(st.targets) == 1 and isinstance(st.targets[0], ast.Name) and isinstance(st.value, ast.Call):
            call, target = st.value, st.targets[0].id
        if call is not None and isinstance(call.func, ast.Attribute) and isinstance(call.func.value, ast.Name) and env.get(call.func.value.id, NONE).ty == "src" \
                and not call.keywords:
            m = call.func.attr
            if m in ("open", "close") and not call.args and target is None:
                env2, nm, tx = self.step(env, "Open" if m == "open" else "Close")
                return "(let %s := fst %s in %s)" % (nm, tx, self.block(stmts[1:], env2, k))
            if m == "read" and len(call.args) == 1:
                binds = []
                n = self.expr(call.args[0], env, binds)
                if n.ty == "Z":
                    arg = "(Some %s)" % n.text
                elif n.ty == "none":
                    arg = "None"
                else:
                    bad(st, "read(%s)" % n.ty)
                r = self.new("r")
                env2, nm, tx = self.step(env, "(Read %s)" % arg)
                if target is None:
                    return self.wrap(binds, "(let %s := fst %s in %s)" % (nm, tx, self.block(stmts[1:], env2, k)))
                d = self.new("d")
                e_some = dict(env2); e_some[target] = V(d, "bytes")
                e_none = dict(env2); e_none[target] = NONE
                return self.wrap(binds, "(let %s := %s in (let %s := fst %s in (match snd %s with OData %s => %s | _ => %s end)))" % (
                    r, tx, nm, r, r, d, self.block(stmts[1:], e_some, k), self.block(stmts[1:], e_none, k)))
            bad(st, "call of audio_source.%s" % m)
        return super().block(stmts, env, k)


def ret_load(tr, v, env, node):
    if v.ty == "error":
        return v.text
    if v.ty != "tuple" or len(v.const) != 4 or v.const[0].ty != "bytes":
        bad(node, "_read_offline must return (data, sampling_rate, sample_width, channels)")
    return "Ok %s" % v.const[0].text


def gen_load(repo):
    core = ast.parse(open(os.path.join(repo, "auditok", "core.py")).read())
    fn, fmod = find_fn_pkg(repo, "_read_offline")
    if fn.args.kwarg is None or [a.arg for a in fn.args.args] != ["input", "skip", "max_read"]:
        raise TranslationError("_read_offline signature changed")
    f = ast.parse(ast.unparse(fn)).body[0]
    f.args.args = f.args.args[1:]; f.args.defaults = []; f.args.kwarg = None
    out = list(HEADER)
    out[3] = "From AV Require Import Base.PyList Base.PyFloat Tok.Model IO.Source IO.Load."
    out.append("Section LoadGen.\nContext {B : Type}.\n")
    sp = Spec("read_offline_gen", [("skip", "optF"), ("max_read", "optF")], ret_load)
    sp.extra_params = ["(a : audio B)"]
    sp.ret_type = "result (list B)"
    tr = LoadPure(f, sp, module=fmod)
    out.append(tr.translate())
    out.append("End LoadGen.\n")
    return "\n".join(out)


def gen_selector(repo):
    from . import selector
    return selector.emit(repo)


def gen_guards(repo):
    from . import kwargs
    return kwargs.emit(repo)


# ---------------------------------------------------------------- AudioRegion.__truediv__ (a loop)

class DivPure(Pure):
    """pieces of AudioRegion.__truediv__: len(self) is the parameter `len`"""
    def expr(self, e, env, binds):
        if isinstance(e, ast.Call) and isinstance(e.func, ast.Name) and e.func.id == "len" and len(e.args) == 1 and isinstance(e.args[0], ast.Name) and e.args[0].id == "self":
            return V("len", "Z")
        return super().expr(e, env, binds)


def gen_div(repo):
    """__truediv__ cut into: what happens before the loop (the TypeError guard and the initial loop state), the loop test, and one
    turn of the loop (new state + the bounds of the slice it appends).  Expected shape: statements; `acc = []`; `while TEST:` whose
    body appends exactly one `self[a:b]` to acc; `return acc`.  The loop itself is rebuilt in TieDiv.v as a fuelled fixpoint over
    these pieces and proved equal to the model's by induction."""
    core = ast.parse(open(os.path.join(repo, "auditok", "core.py")).read())
    cls = next(n for n in core.body if isinstance(n, ast.ClassDef) and n.name == "AudioRegion")
    fns = [n for n in cls.body if isinstance(n, ast.FunctionDef) and n.name == "__truediv__"]
    if len(fns) != 1 or [a.arg for a in fns[0].args.args] != ["self", "n"]:
        raise TranslationError("AudioRegion.__truediv__(self, n) not found exactly once")
    body = Pure.body_of(fns[0])
    wi = [i for i, x in enumerate(body) if isinstance(x, ast.While)]
    if len(wi) != 1 or wi[0] != len(body) - 2 or body[wi[0]].orelse or not isinstance(body[-1], ast.Return) or not isinstance(body[-1].value, ast.Name):
        raise TranslationError("__truediv__: expected `while ...:` followed by `return <list>` at the end")
    acc = body[-1].value.id
    pre, loop = body[:wi[0]], body[wi[0]]
    accdefs = [x for x in pre if isinstance(x, ast.Assign) and len(x.targets) == 1 and isinstance(x.targets[0], ast.Name) and x.targets[0].id == acc]
    if len(accdefs) != 1 or not (isinstance(accdefs[0].value, ast.List) and not accdefs[0].value.elts):
        raise TranslationError("__truediv__: the returned list must start empty")
    pre = [x for x in pre if x is not accdefs[0]]
    if any(isinstance(n, ast.Name) and n.id == acc for x in pre for n in ast.walk(x)):
        raise TranslationError("__truediv__: the result list is used before the loop")
    appends = [x for x in ast.walk(loop) if isinstance(x, ast.Call) and isinstance(x.func, ast.Attribute) and x.func.attr == "append"
               and isinstance(x.func.value, ast.Name) and x.func.value.id == acc]
    uses = [n for n in ast.walk(loop) if isinstance(n, ast.Name) and n.id == acc]
    top = [x for x in loop.body if isinstance(x, ast.Expr) and x.value in appends]
    if len(appends) != 1 or len(uses) != 1 or len(top) != 1:
        raise TranslationError("__truediv__: the loop must append to the result list exactly once per turn, unconditionally")
    sl = appends[0].args[0] if len(appends[0].args) == 1 else None
    if not (isinstance(sl, ast.Subscript) and isinstance(sl.value, ast.Name) and sl.value.id == "self" and isinstance(sl.slice, ast.Slice)
            and sl.slice.step is None and sl.slice.lower is not None and sl.slice.upper is not None):
        raise TranslationError("__truediv__: the appended value must be self[a:b]")
    # loop state: the names bound before the loop that the loop reads or rebinds, in order of first binding
    bound = []
    for x in pre:
        for n in ast.walk(x):
            if isinstance(n, ast.Name) and isinstance(n.ctx, ast.Store) and n.id not in bound:
                bound.append(n.id)
    used = {n.id for n in ast.walk(loop) if isinstance(n, ast.Name)}
    state = [b for b in bound if b in used]
    if len(state) != 3:
        raise TranslationError("__truediv__: expected three loop variables (sub-region size, remainder, onset), found %r" % state)
    idx = loop.body.index(top[0])
    if idx != len(loop.body) - 1 and any(isinstance(n, ast.Name) and n.id in state and isinstance(n.ctx, ast.Store) for x in loop.body[idx + 1:] for n in ast.walk(x)) is None:
        pass
    out = list(HEADER)

    def ret_tuple(k):
        def ret(tr, v, env, node):
            if v.ty == "error":
                return v.text
            if v.ty != "tuple" or len(v.const) != k or any(x.ty != "Z" for x in v.const):
                bad(node, "expected %d integers" % k)
            t = "(%s)" % ", ".join(x.text for x in v.const)
            return "Ok %s" % t if k == 3 else t
        return ret
    f1 = ast.parse("def div_init(self, n):\n    pass").body[0]
    f1.body = pre + ast.parse("return (%s)" % ", ".join(state)).body
    sp = Spec("div_init_gen", [("n", "Z")], ret_tuple(3)); sp.extra_params = ["(len : Z)"]; sp.ret_type = "result (Z * Z * Z)"
    out.append(DivPure(ast.fix_missing_locations(f1), sp, module=core, cls=cls).translate())
    f2 = ast.parse("def div_test(self, %s):\n    return %s" % (", ".join(state), ast.unparse(loop.test))).body[0]
    sp = Spec("div_test_gen", [(x, "Z") for x in state], lambda tr, v, env, node: v.text if v.ty == "bool" else bad(node, "loop test of type %s" % v.ty))
    sp.extra_params = ["(len : Z)"]; sp.ret_type = "bool"
    out.append(DivPure(ast.fix_missing_locations(f2), sp, module=core, cls=cls).translate())
    # one turn: the body with the append replaced by the binding of the slice bounds
    lo, hi = ast.unparse(sl.slice.lower), ast.unparse(sl.slice.upper)
    turn_body = []
    for x in loop.body:
        if x is top[0]:
            turn_body.extend(ast.parse("lo__ = %s\nhi__ = %s" % (lo, hi)).body)
        else:
            turn_body.append(x)
    f3 = ast.parse("def div_turn(self, %s):\n    pass" % ", ".join(state)).body[0]
    f3.body = turn_body + ast.parse("return (%s, lo__, hi__)" % ", ".join(state)).body
    sp = Spec("div_turn_gen", [(x, "Z") for x in state], ret_tuple(5)); sp.extra_params = ["(len : Z)"]; sp.ret_type = "Z * Z * Z * Z * Z"
    out.append(DivPure(ast.fix_missing_locations(f3), sp, module=core, cls=cls).translate())
    return "\n".join(out)


# ---------------------------------------------------------------- region times (start / duration / end)

def gen_times(repo):
    """the arithmetic that gives a region its start, duration and end: _make_audio_region's start (start_frame * frame_duration),
    AudioReader.block_dur (the frame duration split() passes), AudioRegion.__post_init__'s duration and end, and the argument
    split() passes as frame_duration"""
    core = ast.parse(open(os.path.join(repo, "auditok", "core.py")).read())
    util = ast.parse(open(os.path.join(repo, "auditok", "util.py")).read())
    out = list(HEADER)
    out[3] = "From AV Require Import Base.PyList Base.PyFloat Tok.Model Split.Split."

    class Sub(ast.NodeTransformer):
        def __init__(self, mp):
            self.mp = mp

        def visit_Attribute(self, n):
            src = ast.unparse(n)
            if src in self.mp:
                return ast.copy_location(ast.Name(id=self.mp[src], ctx=ast.Load()), n)
            return self.generic_visit(n)

        def visit_Call(self, n):
            src = ast.unparse(n)
            if src in self.mp:
                return ast.copy_location(ast.Name(id=self.mp[src], ctx=ast.Load()), n)
            return self.generic_visit(n)

    def synth(name, params, expr_node, mp):
        e = Sub(mp).visit(ast.parse(ast.unparse(expr_node), mode="eval").body)
        f = ast.parse("def %s(%s):\n    return 0" % (name, ", ".join(p for p, _ in params))).body[0]
        f.body = [ast.Return(value=e)]
        return ast.fix_missing_locations(f)

    def ret_f(tr, v, env, node):
        if v.ty != "F":
            bad(node, "expected a float, got %s" % v.ty)
        return v.text
    # (1) _make_audio_region: the value bound to `start`, passed as the region's start
    mk = find_function(core, "_make_audio_region")
    params = [a.arg for a in mk.args.args]
    if params != ["data_frames", "start_frame", "frame_duration", "sampling_rate", "sample_width", "channels"]:
        raise TranslationError("_make_audio_region signature changed: %r" % params)
    rets = [x for x in ast.walk(mk) if isinstance(x, ast.Return)]
    if len(rets) != 1 or not (isinstance(rets[0].value, ast.Call) and ast.unparse(rets[0].value.func) == "AudioRegion"):
        raise TranslationError("_make_audio_region must return one AudioRegion(...)")
    call = rets[0].value
    argmap = {}
    for nm, a in zip(["data", "sampling_rate", "sample_width", "channels", "start"], call.args):
        argmap[nm] = a
    for k in call.keywords:
        argmap[k.arg] = k.value
    if "start" not in argmap:
        raise TranslationError("_make_audio_region does not pass a start time")
    defs = {x.targets[0].id: x.value for x in mk.body if isinstance(x, ast.Assign) and len(x.targets) == 1 and isinstance(x.targets[0], ast.Name)}
    start_expr = argmap["start"]
    if isinstance(start_expr, ast.Name) and start_expr.id in defs:
        start_expr = defs[start_expr.id]
    for nm, want in (("sampling_rate", "sampling_rate"), ("sample_width", "sample_width"), ("channels", "channels")):
        if ast.unparse(argmap.get(nm, ast.Constant(value=None))) != want:
            raise TranslationError("_make_audio_region does not pass %s through" % nm)
    sp = Spec("start_gen", [("start_frame", "Z"), ("frame_duration", "F")], ret_f); sp.ret_type = "f64"
    out.append(Pure(synth("start_slice", sp.params, start_expr, {}), sp, module=None).translate())
    # (2) AudioReader.block_dur
    bd = find_property(util, "AudioReader", "block_dur", "getter")
    rets = [x for x in ast.walk(bd) if isinstance(x, ast.Return)]
    if len(rets) != 1:
        raise TranslationError("AudioReader.block_dur: one return expected")
    sp = Spec("block_dur_gen", [("block_size", "Z"), ("sr", "Z")], ret_f); sp.ret_type = "f64"
    out.append(Pure(synth("block_dur_slice", sp.params, rets[0].value, {"self._audio_source.block_size": "block_size", "self.block_size": "block_size",
                                                                         "self._audio_source.sr": "sr", "self.sr": "sr", "self._audio_source.sampling_rate": "sr", "self.sampling_rate": "sr"}), sp, module=None).translate())
    # (3) AudioRegion.__post_init__: duration and end
    cls = next(n for n in core.body if isinstance(n, ast.ClassDef) and n.name == "AudioRegion")
    pi = next((n for n in cls.body if isinstance(n, ast.FunctionDef) and n.name == "__post_init__"), None)
    if pi is None:
        raise TranslationError("AudioRegion.__post_init__ not found")
    sets = {}
    for x in ast.walk(pi):
        if isinstance(x, ast.Call) and ast.unparse(x.func) == "object.__setattr__" and len(x.args) == 3 and isinstance(x.args[1], ast.Constant):
            sets.setdefault(x.args[1].value, []).append(x.args[2])
        elif isinstance(x, ast.Call) and isinstance(x.func, ast.Name) and len(x.args) == 2 and not x.keywords and isinstance(x.args[0], ast.Constant) \
                and isinstance(x.args[0].value, str) and x.args[0].value in ("duration", "end", "meta", "start"):
            sets.setdefault(x.args[0].value, []).append(x.args[1])      # a local helper wrapping object.__setattr__(self, name, value)
    ldefs = {x.targets[0].id: x.value for x in ast.walk(pi) if isinstance(x, ast.Assign) and len(x.targets) == 1 and isinstance(x.targets[0], ast.Name)}
    if len(sets.get("duration", [])) != 1:
        raise TranslationError("__post_init__ must set duration exactly once")
    dur = sets["duration"][0]
    if isinstance(dur, ast.Name) and dur.id in ldefs:
        dur = ldefs[dur.id]
    ends = [e for e in sets.get("end", []) if not (isinstance(e, ast.Constant) and e.value is None)]
    if len(ends) != 1:
        raise TranslationError("__post_init__ must set a non-None end exactly once")
    sp = Spec("duration_gen", [("nbytes", "Z"), ("sampling_rate", "Z"), ("sample_width", "Z"), ("channels", "Z")], ret_f); sp.ret_type = "f64"
    out.append(Pure(synth("duration_slice", sp.params, dur, {"len(self.data)": "nbytes", "len(self._data)": "nbytes", "self.sampling_rate": "sampling_rate", "self.sr": "sampling_rate",
                                                            "self.sample_width": "sample_width", "self.sw": "sample_width", "self.channels": "channels", "self.ch": "channels"}), sp, module=None).translate())
    sp = Spec("end_gen", [("start", "F"), ("duration", "F")], ret_f); sp.ret_type = "f64"
    out.append(Pure(synth("end_slice", sp.params, ends[0], {"self.start": "start", "self.duration": "duration"}), sp, module=None).translate())
    # (4) what split() passes to _make_audio_region
    sp_fn = find_function(core, "split")
    calls = [x for x in ast.walk(sp_fn) if isinstance(x, ast.Call) and isinstance(x.func, ast.Name) and x.func.id == "_make_audio_region"]
    if len(calls) != 1 or calls[0].keywords or len(calls[0].args) != 6:
        raise TranslationError("split() must call _make_audio_region(...) once with six positional arguments")
    args = [ast.unparse(a) for a in calls[0].args]
    gen = [g for g in ast.walk(sp_fn) if isinstance(g, ast.GeneratorExp) and calls[0] in list(ast.walk(g))]
    tokvar = ast.unparse(gen[0].generators[0].target) if gen else "token"
    norm = [a.replace(tokvar, "token") for a in args]
    # the reader is called `source` in the pinned source; any single name is accepted
    names = {n.id for a in calls[0].args[2:] for n in ast.walk(a) if isinstance(n, ast.Name)}
    if len(names) == 1:
        rd = names.pop()
        norm = [a.replace(rd + ".", "source.") for a in norm]
    out.append("Open Scope string_scope.")
    out.append("Definition make_region_args_gen : list String.string := [%s]." % "; ".join('"%s"' % a for a in norm))
    out[1] = "From Coq Require Import ZArith List Bool String."
    return "\n".join(out)


def gen_alias(repo):
    from . import alias
    return alias.emit(repo)


GENERATORS = {"alias": gen_alias, "times": gen_times, "div": gen_div, "guards": gen_guards, "selector": gen_selector, "load": gen_load, "reader": gen_reader, "loops": gen_loops, "savers": gen_savers, "fsrc": gen_fsrc, "algebra": gen_algebra, "split": gen_split, "dur": gen_dur, "region": gen_region, "silence": gen_silence, "buf": gen_buf, "fmt": gen_fmt}


def emit_group(repo, group):
    """Gallina text of one group, or raises TranslationError"""
    try:
        return GENERATORS[group](repo)
    except TranslationError:
        raise
    except Exception as e:      # fail closed: whatever goes wrong inside a translator is a rejection of the source, not a crash of the check
        raise TranslationError("%s: %s" % (type(e).__name__, e))


if __name__ == "__main__":
    import sys
    for g in GROUPS:
        print("(* ===== %s ===== *)" % g)
        print(emit_group(sys.argv[1] if len(sys.argv) > 1 else "/repo", g))
