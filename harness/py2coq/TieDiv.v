(** Tie: AudioRegion.__truediv__ as translated from /repo in this run (GenDiv.v: what precedes the loop, the loop test, one turn
    of the loop with the bounds of the slice it appends), reassembled here as a fuelled fixpoint, = Audio/Region.v div_loop / div
    for all regions, divisors and fuels.  (The slice itself, self[a:b], is AudioRegion.__getitem__, tied by TieRegion.v.) *)
From Coq Require Import ZArith List Bool Lia.
From AV Require Import Base.PyList Base.PyFloat Tok.Model Audio.Region.
From AVGen Require Import GenDiv.
Import ListNotations.
Open Scope Z_scope.

Fixpoint div_loop_g (fuel : nat) (r : region Z) (len a b c : Z) : result (list (region Z)) :=
  if div_test_gen len a b c then
    match fuel with
    | O => Err OutOfFuel
    | S f =>
        let '(a', b', c', lo, hi) := div_turn_gen len a b c in
        match div_loop_g f r len a' b' c' with
        | Ok l => Ok (getitem r (Some lo) (Some hi) :: l)
        | Err e => Err e
        end
    end
  else Ok [].

Definition div_g (r : region Z) (n : Z) : result (list (region Z)) :=
  match div_init_gen (rlen r) n with
  | Ok (a, b, c) => div_loop_g (S (Z.to_nat (rlen r))) r (rlen r) a b c
  | Err e => Err e
  end.

Lemma div_congr f (r : region Z) len q q' rest rest' c c' lo lo' hi hi' :
  q = q' -> rest = rest' -> c = c' -> lo = lo' -> hi = hi' ->
  match div_loop f r len q rest c with Ok l => Ok (getitem r (Some lo) (Some hi) :: l) | Err e => Err e end
  = match div_loop f r len q' rest' c' with Ok l => Ok (getitem r (Some lo') (Some hi') :: l) | Err e => Err e end.
Proof. intros; subst; reflexivity. Qed.

Lemma tie_div_loop : forall fuel (r : region Z) len q rest onset,
  div_loop_g fuel r len q rest onset = div_loop fuel r len q rest onset.
Proof.
  induction fuel as [|f IH]; intros r len q rest onset; cbn [div_loop_g div_loop]; unfold div_test_gen, div_turn_gen;
    destruct (onset <? len); try reflexivity.
  cbv zeta. destruct (0 <? rest) eqn:E; cbv zeta; rewrite IH; apply div_congr; lia.
Qed.

Lemma tie_div (r : region Z) n : div_g r n = div r n.
Proof.
  unfold div_g, div, div_init_gen. destruct (n <=? 0); [reflexivity|]. cbv zeta. apply tie_div_loop.
Qed.

Print Assumptions tie_div.
