(** Tie: the two decisions of cmdline_util.make_kwargs (the -j / -O consistency guard, the `record` flag), evaluated
    symbolically from /repo in this run over every combination of absent / given options, = Cli/Guards.v. *)
From Coq Require Import Bool List.
From AV Require Import Cli.Guards.
From AVGen Require Import GenGuards.
Import ListNotations.

Lemma tie_join_guard : join_guard_table_gen = join_guard_table.
Proof. reflexivity. Qed.

Lemma tie_record_flag : record_table_gen = record_table.
Proof. reflexivity. Qed.

Print Assumptions tie_join_guard.
