"""Fail-closed translator: auditok.core.StreamTokenizer (Python ast) -> Gallina.

Emits TokGen.v defining, over the record types of AV.Tok.Model,
  validate, reinit, eod, process, post_process, iter_step
exactly as the Python source computes them.  Anything outside the supported
subset raises TranslationError (never a guess).  TokTie.v (static text, see
tie.py) then proves each generated function equal to the hand-written model.
"""
import ast

class TranslationError(Exception):
    pass

def bad(node, why):
    raise TranslationError("line %s: %s [%s]" % (getattr(node, "lineno", "?"), why,
                                                   ast.dump(node)[:120]))

STATE_FIELDS = {  # python attribute -> (getter, setter, type)
    "_state": ("state", "set_state", "astate"),
    "_data": ("data", "set_data", "list"),
    "_contiguous_token": ("contig", "set_contig", "bool"),
    "_init_count": ("init_count", "set_init_count", "Z"),
    "_silence_length": ("sil", "set_sil", "Z"),
    "_start_frame": ("start", "set_start", "Z"),
    "_current_frame": ("cur", "set_cur", "Z"),
}
CONFIG_FIELDS = {  # python attribute -> (getter, type); order = mkConfig order
    "min_length": ("min_length", "Z"),
    "max_length": ("max_length", "Z"),
    "max_continuous_silence": ("max_sil", "Z"),
    "init_min": ("init_min", "Z"),
    "init_max_silent": ("init_max_sil", "Z"),
    "_strict_min_length": ("strict", "bool"),
    "_drop_trailing_silence": ("drop", "bool"),
}
# attributes written but never read by the translated methods
IGNORED_WRITES = {"_deliver", "_tokens", "_mode", "validator", "_is_valid"}
ASTATES = ("SILENCE", "POSSIBLE_SILENCE", "POSSIBLE_NOISE", "NOISE")


class TokTranslator:
    def __init__(self, source):
        self.tree = ast.parse(source)
        cls = [n for n in self.tree.body if isinstance(n, ast.ClassDef) and n.name == "StreamTokenizer"]
        if len(cls) != 1:
            raise TranslationError("class StreamTokenizer not found exactly once")
        self.cls = cls[0]
        self.consts = {}
        self.methods = {}
        for n in self.cls.body:
            if isinstance(n, ast.Assign) and len(n.targets) == 1 and isinstance(n.targets[0], ast.Name):
                if isinstance(n.value, ast.Constant) and isinstance(n.value.value, int):
                    self.consts[n.targets[0].id] = n.value.value
                else:
                    bad(n, "class-level assignment is not an int constant")
            elif isinstance(n, ast.FunctionDef):
                if n.name in self.methods:
                    bad(n, "method defined twice")
                if n.decorator_list:
                    bad(n, "decorated method")
                self.methods[n.name] = n
            elif isinstance(n, ast.Expr) and isinstance(n.value, ast.Constant):
                pass  # docstring
            else:
                bad(n, "unsupported class-level statement")
        vals = [self.consts.get(a) for a in ASTATES]
        if None in vals or len(set(vals)) != 4:
            raise TranslationError("automaton state constants missing or not distinct: %r" % vals)

    # ------------------------------------------------------------ expressions
    def self_attr(self, node):
        if isinstance(node, ast.Attribute) and isinstance(node.value, ast.Name) and node.value.id in ("self", "StreamTokenizer"):
            return node.attr
        return None

    def expr(self, e, env, want=None):
        """returns (coq_text, type) ; type in Z,bool,list,astate,token,opt"""
        a = self.self_attr(e)
        if a is not None:
            if a in ASTATES:
                return a, "astate"
            if a in self.consts:
                return self.zlit(self.consts[a]), "Z"
            if isinstance(e.value, ast.Name) and e.value.id == "self":
                if a in STATE_FIELDS and env.get("#state"):
                    return "(%s s)" % STATE_FIELDS[a][0], STATE_FIELDS[a][2]
                if a in CONFIG_FIELDS and env.get("#config"):
                    return "(%s c)" % CONFIG_FIELDS[a][0], CONFIG_FIELDS[a][1]
            bad(e, "read of unsupported attribute %s" % a)
        if isinstance(e, ast.Constant):
            if e.value is True:
                return "true", "bool"
            if e.value is False:
                return "false", "bool"
            if isinstance(e.value, int):
                return self.zlit(e.value), "Z"
            bad(e, "unsupported constant")
        if isinstance(e, ast.Name):
            if e.id in env:
                return env[e.id]
            bad(e, "unknown name %s" % e.id)
        if isinstance(e, ast.List) and not e.elts:
            return "[]", "list"
        if isinstance(e, ast.Tuple) and len(e.elts) == 3:
            parts = [self.expr(x, env) for x in e.elts]
            if [p[1] for p in parts] != ["list", "Z", "Z"]:
                bad(e, "tuple is not (list, int, int)")
            return "(%s, %s, %s)" % tuple(p[0] for p in parts), "token"
        if isinstance(e, ast.UnaryOp):
            if isinstance(e.op, ast.Not):
                t, ty = self.expr(e.operand, env)
                self.need(e, ty, "bool")
                return "(negb %s)" % t, "bool"
            if isinstance(e.op, ast.USub):
                t, ty = self.expr(e.operand, env)
                self.need(e, ty, "Z")
                return "(- %s)" % t, "Z"
            bad(e, "unary op")
        if isinstance(e, ast.BoolOp):
            op = "&&" if isinstance(e.op, ast.And) else "||"
            parts = []
            for v in e.values:
                t, ty = self.expr(v, env)
                self.need(v, ty, "bool")
                parts.append(t)
            # Python and/or on booleans, evaluated left to right; operands here are pure
            return "(" + (" %s " % op).join(parts) + ")", "bool"
        if isinstance(e, ast.BinOp):
            l, lt = self.expr(e.left, env)
            r, rt = self.expr(e.right, env)
            self.need(e, lt, "Z"); self.need(e, rt, "Z")
            ops = {ast.Add: "(%s + %s)", ast.Sub: "(%s - %s)", ast.Mult: "(%s * %s)",
                   ast.BitAnd: "(Z.land %s %s)", ast.BitOr: "(Z.lor %s %s)"}
            for k, f in ops.items():
                if isinstance(e.op, k):
                    return f % (l, r), "Z"
            bad(e, "binary op")
        if isinstance(e, ast.Compare):
            if len(e.ops) != 1:
                bad(e, "chained comparison")
            op = e.ops[0]
            if isinstance(op, (ast.In, ast.NotIn)):
                l, lt = self.expr(e.left, env)
                self.need(e, lt, "Z")
                c = e.comparators[0]
                if not isinstance(c, (ast.List, ast.Tuple)) or not c.elts:
                    bad(e, "`in` needs a literal list")
                alts = []
                for x in c.elts:
                    t, ty = self.expr(x, env)
                    self.need(x, ty, "Z")
                    alts.append("(%s =? %s)" % (l, t))
                txt = "(" + " || ".join(alts) + ")"
                if isinstance(op, ast.NotIn):
                    txt = "(negb %s)" % txt
                return txt, "bool"
            l, lt = self.expr(e.left, env)
            r, rt = self.expr(e.comparators[0], env)
            if lt == "astate" and rt == "astate" and isinstance(op, (ast.Eq, ast.NotEq)):
                t = "(astate_eqb %s %s)" % (l, r)
                return (t if isinstance(op, ast.Eq) else "(negb %s)" % t), "bool"
            self.need(e, lt, "Z"); self.need(e, rt, "Z")
            if isinstance(op, ast.Eq):
                return "(%s =? %s)" % (l, r), "bool"
            if isinstance(op, ast.NotEq):
                return "(negb (%s =? %s))" % (l, r), "bool"
            if isinstance(op, ast.Lt):
                return "(%s <? %s)" % (l, r), "bool"
            if isinstance(op, ast.LtE):
                return "(%s <=? %s)" % (l, r), "bool"
            if isinstance(op, ast.Gt):
                return "(%s <? %s)" % (r, l), "bool"
            if isinstance(op, ast.GtE):
                return "(%s <=? %s)" % (r, l), "bool"
            bad(e, "comparison operator")
        if isinstance(e, ast.Call):
            if isinstance(e.func, ast.Name) and e.func.id == "len" and len(e.args) == 1 and not e.keywords:
                t, ty = self.expr(e.args[0], env)
                self.need(e, ty, "list")
                return "(zlen %s)" % t, "Z"
            bad(e, "unsupported call")
        if isinstance(e, ast.Subscript) and isinstance(e.slice, ast.Slice):
            t, ty = self.expr(e.value, env)
            self.need(e, ty, "list")
            if e.slice.step is not None:
                bad(e, "slice step")
            def bound(b):
                if b is None:
                    return "None"
                bt, bty = self.expr(b, env)
                self.need(b, bty, "Z")
                return "(Some %s)" % bt
            return "(py_slice %s %s %s)" % (t, bound(e.slice.lower), bound(e.slice.upper)), "list"
        bad(e, "unsupported expression")

    @staticmethod
    def zlit(n):
        return str(n) if n >= 0 else "(%d)" % n

    @staticmethod
    def need(node, ty, want):
        if ty != want:
            bad(node, "type %s where %s expected" % (ty, want))

    # ------------------------------------------------------------- statements
    def is_docstring(self, st):
        return isinstance(st, ast.Expr) and isinstance(st.value, ast.Constant) and isinstance(st.value.value, str)

    def method_call(self, e):
        """self._name(args) -> (name, args) or None"""
        if isinstance(e, ast.Call) and self.self_attr(e.func) is not None and isinstance(e.func.value, ast.Name) and e.func.value.id == "self":
            if e.keywords:
                bad(e, "keyword arguments in method call")
            return e.func.attr, e.args
        return None

    def call_eod(self, e, env):
        name, args = self.method_call(e)
        fn = self.methods.get("_process_end_of_detection")
        if fn is None:
            bad(e, "no _process_end_of_detection")
        params = fn.args.args[1:]
        if len(params) != 1 or params[0].arg != "truncated" or len(fn.args.defaults) != 1:
            bad(fn, "unexpected signature of _process_end_of_detection")
        if len(args) == 0:
            t, ty = self.expr(fn.args.defaults[0], env)
        elif len(args) == 1:
            t, ty = self.expr(args[0], env)
        else:
            bad(e, "too many arguments")
        self.need(e, ty, "bool")
        return "(eod c s %s)" % t

    def block(self, stmts, env, ind, kind):
        """Translate a statement list to a Gallina expression.
        kind: 'tok' -> st * option token ; 'st' -> st"""
        pad = "  " * ind
        if not stmts:
            return pad + ("(s, None)" if kind == "tok" else "s")
        st, rest = stmts[0], stmts[1:]
        if self.is_docstring(st) or isinstance(st, ast.Pass):
            return self.block(rest, env, ind, kind)
        if isinstance(st, ast.Return):
            if kind != "tok":
                bad(st, "return in a procedure")
            if st.value is None or (isinstance(st.value, ast.Constant) and st.value.value is None):
                return pad + "(s, None)"
            mc = self.method_call(st.value)
            if mc and mc[0] == "_process_end_of_detection":
                return pad + self.call_eod(st.value, env)
            t, ty = self.expr(st.value, env)
            self.need(st, ty, "token")
            return pad + "(s, Some %s)" % t
        if isinstance(st, ast.If):
            c, ty = self.expr(st.test, env)
            self.need(st.test, ty, "bool")
            a = self.block(st.body + rest, dict(env), ind + 1, kind)
            b = self.block(st.orelse + rest, dict(env), ind + 1, kind)
            return "%sif %s then\n%s\n%selse\n%s" % (pad, c, a, pad, b)
        if isinstance(st, (ast.Assign, ast.AugAssign)):
            if isinstance(st, ast.Assign):
                if len(st.targets) != 1:
                    bad(st, "multiple assignment targets")
                tgt, val = st.targets[0], st.value
            else:
                tgt = st.target
                val = ast.BinOp(left=tgt, op=st.op, right=st.value)
                ast.copy_location(val, st)
                ast.fix_missing_locations(val)
            a = self.self_attr(tgt)
            if a is not None:
                if a in IGNORED_WRITES:
                    return self.block(rest, env, ind, kind)
                if a not in STATE_FIELDS or not env.get("#state"):
                    bad(st, "write to unsupported attribute %s" % a)
                get, setter, fty = STATE_FIELDS[a]
                # the validator call: frame_is_valid = self._is_valid(frame) handled below
                t, ty = self.expr(val, env)
                self.need(st, ty, fty)
                return "%slet s := %s s %s in\n%s" % (pad, setter, t, self.block(rest, env, ind, kind))
            if isinstance(tgt, ast.Name):
                mc = self.method_call(val)
                if mc and mc[0] == "_is_valid":
                    if "#verdict" not in env or env.get("#verdict_used"):
                        bad(st, "validator call not allowed here (must be called exactly once per frame)")
                    if len(mc[1]) != 1 or not isinstance(mc[1][0], ast.Name) or env.get(mc[1][0].id, (None,))[0] != env["#frame"]:
                        bad(st, "validator must be applied to the frame")
                    env = dict(env); env["#verdict_used"] = True
                    env[tgt.id] = (env["#verdict"], "bool")
                    return self.block(rest, env, ind, kind)
                t, ty = self.expr(val, env)
                env = dict(env)
                name = "l_" + tgt.id
                env[tgt.id] = (name, ty)
                return "%slet %s := %s in\n%s" % (pad, name, t, self.block(rest, env, ind, kind))
            bad(st, "unsupported assignment target")
        if isinstance(st, ast.Expr):
            mc = self.method_call(st.value)
            # self._data.append(frame)
            v = st.value
            if (isinstance(v, ast.Call) and isinstance(v.func, ast.Attribute) and v.func.attr == "append"
                    and self.self_attr(v.func.value) in STATE_FIELDS and len(v.args) == 1 and not v.keywords):
                get, setter, fty = STATE_FIELDS[self.self_attr(v.func.value)]
                if fty != "list":
                    bad(st, "append on a non-list field")
                t, ty = self.expr(v.args[0], env)
                if ty != "frame":
                    bad(st, "only frames are appended to the buffer")
                return "%slet s := %s s (%s s ++ [%s]) in\n%s" % (pad, setter, get, t, self.block(rest, env, ind, kind))
            bad(st, "unsupported expression statement")
        bad(st, "unsupported statement")

    # --------------------------------------------------------------- methods
    def params(self, fn):
        if fn.args.vararg or fn.args.kwarg or fn.args.kwonlyargs or fn.args.posonlyargs:
            bad(fn, "unsupported parameter kinds")
        return [a.arg for a in fn.args.args]

    def gen_reinit(self):
        fn = self.methods["_reinitialize"]
        if self.params(fn) != ["self"]:
            bad(fn, "signature")
        body = self.block(fn.body, {"#state": True}, 1, "st")
        return "Definition reinit (s : st A) : st A :=\n%s.\n" % body

    def gen_eod(self):
        fn = self.methods["_process_end_of_detection"]
        if self.params(fn) != ["self", "truncated"]:
            bad(fn, "signature")
        env = {"#state": True, "#config": True, "truncated": ("truncated", "bool")}
        body = self.block(fn.body, env, 1, "tok")
        return ("Definition eod (c : config) (s : st A) (truncated : bool) : st A * option (token A) :=\n%s.\n" % body)

    def gen_process(self):
        fn = self.methods["_process"]
        if self.params(fn) != ["self", "frame"]:
            bad(fn, "signature")
        env = {"#state": True, "#config": True, "frame": ("f", "frame"), "#frame": "f", "#verdict": "v"}
        # the validator must be consulted unconditionally, first
        first = [s for s in fn.body if not self.is_docstring(s)][0]
        if not (isinstance(first, ast.Assign) and self.method_call(first.value) and self.method_call(first.value)[0] == "_is_valid"):
            bad(first, "_process must start by calling the validator on the frame")
        body = self.block(fn.body, env, 1, "tok")
        if body.count("#") or "_is_valid" in body:
            raise TranslationError("internal: marker leaked")
        return ("Definition process (c : config) (s : st A) (f : A) (v : bool) : st A * option (token A) :=\n%s.\n" % body)

    def gen_post_process(self):
        fn = self.methods["_post_process"]
        if self.params(fn) != ["self"]:
            bad(fn, "signature")
        body = self.block(fn.body, {"#state": True, "#config": True}, 1, "tok")
        return ("Definition post_process (c : config) (s : st A) : st A * option (token A) :=\n%s.\n" % body)

    def gen_iter_step(self):
        """_iter_tokens: self._reinitialize(); while True: <body>  ->  iter_step"""
        fn = self.methods["_iter_tokens"]
        if self.params(fn) != ["self", "data_source"]:
            bad(fn, "signature")
        body = [s for s in fn.body if not self.is_docstring(s)]
        if len(body) != 2:
            bad(fn, "_iter_tokens must be: self._reinitialize(); while True: ...")
        mc = isinstance(body[0], ast.Expr) and self.method_call(body[0].value)
        if not mc or mc[0] != "_reinitialize" or mc[1]:
            bad(body[0], "first statement must be self._reinitialize()")
        loop = body[1]
        if not (isinstance(loop, ast.While) and isinstance(loop.test, ast.Constant) and loop.test.value is True and not loop.orelse):
            bad(loop, "expected `while True:`")
        txt = self.gen_loop(loop.body, {"#state": True}, 1, None)
        return ("Definition iter_step (c : config) (s : st A) (fr : option (A * bool)) : st A * list (token A) * bool :=\n"
                "  let out := @nil (token A) in\n%s.\n" % txt)

    def gen_loop(self, stmts, env, ind, frame):
        pad = "  " * ind
        if not stmts:
            return pad + "(s, out, true)"      # falls off the body: next turn of the loop
        st, rest = stmts[0], stmts[1:]
        if isinstance(st, ast.Break):
            return pad + "(s, out, false)"
        if isinstance(st, ast.Assign) and len(st.targets) == 1 and isinstance(st.targets[0], ast.Name):
            v = st.value
            # frame = data_source.read()
            if (isinstance(v, ast.Call) and isinstance(v.func, ast.Attribute) and v.func.attr == "read"
                    and isinstance(v.func.value, ast.Name) and v.func.value.id == "data_source"
                    and not v.args and not v.keywords):
                if env.get("#read"):
                    bad(st, "source read twice in one turn")
                env = dict(env); env["#read"] = st.targets[0].id
                return self.gen_loop(rest, env, ind, frame)
            mc = self.method_call(v)
            if mc and mc[0] == "_post_process" and not mc[1]:
                env = dict(env); env[st.targets[0].id] = ("l_" + st.targets[0].id, "opt")
                return "%slet '(s, l_%s) := post_process c s in\n%s" % (pad, st.targets[0].id, self.gen_loop(rest, env, ind, frame))
            if mc and mc[0] == "_process" and len(mc[1]) == 1 and isinstance(mc[1][0], ast.Name) and mc[1][0].id == env.get("#read") and frame:
                env = dict(env); env[st.targets[0].id] = ("l_" + st.targets[0].id, "opt")
                return "%slet '(s, l_%s) := process c s l_frame l_v in\n%s" % (pad, st.targets[0].id, self.gen_loop(rest, env, ind, frame))
            bad(st, "unsupported assignment in generator loop")
        if isinstance(st, ast.AugAssign) or (isinstance(st, ast.Assign) and self.self_attr(st.targets[0]) is not None):
            one = self.block([st], {"#state": True}, ind, "st")
            # block() returns "let s := ... in\n<pad>s": drop the trailing result
            head = one.rsplit("\n", 1)[0]
            return "%s\n%s" % (head, self.gen_loop(rest, env, ind, frame))
        if isinstance(st, ast.If):
            t = st.test
            # if frame is None: ... (the rest is the `Some` branch)
            if (isinstance(t, ast.Compare) and len(t.ops) == 1 and isinstance(t.ops[0], ast.Is)
                    and isinstance(t.left, ast.Name) and t.left.id == env.get("#read")
                    and isinstance(t.comparators[0], ast.Constant) and t.comparators[0].value is None and frame is None):
                a = self.gen_loop(st.body + rest, env, ind + 1, False)
                b = self.gen_loop(st.orelse + rest, env, ind + 1, True)
                return "%smatch fr with\n%s| None =>\n%s\n%s| Some (l_frame, l_v) =>\n%s\n%send" % (pad, pad, a, pad, b, pad)
            # if token is not None: yield token
            if (isinstance(t, ast.Compare) and len(t.ops) == 1 and isinstance(t.ops[0], ast.IsNot)
                    and isinstance(t.left, ast.Name) and env.get(t.left.id, (None, None))[1] == "opt"
                    and isinstance(t.comparators[0], ast.Constant) and t.comparators[0].value is None
                    and not st.orelse and len(st.body) == 1 and isinstance(st.body[0], ast.Expr)
                    and isinstance(st.body[0].value, ast.Yield) and isinstance(st.body[0].value.value, ast.Name)
                    and st.body[0].value.value.id == t.left.id):
                return "%slet out := out ++ opt_list %s in\n%s" % (pad, env[t.left.id][0], self.gen_loop(rest, env, ind, frame))
            bad(st, "unsupported `if` in generator loop")
        bad(st, "unsupported statement in generator loop")

    def gen_validate(self):
        fn = self.methods["__init__"]
        ps = self.params(fn)
        want = ["self", "validator", "min_length", "max_length", "max_continuous_silence", "init_min", "init_max_silence", "mode"]
        if ps != want:
            bad(fn, "constructor signature changed: %r" % ps)
        env = {p: ("p_" + p, "Z") for p in want[2:]}
        cfg = {}
        txt = self.gen_init(fn.body, env, cfg, 1, True)
        return ("Definition validate (p_min_length p_max_length p_max_continuous_silence p_init_min p_init_max_silence p_mode : Z) : result config :=\n%s.\n" % txt)

    def gen_init(self, stmts, env, cfg, ind, toplevel):
        pad = "  " * ind
        if not stmts:
            if not toplevel:
                return None  # caller continues
            missing = [k for k in CONFIG_FIELDS if k not in cfg]
            if missing:
                raise TranslationError("constructor does not set %r" % missing)
            return pad + "Ok (mkConfig %s)" % " ".join(cfg[k] for k in CONFIG_FIELDS)
        st, rest = stmts[0], stmts[1:]
        if self.is_docstring(st):
            return self.gen_init(rest, env, cfg, ind, toplevel)
        if isinstance(st, ast.If):
            # the validator-kind dispatch: mentions only `validator`; not modelled (type-level)
            names = {n.id for n in ast.walk(st.test) if isinstance(n, ast.Name)}
            if "validator" in names:
                if names - {"validator", "callable", "isinstance", "DataValidator"}:
                    bad(st, "validator test mixes other names")
                return self.gen_init(rest, env, cfg, ind, toplevel)
            # if cond: raise ValueError(...)
            if (not st.orelse and isinstance(st.body[-1], ast.Raise)
                    and all(isinstance(x, (ast.Assign, ast.AugAssign)) and isinstance((x.targets[0] if isinstance(x, ast.Assign) else x.target), ast.Name) for x in st.body[:-1])):
                # preceding statements may only build the error message (local strings): skipped
                exc = st.body[-1].exc
                ename = exc.func.id if isinstance(exc, ast.Call) and isinstance(exc.func, ast.Name) else None
                if ename not in ("ValueError", "TypeError"):
                    bad(st, "unsupported exception")
                c, ty = self.expr(st.test, env)
                self.need(st.test, ty, "bool")
                return "%sif %s then Err %s else\n%s" % (pad, c, ename, self.gen_init(rest, env, cfg, ind, toplevel))
            bad(st, "unsupported `if` in constructor")
        if isinstance(st, (ast.Assign, ast.AugAssign)):
            if isinstance(st, ast.Assign):
                tgt, val = st.targets[0], st.value
            else:
                tgt = st.target
                val = ast.BinOp(left=ast.Name(id=tgt.id, ctx=ast.Load()), op=st.op, right=st.value) if isinstance(tgt, ast.Name) else None
                if val is None:
                    bad(st, "augmented assignment to attribute in constructor")
                ast.copy_location(val, st); ast.fix_missing_locations(val)
            a = self.self_attr(tgt)
            if a is not None:
                if a in CONFIG_FIELDS:
                    t, ty = self.expr(val, env)
                    self.need(st, ty, CONFIG_FIELDS[a][1])
                    if a in cfg:
                        bad(st, "configuration field set twice")
                    cfg[a] = t
                    return self.gen_init(rest, env, cfg, ind, toplevel)
                if a in IGNORED_WRITES or a in STATE_FIELDS:
                    # initial values of state fields are irrelevant: every tokenize() call starts
                    # with _reinitialize and the theorems quantify over the previous state
                    return self.gen_init(rest, env, cfg, ind, toplevel)
                bad(st, "write to unknown attribute %s" % a)
            if isinstance(tgt, ast.Name):
                t, ty = self.expr(val, env)
                env[tgt.id] = ("l_" + tgt.id, ty)
                return "%slet l_%s := %s in\n%s" % (pad, tgt.id, t, self.gen_init(rest, env, cfg, ind, toplevel))
            bad(st, "assignment target")
        if isinstance(st, ast.Expr):
            mc = self.method_call(st.value)
            if mc and mc[0] == "_set_mode" and len(mc[1]) == 1:
                sub = self.methods["_set_mode"]
                if self.params(sub) != ["self", "mode"]:
                    bad(sub, "signature")
                at, aty = self.expr(mc[1][0], env)
                self.need(st, aty, "Z")
                env2 = dict(env); env2["mode"] = (at, "Z")
                # inline the callee, then continue with the rest of the constructor
                return self.gen_init(list(sub.body) + rest, env2, cfg, ind, toplevel)
            bad(st, "unsupported call in constructor")
        bad(st, "unsupported statement in constructor")

    def generate(self):
        parts = [
            "(* GENERATED by harness/py2coq/tok.py from auditok/core.py - do not edit *)",
            "From Coq Require Import ZArith List Bool.",
            "From AV Require Import Base.PyList Tok.Model.",
            "Import ListNotations.",
            "Open Scope Z_scope.",
            "",
            self.gen_validate(),
            "Section Gen.",
            "Context {A : Type}.",
            "",
            self.gen_reinit(),
            self.gen_eod(),
            self.gen_process(),
            self.gen_post_process(),
            self.gen_iter_step(),
            "End Gen.",
            "",
        ]
        # tokenize(): list / generator / callback delivery must all consume _iter_tokens
        self.check_tokenize()
        return "\n".join(parts)

    def check_tokenize(self):
        fn = self.methods["tokenize"]
        src = ast.dump(ast.Module(body=[s for s in fn.body if not self.is_docstring(s)], type_ignores=[]))
        want = ast.dump(ast.parse(
            "token_gen = self._iter_tokens(data_source)\n"
            "if callback:\n"
            "    for token in token_gen:\n"
            "        callback(*token)\n"
            "    return\n"
            "if generator:\n"
            "    return token_gen\n"
            "return list(token_gen)\n"))
        if src != want:
            raise TranslationError("tokenize() no longer is the three-way delivery of _iter_tokens")


def translate(path):
    with open(path) as f:
        return TokTranslator(f.read()).generate()


if __name__ == "__main__":
    import sys
    sys.stdout.write(translate(sys.argv[1]))
