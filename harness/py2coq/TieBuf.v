(** Tie: BufferAudioSource.read, position (get / set) and position_ms (get) as
    translated from /repo in this run (GenBuf.v) against IO/Source.v bstep. *)
From Coq Require Import ZArith List Bool.
From AV Require Import Base.PyList Base.PyFloat Tok.Model IO.Source.
From Coq Require Import Lia ZifyBool.
From AVGen Require Import TieTac GenBuf.
Import ListNotations.
Open Scope Z_scope.

Lemma tie_buf_read B (a : audio B) s n : buf_read_gen a s n = bstep a s (Read n).
Proof.
  destruct s as [p o]. unfold buf_read_gen, bstep, nonempty. cbn [pos is_open]. destruct n as [n|], o; cbn [negb]; cbv zeta;
    split_all; close_leaf.
Qed.

Lemma tie_buf_setpos B (a : audio B) s p : buf_setpos_gen a s p = bstep a s (SetPos p).
Proof.
  destruct s as [q o]. unfold buf_setpos_gen, bstep, set_position. cbn [pos is_open]. cbv zeta.
  rewrite ?Z.gtb_ltb. split_all; close_leaf.
Qed.

Lemma tie_buf_getpos B (a : audio B) s : buf_getpos_gen a s = bstep a s GetPos.
Proof. destruct s as [q o]; unfold buf_getpos_gen, buf_getpos_ms_gen, bstep; cbn [pos is_open]; cbv zeta; close_leaf. Qed.

Lemma tie_buf_getpos_ms B (a : audio B) s : buf_getpos_ms_gen a s = bstep a s GetPosMs.
Proof. destruct s as [q o]; unfold buf_getpos_gen, buf_getpos_ms_gen, bstep; cbn [pos is_open]; cbv zeta; close_leaf. Qed.

Print Assumptions tie_buf_read.
