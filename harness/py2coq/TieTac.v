(** Tactics shared by the tie files: decide equality of two straight-line
    functions semantically.
      1. case split on every integer comparison occurring anywhere (also inside
         scrutinees), recording the outcome;
      2. make arithmetic arguments that are provably equal syntactically equal
         (so that x * y and y * x name the same slice);
      3. case split on the remaining tests / optional values / lists;
      4. close each leaf by reflexivity, by a linear-arithmetic contradiction
         between the recorded outcomes, or by equality of the arithmetic
         arguments, trying arithmetic at every level before descending.
    Harmless rewrites of the Python (reordered operands, swapped branches,
    renamed or extra locals, equivalent comparisons) still check; any
    behavioural change fails. *)
From Coq Require Import ZArith List Bool Lia ZifyBool.
From AV Require Import Base.PyList Tok.Model.
Import ListNotations.
Open Scope Z_scope.

Ltac split_cmp :=
  repeat (match goal with
  | |- context [?x <? ?y] => let E := fresh "E" in destruct (x <? y) eqn:E
  | |- context [?x <=? ?y] => let E := fresh "E" in destruct (x <=? y) eqn:E
  | |- context [?x >? ?y] => let E := fresh "E" in destruct (x >? y) eqn:E
  | |- context [?x >=? ?y] => let E := fresh "E" in destruct (x >=? y) eqn:E
  | |- context [?x =? ?y] => let E := fresh "E" in destruct (x =? y) eqn:E
  end; cbn [negb andb orb]).

Ltac unify_Z :=
  repeat match goal with
  | |- context [@Some Z ?u] =>
      match goal with
      | |- context [@Some Z ?v] =>
          tryif constr_eq u v then fail else (replace v with u by lia)
      end
  end.

(* the same for the bounds of slices of one list *)
Ltac unify_zslice :=
  repeat match goal with
  | |- context [zslice ?l ?a ?u] =>
      match goal with
      | |- context [zslice l a ?v] =>
          tryif constr_eq u v then fail else (replace v with u by lia)
      end
  end.

Ltac split_rest :=
  repeat match goal with
  | |- context [if ?b then _ else _] =>
      let E := fresh "E" in destruct b eqn:E; cbn [negb andb orb] in *
  | |- context [match ?o with Some _ => _ | None => _ end] =>
      let E := fresh "E" in destruct o eqn:E
  | |- context [match ?l with [] => _ | _ :: _ => _ end] =>
      let E := fresh "E" in destruct l eqn:E
  end.

Ltac split_all := split_cmp; unify_Z; split_rest.

(* only the recorded integer comparisons matter to lia: drop the outcomes of opaque (float, list) tests first *)
Ltac keep_Z_tests :=
  repeat match goal with
  | H : ?b = _ |- _ =>
      lazymatch b with
      | context [_ <? _] => fail
      | context [_ <=? _] => fail
      | context [_ =? _] => fail
      | context [_ >? _] => fail
      | context [_ >=? _] => fail
      | _ => clear H
      end
  end.

Ltac deep_eq := first [ reflexivity | lia | congruence | (progress f_equal); deep_eq ].

Ltac close_leaf :=
  try reflexivity;
  try congruence;
  try (keep_Z_tests; first [ exfalso; lia | deep_eq ]).

(** [walk]: follow the decision tree of the left-hand side, then of the right-hand side: at each
    step case-split on the innermost scrutinee at the HEAD of the term (every syntactic occurrence
    of it, on both sides, is decided at once), so the number of leaves is the number of paths, not
    2^(number of tests). *)
(* simplification after each case split; a tie file may extend the list of constants (record projections, setters) *)
Ltac tie_simpl := cbv beta iota delta [negb andb orb].

Ltac innermost t k :=
  lazymatch t with
  | (if ?c then _ else _) => innermost c k
  | (match ?c with Some _ => _ | None => _ end) => innermost c k
  | (match ?c with [] => _ | _ :: _ => _ end) => innermost c k
  | (let '(_, _) := ?c in _) => innermost c k
  | (match ?c with Ok _ => _ | Err _ => _ end) => innermost c k
  | negb ?c => innermost c k
  | (?a && _) => innermost a k
  | (?a || _) => innermost a k
  | _ => k t
  end.

Ltac split_head t :=
  lazymatch t with
  | (if ?c then _ else _) => innermost c ltac:(fun x => let E := fresh "E" in destruct x eqn:E)
  | (match ?c with Some _ => _ | None => _ end) => innermost c ltac:(fun x => let E := fresh "E" in destruct x eqn:E)
  | (match ?c with [] => _ | _ :: _ => _ end) => innermost c ltac:(fun x => let E := fresh "E" in destruct x eqn:E)
  | (let '(_, _) := ?c in _) => innermost c ltac:(fun x => let E := fresh "E" in destruct x eqn:E)
  | (match ?c with Ok _ => _ | Err _ => _ end) => innermost c ltac:(fun x => let E := fresh "E" in destruct x eqn:E)
  end; tie_simpl.

Ltac step_lhs := lazymatch goal with |- ?l = _ => split_head l end.
Ltac step_rhs := lazymatch goal with |- _ = ?r => split_head r end.
Ltac walk := repeat step_lhs; repeat step_rhs; close_leaf.

(** equality of two boolean expressions over the same atoms: decide every atom *)
Ltac walk_bool :=
  repeat match goal with
  | |- context [?x =? ?y] => let E := fresh "E" in destruct (x =? y) eqn:E
  | |- context [?x <? ?y] => let E := fresh "E" in destruct (x <? y) eqn:E
  | |- context [?x <=? ?y] => let E := fresh "E" in destruct (x <=? y) eqn:E
  end; cbn [negb andb orb]; try reflexivity; try (exfalso; lia).
