(** Tactics shared by the tie files: decide equality of two straight-line
    functions semantically.
      1. case split on every integer comparison occurring anywhere (also inside
         scrutinees), recording the outcome;
      2. make arithmetic arguments that are provably equal syntactically equal
         (so that x * y and y * x name the same slice);
      3. case split on the remaining tests / optional values / lists;
      4. close each leaf by reflexivity, by a linear-arithmetic contradiction
         between the recorded outcomes, or by equality of the arithmetic
         arguments, trying arithmetic at every level before descending.
    Harmless rewrites of the Python (reordered operands, swapped branches,
    renamed or extra locals, equivalent comparisons) still check; any
    behavioural change fails. *)
From Coq Require Import ZArith List Bool Lia ZifyBool.
Import ListNotations.
Open Scope Z_scope.

Ltac split_cmp :=
  repeat (match goal with
  | |- context [?x <? ?y] => let E := fresh "E" in destruct (x <? y) eqn:E
  | |- context [?x <=? ?y] => let E := fresh "E" in destruct (x <=? y) eqn:E
  | |- context [?x >? ?y] => let E := fresh "E" in destruct (x >? y) eqn:E
  | |- context [?x >=? ?y] => let E := fresh "E" in destruct (x >=? y) eqn:E
  | |- context [?x =? ?y] => let E := fresh "E" in destruct (x =? y) eqn:E
  end; cbn [negb andb orb]).

Ltac unify_Z :=
  repeat match goal with
  | |- context [@Some Z ?u] =>
      match goal with
      | |- context [@Some Z ?v] =>
          tryif constr_eq u v then fail else (replace v with u by lia)
      end
  end.

Ltac split_rest :=
  repeat match goal with
  | |- context [if ?b then _ else _] =>
      let E := fresh "E" in destruct b eqn:E; cbn [negb andb orb] in *
  | |- context [match ?o with Some _ => _ | None => _ end] =>
      let E := fresh "E" in destruct o eqn:E
  | |- context [match ?l with [] => _ | _ :: _ => _ end] =>
      let E := fresh "E" in destruct l eqn:E
  end.

Ltac split_all := split_cmp; unify_Z; split_rest.

Ltac deep_eq := first [ reflexivity | lia | congruence | (progress f_equal); deep_eq ].

Ltac close_leaf :=
  try reflexivity;
  try (exfalso; lia);
  try deep_eq.
