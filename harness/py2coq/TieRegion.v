(** Tie: AudioRegion.__getitem__ (with _check_convert_index), the seconds and
    milliseconds views, as translated from /repo in this run (GenRegion.v),
    against Audio/Region.v -- for all bounds. *)
From Coq Require Import ZArith List Bool.
From Flocq Require Import IEEE754.BinarySingleNaN.
From AV Require Import Base.PyList Base.PyFloat Tok.Model Audio.Region.
From AVGen Require Import TieTac GenRegion.
Import ListNotations.
Open Scope Z_scope.

Lemma tie_getitem B (r : region B) a b :
  getitem_gen (rdata r) (rate r) (width r) (nch r) a b = Ok (getitem r a b).
Proof.
  unfold getitem_gen, getitem, bps. destruct a as [a|], b as [b|]; cbv zeta; split_all; close_leaf.
Qed.

Lemma tie_sec_bounds sr a b :
  sec_bounds_gen sr a b = match sec_bounds sr a b with Some x => Ok x | None => Err ValueError end.
Proof.
  unfold sec_bounds_gen, sec_bounds. destruct a as [a|], b as [b|]; cbv zeta; split_all; close_leaf.
Qed.

Lemma tie_ms_bounds a b :
  ms_bounds_gen a b = Ok (ms_to_sec (match a with Some x => x | None => 0 end), option_map ms_to_sec b).
Proof. unfold ms_bounds_gen, ms_to_sec. destruct a, b; cbv zeta; split_all; close_leaf. Qed.

Print Assumptions tie_getitem.
Print Assumptions tie_sec_bounds.
