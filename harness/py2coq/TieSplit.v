(** Tie: the slice of split() that derives the window counts from the durations
    (sign checks, analysis-window check, block-size check, the three calls of
    _duration_to_nb_windows with their rounding function and epsilon, the clamp
    of min_length, the two admissibility checks), translated from /repo in this
    run (GenSplit.v) with _duration_to_nb_windows inlined from its own source,
    against Split/Duration.v -- for all float inputs. *)
From Coq Require Import ZArith List Bool.
From Flocq Require Import IEEE754.BinarySingleNaN.
From AV Require Import Base.PyList Base.PyFloat Tok.Model Split.Duration.
From AVGen Require Import TieTac GenSplit.
Import ListNotations.
Open Scope Z_scope.

Lemma of_Z_0 : of_Z 0 = fzero.
Proof. reflexivity. Qed.

(* float operations are kept abstract in the tie proofs: the two sides must agree as expressions over them *)
#[local] Opaque fdiv fadd fmul fsub flt fle feq of_me of_Z py_floor py_ceil py_int py_round.

Lemma tie_split_params mind maxd sil aw rate :
  split_params_gen mind maxd sil aw rate = split_params mind maxd sil aw rate.
Proof.
  unfold split_params_gen, split_params, bind, nbw, eps_pos, eps_neg. rewrite ?of_Z_0. cbv zeta.
  timeout 200 walk.
Qed.

(** for an AudioReader input the window is the reader's block duration block_size / rate *)
Lemma tie_split_params_reader mind maxd sil W rate :
  split_params_reader_gen mind maxd sil (fdiv (of_Z W) (of_Z rate))
  = match split_params_reader mind maxd sil W rate with
    | Ok (mn, mx, ms, _) => Ok (mn, mx, ms)
    | Err e => Err e
    end.
Proof.
  unfold split_params_reader_gen, split_params_reader, bind, nbw, eps_pos, eps_neg. rewrite ?of_Z_0. cbv zeta.
  timeout 200 walk.
Qed.

Print Assumptions tie_split_params.
