"""Symbolic evaluation of the alias lookups of the package (see Split.resolve in coq/Split/Split.v): every expression that
looks a parameter up under its long name and its short alias -- d.get("long", d.get("short"[, default])), also inside
`for long_name, short_name in (("sampling_rate", "sr"), ...)` loops and through single-return helper functions -- is
evaluated on a dictionary in which each of the two keys is either absent or present with an OPAQUE value (which may be None,
0 or empty: testing it in any way is rejected).  The outcome per (long given?, short given?) must be: default, short's value,
long's value, long's value.  Fail closed."""
import ast
import os

from .pure import TranslationError

PAIRS = [("sampling_rate", "sr"), ("sample_width", "sw"), ("channels", "ch"), ("analysis_window", "aw"), ("energy_threshold", "eth"),
         ("use_channel", "uc"), ("max_read", "mr"), ("audio_format", "fmt"), ("validator", "val")]
FILES = ("core.py", "io.py", "util.py")


def bad(node, msg):
    raise TranslationError("line %s: %s" % (getattr(node, "lineno", "?"), msg))


class Opaque:
    def __init__(self, tag):
        self.tag = tag


def ev(e, env, present, helpers, depth=0):
    """present: {key: Opaque}; env: names -> values"""
    if isinstance(e, ast.Constant):
        return e.value
    if isinstance(e, ast.Name):
        if e.id in env:
            return env[e.id]
        return Opaque("D")        # a module constant / default expression: opaque
    if isinstance(e, ast.Attribute):
        return Opaque("D")
    if isinstance(e, ast.Call) and isinstance(e.func, ast.Attribute) and e.func.attr == "get" and 1 <= len(e.args) <= 2 and not e.keywords:
        d = ev(e.func.value, env, present, helpers, depth)
        if d != "DICT":
            bad(e, ".get on something else than the parameter dictionary")
        k = ev(e.args[0], env, present, helpers, depth)
        if not isinstance(k, str):
            bad(e, "dictionary key is not a string constant")
        if k in present:
            return present[k]
        # absent: the default expression is evaluated (Python evaluates it in any case; it has no effect here)
        return ev(e.args[1], env, present, helpers, depth) if len(e.args) == 2 else None
    if isinstance(e, ast.Call) and isinstance(e.func, ast.Name) and e.func.id in helpers and depth < 3:
        h = helpers[e.func.id]
        params = [a.arg for a in h.args.args]
        if e.keywords or len(e.args) > len(params) or h.args.vararg or h.args.kwarg:
            bad(e, "helper %s called in an unsupported way" % h.name)
        vals = [ev(a, env, present, helpers, depth) for a in e.args]
        nd = len(h.args.defaults)
        for i in range(len(vals), len(params)):
            j = i - (len(params) - nd)
            if j < 0:
                bad(e, "missing argument for %s" % h.name)
            vals.append(ev(h.args.defaults[j], {}, present, helpers, depth))
        body = [s for s in h.body if not (isinstance(s, ast.Expr) and isinstance(s.value, ast.Constant))]
        if len(body) != 1 or not isinstance(body[0], ast.Return):
            bad(e, "helper %s is not a single return" % h.name)
        return ev(body[0].value, dict(zip(params, vals)), present, helpers, depth + 1)
    if isinstance(e, (ast.BoolOp, ast.IfExp, ast.Compare, ast.UnaryOp)):
        for n in ast.walk(e):
            pass
        bad(e, "a looked-up value is tested (%s): a given value may be None, 0 or empty" % type(e).__name__)
    bad(e, "expression %s" % type(e).__name__)


def outcome(expr, env, long, short, helpers):
    rows = []
    for lg, sg in ((False, False), (False, True), (True, False), (True, True)):
        present = {}
        if lg:
            present[long] = Opaque("L")
        if sg:
            present[short] = Opaque("S")
        v = ev(expr, env, present, helpers)
        if isinstance(v, Opaque):
            rows.append({"L": 0, "S": 1, "D": 2}[v.tag])
        elif v is None:
            rows.append(2)          # no default given: None is the default
        else:
            bad(expr, "lookup yields the constant %r" % (v,))
    return rows


def sites(tree, fname):
    helpers = {n.name: n for n in tree.body if isinstance(n, ast.FunctionDef)}
    module_tuples = {n.targets[0].id: n.value for n in tree.body if isinstance(n, ast.Assign) and len(n.targets) == 1 and isinstance(n.targets[0], ast.Name)
                     and isinstance(n.value, (ast.Tuple, ast.List))}
    found = []
    consts = lambda node: {n.value for n in ast.walk(node) if isinstance(n, ast.Constant) and isinstance(n.value, str)}

    def dict_names(fn):
        names = set()
        if fn.args.kwarg:
            names.add(fn.args.kwarg.arg)
        names.update(a.arg for a in fn.args.args if a.arg in ("param_dict", "kwargs", "params", "options", "kw"))
        for n in ast.walk(fn):      # copies of the dictionary: params = kwargs.copy()
            if isinstance(n, ast.Assign) and len(n.targets) == 1 and isinstance(n.targets[0], ast.Name) and isinstance(n.value, ast.Call) \
                    and isinstance(n.value.func, ast.Attribute) and n.value.func.attr == "copy" and isinstance(n.value.func.value, ast.Name) and n.value.func.value.id in names:
                names.add(n.targets[0].id)
        return names
    for fn in [n for n in ast.walk(tree) if isinstance(n, ast.FunctionDef)]:
        dn = dict_names(fn)
        if not dn:
            continue
        env0 = {d: "DICT" for d in dn}
        # outermost lookups
        inner = set()
        calls = [n for n in ast.walk(fn) if isinstance(n, ast.Call)]
        for c in calls:
            for sub in ast.walk(c):
                if sub is not c and isinstance(sub, ast.Call):
                    inner.add(id(sub))
        loops = []
        for n in ast.walk(fn):
            if isinstance(n, ast.For) and isinstance(n.target, ast.Tuple) and len(n.target.elts) == 2 and all(isinstance(x, ast.Name) for x in n.target.elts):
                it = n.iter
                if isinstance(it, ast.Name) and it.id in module_tuples:
                    n = ast.For(target=n.target, iter=module_tuples[it.id], body=n.body, orelse=n.orelse, lineno=n.lineno)
                    it = n.iter
                if isinstance(it, (ast.Tuple, ast.List)):
                    loops.append(n)
        in_loop = {id(c): lp for lp in loops for c in ast.walk(lp) if isinstance(c, ast.Call)}
        for c in calls:
            if id(c) in inner:
                continue
            lp = in_loop.get(id(c))
            if lp is not None:
                names = [x.id for x in lp.target.elts]
                used = {n.id for n in ast.walk(c) if isinstance(n, ast.Name)}
                if not set(names) <= used:
                    continue
                for pair in lp.iter.elts:
                    if isinstance(pair, ast.Tuple) and len(pair.elts) == 2 and all(isinstance(x, ast.Constant) and isinstance(x.value, str) for x in pair.elts):
                        a, b = pair.elts[0].value, pair.elts[1].value
                        for long, short in PAIRS:
                            if {a, b} == {long, short}:
                                env = dict(env0); env[names[0]] = a; env[names[1]] = b
                                found.append(("%s/%s@%s:%s" % (long, short, fname, fn.name), outcome(c, env, long, short, helpers)))
                continue
            cs = consts(c)
            for long, short in PAIRS:
                if long in cs and short in cs:
                    found.append(("%s/%s@%s:%s" % (long, short, fname, fn.name), outcome(c, env0, long, short, helpers)))
    return found


def emit(repo):
    allsites = []
    for f in FILES:
        tree = ast.parse(open(os.path.join(repo, "auditok", f)).read())
        allsites.extend(sites(tree, f))
    allsites.sort()
    covered = sorted({s[0].split("@")[0] for s in allsites})
    z = lambda r: "[%s]" % "; ".join(str(x) for x in r)
    return "\n".join([
        "(* generated from /repo/auditok/{core,io,util}.py by py2coq/alias.py -- do not edit *)",
        "From Coq Require Import ZArith List String.", "Import ListNotations.", "Open Scope string_scope.", "Open Scope Z_scope.", "",
        "(* per lookup site: which value is used when (long, short) are (absent, absent), (absent, given), (given, absent), (given, given): 0 = long's, 1 = short's, 2 = the default *)",
        "Definition alias_sites_gen : list (string * list Z) := [%s]." % ";\n  ".join('("%s", %s)' % (n, z(r)) for n, r in allsites),
        "Definition alias_pairs_gen : list string := [%s]." % "; ".join('"%s"' % c for c in covered), ""])


if __name__ == "__main__":
    import sys
    print(emit(sys.argv[1] if len(sys.argv) > 1 else "/repo"))
