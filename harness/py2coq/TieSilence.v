(** Tie: core.make_silence as translated from /repo in this run against Audio/Region.v. *)
From Coq Require Import ZArith List Bool.
From Flocq Require Import IEEE754.BinarySingleNaN.
From AV Require Import Base.PyList Base.PyFloat Tok.Model Audio.Region.
From AVGen Require Import TieTac GenSilence.
Import ListNotations.
Open Scope Z_scope.

Lemma tie_make_silence d sr w ch : make_silence_gen d sr w ch = make_silence d sr w ch.
Proof.
  unfold make_silence_gen, make_silence, silence_size. cbv zeta. split_all; close_leaf.
Qed.
