(** Tie: every alias lookup of the package (split(), split_and_plot(), _get_audio_parameters), evaluated symbolically from /repo
    in this run on a dictionary where the long name and the short alias are each absent or present with an opaque value
    (GenAlias.v), resolves as Split.resolve does: the long name's value when the long name is given -- whatever that value
    is --, else the alias's, else the default; and all nine documented pairs have such a site. *)
From Coq Require Import ZArith List String Bool.
From AV Require Import Base.PyList Tok.Model Split.Split.
From AVGen Require Import GenAlias.
Import ListNotations.
Open Scope Z_scope.

Definition resolve_table : list Z :=
  map (fun p : option Z * option Z => resolve (fst p) (snd p) 2) [(None, None); (None, Some 1); (Some 0, None); (Some 0, Some 1)].

Lemma tie_alias_sites :
  forallb (fun s : string * list Z => if list_eq_dec Z.eq_dec (snd s) resolve_table then true else false) alias_sites_gen = true.
Proof. vm_compute. reflexivity. Qed.

(** the lookup sites, by function: every documented pair is resolved in split() or _get_audio_parameters (a site that disappears,
    e.g. because it no longer has the shape of a lookup under both names, is noticed here) *)
Lemma tie_alias_pairs :
  map fst alias_sites_gen =
  ["analysis_window/aw@core.py:split"; "audio_format/fmt@core.py:split"; "channels/ch@io.py:_get_audio_parameters";
   "energy_threshold/eth@core.py:split"; "energy_threshold/eth@core.py:split_and_plot"; "max_read/mr@core.py:split";
   "max_read/mr@core.py:split"; "sample_width/sw@io.py:_get_audio_parameters"; "sampling_rate/sr@io.py:_get_audio_parameters";
   "use_channel/uc@core.py:split"; "validator/val@core.py:split"]%string.
Proof. reflexivity. Qed.

Print Assumptions tie_alias_sites.
