(** Tie: FileAudioSource.read with the _read_from_stream of RawAudioSource,
    WaveAudioSource and StdinAudioSource inlined, as translated from /repo in
    this run (GenFsrc.v), against IO/Source.v fstep.  The stream primitives
    f.read(n) / wave.readframes(n) are given their documented meaning by the
    translator (at most n bytes / frames from the cursor; everything left for
    None / -1). *)
From Coq Require Import ZArith List Bool Lia ZifyBool.
From AV Require Import Base.PyList Base.PyFloat Tok.Model IO.Source.
From AVGen Require Import TieTac GenFsrc.
Import ListNotations.
Open Scope Z_scope.

Ltac tie_simpl ::= cbv beta iota zeta delta [negb andb orb fpos fopen]; rewrite ?zlen_nil, ?Z.add_0_r.

Lemma tie_raw_read B (a : audio B) s restart n : raw_read_gen a s n = fstep restart a s (Read n).
Proof.
  destruct s as [p o]. unfold raw_read_gen, fstep, nonempty. cbn [fpos fopen]. destruct n as [n|], o; cbn [negb]; cbv zeta;
    split_cmp; unify_zslice; walk.
Qed.

Lemma tie_wave_read B (a : audio B) s restart n : wave_read_gen a s n = fstep restart a s (Read n).
Proof.
  destruct s as [p o]. unfold wave_read_gen, fstep, nonempty. cbn [fpos fopen]. destruct n as [n|], o; cbn [negb]; cbv zeta;
    split_cmp; unify_zslice; walk.
Qed.

(** standard input: the statement (and the code) only give a meaning to n >= 0 *)
Lemma tie_stdin_read B (a : audio B) s restart n : 0 <= n -> stdin_read_gen a s n = fstep restart a s (Read (Some n)).
Proof.
  intros Hn. destruct s as [p o]. unfold stdin_read_gen, fstep, nonempty. cbn [fpos fopen]. destruct o; cbn [negb]; cbv zeta;
    split_cmp; unify_zslice; walk.
Qed.

Print Assumptions tie_raw_read.
