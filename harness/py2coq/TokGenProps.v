(** The property theorems restated about the definitions GENERATED from
    /repo's current core.py (through the tie lemmas). Compiled on every run. *)
From Coq Require Import ZArith List Bool.
From AV Require Import Base.PyList Tok.Model Tok.Spec Tok.OnlineSpec.
From AV Require Props.C01 Props.C02 Props.C03 Props.C04 Props.C08 Props.C20.
From AVGen Require TokGen.
From AVGen Require Import TokTie.
Import ListNotations.
Open Scope Z_scope.

Section G.
Context {A : Type}.
Variable c : config.
Variable s_old : st A.
Variable fs : list (A * bool).
Hypothesis Hacc : accepted c.

Theorem C01_gen : P_C01 fs (gen_tokenize_from c s_old fs).
Proof. rewrite tie_tokenize. now apply Props.C01.C01. Qed.
Theorem C02_max_gen : P_C02_max c (gen_tokenize_from c s_old fs).
Proof. rewrite tie_tokenize. now apply Props.C02.C02_max. Qed.
Theorem C02_min_gen : P_C02_min c (gen_tokenize_from c s_old fs).
Proof. rewrite tie_tokenize. now apply Props.C02.C02_min. Qed.
Theorem C02_strict_gen : P_C02_strict c (gen_tokenize_from c s_old fs).
Proof. rewrite tie_tokenize. now apply Props.C02.C02_strict. Qed.
Theorem C03_runs_gen : P_C03_runs c fs (gen_tokenize_from c s_old fs).
Proof. rewrite tie_tokenize. now apply Props.C03.C03_runs. Qed.
Theorem C03_has_valid_gen : P_C03_has_valid fs (gen_tokenize_from c s_old fs).
Proof. rewrite tie_tokenize. now apply Props.C03.C03_has_valid. Qed.
Theorem C03_first_gen : P_C03_first fs (gen_tokenize_from c s_old fs).
Proof. rewrite tie_tokenize. now apply Props.C03.C03_first. Qed.
Theorem C03_last_gen : P_C03_last c fs (gen_tokenize_from c s_old fs).
Proof. rewrite tie_tokenize. now apply Props.C03.C03_last. Qed.
Theorem C04_gen : init_min c <= 1 -> P_C04 c fs (gen_tokenize_from c s_old fs).
Proof. intro. rewrite tie_tokenize. now apply Props.C04.C04. Qed.
Theorem C20_gen : forall s_old', gen_tokenize_from c s_old fs = gen_tokenize_from c s_old' fs.
Proof. intro. rewrite !tie_tokenize. apply Props.C20.C20_reinit. Qed.
End G.

Theorem C02_accept_gen : forall mn mx ms imin ims mode cfg,
  TokGen.validate mn mx ms imin ims mode = Ok cfg -> accepted cfg.
Proof. intros *. rewrite tie_validate. apply Props.C02.C02_accepted. Qed.

Theorem C08_once_gen : forall (A : Type) (c : config) (s : st A) fr,
  snd (TokGen.iter_step c s fr) = match fr with Some _ => true | None => false end.
Proof. intros. rewrite tie_iter_step. apply Props.C08.C08_once. Qed.

Print Assumptions C01_gen.
Print Assumptions C04_gen.
