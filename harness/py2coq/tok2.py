"""Second, more tolerant translation of StreamTokenizer's automaton methods
(_reinitialize, _process_end_of_detection, _process, _post_process) with the
generic engine of pure.py: helper methods are inlined from their own source,
guard clauses / early returns / swapped branches are handled by the
continuation-passing translation, and TokTie2.v decides equality with the hand
model semantically (tactic `walk`).  Used when the structural translator tok.py
rejects a refactored source: if this tie holds, the code still computes the
model's functions and no alarm is due."""
import ast

from .pure import Pure, Spec, V, NONE, TRUE, FALSE, TranslationError, bad, zlit

STATE = [("_state", "(state s)", "astate"), ("_data", "(data s)", "bytes"), ("_contiguous_token", "(contig s)", "bool"),
         ("_init_count", "(init_count s)", "Z"), ("_silence_length", "(sil s)", "Z"), ("_start_frame", "(start s)", "Z"),
         ("_current_frame", "(cur s)", "Z")]
CONFIG = {"min_length": ("(min_length c)", "Z"), "max_length": ("(max_length c)", "Z"), "max_continuous_silence": ("(max_sil c)", "Z"),
          "init_min": ("(init_min c)", "Z"), "init_max_silent": ("(init_max_sil c)", "Z"),
          "_strict_min_length": ("(strict c)", "bool"), "_drop_trailing_silence": ("(drop c)", "bool")}
ASTATES = ("SILENCE", "POSSIBLE_SILENCE", "POSSIBLE_NOISE", "NOISE")


def st_text(env):
    return "(mkSt %s)" % " ".join(env["self." + a].text for a, _, _ in STATE)


def ret_tok(tr, v, env, node):
    if v.ty == "none":
        return "(%s, None)" % st_text(env)
    if v.ty == "tuple" and len(v.const) == 3 and [x.ty for x in v.const] == ["bytes", "Z", "Z"]:
        return "(%s, Some (%s, %s, %s))" % ((st_text(env),) + tuple(x.text for x in v.const))
    if v.ty == "opt_token":
        return "(%s, %s)" % (st_text(env), v.text)
    bad(node, "automaton method returns %s (a token tuple or None expected)" % v.ty)


def ret_state(tr, v, env, node):
    if v.ty != "none":
        bad(node, "_reinitialize returns a value")
    return st_text(env)


class TokPure(Pure):
    def __init__(self, fn, spec, module, cls):
        super().__init__(fn, spec, module=module, cls=cls)
        self.valid_calls = 0
        self.int_consts = {n.targets[0].id: n.value.value for n in cls.body
                           if isinstance(n, ast.Assign) and len(n.targets) == 1 and isinstance(n.targets[0], ast.Name)
                           and isinstance(n.value, ast.Constant) and isinstance(n.value.value, int) and not isinstance(n.value.value, bool)}
        # attributes of self that are written somewhere in the class but never read anywhere in it: dead stores
        # (computed as a fixpoint: what a dead store's right-hand side reads, and what only dead private methods read, does not count)
        is_self = lambda n: isinstance(n, ast.Attribute) and isinstance(n.value, ast.Name) and n.value.id == "self"
        stores = {n.attr for n in ast.walk(cls) if is_self(n) and isinstance(n.ctx, ast.Store)}
        methods = {m.name: m for m in cls.body if isinstance(m, ast.FunctionDef)}
        dead, dead_methods = set(), set()
        while True:
            loads = set()
            for mname, m in methods.items():
                if mname in dead_methods:
                    continue
                skip = set()
                for st in ast.walk(m):
                    if isinstance(st, ast.Assign) and len(st.targets) == 1 and is_self(st.targets[0]) and st.targets[0].attr in dead:
                        skip.update(id(x) for x in ast.walk(st.value))
                loads.update(n.attr for n in ast.walk(m) if is_self(n) and isinstance(n.ctx, ast.Load) and id(n) not in skip)
            new_dead = stores - loads
            new_dead_methods = {mn for mn in methods if mn.startswith("_") and not mn.startswith("__") and mn not in loads}
            if new_dead == dead and new_dead_methods == dead_methods:
                break
            dead, dead_methods = new_dead, new_dead_methods
        self.ignored_writes = set(self.IGNORED_WRITES) | dead
        # the attribute(s) the constructor binds to the validator (self._is_valid = validator / validator.is_valid), under any name
        init = methods.get("__init__")
        self.valid_attrs = {"_is_valid"}
        if init is not None and any(a.arg == "validator" for a in init.args.args):
            for st in ast.walk(init):
                if isinstance(st, ast.Assign) and len(st.targets) == 1 and is_self(st.targets[0]) \
                        and ast.unparse(st.value) in ("validator", "validator.is_valid"):
                    self.valid_attrs.add(st.targets[0].attr)
        self.tuple_consts = {n.targets[0].id: n.value for n in cls.body if isinstance(n, ast.Assign) and len(n.targets) == 1 and isinstance(n.targets[0], ast.Name)
                             and isinstance(n.value, (ast.Tuple, ast.List))}
        self.reads = 0
        self.case_frame = None
        self.in_alt = False
        self.alt_conts = []
        self.first_cont = None
        self.loop_entries = {}
        self.fresh_at_read = 0
        self.first_read_env = {}
        self.gen_ret = None      # the generator's own result function (a read may sit inside an inlined helper)

    def callee_env(self, fn, call, env, binds):
        cenv = super().callee_env(fn, call, env, binds)
        for kk, vv in env.items():
            if kk.startswith("#"):
                cenv[kk] = vv      # what the generator has emitted so far and its loop continuations stay in reach
        return cenv

    def expr(self, e, env, binds):
        # class-level tuples / lists of class constants (e.g. the valid modes), read through self or the class, or by bare name
        # inside such a tuple
        if isinstance(e, ast.Compare) and len(e.ops) == 1 and isinstance(e.ops[0], (ast.In, ast.NotIn)) and isinstance(e.comparators[0], ast.Attribute) \
                and isinstance(e.comparators[0].value, ast.Name) and e.comparators[0].value.id in ("self", "StreamTokenizer") and e.comparators[0].attr in self.tuple_consts:
            lit = ast.Tuple(elts=[self.class_name(x) for x in self.tuple_consts[e.comparators[0].attr].elts], ctx=ast.Load())
            return self.expr(ast.copy_location(ast.Compare(left=e.left, ops=e.ops, comparators=[ast.copy_location(lit, e)]), e), env, binds)
        if isinstance(e, ast.Attribute) and isinstance(e.value, ast.Name) and e.value.id in ("self", "StreamTokenizer") and e.attr in self.tuple_consts:
            return self.expr(ast.copy_location(ast.Tuple(elts=[self.class_name(x) for x in self.tuple_consts[e.attr].elts], ctx=ast.Load()), e), env, binds)
        # class constants: the four automaton states (must be distinct ints, checked by the caller)
        if isinstance(e, ast.Attribute) and isinstance(e.value, ast.Name) and e.value.id in ("self", "StreamTokenizer") and e.attr in ASTATES:
            return V(e.attr, "astate", e.attr, True)
        if isinstance(e, ast.Attribute) and isinstance(e.value, ast.Name) and e.value.id in ("self", "StreamTokenizer") and e.attr in self.int_consts \
                and ("self." + e.attr) not in env:
            return V(zlit(self.int_consts[e.attr]), "Z", self.int_consts[e.attr], True)
        if isinstance(e, ast.Call) and isinstance(e.func, ast.Name) and e.func.id in ("callable", "hasattr"):
            return TRUE
        if isinstance(e, ast.BinOp) and isinstance(e.op, (ast.BitOr, ast.BitAnd)):
            a = self.expr(e.left, env, binds); b = self.expr(e.right, env, binds)
            if a.ty != "Z" or b.ty != "Z":
                bad(e, "bit operation on non-integers")
            if a.has_const and b.has_const:
                r = (a.const | b.const) if isinstance(e.op, ast.BitOr) else (a.const & b.const)
                return V(zlit(r), "Z", r, True)
            return V("(Z.%s %s %s)" % ("lor" if isinstance(e.op, ast.BitOr) else "land", a.text, b.text), "Z")
        if isinstance(e, ast.Compare) and len(e.ops) == 1 and isinstance(e.ops[0], (ast.In, ast.NotIn)) \
                and (isinstance(e.comparators[0], (ast.Tuple, ast.List)) or (isinstance(e.comparators[0], ast.Name) and env.get(e.comparators[0].id, NONE).ty == "tuple")):
            a = self.expr(e.left, env, binds)
            if a.ty == "Z":
                parts = []
                elts = e.comparators[0].elts if not isinstance(e.comparators[0], ast.Name) else None
                vals = [self.expr(x, env, binds) for x in elts] if elts is not None else env[e.comparators[0].id].const
                for b in vals:
                    if b.ty != "Z":
                        bad(e, "membership among non-integers")
                    parts.append("(%s =? %s)" % (a.text, b.text))
                t = "(" + " || ".join(parts) + ")" if parts else "false"
                return V(t if isinstance(e.ops[0], ast.In) else "(negb %s)" % t, "bool")
        if isinstance(e, ast.List) and not e.elts:
            return V("[]", "bytes")
        if isinstance(e, ast.List) and e.elts:
            # a non-empty list literal is only ever used as an immutable collection of constants here (membership tests)
            return self.expr(ast.copy_location(ast.Tuple(elts=e.elts, ctx=ast.Load()), e), env, binds)
        if isinstance(e, ast.Compare) and len(e.ops) == 1 and isinstance(e.ops[0], (ast.Eq, ast.NotEq)):
            a = self.expr(e.left, env, binds)
            if a.ty == "astate":
                b = self.expr(e.comparators[0], env, binds)
                if b.ty != "astate":
                    bad(e, "automaton state compared with %s" % b.ty)
                if a.has_const and b.has_const:
                    r = (a.const == b.const) == isinstance(e.ops[0], ast.Eq)
                    return TRUE if r else FALSE
                t = "(astate_eqb %s %s)" % (a.text, b.text)
                return V(t if isinstance(e.ops[0], ast.Eq) else "(negb %s)" % t, "bool")
        if isinstance(e, ast.Compare) and len(e.ops) == 1 and isinstance(e.ops[0], (ast.In, ast.NotIn)) and isinstance(e.comparators[0], (ast.Tuple, ast.List)):
            a = self.expr(e.left, env, binds)
            if a.ty == "astate":
                parts = []
                for x in e.comparators[0].elts:
                    b = self.expr(x, env, binds)
                    if b.ty != "astate":
                        bad(e, "automaton state compared with %s" % b.ty)
                    parts.append("(astate_eqb %s %s)" % (a.text, b.text))
                t = "(" + " || ".join(parts) + ")" if parts else "false"
                return V(t if isinstance(e.ops[0], ast.In) else "(negb %s)" % t, "bool")
        if isinstance(e, ast.Call) and isinstance(e.func, ast.Attribute) and isinstance(e.func.value, ast.Name) and e.func.value.id == "self" \
                and e.func.attr in self.valid_attrs:
            if len(e.args) != 1 or not isinstance(e.args[0], ast.Name) or env.get(e.args[0].id, NONE).ty != "elem":
                bad(e, "the validator must be applied to the frame")
            self.valid_calls += 1
            return V("v", "bool")
        return super().expr(e, env, binds)

    def class_name(self, x):
        """inside the class body a constant is named bare (NORMAL); elsewhere as StreamTokenizer.NORMAL"""
        if isinstance(x, ast.Name) and (x.id in self.int_consts or x.id in ASTATES):
            return ast.copy_location(ast.Attribute(value=ast.Name(id="StreamTokenizer", ctx=ast.Load()), attr=x.id, ctx=ast.Load()), x)
        if isinstance(x, ast.BinOp):
            return ast.copy_location(ast.BinOp(left=self.class_name(x.left), op=x.op, right=self.class_name(x.right)), x)
        return x

    IGNORED_WRITES = ("_deliver", "_tokens")     # written by _reinitialize, never read by the automaton methods

    def block(self, stmts, env, k):
        if stmts and isinstance(stmts[0], ast.Assign) and len(stmts[0].targets) == 1 and isinstance(stmts[0].targets[0], ast.Attribute) \
                and isinstance(stmts[0].targets[0].value, ast.Name) and stmts[0].targets[0].value.id == "self" \
                and stmts[0].targets[0].attr in self.ignored_writes:
            return self.block(stmts[1:], env, k)
        # ---- generator statements of _iter_tokens.  One *turn* = the code run from a read of the source (exclusive) to the next
        # read (exclusive) or to the end of the generator; every read site must be followed by the same code.
        if stmts and isinstance(stmts[0], ast.Assign) and isinstance(stmts[0].value, ast.Call) and isinstance(stmts[0].value.func, ast.Attribute) \
                and stmts[0].value.func.attr == "read" and isinstance(stmts[0].value.func.value, ast.Name) and stmts[0].value.func.value.id in env \
                and env[stmts[0].value.func.value.id].ty == "source":
            if not isinstance(stmts[0].targets[0], ast.Name) or len(stmts[0].targets) != 1:
                bad(stmts[0], "the frame read must be bound to a name")
            tgt = stmts[0].targets[0].id
            if not self.reads:
                self.reads += 1
                self.fresh_at_read = self.fresh
                self.first_read_env = dict(env)
                env = dict(env); env[tgt] = self.case_frame
                try:
                    t = self.block(stmts[1:], env, k)
                    self.first_cont = t
                    return t
                finally:
                    self.reads -= 1
            # a second read: the turn ends here. What follows this read must be what follows the first one (checked by
            # translating it from a fresh state and comparing the text, see emit()).
            if not self.in_alt:
                saved = (self.fresh, dict(self.loop_entries), self.valid_calls)
                self.in_alt = True
                try:
                    self.fresh = self.fresh_at_read
                    self.loop_entries = {}
                    fenv = {kk: vv for kk, vv in env.items() if kk in ("#after_loop", "#loop_again") or (not kk.startswith("#") and getattr(vv, "ty", None) == "source")}
                    # locals of the generator that hold the same known constant at this read as at the first one (loop flags)
                    for kk, vv in env.items():
                        if not kk.startswith(("#", "self.")) and getattr(vv, "has_const", False) and kk in self.first_read_env \
                                and getattr(self.first_read_env[kk], "has_const", False) and self.first_read_env[kk].const == vv.const \
                                and self.first_read_env[kk].text == vv.text:
                            fenv[kk] = vv
                    fenv["#emitted"] = []
                    for attr, getter, ty in STATE:
                        fenv["self." + attr] = V(getter, ty)
                    fenv[tgt] = self.case_frame
                    self.alt_conts.append((stmts[0].lineno, self.block(stmts[1:], fenv, k)))
                finally:
                    self.in_alt = False
                    self.fresh, self.loop_entries, self.valid_calls = saved
            return (self.gen_ret or self.spec.ret)(self, V("true", "flag"), env, stmts[0])
        if stmts and isinstance(stmts[0], ast.Expr) and isinstance(stmts[0].value, ast.Yield):
            binds = []
            v = self.expr(stmts[0].value.value, env, binds)
            if binds or v.ty != "tuple" or [x.ty for x in v.const] != ["bytes", "Z", "Z"]:
                bad(stmts[0], "only tokens (data, start, end) can be yielded")
            env = dict(env); env["#emitted"] = env["#emitted"] + ["(%s, %s, %s)" % tuple(x.text for x in v.const)]
            return self.block(stmts[1:], env, k)
        if stmts and isinstance(stmts[0], ast.Break):
            if "#after_loop" not in env:
                bad(stmts[0], "break outside a loop")
            return env["#after_loop"](env)
        if stmts and isinstance(stmts[0], ast.Continue):
            if "#loop_again" not in env:
                bad(stmts[0], "continue outside a loop")
            return env["#loop_again"](env)
        if stmts and isinstance(stmts[0], ast.While) and "#emitted" in env:
            w = stmts[0]
            if w.orelse:
                bad(w, "while ... else")
            self.loop_entries[id(w)] = self.loop_entries.get(id(w), 0) + 1
            if self.loop_entries[id(w)] > 3:
                bad(w, "a turn of the loop that reads no frame")
            rest = stmts[1:]
            outer_after, outer_again = env.get("#after_loop"), env.get("#loop_again")

            def restore(e2):
                e2 = dict(e2)
                for key, val in (("#after_loop", outer_after), ("#loop_again", outer_again)):
                    if val is None:
                        e2.pop(key, None)
                    else:
                        e2[key] = val
                return e2
            k_after = lambda e2: self.block(rest, restore(e2), k)
            k_again = lambda e2: self.block(stmts, restore(e2), k)
            env = dict(env); env["#after_loop"] = k_after; env["#loop_again"] = k_again
            try:
                if isinstance(w.test, ast.Constant) and w.test.value is True:
                    return self.block(list(w.body), env, k_again)
                binds = []
                t = self.truthy(w.test, self.expr(w.test, env, binds))
                if binds:
                    bad(w, "partial conversion in a loop test")
                if t.has_const:
                    return self.block(list(w.body), env, k_again) if t.const else k_after(env)
                return "(if %s then %s else %s)" % (t.text, self.block(list(w.body), env, k_again), k_after(env))
            finally:
                self.loop_entries[id(w)] -= 1
        # self._data.append(frame)
        if stmts and isinstance(stmts[0], ast.Expr) and isinstance(stmts[0].value, ast.Call) and isinstance(stmts[0].value.func, ast.Attribute) \
                and stmts[0].value.func.attr == "append":
            call = stmts[0].value
            tgt = call.func.value
            if not (isinstance(tgt, ast.Attribute) and isinstance(tgt.value, ast.Name) and tgt.value.id == "self" and tgt.attr == "_data") \
                    or len(call.args) != 1 or not isinstance(call.args[0], ast.Name) or env.get(call.args[0].id, NONE).ty != "elem":
                bad(stmts[0], "only self._data.append(frame) is supported")
            env = dict(env)
            nm = self.new("data")
            cur = env["self._data"]
            env["self._data"] = V(nm, "bytes")
            return "(let %s := (%s ++ [%s]) in %s)" % (nm, cur.text, env[call.args[0].id].text, self.block(stmts[1:], env, k))
        return super().block(stmts, env, k)


def delivery_modes(tokenize, gen_name):
    """tokenize(data_source, callback=None, generator=False) evaluated in its three modes (callback true / callback false and
    generator true / both false): what is done with the generator self.<gen_name>(data_source)"""
    params = [a.arg for a in tokenize.args.args]
    if params != ["self", "data_source", "callback", "generator"]:
        raise TranslationError("tokenize signature changed: %r" % params)
    GEN = ("gen",)

    def ev(e, env):
        if isinstance(e, ast.Name):
            if e.id in env:
                return env[e.id]
            bad(e, "unknown name %s" % e.id)
        if isinstance(e, ast.Constant):
            return ("const", e.value)
        if isinstance(e, ast.Call) and ast.unparse(e.func) == "self." + gen_name and [ast.unparse(a) for a in e.args] == ["data_source"] and not e.keywords:
            if env.get("#made"):
                bad(e, "the generator is created twice")
            env["#made"] = True
            return GEN
        if isinstance(e, ast.Call) and isinstance(e.func, ast.Name) and e.func.id == "list" and len(e.args) == 1 and ev(e.args[0], env) == GEN:
            return ("list",)
        if isinstance(e, ast.UnaryOp) and isinstance(e.op, ast.Not):
            v = ev(e.operand, env)
            if v[0] == "truth":
                return ("truth", not v[1])
        bad(e, "expression %s in tokenize()" % ast.unparse(e))

    def run(stmts, env):
        for st in stmts:
            if isinstance(st, ast.Expr) and isinstance(st.value, ast.Constant):
                continue
            if isinstance(st, ast.Assign) and len(st.targets) == 1 and isinstance(st.targets[0], ast.Name):
                env[st.targets[0].id] = ev(st.value, env)
                continue
            if isinstance(st, ast.If):
                v = ev(st.test, env)
                if v[0] != "truth":
                    bad(st, "test on something else than the truth of callback / generator")
                out = run(st.body if v[1] else st.orelse, env)
                if out is not None:
                    return out
                continue
            if isinstance(st, ast.For) and not st.orelse and ev(st.iter, env) == GEN and isinstance(st.target, ast.Name):
                body = [x for x in st.body]
                if len(body) == 1 and isinstance(body[0], ast.Expr) and ast.unparse(body[0].value) == "callback(*%s)" % st.target.id:
                    env["#each"] = True
                    continue
                bad(st, "loop over the generator that does not just call callback(*token)")
            if isinstance(st, ast.Return):
                v = ("const", None) if st.value is None else ev(st.value, env)
                return v
            bad(st, "statement %s in tokenize()" % type(st).__name__)
        return None
    out = []
    for name, cb, gn in (("callback", True, False), ("callback and generator", True, True), ("generator", False, True), ("list", False, False)):
        env = {"callback": ("truth", cb), "generator": ("truth", gn)}
        r = run(Pure.body_of(tokenize), env) or ("const", None)
        if not env.get("#made"):
            bad(tokenize, "mode %s does not create the generator" % name)
        if env.get("#each"):
            what = "each token is passed to callback(*token) as the generator produces it; returns %s" % ("None" if r == ("const", None) else r[0])
        elif r == GEN:
            what = "returns the generator"
        elif r == ("list",):
            what = "returns list(generator)"
        else:
            bad(tokenize, "mode %s returns %r without consuming the generator" % (name, r))
        out.append("%s: %s" % (name, what))
    return out


def emit(core_py):
    src = open(core_py).read()
    tree = ast.parse(src)
    cls = [n for n in tree.body if isinstance(n, ast.ClassDef) and n.name == "StreamTokenizer"]
    if len(cls) != 1:
        raise TranslationError("class StreamTokenizer not found exactly once")
    cls = cls[0]
    consts = {}
    for n in cls.body:
        if isinstance(n, ast.Assign) and len(n.targets) == 1 and isinstance(n.targets[0], ast.Name) and isinstance(n.value, ast.Constant):
            consts[n.targets[0].id] = n.value.value
    vals = [consts.get(a) for a in ASTATES]
    if None in vals or len(set(vals)) != 4:
        raise TranslationError("automaton state constants missing or not distinct: %r" % vals)
    # ---- private attributes under other names: which one plays which part of the model's state is found by running the class
    used = {n.attr for n in ast.walk(cls) if isinstance(n, ast.Attribute) and isinstance(n.value, ast.Name) and n.value.id == "self"}
    canonical = [a for a, _, _ in STATE] + ["_strict_min_length", "_drop_trailing_silence"]
    renamed = {}
    if any(a not in used for a in canonical):
        import json
        import os
        from . import tokroles
        try:
            traces = json.load(open(os.path.join(os.path.dirname(os.path.abspath(__file__)), "tok_roles.json")))
            renamed = tokroles.infer(os.path.dirname(os.path.dirname(os.path.abspath(core_py))), traces)
        except Exception as e:
            raise TranslationError("private attributes renamed and their roles could not be inferred: %s: %s" % (type(e).__name__, e))

        class Ren(ast.NodeTransformer):
            def visit_Attribute(self, n):
                self.generic_visit(n)
                if isinstance(n.value, ast.Name) and n.value.id == "self" and n.attr in renamed:
                    n.attr = renamed[n.attr]
                return n
        Ren().visit(cls)
    meths = {n.name: n for n in cls.body if isinstance(n, ast.FunctionDef)}
    # ---- the generator behind tokenize() and the method that resets the automaton, whatever they are called
    tokenize = meths.get("tokenize")
    if tokenize is None:
        raise TranslationError("method tokenize not found")
    gens = [m for m in meths.values() if any(isinstance(x, (ast.Yield, ast.YieldFrom)) for x in ast.walk(m))
            and any(isinstance(c, ast.Call) and ast.unparse(c.func) == "self." + m.name for c in ast.walk(tokenize))]
    if len(gens) != 1:
        raise TranslationError("tokenize() does not call exactly one generator method of the class (%r)" % [g.name for g in gens])
    meths["_iter_tokens"] = gens[0]
    gb = Pure.body_of(gens[0])
    if gb and isinstance(gb[0], ast.Expr) and isinstance(gb[0].value, ast.Call) and isinstance(gb[0].value.func, ast.Attribute) \
            and isinstance(gb[0].value.func.value, ast.Name) and gb[0].value.func.value.id == "self" and not gb[0].value.args and not gb[0].value.keywords \
            and gb[0].value.func.attr in meths:
        reinit_name = gb[0].value.func.attr
        meths["_reinitialize"] = meths[reinit_name]
    else:
        raise TranslationError("the generator behind tokenize() must start by resetting the automaton (self.<method>())")
    out = ["(* generated from auditok/core.py (StreamTokenizer automaton methods, generic engine) - do not edit *)",
           "(* private attributes read under other names: %s *)" % (", ".join("%s as %s" % kv for kv in sorted(renamed.items())) or "none"),
           "From Coq Require Import ZArith List Bool.", "From AV Require Import Base.PyList Tok.Model.", "Import ListNotations.", "Open Scope Z_scope.", "",
           "Definition nonempty {T} (l : list T) : bool := match l with [] => false | _ => true end.", "",
           "Section Gen.", "Context {B : Type}.", ""]

    def spec(name, params, ret, extra):
        sp = Spec(name, params, ret, self_attrs=dict(CONFIG), state=STATE)
        sp.extra_params = extra
        return sp
    aux_missing = []
    aux_out = []
    for py, coq, params, ret, extra, rt in (
            ("_reinitialize", "reinit2", [], ret_state, ["(s : st B)"], "st B"),
            ("_process_end_of_detection", "eod2", [("truncated", "bool")], ret_tok, ["(c : config)", "(s : st B)"], "st B * option (token B)"),
            ("_process", "process2", [("frame", "elem")], ret_tok, ["(c : config)", "(s : st B)"], "st B * option (token B)"),
            ("_post_process", "post_process2", [], ret_tok, ["(c : config)", "(s : st B)"], "st B * option (token B)")):
        if py not in meths:
            if py == "_reinitialize":
                raise TranslationError("method %s not found" % py)
            aux_missing.append(py)
            continue
        sp = spec(coq, params, ret, extra)
        sp.ret_type = rt
        tr = TokPure(meths[py], sp, tree, cls)
        try:
            (out if py == "_reinitialize" else aux_out).append(_translate(tr, py))
        except TranslationError:
            if py == "_reinitialize":
                raise
            aux_missing.append(py)       # the intermediate methods are optional: what counts is one turn of the generator
            continue
        if py == "_process" and tr.valid_calls != 1:
            raise TranslationError("_process calls the validator %d times (exactly once per frame expected)" % tr.valid_calls)
    # ---- one turn of the loop of _iter_tokens, for a frame and for end of stream (helper methods inlined)
    it = meths.get("_iter_tokens")
    if it is None:
        raise TranslationError("method _iter_tokens not found")
    body = Pure.body_of(it)
    if not (body and isinstance(body[0], ast.Expr) and isinstance(body[0].value, ast.Call) and ast.unparse(body[0].value) == "self.%s()" % reinit_name):
        raise TranslationError("_iter_tokens must start with self._reinitialize()")
    src_name = [a.arg for a in it.args.args if a.arg != "self"]
    if len(src_name) != 1:
        raise TranslationError("_iter_tokens signature")

    def ret_iter(tr, v, env, node):
        if v.ty == "none" and isinstance(node, ast.Return) and node.value is None:
            # a bare `return` ends the generator: nothing after the loop runs, no further frame is read
            return "(%s, [%s], false)" % (st_text(env), "; ".join(env["#emitted"]))
        if v.ty != "flag":
            bad(node, "return of a value inside the generator loop")
        return "(%s, [%s], %s)" % (st_text(env), "; ".join(env["#emitted"]), v.text)
    cases = []
    for frame_v in (NONE, V("f", "elem")):
        sp = spec("iter_step2", [], ret_iter, [])
        tr = TokPure(it, sp, tree, cls)
        tr.case_frame = frame_v
        tr.gen_ret = ret_iter
        env = {src_name[0]: V("", "source"), "#emitted": []}
        for attr, getter, ty in STATE:
            env["self." + attr] = V(getter, ty)
        cases.append(tr.block(body[1:], env, lambda e2: sp.ret(tr, V("false", "flag"), e2, it)))
        if tr.first_cont is None:
            raise TranslationError("_iter_tokens never reads its source")
        import re as _re
        whole = cases[-1]
        idx = whole.find(tr.first_cont)
        pre, post = (whole[:idx], whole[idx + len(tr.first_cont):]) if idx >= 0 else ("x", "x")
        lets = _re.findall(r"\(let [A-Za-z_0-9]+ := (?:true|false|[0-9]+|\(-[0-9]+\)) in ", pre)
        if "".join(lets) != pre or post != ")" * len(lets):
            raise TranslationError("_iter_tokens does something else than binding constants between _reinitialize() and the first read of the source")
        for lineno, alt in tr.alt_conts:
            if alt != tr.first_cont:
                import os as _os
                if _os.environ.get("TOK2_DEBUG"):
                    open("/tmp/t2/first.txt", "w").write(tr.first_cont); open("/tmp/t2/alt.txt", "w").write(alt)
                raise TranslationError("the code that follows the read of the source at line %d differs from the code that follows the first read" % lineno)
        if frame_v.ty == "elem" and tr.valid_calls != 1:
            raise TranslationError("one turn of _iter_tokens calls the validator %d times (exactly once per frame expected)" % tr.valid_calls)
    out.append("Definition iter_step2 (c : config) (s : st B) (fr : option (B * bool)) : st B * list (token B) * bool :=\n"
               "  match fr with\n  | None => %s\n  | Some (f, v) => %s\n  end.\n" % (cases[0], cases[1]))
    if not aux_missing:
        out.append("(* AUX: the intermediate methods, translated one by one *)")
        out.extend(aux_out)
    else:
        out.append("(* intermediate methods not translated separately: %s *)" % ", ".join(aux_missing))
    out.append("End Gen.\n")
    # ---- the constructor's validation chain and _set_mode
    init = meths.get("__init__")
    if init is None:
        raise TranslationError("__init__ not found")
    CFG_STATE = [("min_length", "0", "Z"), ("max_length", "0", "Z"), ("max_continuous_silence", "0", "Z"), ("init_min", "0", "Z"),
                 ("init_max_silent", "0", "Z"), ("_strict_min_length", "false", "bool"), ("_drop_trailing_silence", "false", "bool")]

    def ret_cfg(tr, v, env, node):
        if v.ty == "error":
            return v.text
        if v.ty != "none":
            bad(node, "__init__ returns a value")
        return "Ok (mkConfig %s)" % " ".join(env["self." + a].text for a, _, _ in CFG_STATE)
    sp = Spec("validate2", [], ret_cfg, self_attrs={}, state=CFG_STATE)
    tr = TokPure(init, sp, tree, cls)
    tr.ignored_writes = set(TokPure.IGNORED_WRITES) | tr.ignored_writes | tr.valid_attrs | {"_is_valid", "validator", "_mode", "_state", "_data", "_contiguous_token", "_init_count",
                                                        "_silence_length", "_start_frame", "_current_frame"}
    params = [a.arg for a in init.args.args if a.arg != "self"]
    if params != ["validator", "min_length", "max_length", "max_continuous_silence", "init_min", "init_max_silence", "mode"]:
        raise TranslationError("constructor signature changed: %r" % params)
    env = {"validator": V('""', "str")}
    for p_ in params[1:]:
        env[p_] = V(p_, "Z")
    for attr, getter, ty in CFG_STATE:
        env["self." + attr] = V(getter, ty)
    body = tr.block(Pure.body_of(init), env, lambda e2: ret_cfg(tr, NONE, e2, init))
    out.append("Definition validate2 (min_length max_length max_continuous_silence init_min init_max_silence mode : Z) : result config :=\n  %s.\n" % body)
    modes = delivery_modes(tokenize, gens[0].name)
    out.append("From Coq Require Import String.\nOpen Scope string_scope.")
    out.append("Definition delivery_modes2 : list String.string := [%s]." % "; ".join('"%s"' % m for m in modes))
    return "\n".join(out) + "\n"


def _translate(tr, py):
    """Pure.translate with the two parameter kinds this class adds: the frame (an element) and the verdict"""
    sp = tr.spec
    fn = tr.fn
    pynames = [a.arg for a in fn.args.args if a.arg != "self"]
    declared = [p for p, _ in sp.params]
    if pynames != declared:
        raise TranslationError("%s: parameters %r differ from the declared %r" % (fn.name, pynames, declared))
    env = {}
    coq_params = list(sp.extra_params)
    for p, ty in sp.params:
        if ty == "elem":
            coq_params.append("(%s : B) (v : bool)" % p)
            env[p] = V(p, "elem")
        elif ty == "bool":
            coq_params.append("(%s : bool)" % p)
            env[p] = V(p, "bool")
    for attr, getter, ty in sp.state:
        env["self." + attr] = V(getter, ty)
    body = tr.block(tr.body_of(fn), env, lambda e2: sp.ret(tr, NONE, e2, fn))
    return "Definition %s %s : %s :=\n  %s.\n" % (sp.coq_name, " ".join(coq_params), sp.ret_type, body)


if __name__ == "__main__":
    import sys
    print(emit(sys.argv[1] if len(sys.argv) > 1 else "/repo/auditok/core.py"))
